(* The matrix and series views of a chunk: bson_matrix.go (rehydrateMatrix),
   iterator_matrix.go (exportMatrix / getSeries), and the specification table
   all views are projections of. *)
From Coq Require Import ZArith NArith List Bool.
From FV.Model Require Import Bytes Bson Metrics Codec.
Import ListNotations.
Open Scope Z_scope.

(* ReadMatrix: one array per metric; the two metrics of a timestamp leaf collapse
   into one array of timestamps.  None = index out of range / invalid type. *)
Fixpoint zip_ts (ts is : list Z) : list value :=
  match ts with
  | [] => []
  | t :: r => VTimestamp (t mod 2 ^ 32) (hd 0 is mod 2 ^ 32) :: zip_ts r (tl is)
  end.

Fixpoint matrix_elems (fuel : nat) (ms : list (metric * list Z)) : option doc :=
  match fuel with
  | O => Some []
  | S f =>
      match ms with
      | [] => Some []
      | (m, vs) :: r =>
          let key := metric_key m in
          match m_type m with
          | MTs =>
              match r with
              | (_, is) :: r' =>
                  match matrix_elems f r' with
                  | Some es => Some ((key, VArr (zip_ts vs is)) :: es)
                  | None => None
                  end
              | [] => None
              end
          | t =>
              match matrix_elems f r with
              | Some es => Some ((key, VArr (map (restore_flat t) vs)) :: es)
              | None => None
              end
          end
      end
  end.

Definition matrix_doc (c : chunk) : option doc := matrix_elems (S (length (ck_metrics c))) (ck_metrics c).

(* ReadSeries: one array per metric in metric order (timestamp halves stay two
   int64 series) *)
Definition series_value (t : mtype) (x : Z) : value :=
  match t with
  | MInt64 | MTs => VInt64 x
  | MInt32 => VInt32 (wrap32 x)
  | MBool => VBool (bool_of_metric x)
  | MDouble => VDouble x
  | MDate => VDateTime x
  end.

Definition series_doc (c : chunk) : doc :=
  map (fun mv => (metric_key (fst mv), VArr (map (series_value (m_type (fst mv))) (snd mv)))) (ck_metrics c).

(* ---- the specification: one row per metric leaf (key, type, column) ---- *)
Record trow := mkRow { r_key : bytes; r_type : mtype; r_col : list Z }.

Definition chunk_table (c : chunk) : list trow :=
  map (fun mv => mkRow (metric_key (fst mv)) (m_type (fst mv)) (snd mv)) (ck_metrics c).

(* the table of a sequence of same-schema documents, written without the codec:
   keys from the first document's leaf paths, column i = i-th flattened value of
   every document *)
Definition doc_table (d0 : doc) (docs : list doc) : list trow :=
  let ms := metrics_of_doc [] d0 in
  map (fun im => mkRow (metric_key (snd im)) (m_type (snd im))
                       (map (fun d => nth (fst im) (map snd (flatten_doc d)) 0) docs))
      (combine (seq 0 (length ms)) ms).
