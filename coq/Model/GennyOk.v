(* Executable statement of C20 over observations made through the public API
   (TranslateGenny's output decoded with ReadStructuredMetrics / ReadChunks,
   GetGennyTime's result), and the model's predictions for a case.

   The oracle does not use the model's cursor or its gate: it re-states the
   property on the flattened input stream of each actor. *)
From Coq Require Import ZArith List Bool.
From FV.Model Require Import Genny.
Import ListNotations.
Open Scope Z_scope.

Fixpoint list_eqb {A : Type} (eqb : A -> A -> bool) (a b : list A) : bool :=
  match a, b with
  | [], [] => true
  | x :: r, y :: s => eqb x y && list_eqb eqb r s
  | _, _ => false
  end.

Definition kv_eqb (a b : Z * Z) : bool := (fst a =? fst b) && (snd a =? snd b).
Definition vals_eqb : vals -> vals -> bool := list_eqb kv_eqb.

(* all samples of the actor in stream order *)
Definition flat (a : actor) : list sample := concat (a_chunks a).

(* ---- own data / selection rule for one actor.
   The actor's sub-documents v_0, v_1, ... (one per second) are acceptable iff
   there is a way to read them as: start with the all-zero sample and
   "previously selected second" 0 (the translation's prevSecond starts at 0);
   each v_t is either the previous sub-document again, or the values of the
   FIRST sample at or after the last selected position whose ceiling second
   differs from the last selected second - then that sample becomes the
   selected one.  Positions therefore never move backwards.  Equal values can
   make a reading ambiguous, so all readings are followed (at most one state
   per position). *)
Definition ostate := (nat * Z * vals)%type.   (* position, selected second, last sub-document *)

Definition ostep (fl : list sample) (v : vals) (st : ostate) : list ostate :=
  let '(from, psec, pv) := st in
  (if vals_eqb v pv then [st] else []) ++
  match find_from psec (skipn from fl) from with
  | Some (q, s) => if vals_eqb v (select s) then [(q, ceil_sec (fst s), v)] else []
  | None => []
  end.

Definition same_state (a b : ostate) : bool :=
  let '(p1, s1, _) := a in let '(p2, s2, _) := b in Nat.eqb p1 p2 && (s1 =? s2).

Definition add_state (st : ostate) (l : list ostate) : list ostate :=
  if existsb (same_state st) l then l else st :: l.

Definition ostep_all (fl : list sample) (v : vals) (sts : list ostate) : list ostate :=
  fold_right (fun st acc => fold_right add_state acc (ostep fl v st)) [] sts.

Definition own_ok (a : actor) (vs : list vals) : bool :=
  let fl := flat a in
  match fold_left (fun sts v => ostep_all fl v sts) vs [(O, 0, zeroed)] with
  | [] => false
  | _ :: _ => true
  end.

Definition zrange_nat (start : Z) (n : nat) : list Z := map (fun i => start + Z.of_nat i) (seq 0 n).

(* j-th sub-document of an output sample *)
Definition sub_vals (j : nat) (o : out_sample) : vals := snd (nth j (snd o) (0, [])).

Fixpoint own_all (actors : list actor) (j : nat) (out : list out_sample) : bool :=
  match actors with
  | [] => true
  | a :: r => own_ok a (map (sub_vals j) out) && own_all r (S j) out
  end.

(* exactly one sample per second of [start, end), stamps 1000 apart *)
Definition c20_ok_count (actors : list actor) (start end_ : Z) (out : list out_sample) : bool :=
  match actors with
  | [] => match out with [] => true | _ => false end
  | _ :: _ => list_eqb Z.eqb (map fst out)
                (map (fun t => 1000 * t) (zrange_nat start (Z.to_nat (end_ - start))))
  end.

(* one sub-document per actor, in input order, names preserved *)
Definition c20_ok_shape (actors : list actor) (out : list out_sample) : bool :=
  forallb (fun o => list_eqb Z.eqb (map fst (snd o)) (map a_name actors)) out.

Definition c20_ok_own (actors : list actor) (out : list out_sample) : bool := own_all actors O out.

Definition c20_ok_out (actors : list actor) (out : list out_sample) : bool :=
  c20_ok_count actors (workload_start actors) (workload_end actors) out
  && c20_ok_shape actors out && c20_ok_own actors out.

(* chunk sizes of the output stream for n samples: each 1..300, all but the
   last exactly 300, together n *)
Fixpoint all_but_last_full (l : list Z) : bool :=
  match l with
  | [] => true
  | [_] => true
  | x :: r => (x =? 300) && all_but_last_full r
  end.

Definition c20_ok_chunks (sizes : list Z) (n : Z) : bool :=
  (fold_right Z.add 0 sizes =? n) && forallb (fun s => (1 <=? s) && (s <=? 300)) sizes
  && all_but_last_full sizes.

(* GetGennyTime (called with StartTime = 0) = ceiling seconds of the first and
   of the last timestamp.  Domain: wall-clock streams - timestamps after the
   epoch and in non-decreasing order; outside it nothing is demanded here (the
   correspondence check still compares the code with the model). *)
Fixpoint nondecreasing (l : list Z) : bool :=
  match l with
  | [] => true
  | x :: r => match r with [] => true | y :: _ => (x <=? y) && nondecreasing r end
  end.

Definition time_domain (a : actor) : bool :=
  let ts := map fst (flat a) in
  match ts with
  | [] => false
  | t0 :: _ => (0 <? t0) && nondecreasing ts && forallb (fun ch => match ch with [] => false | _ => true end) (a_chunks a)
  end.

Definition c20_ok_time (a : actor) (st en : Z) : bool :=
  if time_domain a then
    let ts := map fst (flat a) in
    (st =? ceil_sec (hd 0 ts)) && (en =? ceil_sec (last ts 0))
  else true.

(* ---- what the model predicts ---- *)
Definition model_out (actors : list actor) : option (list out_sample) := translate actors.
Definition model_chunk_sizes (out : list out_sample) : list Z :=
  map (fun c => Z.of_nat (length c)) (output_chunks out).
Definition model_time (a : actor) : option (Z * Z) :=
  get_genny_time (mkActor (a_name a) 0 0 (a_chunks a)).
