(* Executable statement of C14 over observations made through the public API:
   what the running totals of a list of events ARE (sums, last timestamp and
   gauges, the id rule), which of them each collector kind has to write, and
   what a marshal/unmarshal round trip has to return.  The oracles take the
   events as the values they had when they were added (observed by copying the
   struct right before AddEvent) and the samples decoded from the bytes the
   wrapped ftdc collector produced.  Nothing here refers to the store model. *)
From Coq Require Import ZArith NArith List Bool.
From FV.Model Require Import Bytes Bson Events.
Import ListNotations.
Open Scope Z_scope.

(* ---- the specification of "running totals" ---- *)

(* id of the totals after one more event: the event's id, or the previous id
   plus one (int64) when the event's id is zero *)
Definition next_id (prev : Z) (e : perf) : Z :=
  if p_id e =? 0 then wrap64 (prev + 1) else p_id e.

(* id_1 = ev_1.id;  id_k = next_id id_{k-1} ev_k *)
Definition id_after (evs : list perf) : Z :=
  match evs with
  | [] => 0
  | e :: r => fold_left next_id r (p_id e)
  end.

(* exact (unbounded) sum of one field *)
Definition sumf (f : perf -> Z) (l : list perf) : Z := fold_right (fun e a => f e + a) 0 l.

(* the sample that stands for the events evs = ev_1 .. ev_k (k >= 1) *)
Definition totals (evs : list perf) : perf :=
  let e := last evs zero_perf in
  mkPerf (p_ts e) (id_after evs)
         (wrap64 (sumf p_n evs)) (wrap64 (sumf p_ops evs)) (wrap64 (sumf p_size evs)) (wrap64 (sumf p_errors evs))
         (wrap64 (sumf p_dur evs)) (wrap64 (sumf p_total evs))
         (p_state e) (p_workers e) (p_failed e).

(* one more event folded into existing totals (the incremental reading) *)
Definition accumulate (a v : perf) : perf :=
  mkPerf (p_ts v) (next_id (p_id a) v)
         (wrap64 (p_n a + p_n v)) (wrap64 (p_ops a + p_ops v)) (wrap64 (p_size a + p_size v))
         (wrap64 (p_errors a + p_errors v)) (wrap64 (p_dur a + p_dur v)) (wrap64 (p_total a + p_total v))
         (p_state v) (p_workers v) (p_failed v).

(* cumulative collector: the k-th written sample is the totals of events 1..k *)
Definition expected_cumulative (evs : list perf) : list perf :=
  map (fun k => totals (firstn (S k) evs)) (seq 0 (length evs)).

(* sampling collector: outcome of the k-th (0-based) added event *)
Definition expected_sampling_results (n : Z) (evs : list perf) : list res :=
  map (fun k => if Z.of_nat k mod n =? 0 then RWritten (totals (firstn (S k) evs)) else RSkipped)
      (seq 0 (length evs)).

Definition expected_sampling (n : Z) (evs : list perf) : list perf :=
  map (fun k => totals (firstn (S k) evs))
      (filter (fun k => Z.of_nat k mod n =? 0) (seq 0 (length evs))).

(* every field an int64 *)
Definition perf_wf (p : perf) : bool :=
  in_i64 (p_ts p) && in_i64 (p_id p) && in_i64 (p_n p) && in_i64 (p_ops p) && in_i64 (p_size p)
  && in_i64 (p_errors p) && in_i64 (p_dur p) && in_i64 (p_total p) && in_i64 (p_state p) && in_i64 (p_workers p).

(* ---- decidable equality ---- *)
Definition perf_eqb (a b : perf) : bool :=
  (p_ts a =? p_ts b) && (p_id a =? p_id b) && (p_n a =? p_n b) && (p_ops a =? p_ops b)
  && (p_size a =? p_size b) && (p_errors a =? p_errors b) && (p_dur a =? p_dur b) && (p_total a =? p_total b)
  && (p_state a =? p_state b) && (p_workers a =? p_workers b) && Bool.eqb (p_failed a) (p_failed b).

Fixpoint perfs_eqb (a b : list perf) : bool :=
  match a, b with
  | [], [] => true
  | x :: r, y :: s => perf_eqb x y && perfs_eqb r s
  | _, _ => false
  end.

(* ---- the oracles ---- *)

(* events: values of the added (non-nil) events at the time each was added;
   written: the samples decoded from what the wrapped collector produced *)
Definition c14_ok_cumulative (events written : list perf) : bool :=
  perfs_eqb written (expected_cumulative events).

Definition c14_ok_sampling (n : Z) (events written : list perf) : bool :=
  perfs_eqb written (expected_sampling n events)
  && (Z.of_nat (length written) =? (Z.of_nat (length events) + n - 1) / n).

Definition c14_ok_passthrough (events written : list perf) : bool :=
  perfs_eqb written events.

(* nil events, and only those, are refused: is_nil.(i) says whether the i-th
   AddEvent got nil, err.(i) whether it returned an error *)
Fixpoint c14_ok_errors (is_nil err : list bool) : bool :=
  match is_nil, err with
  | [], [] => true
  | a :: r, b :: s => Bool.eqb a b && c14_ok_errors r s
  | _, _ => false
  end.

(* marshal/unmarshal round trip of an event whose Timestamp is (sec, nsec) and whose
   other fields are those of p, giving Timestamp (sec', nsec') and the fields of q:
   everything unchanged, the time cut to the millisecond *)
Definition c14_ok_roundtrip (sec nsec : Z) (p : perf) (sec' nsec' : Z) (q : perf) : bool :=
  perf_eqb (set_ts p 0) (set_ts q 0)
  && (sec' =? sec) && (nsec' =? nsec - nsec mod 1000000).

(* ---- what the model predicts ---- *)
Definition model_obs_run (k : kind) (ops : list op) : state * list obs := run k init ops.

(* q0 = the struct unmarshalled into; result: None = panic *)
Definition model_obs_roundtrip (sec nsec : Z) (p q0 : perf) : option (Z * Z * perf) :=
  let ms := time_to_ms sec nsec in
  match unmarshal q0 (marshal (set_ts p ms)) with
  | Some q => let '(s', n') := ms_to_time (p_ts q) in Some (s', n', q)
  | None => None
  end.

(* keys of the flattened document a written sample decodes to *)
Definition model_flat_keys : list bytes := flat_keys [] (marshal zero_perf).
