(* Model of the two remaining collectors of events/collector.go:
   intervalSamplingCollector (NewIntervalCollector) and randSamplingCollector
   (NewRandomSamplingCollector).  Definitions only; proofs live in
   Proofs/EventsMoreProofs.v, theorems in Props/C14.v (section 11).

   Both collectors fold every event into the running total exactly as the
   cumulative and the sampling collector do (Events.fold_current: c.current = in
   for the first event, c.current.Add(in) afterwards) and then DECIDE whether the
   running total is handed to the wrapped ftdc collector.  The decision depends
   on something that is not a function of the history: the wall clock
   (time.Now / time.Since) resp. the global math/rand source (rand.Intn(101)).
   Those are explicit inputs here: a list of clock readings resp. a list of coin
   values, consumed in the order in which the Go code obtains them.

   Like Events.step, an operation is EvNew p (a fresh object), EvAgain i (the
   i-th allocated object once more) or EvNil (refused, changes nothing).  The
   store / current / count part of the state is Events.state, so that the states
   of all collectors can be compared with [=]. *)
From Coq Require Import ZArith List Bool.
From FV.Model Require Import Bytes Events.
Import ListNotations.
Open Scope Z_scope.

(* ================================================================== interval collector *)

(* intervalSamplingCollector: Events.state (s_count is not used and stays 0) plus
   lastCollected.  Clock readings are Z (nanoseconds of the monotonic clock);
   the difference of two readings is taken exactly (time.Time.Sub saturates at
   +-2^63 ns = 292 years, outside the model's domain). *)
Record istate := mkIState {
  i_base : state;        (* store, c.current *)
  s_last : Z             (* c.lastCollected *)
}.

Definition iinit : istate := mkIState init 0.

(* AddEvent(in) for a non-nil in = object idx:

     if c.current == nil {
         c.current = in
         c.lastCollected = time.Now()                     -- reading [now]
         return c.Collector.Add(c.current)
     }
     c.current.Add(in)
     if time.Since(c.lastCollected) >= c.dur {            -- reading [now]
         c.lastCollected = time.Now()                     -- reading [now'], taken after [now]
         return c.Collector.Add(c.current)
     }
     return nil

   One call reads the clock once or twice; [now] is the first reading of the call,
   [now'] the second one (looked at only when the interval has elapsed). *)
Definition add_event_interval2 (dur : Z) (now now' : Z) (s : istate) (idx : nat) : istate * res :=
  let s1 := fold_current (i_base s) idx in
  match s_current (i_base s) with
  | None => (mkIState s1 now, RWritten (current_value s1))
  | Some _ =>
      if dur <=? now - s_last s
      then (mkIState s1 now', RWritten (current_value s1))
      else (mkIState s1 (s_last s), RSkipped)
  end.

(* the same with one reading per call: the two readings of a call coincide *)
Definition add_event_interval (dur : Z) (now : Z) (s : istate) (idx : nat) : istate * res :=
  add_event_interval2 dur now now s idx.

(* One operation.  The clock is a list of pairs (now, now'), ONE PAIR PER EVENT THAT
   REACHES THE COLLECTOR'S BODY (non-nil, existing object), in call order: nil events
   return before the clock is read and operations naming a non-existing object are not
   Go calls, so neither consumes a pair.  None = the supply of readings is exhausted. *)
Definition step_interval2 (dur : Z) (clock : list (Z * Z)) (s : istate) (o : op)
  : option (istate * list (Z * Z) * obs) :=
  match o with
  | EvNil => Some (s, clock, mkObs None RRefused)
  | EvNew p =>
      match clock with
      | [] => None
      | (t, t') :: c =>
          let b := i_base s in
          let idx := length (s_store b) in
          let s0 := mkIState (mkState (s_store b ++ [p]) (s_current b) (s_count b)) (s_last s) in
          let '(s1, r) := add_event_interval2 dur t t' s0 idx in
          Some (s1, c, mkObs (Some p) r)
      end
  | EvAgain i =>
      if Nat.ltb i (length (s_store (i_base s)))
      then match clock with
           | [] => None
           | (t, t') :: c =>
               let '(s1, r) := add_event_interval2 dur t t' s i in
               Some (s1, c, mkObs (Some (get (s_store (i_base s)) i)) r)
           end
      else Some (s, clock, mkObs None RNoObject)
  end.

(* a history; when the readings run out the run stops there (state and trace so far);
   the theorems exclude that case by asking for at least as many pairs as operations *)
Fixpoint run_interval2 (dur : Z) (clock : list (Z * Z)) (s : istate) (ops : list op)
  : istate * list obs :=
  match ops with
  | [] => (s, [])
  | o :: r =>
      match step_interval2 dur clock s o with
      | None => (s, [])
      | Some (s1, c1, ob) =>
          let '(s2, obs) := run_interval2 dur c1 s1 r in (s2, ob :: obs)
      end
  end.

(* one reading per event, from a fresh collector *)
Definition dup (t : Z) : Z * Z := (t, t).
Definition run_interval (dur : Z) (clock : list Z) (ops : list op) : istate * list obs :=
  run_interval2 dur (map dup clock) iinit ops.

(* the readings in the order in which they are taken *)
Fixpoint flat_clock (c : list (Z * Z)) : list Z :=
  match c with
  | [] => []
  | (t, t') :: r => t :: t' :: flat_clock r
  end.

(* "the interval never elapses": every first reading of a later call is less than
   dur after the reading of the first event *)
Definition never_elapses2 (dur : Z) (clock : list (Z * Z)) : Prop :=
  match clock with
  | [] => True
  | (t0, _) :: r => Forall (fun ab => fst ab < t0 + dur) r
  end.

Definition never_elapses (dur : Z) (clock : list Z) : Prop :=
  match clock with
  | [] => True
  | t0 :: r => Forall (fun t => t < t0 + dur) r
  end.

(* which events the interval collector writes, as a function of the clock alone:
   one bit per pair; first = "c.current == nil", last = c.lastCollected *)
Fixpoint interval_mask2 (dur : Z) (first : bool) (last : Z) (clock : list (Z * Z)) : list bool :=
  match clock with
  | [] => []
  | (t, t') :: c =>
      if first then true :: interval_mask2 dur false t c
      else if dur <=? t - last then true :: interval_mask2 dur false t' c
      else false :: interval_mask2 dur false last c
  end.

Definition interval_mask (dur : Z) (clock : list Z) : list bool :=
  interval_mask2 dur true 0 (map dup clock).

(* ================================================================== random-sampling collector *)

(* func (c *randSamplingCollector) shouldCollect() bool {
       if c.percent > 100 { return true }
       if c.percent <= 0 { return false }
       return rand.Intn(101) < c.percent }
   coin = the value rand.Intn(101) returned (0..100 in Go; any Z here) *)
Definition should_collect (percent coin : Z) : bool :=
  if percent >? 100 then true
  else if percent <=? 0 then false
  else coin <? percent.

(* does shouldCollect reach rand.Intn? *)
Definition needs_coin (percent : Z) : bool :=
  negb (percent >? 100) && negb (percent <=? 0).

(* AddEvent(in) for a non-nil in = object idx; the state is Events.state (s_count
   is not used and stays 0; the sumAll argument of the constructor is ignored by the
   Go code) *)
Definition add_event_rand (percent coin : Z) (s : state) (idx : nat) : state * res :=
  let s1 := fold_current s idx in
  if should_collect percent coin then (s1, RWritten (current_value s1)) else (s1, RSkipped).

(* coins = the values returned by the calls of rand.Intn(101) THAT ARE MADE, in
   order: a coin is consumed only by an event that reaches the collector's body while
   0 < percent <= 100.  None = a coin is needed and none is left. *)
Definition draw (percent : Z) (coins : list Z) : option (Z * list Z) :=
  if needs_coin percent
  then match coins with [] => None | c :: r => Some (c, r) end
  else Some (0, coins).          (* the value is not looked at *)

Definition step_rand (percent : Z) (coins : list Z) (s : state) (o : op)
  : option (state * list Z * obs) :=
  match o with
  | EvNil => Some (s, coins, mkObs None RRefused)
  | EvNew p =>
      match draw percent coins with
      | None => None
      | Some (coin, cs) =>
          let idx := length (s_store s) in
          let s0 := mkState (s_store s ++ [p]) (s_current s) (s_count s) in
          let '(s1, r) := add_event_rand percent coin s0 idx in
          Some (s1, cs, mkObs (Some p) r)
      end
  | EvAgain i =>
      if Nat.ltb i (length (s_store s))
      then match draw percent coins with
           | None => None
           | Some (coin, cs) =>
               let '(s1, r) := add_event_rand percent coin s i in
               Some (s1, cs, mkObs (Some (get (s_store s) i)) r)
           end
      else Some (s, coins, mkObs None RNoObject)
  end.

Fixpoint run_rand_from (percent : Z) (coins : list Z) (s : state) (ops : list op)
  : state * list obs :=
  match ops with
  | [] => (s, [])
  | o :: r =>
      match step_rand percent coins s o with
      | None => (s, [])
      | Some (s1, c1, ob) =>
          let '(s2, obs) := run_rand_from percent c1 s1 r in (s2, ob :: obs)
      end
  end.

Definition run_rand (percent : Z) (coins : list Z) (ops : list op) : state * list obs :=
  run_rand_from percent coins init ops.

(* which events the random-sampling collector writes; k = number of operations (an
   upper bound of the number of events) *)
Definition rand_mask (percent : Z) (coins : list Z) (k : nat) : list bool :=
  if percent >? 100 then repeat true k
  else if percent <=? 0 then repeat false k
  else map (fun c => c <? percent) coins.

(* ================================================================== thinning a trace *)

(* A trace in which some of the written samples are withheld: the j-th operation with
   outcome RWritten keeps its outcome when the j-th mask bit is true and becomes
   RSkipped when it is false; all other operations are unchanged.  When the mask runs
   out at a written operation the trace ends there (the runs above stop in the same
   way when their supply of readings / coins is exhausted). *)
Fixpoint thin (mask : list bool) (tr : list obs) : list obs :=
  match tr with
  | [] => []
  | o :: r =>
      match o_res o with
      | RWritten _ =>
          match mask with
          | [] => []
          | true :: m => o :: thin m r
          | false :: m => mkObs (o_added o) RSkipped :: thin m r
          end
      | _ => o :: thin mask r
      end
  end.

(* the elements of l at the positions where the mask is true *)
Fixpoint select {A : Type} (mask : list bool) (l : list A) : list A :=
  match mask, l with
  | b :: m, x :: r => if b then x :: select m r else select m r
  | _, _ => []
  end.

(* the decisions of the n-sampling collector for k events, count = c at the first *)
Fixpoint samp_mask (n : Z) (c : Z) (k : nat) : list bool :=
  match k with
  | O => []
  | S k' => (Z.rem c n =? 0) :: samp_mask n (wrap64 (c + 1)) k'
  end.
