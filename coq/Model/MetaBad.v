(* C11: SetMetadata with a value that readDocument cannot read as a document
   (harness: SetMetadata(map[string]string{...})).  betterCollector.SetMetadata,
   batchCollector/dynamicCollector.SetMetadata (delegating), the streaming wrappers
   (embedding) and uncompressedCollector.SetMetadata all call readDocument first
   and return its error before assigning anything.  Collector.v's [op] has no
   operation for it ([OSetMeta m] carries a document that was read); here it is a
   step of its own: the state is returned as it is, and the response is "an error,
   no observation" — [None] in [resp = option obs], so that no constructor is
   added to [obs].  Definitions only; lemmas in Proofs/MetaBadProofs.v. *)
From Coq Require Import ZArith NArith List Bool.
From FV.Model Require Import Bytes Bson Metrics Codec Collector.
Import ListNotations.
Open Scope Z_scope.

(* the response of one call: what the operation showed, or the refusal *)
Definition resp := option obs.

Definition step_setmeta_bad (s : coll * writer) : (coll * writer) * resp := (s, None).

(* histories with refused SetMetadata calls in them: [inl o] an operation of
   Collector.v, [inr tt] the refused SetMetadata *)
Definition bop := (op + unit)%type.

Section Zlib.
Variable deflate : bytes -> bytes.

Definition step_bad (st : coll * writer) (o : bop) : (coll * writer) * resp :=
  match o with
  | inl o' => let '(st', b) := step deflate st o' in (st', Some b)
  | inr _ => step_setmeta_bad st
  end.

Fixpoint run_bad (st : coll * writer) (h : list bop) : (coll * writer) * list resp :=
  match h with
  | [] => (st, [])
  | o :: r => let '(st', b) := step_bad st o in
              let '(st'', bs) := run_bad st' r in (st'', b :: bs)
  end.

End Zlib.

(* the history without its refused calls; the responses without the refusals *)
Definition goods (h : list bop) : list op :=
  flat_map (fun o => match o with inl o' => [o'] | inr _ => [] end) h.
Definition answered (rs : list resp) : list obs :=
  flat_map (fun r => match r with Some b => [b] | None => [] end) rs.
(* where the refusals sit *)
Definition refused_at (h : list bop) : list bool := map (fun o => match o with inl _ => false | inr _ => true end) h.
Definition refusals (rs : list resp) : list bool := map (fun r => match r with Some _ => false | None => true end) rs.
