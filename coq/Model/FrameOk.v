(* Statements and executable oracles of C04 (readers are total on arbitrary
   bytes) and C09 (streamed output is crash-consistent and survives writer
   faults).  Definitions only; the theorems are in Props/C04.v, Props/C09.v,
   their proofs in Proofs/Frame*.v. *)
From Coq Require Import ZArith NArith List Bool.
From FV.Model Require Import Bytes Bson Metrics Codec Collector Wf RoundTrip CollectorOk Validate Frame Views Instance.
Import ListNotations.
Open Scope Z_scope.

(* ------------------------------------------------------------------ documents the reader frames *)

(* binary subtypes the reader's validator accepts (read.go refuses 0x06..0x7f
   because birch panics on them when it walks an embedded document) *)
Definition subtype_ok (st : N) : bool := negb ((5 <? st)%N && (st <? 128)%N).

Fixpoint bin_ok (v : value) : bool :=
  match v with
  | VDoc d => (fix go (l : list (bytes * value)) : bool :=
                 match l with [] => true | (_, x) :: r => bin_ok x && go r end) d
  | VArr a => (fix go (l : list value) : bool :=
                 match l with [] => true | x :: r => bin_ok x && go r end) a
  | VCodeWithScope _ s => (fix go (l : list (bytes * value)) : bool :=
                             match l with [] => true | (_, x) :: r => bin_ok x && go r end) s
  | VBinary st _ => subtype_ok st
  | _ => true
  end.

Fixpoint doc_bin_ok (d : doc) : bool :=
  match d with [] => true | (_, x) :: r => bin_ok x && doc_bin_ok r end.

(* the byte string b is one document as readBufBSON sees it: the validator accepts
   it and the strict decoder reads it as d, leaving nothing *)
Definition framed (b : bytes) (d : doc) : Prop := validate b = true /\ dec_doc b = Some (d, []).

(* a document whose canonical encoding is framed *)
Definition frame_ok (d : doc) : Prop := framed (enc_doc d) d.

(* ------------------------------------------------------------------ prefixes *)

(* number of leading items of the given lengths lying wholly within the first k bytes *)
Fixpoint within (k : nat) (lens : list nat) : nat :=
  match lens with
  | [] => O
  | n :: r => if Nat.leb n k then S (within (k - n) r) else O
  end.

Definition at_boundary (k : nat) (lens : list nat) : bool :=
  Nat.eqb k (list_sum (firstn (within k lens) lens)).

Definition doc_lens (ds : list doc) : list nat := map (fun d => length (enc_doc d)) ds.

(* ------------------------------------------------------------------ chunks on which every view is total *)

(* every metric has exactly nPoints values, one metric per leaf of the reference
   document (so restoreDocument never indexes past a value slice: the Go panic
   site metrics[idx].Values[sample]), at least the reference sample *)
Definition chunk_total (c : chunk) : Prop :=
  map fst (ck_metrics c) = metrics_of_doc [] (ck_ref c) /\
  Forall (fun mv => length (snd mv) = Z.to_nat (ck_npoints c)) (ck_metrics c) /\
  length (ck_metrics c) = length (metrics_of_doc [] (ck_ref c)) /\
  1 <= ck_npoints c.

Definition views_total (c : chunk) : Prop :=
  chunk_total c /\ ~ In None (structured_docs c) /\ matrix_doc c <> None /\
  length (structured_docs c) = Z.to_nat (ck_npoints c) /\ length (flat_docs c) = Z.to_nat (ck_npoints c).

Section Zlib.
Variable inflate : bytes -> option bytes.

(* a complete well-formed FTDC stream: a concatenation of framed documents whose
   chunk documents all decode *)
Definition stream_ok (bs : bytes) : Prop :=
  exists bl ds, bs = concat bl /\ Forall2 framed bl ds /\
                snd (read_chunks_b inflate reader_limit None None ds) = None.

(* the chunk fits the reader's size limit *)
Definition group_fits (g : list doc) : Prop :=
  (N.of_nat (length (flatten_doc (hd [] g))) * N.of_nat (length g - 1) <= reader_limit)%N /\
  (N.of_nat (length g - 1) <= reader_limit)%N.

End Zlib.

(* ------------------------------------------------------------------ C04 oracle *)
(* on the implementation's observation of one stream: [damaged] = the stream is
   not a complete well-formed stream; [errs] = the error flags of the five reader
   entry points after Next returned false; [min_chunks] = number of chunks lying
   wholly before the first damaged byte; [delivered] = chunks the implementation
   delivered; [intact] = the first [min_chunks] of them are the undamaged ones *)
Definition c04_ok (damaged : bool) (errs : list bool) (min_chunks delivered : nat) (intact : bool) : bool :=
  (if damaged then forallb (fun e => e) errs else true) && Nat.leb min_chunks delivered && intact.

Definition c04_damaged (bs : bytes) : bool * bool :=
  let '(_, e, huge) := x_read_stream bs in (e, huge).

(* ------------------------------------------------------------------ C09 oracles *)
(* crash point k of a written stream whose documents have the given lengths:
   exactly the chunks of the documents wholly inside, an error iff k is not a
   document boundary *)
Definition c09_prefix_ok (lens : list nat) (k : nat) (expected delivered : nat) (same : bool) (err : bool) : bool :=
  Nat.eqb delivered expected && same && Bool.eqb err (negb (at_boundary k lens)).

(* after k accepted samples with chunk size n the writer holds at least n*floor((k-1)/n) *)
Definition c09_durable_ok (n k in_writer : Z) : bool := n * ((k - 1) / n) <=? in_writer.

Definition is_short (f : fault) : bool := match f with FShort _ => true | _ => false end.
Definition has_short (fs : list fault) : bool := existsb is_short fs.
Definition no_short (fs : list fault) : Prop := Forall (fun f => is_short f = false) fs.

(* a call during which a Write failed must return an error *)
Definition c09_fail_ok (f : fault) (returned_error : bool) : bool :=
  match f with FNone => true | _ => returned_error end.

(* after recovery and a successful flush the decoded log is the accepted samples *)
Definition c09_final_ok (accepted decoded : list doc) : bool := docs_eqb (map strip_doc accepted) decoded.

(* the writer with its fault schedule forgotten *)
Definition strip_w (w : writer) : writer := mkWriter (w_log w) [] (w_closed w).

Definition failed_obs (b : obs) : bool :=
  match b with BAdd RFlush => true | BFlush false => true | _ => false end.

Definition streaming (k : kind) : bool := match k with KStream | KSDyn => true | _ => false end.

Section Run.
Variable deflate : bytes -> bytes.
Variable inflate : bytes -> option bytes.

(* the C09 statement about writer faults as an executable check of a history on a
   writer with fault schedule: after EVERY operation
     - the outputs are decodable and  decoded(writer) ++ decoded(Resolve) = the
       accepted, not discarded samples, once each, in order (c07_step; an Add that
       did not return success adds nothing, so a failing Add or flush discards
       nothing), Info counts the pending ones;
     - if a Write failed during the operation (the schedule shrank, the log did
       not grow) the operation returned an error (Add: "flush", FlushCollector: error);
     - after a successful flush everything accepted is in the writer;
     - the writer's bytes are exactly the encodings of the documents handed over
       completely (nothing partial in between). *)
Fixpoint c09_run_from (capz : Z) (st : coll * writer) (total : list doc) (ops : list op) : bool :=
  match ops with
  | [] => true
  | o :: r =>
      let '(st', ob) := step deflate st o in
      let write_failed :=
        negb (Nat.eqb (length (w_faults (snd st'))) (length (w_faults (snd st)))) &&
        Nat.eqb (length (w_log (snd st'))) (length (w_log (snd st))) in
      match decode_ftdc inflate None (emitted (snd st')), decode_out inflate None (c_resolve deflate (fst st')) with
      | Some wd, Some rd =>
          let '(total', ok) := c07_step capz total (opk_of o) (obs_add_ok ob) (op_doc o) wd rd
                                        (snd (c_info (fst st'))) in
          ok && (if write_failed then failed_obs ob else true)
             && (match ob with BFlush true => docs_eqb (dc_docs wd) total' | _ => true end)
             && bytes_eqb (log_bytes (snd st')) (enc_stream (emitted (snd st')))
             && c09_run_from capz st' total' r
      | _, _ => false
      end
  end.

Definition c09_run (k : kind) (n : Z) (fs : list fault) (ops : list op) : bool :=
  c09_run_from (cap_of k n) (new_coll k n, mkWriter [] fs false) [] ops.

End Run.

(* hypotheses of C09_log_wellformed on the history: clock readings are int64
   values, metadata documents are representable (which includes: no binary
   subtype in 0x06..0x7f, so [doc_bin_ok] holds — Proofs/FrameValidate.doc_ok_bin_ok;
   for added documents that is part of [ops_ok]) *)
Definition op_frame_ok (o : op) : Prop :=
  match o with
  | OAdd d now => in_i64 now = true
  | OSetMeta (Some m) => doc_ok m = true
  | _ => True
  end.

(* every added document's chunk stays within the reader's size limit for chunk size n *)
Definition ops_fit (n : Z) (ops : list op) : Prop :=
  (Z.to_N n <= reader_limit)%N /\
  forall d, ops_added ops d -> (N.of_nat (length (flatten_doc d)) * Z.to_N n <= reader_limit)%N.

(* number of samples the reader finds in the writer *)
Definition samples_in (inflate : bytes -> option bytes) (w : writer) : option nat :=
  match decode_ftdc inflate None (emitted w) with Some wd => Some (length (dc_docs wd)) | None => None end.

(* instances for the drivers (trivial codec) *)
Definition x_c09_run := c09_run deflate_flag inflate_flag.

(* the state reached by a history on a fresh collector and a writer with the given fault schedule *)
Definition c09_reach (deflate : bytes -> bytes) (k : kind) (n : Z) (fs : list fault) (ops : list op) : coll * writer :=
  fst (run deflate (new_coll k n, mkWriter [] fs false) ops).
