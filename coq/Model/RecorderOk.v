(* C15: the reference policy of every recorder, stated on call histories and on what a
   collector observes -- independently of the step functions of Model/Recorder.v
   (organised by FIELD and by POLICY, as sums / last values over the calls since the
   last EndTest/Reset, instead of by method as the Go code is) -- and the executable
   oracle [c15_ok] that evaluates it on the implementation's observations.
   Proofs/RecorderProofs.v proves that the model satisfies this policy for every history. *)
From Coq Require Import ZArith List Bool.
From FV.Model Require Import Hdr Recorder.
Import ListNotations.
Open Scope Z_scope.

(* ====================================================================== *)
(* 1. The policy table (DESIGN.md Appendix B)                             *)
(* ====================================================================== *)

(* the clock/collector context a call finds: timestamp of the current point, r.started,
   r.lastCollected, number of collector.Add calls so far *)
Record ctx := mkC { c_ts : Z; c_started : Z; c_last : Z; c_adds : Z }.

Definition is_reset (o : op) : bool := match o with EndTest _ | Reset => true | _ => false end.
Definition grouped (K : kind) : bool := match K with KGrouped | KHistGrouped => true | _ => false end.
Definition begin_stamps (K : kind) : bool := match K with KSingle | KHistSingle => false | _ => true end.

(* WHEN a point is handed to the collector *)
Definition persists (K : kind) (iv : Z) (c : ctx) (o : op) : bool :=
  match o with
  | EndIteration _ now =>
      match K with
      | KRaw | KHist => true                                      (* every EndIteration *)
      | KGrouped | KHistGrouped => gate_open now (c_last c) iv    (* interval elapsed *)
      | _ => false
      end
  | Tick _ => match K with KInterval | KHistInterval => true | _ => false end
  | EndTest _ =>
      match K with
      | KSingle | KHistSingle => true                             (* always *)
      | _ => negb (c_ts c =? 0)                                   (* iff the point is stamped *)
      end
  | _ => false
  end.

(* how the context evolves *)
Definition ctx_step (K : kind) (iv : Z) (c : ctx) (o : op) : ctx :=
  let adds := if persists K iv c o then c_adds c + 1 else c_adds c in
  match o with
  | SetTime t => mkC t (c_started c) (c_last c) adds
  | BeginIteration now =>
      mkC (if begin_stamps K then stamp_ts (c_ts c) now now else c_ts c) now (c_last c) adds
  | EndIteration _ now =>
      let ts := stamp_ts (c_ts c) (c_started c) now in
      match K with
      | KGrouped => if gate_open now (c_last c) iv then mkC 0 0 now adds
                    else mkC (c_ts c) 0 (c_last c) adds
      | KHistGrouped => mkC ts 0 (if gate_open now (c_last c) iv then now else c_last c) adds
      | KHistInterval => mkC ts (c_started c) (c_last c) adds
      | _ => mkC ts 0 (c_last c) adds
      end
  | Tick now =>
      match K with
      | KInterval | KHistInterval => mkC (stamp_ts (c_ts c) (c_started c) now) (c_started c) (c_last c) adds
      | _ => mkC (c_ts c) (c_started c) (c_last c) adds
      end
  | EndTest _ | Reset => mkC 0 0 (if grouped K then 0 else c_last c) adds
  | _ => mkC (c_ts c) (c_started c) (c_last c) adds
  end.

Definition ctx0 (K : kind) (last0 : Z) : ctx := mkC 0 0 (match K with KGrouped => last0 | _ => 0 end) 0.
Definition pctx (K : kind) (iv last0 : Z) (h : list op) : ctx := fold_left (ctx_step K iv) h (ctx0 K last0).

(* the calls since the last EndTest/Reset, each with the context it found *)
Definition cw_step (K : kind) (iv : Z) (a : ctx * list (ctx * op)) (o : op) : ctx * list (ctx * op) :=
  (ctx_step K iv (fst a) o, if is_reset o then [] else snd a ++ [(fst a, o)]).
Definition cwindow (K : kind) (iv last0 : Z) (h : list op) : list (ctx * op) :=
  snd (fold_left (cw_step K iv) h (ctx0 K last0, [])).

(* the same without contexts (used in the statements of Props/C15.v) *)
Definition since_reset (h : list op) : list op :=
  fold_left (fun acc o => if is_reset o then [] else acc ++ [o]) h [].

(* ---- WHAT each call contributes ---- *)
Definition lsum (l : list Z) : Z := fold_right Z.add 0 l.

(* the increments of the iteration counter: IncIterations, and one per EndIteration
   except in the interval recorder (whose EndIteration has no Number++) *)
Definition att_n (K : kind) (o : op) : list Z :=
  match o with
  | IncIterations v => [v]
  | EndIteration _ _ => match K with KInterval => [] | _ => [1] end
  | _ => []
  end.
Definition att_ops (o : op) : list Z := match o with IncOperations v => [v] | _ => [] end.
Definition att_size (o : op) : list Z := match o with IncSize v => [v] | _ => [] end.
Definition att_errs (o : op) : list Z := match o with IncError v => [v] | _ => [] end.
(* explicit durations *)
Definition att_dur (o : op) : list Z :=
  match o with SetDuration d => [d] | EndIteration d _ => [d] | _ => [] end.
(* elapsed part: end reading minus the reading of the BeginIteration that set [started] *)
Definition elapsed (K : kind) (c : ctx) (o : op) : list Z :=
  match o with
  | EndIteration _ now => if c_started c =? 0 then [] else [now - c_started c]
  | EndTest now => match K with
                   | KHistInterval => if c_started c =? 0 then [] else [now - c_started c]
                   | _ => []
                   end
  | _ => []
  end.
Definition att_total (K : kind) (c : ctx) (o : op) : list Z :=
  match o with SetTotalDuration d => [d] | _ => elapsed K c o end.

(* Performance recorders: explicit durations are summed; the raw recorder's
   SetDuration / SetTotalDuration overwrite what was accumulated so far *)
Definition dur_upd (K : kind) (a : Z) (co : ctx * op) : Z :=
  match snd co with
  | SetDuration d => match K with KRaw => d | _ => a + d end
  | EndIteration d _ => a + d
  | _ => a
  end.
Definition total_upd (K : kind) (a : Z) (co : ctx * op) : Z :=
  match snd co with
  | SetTotalDuration d => match K with KRaw => d | _ => a + d end
  | o => a + lsum (elapsed K (fst co) o)
  end.

Definition last_id (w : list (ctx * op)) : Z :=
  fold_left (fun a co => match snd co with SetID v => v | _ => a end) w 0.

Definition g_step (g : gauges) (o : op) : gauges :=
  match o with
  | SetWorkers v => mkG (g_state g) v (g_failed g)
  | SetState v => mkG v (g_workers g) (g_failed g)
  | SetFailed b => mkG (g_state g) (g_workers g) b
  | _ => g
  end.
(* gauges: the last value set, over the WHOLE history (they survive EndTest/Reset) *)
Definition gauges_of (g0 : gauges) (h : list op) : gauges := fold_left g_step h g0.

Definition wmap (f : op -> list Z) (w : list (ctx * op)) : list Z := flat_map (fun co => f (snd co)) w.
Definition wmapc (f : ctx -> op -> list Z) (w : list (ctx * op)) : list Z :=
  flat_map (fun co => f (fst co) (snd co)) w.

(* the point a window of calls [w] adds up to, with timestamp [ts] and gauges [g] *)
Definition point_of (K : kind) (ts : Z) (w : list (ctx * op)) (g : gauges) : point :=
  if is_hist K then
    mkP ts (last_id w) 0 0 0 0 0 0
        (mkH (filter accepts_counter (wmap (att_n K) w))
             (filter accepts_counter (wmap att_ops w))
             (filter accepts_counter (wmap att_size w))
             (filter accepts_counter (wmap att_errs w))
             (filter accepts_timer (wmap att_dur w))
             (filter accepts_timer (wmapc (att_total K) w)))
        g
  else
    mkP ts (last_id w)
        (wrap64 (lsum (wmap (att_n K) w)))
        (wrap64 (lsum (wmap att_ops w)))
        (wrap64 (lsum (wmap att_size w)))
        (wrap64 (lsum (wmap att_errs w)))
        (wrap64 (fold_left (dur_upd K) w 0))
        (wrap64 (fold_left (total_upd K) w 0))
        hists0 g.

(* ---- errors ---- *)
Definition rej (acc : Z -> bool) (l : list Z) : list err := map ErrRec (filter (fun v => negb (acc v)) l).
Definition rejected (K : kind) (c : ctx) (o : op) : list err :=
  if is_hist K then
    rej accepts_counter (att_n K o ++ att_ops o ++ att_size o ++ att_errs o)
    ++ rej accepts_timer (att_dur o ++ att_total K c o)
  else [].
Definition call_errs (K : kind) (iv : Z) (fails : Z -> bool) (c : ctx) (o : op) : list err :=
  rejected K c o ++
  (if persists K iv c o then (if fails (c_adds c) then [ErrAdd (c_adds c)] else []) else []).
Definition errs_of (K : kind) (iv : Z) (fails : Z -> bool) (w : list (ctx * op)) : list err :=
  flat_map (fun co => call_errs K iv fails (fst co) (snd co)) w.

(* timestamp of a persisted point *)
Definition persist_ts (K : kind) (c : ctx) (o : op) : Z :=
  match o with
  | EndIteration _ now | Tick now => stamp_ts (c_ts c) (c_started c) now
  | EndTest now => match K with
                   | KSingle | KHistSingle => stamp_ts (c_ts c) (c_started c) now
                   | _ => c_ts c
                   end
  | _ => c_ts c
  end.

(* what call [o] after history [h] must make observable *)
Definition sp_out (K : kind) (iv last0 : Z) (fails : Z -> bool) (h : list op) (o : op) : out :=
  let c := pctx K iv last0 h in
  let w := cwindow K iv last0 h ++ [(c, o)] in
  mkO (if persists K iv c o
       then [point_of K (persist_ts K c o) w (gauges_of gauges0 (h ++ [o]))] else [])
      (match o with EndTest _ => Some (errs_of K iv fails w) | _ => None end).

Fixpoint spec_outs_from (K : kind) (iv last0 : Z) (fails : Z -> bool) (pre rest : list op) : list out :=
  match rest with
  | [] => []
  | o :: r => sp_out K iv last0 fails pre o :: spec_outs_from K iv last0 fails (pre ++ [o]) r
  end.
Definition spec_outs (K : kind) (iv last0 : Z) (fails : Z -> bool) (h : list op) : list out :=
  spec_outs_from K iv last0 fails [] h.

(* the state the policy implies after history [h] *)
Definition abs_state (K : kind) (iv last0 : Z) (fails : Z -> bool) (h : list op) : state :=
  let c := pctx K iv last0 h in
  let w := cwindow K iv last0 h in
  mkS (point_of K (c_ts c) w (gauges_of gauges0 h)) (c_started c) (c_last c)
      (errs_of K iv fails w) (c_adds c).

(* positions (0-based) at which something is persisted *)
Fixpoint positions_from {A} (f : A -> bool) (i : nat) (l : list A) : list nat :=
  match l with
  | [] => []
  | x :: r => if f x then i :: positions_from f (S i) r else positions_from f (S i) r
  end.
Definition persisted_positions (outs : list out) : list nat :=
  positions_from (fun x => match o_persisted x with [] => false | _ => true end) 0 outs.
Fixpoint policy_positions_from (K : kind) (iv : Z) (c : ctx) (i : nat) (h : list op) : list nat :=
  match h with
  | [] => []
  | o :: r => (if persists K iv c o then [i] else []) ++ policy_positions_from K iv (ctx_step K iv c o) (S i) r
  end.
Definition policy_positions (K : kind) (iv last0 : Z) (h : list op) : list nat :=
  policy_positions_from K iv (ctx0 K last0) 0 h.

(* wrappers *)
Definition erase_op (W : wrapper) (w : wop) : list op :=
  match w with
  | Plain o => [o]
  | ShimBegin now => match W with WShim => [BeginIteration now] | _ => [] end
  | ShimEnd d now => match W with WShim => [EndIteration d now] | _ => [] end
  end.
Definition erase (W : wrapper) (h : list wop) : list op := flat_map (erase_op W) h.
Definition is_plain (w : wop) : bool := match w with Plain _ => true | _ => false end.
Definition wellformed (W : wrapper) (h : list wop) : bool :=
  match W with WShim => true | _ => forallb is_plain h end.
Definition count_w (f : wop -> bool) (h : list wop) : Z := Z.of_nat (length (filter f h)).
Definition spec_timers (W : wrapper) (h : list wop) : timers :=
  match W with
  | WShim => mkT (count_w (fun w => match w with Plain Reset => true | _ => false end) h)
                 (count_w (fun w => match w with ShimBegin _ => true | _ => false end) h)
                 (count_w (fun w => match w with ShimEnd _ _ => true | _ => false end) h)
  | _ => timers0
  end.

(* ====================================================================== *)
(* 2. Observations                                                        *)
(* ====================================================================== *)

(* a persisted point as the harness's collector sees it: a histogram is observed through
   its non-zero counts, (index, count) by ascending index *)
Record opoint := mkOP { op_ts : Z; op_id : Z;
                        op_n : Z; op_ops : Z; op_size : Z; op_errs : Z; op_dur : Z; op_total : Z;
                        op_hn : list (Z * Z); op_hops : list (Z * Z); op_hsize : list (Z * Z);
                        op_herrs : list (Z * Z); op_hdur : list (Z * Z); op_htotal : list (Z * Z);
                        op_g : gauges }.
Record oout := mkOO { oo_persisted : list opoint; oo_ret : option (list err) }.

Fixpoint bump (i : Z) (l : list (Z * Z)) : list (Z * Z) :=
  match l with
  | [] => [(i, 1)]
  | (j, c) :: r => if i <? j then (i, 1) :: l
                   else if i =? j then (j, c + 1) :: r
                   else (j, c) :: bump i r
  end.
Definition counts_pairs (c : cfg) (l : list Z) : list (Z * Z) :=
  fold_left (fun acc v => bump (counts_index_for c v) acc) l [].

Definition observe (p : point) : opoint :=
  mkOP (p_ts p) (p_id p) (p_n p) (p_ops p) (p_size p) (p_errs p) (p_dur p) (p_total p)
       (counts_pairs counter_cfg (h_n (p_h p))) (counts_pairs counter_cfg (h_ops (p_h p)))
       (counts_pairs counter_cfg (h_size (p_h p))) (counts_pairs counter_cfg (h_errs (p_h p)))
       (counts_pairs timer_cfg (h_dur (p_h p))) (counts_pairs timer_cfg (h_total (p_h p)))
       (p_g p).
Definition observe_out (x : out) : oout := mkOO (map observe (o_persisted x)) (o_ret x).

(* what the model predicts for a (wrapped) history *)
Definition fails_of (l : list Z) : Z -> bool := fun k => existsb (Z.eqb k) l.
Definition model_obs (W : wrapper) (K : kind) (iv last0 : Z) (fl : list Z) (h : list wop)
  : list oout * timers :=
  let r := wrun W K iv last0 (fails_of fl) h in (map observe_out (snd r), snd (fst r)).

(* ====================================================================== *)
(* 3. The oracle                                                          *)
(* ====================================================================== *)
Definition pairs_eqb (a b : list (Z * Z)) : bool :=
  (Nat.eqb (length a) (length b)) &&
  forallb (fun xy => (fst (fst xy) =? fst (snd xy)) && (snd (fst xy) =? snd (snd xy))) (combine a b).
Definition gauges_eqb (a b : gauges) : bool :=
  (g_state a =? g_state b) && (g_workers a =? g_workers b) && Bool.eqb (g_failed a) (g_failed b).
Definition err_eqb (a b : err) : bool :=
  match a, b with
  | ErrAdd x, ErrAdd y => x =? y
  | ErrRec x, ErrRec y => x =? y
  | _, _ => false
  end.
Definition errs_eqb (a b : list err) : bool :=
  (Nat.eqb (length a) (length b)) && forallb (fun xy => err_eqb (fst xy) (snd xy)) (combine a b).
Definition ret_eqb (a b : option (list err)) : bool :=
  match a, b with
  | None, None => true
  | Some x, Some y => errs_eqb x y
  | _, _ => false
  end.

(* every field that does not depend on a clock reading *)
Definition point_exact (s o : opoint) : bool :=
  (op_id s =? op_id o) && (op_n s =? op_n o) && (op_ops s =? op_ops o) && (op_size s =? op_size o)
  && (op_errs s =? op_errs o) && (op_dur s =? op_dur o)
  && pairs_eqb (op_hn s) (op_hn o) && pairs_eqb (op_hops s) (op_hops o)
  && pairs_eqb (op_hsize s) (op_hsize o) && pairs_eqb (op_herrs s) (op_herrs o)
  && pairs_eqb (op_hdur s) (op_hdur o) && gauges_eqb (op_g s) (op_g o).

(* indices with multiplicity, ascending *)
Definition expand (l : list (Z * Z)) : list Z :=
  flat_map (fun ic => repeat (fst ic) (Z.to_nat (snd ic))) l.
Definition le_pointwise (a b : list Z) : bool :=
  (Nat.eqb (length a) (length b)) && forallb (fun xy => fst xy <=? snd xy) (combine a b).

(* clock-derived fields lie between what the policy yields for the earliest and for the
   latest admissible clock readings:
     sb / sa  : every reading replaced by the harness's reading before / after the call
     slo / shi: shortest / longest elapsed parts (begin late & end early / begin early & end late) *)
Definition point_ok (sb slo shi sa o : opoint) : bool :=
  point_exact sb o
  && (op_ts sb <=? op_ts o) && (op_ts o <=? op_ts sa)
  && (0 <=? wrap64 (op_total o - op_total slo))
  && (wrap64 (op_total o - op_total slo) <=? wrap64 (op_total shi - op_total slo))
  && le_pointwise (expand (op_htotal slo)) (expand (op_htotal o))
  && le_pointwise (expand (op_htotal o)) (expand (op_htotal shi)).

Definition out_ok (sb slo shi sa : out) (o : oout) : bool :=
  ret_eqb (o_ret sb) (oo_ret o) &&
  match o_persisted sb, o_persisted slo, o_persisted shi, o_persisted sa, oo_persisted o with
  | [], _, _, _, [] => true
  | [pb], [plo], [phi], [pa], [po] => point_ok (observe pb) (observe plo) (observe phi) (observe pa) po
  | _, _, _, _, _ => false
  end.

Definition mix_lo (b a : op) : op := match b with BeginIteration _ => a | _ => b end.
Definition mix_hi (b a : op) : op := match b with BeginIteration _ => b | _ => a end.
Definition map2 {A B C} (f : A -> B -> C) (l1 : list A) (l2 : list B) : list C :=
  map (fun xy => f (fst xy) (snd xy)) (combine l1 l2).

Definition dflt_out : out := no_out.
Definition dflt_oout : oout := mkOO [] None.

(* hb / ha: the history with the clock reading taken before / after each call *)
Definition c15_ok (K : kind) (iv last0 : Z) (fl : list Z) (hb ha : list op) (obs : list oout) : bool :=
  let F := fails_of fl in
  let Sb := spec_outs K iv last0 F hb in
  let Slo := spec_outs K iv last0 F (map2 mix_lo hb ha) in
  let Shi := spec_outs K iv last0 F (map2 mix_hi hb ha) in
  let Sa := spec_outs K iv last0 F ha in
  Nat.eqb (length obs) (length hb) && Nat.eqb (length ha) (length hb) &&
  forallb (fun i => out_ok (nth i Sb dflt_out) (nth i Slo dflt_out) (nth i Shi dflt_out)
                           (nth i Sa dflt_out) (nth i obs dflt_oout))
          (seq 0 (length hb)).

Definition timers_eqb (a b : timers) : bool :=
  (t_reset a =? t_reset b) && (t_start a =? t_start b) && (t_stop a =? t_stop b).

Definition c15_ok_w (W : wrapper) (K : kind) (iv last0 : Z) (fl : list Z) (hb ha : list wop)
                    (obs : list oout) (tm : timers) : bool :=
  wellformed W hb && c15_ok K iv last0 fl (erase W hb) (erase W ha) obs
  && timers_eqb (spec_timers W hb) tm.
