(* Model of the goroutine structure of the interval recorders
     events/recorder_performance_interval.go   intervalStream
     events/recorder_histogram_interval.go     intervalHistogramStream
   and of the synchronized recorder wrapper (events/recorder_wrapper_sync.go) over a
   recorder that has no goroutine of its own.  DEFINITIONS ONLY; proofs are in
   Proofs/SysIntervalProofs.v, the property theorems in Props/C16.v.

   A labelled transition system (DESIGN.md section 4, "Goroutines"):

   * G user goroutines, each executing a program = list of calls.  Every public
     method of the recorders is  Lock; body; Unlock  (source fact, re-read from
     /repo on every run: Generated/LockPaths.v, obligation
     C16_source_methods_lock_unlock).  The three parts are three steps of the
     goroutine, so every interleaving of lock attempts is visible:
        UIdle   --Lock (enabled iff the mutex is free)-->  UCrit
        UCrit   --body-->                                  UUnlock
        UUnlock --Unlock-->                                UIdle, call popped.
     A goroutine whose next step is Lock while the mutex is held has NO step: it
     is blocked.
   * one flusher goroutine per BeginIteration that finds canceler == nil.  Each has
     its own context (flag f_cancelled).  Program counters follow worker():
        FWait       select { <-ctx.Done() | <-ticker.C }
        FTick       tick received; vpoint("fl.tick"); about to Lock
        FLocked     Lock acquired; vpoint("fl.locked"); about to test ctx.Err()
        FCancelled  ctx.Err() != nil: about to (Unlock and) return
        FChecked    ctx.Err() == nil: about to stamp and persist
        FPersisted  about to Unlock and loop
        FDone       returned.
     The select has two arms, each its own transition label so that [step] is a
     function: [Tick f] (the ticker fires and the flusher takes that arm; possible
     whenever the flusher waits - also after cancellation, as in Go when both arms
     are ready) and [F f] at FWait (the Done arm; enabled iff cancelled).
   * the mutex with its owner; sync.Mutex is not reentrant and has no owner check:
     Unlock simply frees it.
   * the recorder's fields that matter: canceler (index of the flusher whose cancel
     function is stored), whether the point is stamped (Timestamp non-zero), started,
     one counter (IncOperations; the other three counters are the same code shape),
     one gauge (survives reset), and the list of persisted samples.
   * [lock_log] is a HISTORY variable (never read by [step]): the calls of user
     goroutines in the order in which they acquired the mutex, newest first.  It is
     what "issued" means in C16_sum: an increment is issued in the cycle in which its
     Lock acquisition falls.

   Parameter [flusher_unlocks_on_cancel]: true = the code in /repo (commit 2579c16:
   "if ctx.Err() != nil { r.Unlock(); return }"), false = the code before the repair
   ("return" with the mutex held).  Its value for the checked tree is COMPUTED from
   the regenerated lock paths of worker() (Props/C16.v, src_flusher_unlocks).
   [with_flusher] = false gives the same system without any flusher: the synchronized
   wrapper (its mutex; inner recorder = raw recorder, whose EndIteration persists).

   Not modelled: cancellation of the root context from outside (the harness never
   cancels it), collector errors (C15), the timers, the histogram bucket arithmetic
   (the histogram variant records each increment; the harness uses values that the
   counter histogram represents exactly, so "sum" is the sum of recorded values). *)
From Coq Require Import ZArith List Bool Arith.
Import ListNotations.
Open Scope Z_scope.

Definition two63 : Z := 9223372036854775808.
Definition two64 : Z := 18446744073709551616.
Definition wrap64 (z : Z) : Z := (z + two63) mod two64 - two63.
Arguments wrap64 : simpl never.

Inductive call := Inc (k : Z) | Begin | End | SetGauge (v : Z) | EndTest | Reset.

Inductive upc := UIdle | UCrit | UUnlock.
Record ustate := mkU { u_pc : upc; u_prog : list call }.

Inductive fpc := FWait | FTick | FLocked | FCancelled | FChecked | FPersisted | FDone.
Record flusher := mkF { f_pc : fpc; f_cancelled : bool }.

Inductive owner := OU (g : nat) | OF (f : nat).
Inductive tid := U (g : nat) | F (f : nat) | Tick (f : nat).

Record cfg := mkCfg { flusher_unlocks_on_cancel : bool; with_flusher : bool }.

Record sample := mkS { s_ops : Z; s_gauge : Z; s_by : owner }.

(* the recorder's own fields *)
Record recst := mkR {
  canceler : option nat;
  stamped : bool;
  started : bool;
  ops : Z;
  gauge : Z;
  persisted : list sample          (* NEWEST first *)
}.

Record state := mkSt {
  users : list ustate;
  flushers : list flusher;
  mu : option owner;
  rc : recst;
  lock_log : list call             (* history variable, newest first *)
}.

(* ---- list update ---- *)
Fixpoint upd {A} (n : nat) (x : A) (l : list A) : list A :=
  match l, n with
  | [], _ => []
  | _ :: r, O => x :: r
  | y :: r, S m => y :: upd m x r
  end.

(* ---- bodies of the critical sections ---- *)
Definition persist (by_ : owner) (r : recst) : recst :=
  mkR (canceler r) (stamped r) (started r) (ops r) (gauge r)
      (mkS (ops r) (gauge r) by_ :: persisted r).

Definition stamp (r : recst) : recst :=
  mkR (canceler r) true (started r) (ops r) (gauge r) (persisted r).

Definition cancel_fl (i : nat) (fls : list flusher) : list flusher :=
  match nth_error fls i with
  | Some fl => upd i (mkF (f_pc fl) true) fls
  | None => fls
  end.

(* reset(): cancel and forget the flusher, fresh point keeping the gauges *)
Definition do_reset (r : recst) (fls : list flusher) : recst * list flusher :=
  (mkR None false false 0 (gauge r) (persisted r),
   match canceler r with Some i => cancel_fl i fls | None => fls end).

Definition body (c : cfg) (g : nat) (cl : call) (r : recst) (fls : list flusher)
  : recst * list flusher :=
  match cl with
  | Inc k => (mkR (canceler r) (stamped r) (started r) (wrap64 (ops r + k)) (gauge r) (persisted r), fls)
  | Begin =>
      match canceler r with
      | None =>
          if with_flusher c
          then (mkR (Some (length fls)) true true (ops r) (gauge r) (persisted r),
                fls ++ [mkF FWait false])
          else (mkR None true true (ops r) (gauge r) (persisted r), fls)
      | Some i => (mkR (Some i) true true (ops r) (gauge r) (persisted r), fls)
      end
  | End =>
      let r1 := mkR (canceler r) true false (ops r) (gauge r) (persisted r) in
      (if with_flusher c then r1 else persist (OU g) r1, fls)
  | SetGauge v => (mkR (canceler r) (stamped r) (started r) (ops r) v (persisted r), fls)
  | EndTest => do_reset (if stamped r then persist (OU g) r else r) fls
  | Reset => do_reset r fls
  end.

Definition set_fl (s : state) (f : nat) (fl : flusher) : state :=
  mkSt (users s) (upd f fl (flushers s)) (mu s) (rc s) (lock_log s).

Definition step (c : cfg) (s : state) (t : tid) : option state :=
  match t with
  | U g =>
      match nth_error (users s) g with
      | None => None
      | Some u =>
          match u_prog u with
          | [] => None
          | cl :: rest =>
              match u_pc u with
              | UIdle =>
                  match mu s with
                  | Some _ => None
                  | None => Some (mkSt (upd g (mkU UCrit (cl :: rest)) (users s)) (flushers s)
                                       (Some (OU g)) (rc s) (cl :: lock_log s))
                  end
              | UCrit =>
                  let rf := body c g cl (rc s) (flushers s) in
                  Some (mkSt (upd g (mkU UUnlock (cl :: rest)) (users s)) (snd rf)
                             (mu s) (fst rf) (lock_log s))
              | UUnlock =>
                  Some (mkSt (upd g (mkU UIdle rest) (users s)) (flushers s) None (rc s) (lock_log s))
              end
          end
      end
  | Tick f =>
      match nth_error (flushers s) f with
      | None => None
      | Some fl =>
          match f_pc fl with
          | FWait => Some (set_fl s f (mkF FTick (f_cancelled fl)))
          | _ => None
          end
      end
  | F f =>
      match nth_error (flushers s) f with
      | None => None
      | Some fl =>
          match f_pc fl with
          | FWait => if f_cancelled fl then Some (set_fl s f (mkF FDone true)) else None
          | FTick =>
              match mu s with
              | Some _ => None
              | None => Some (mkSt (users s) (upd f (mkF FLocked (f_cancelled fl)) (flushers s))
                                   (Some (OF f)) (rc s) (lock_log s))
              end
          | FLocked =>
              Some (set_fl s f (mkF (if f_cancelled fl then FCancelled else FChecked) (f_cancelled fl)))
          | FCancelled =>
              Some (mkSt (users s) (upd f (mkF FDone (f_cancelled fl)) (flushers s))
                         (if flusher_unlocks_on_cancel c then None else mu s) (rc s) (lock_log s))
          | FChecked =>
              Some (mkSt (users s) (upd f (mkF FPersisted (f_cancelled fl)) (flushers s))
                         (mu s) (persist (OF f) (stamp (rc s))) (lock_log s))
          | FPersisted =>
              Some (mkSt (users s) (upd f (mkF FWait (f_cancelled fl)) (flushers s))
                         None (rc s) (lock_log s))
          | FDone => None
          end
      end
  end.

(* a schedule is a list of transition labels; a disabled label makes the run undefined,
   so "for every interleaving" is "for every sched with run ... = Some _" *)
Fixpoint run (c : cfg) (s : state) (sched : list tid) : option state :=
  match sched with
  | [] => Some s
  | t :: r => match step c s t with Some s' => run c s' r | None => None end
  end.

Definition init_rc : recst := mkR None false false 0 0 [].
Definition init (progs : list (list call)) : state :=
  mkSt (map (mkU UIdle) progs) [] None init_rc [].

Definition reachable (c : cfg) (s : state) : Prop :=
  exists progs sched, run c (init progs) sched = Some s.

Definition all_user_calls_returned (s : state) : Prop :=
  Forall (fun u => u_prog u = []) (users s).
Definition all_returnedb (s : state) : bool :=
  forallb (fun u => match u_prog u with [] => true | _ => false end) (users s).

(* a real goroutine (not the ticker event) *)
Definition is_goroutine (t : tid) : bool := match t with Tick _ => false | _ => true end.
Definition tid_of (o : owner) : tid := match o with OU g => U g | OF f => F f end.

(* ---- "issued": the increments of the current cycle, from the acquisition history ---- *)
Fixpoint cycle_incs (log : list call) : list Z :=
  match log with
  | [] => []
  | Inc k :: r => k :: cycle_incs r
  | EndTest :: _ => []
  | Reset :: _ => []
  | _ :: r => cycle_incs r
  end.
Definition sumZ (l : list Z) : Z := fold_right Z.add 0 l.
(* did a Begin/EndIteration acquire the mutex in the current cycle? *)
Fixpoint cycle_stamped (log : list call) : bool :=
  match log with
  | [] => false
  | Begin :: _ => true
  | End :: _ => true
  | EndTest :: _ => false
  | Reset :: _ => false
  | _ :: r => cycle_stamped r
  end.

(* pcs at which a goroutine holds the mutex *)
Definition u_holds (p : upc) : bool := match p with UIdle => false | _ => true end.
Definition f_holds (p : fpc) : bool :=
  match p with FLocked | FCancelled | FChecked | FPersisted => true | _ => false end.

Definition live_flushers (s : state) : nat :=
  length (filter (fun fl => match f_pc fl with FDone => false | _ => true end) (flushers s)).
Definition uncancelled (s : state) : nat :=
  length (filter (fun fl => negb (f_cancelled fl)) (flushers s)).

(* rank of a cancelled flusher: number of its own steps (including one tick) left *)
Definition f_rank (p : fpc) : nat :=
  match p with
  | FPersisted => 6 | FChecked => 7     (* not reachable while cancelled; listed for totality *)
  | FWait => 5 | FTick => 4 | FLocked => 3 | FCancelled => 1 | FDone => 0
  end.

(* work left for the user goroutines: three steps per call *)
Definition u_work (u : ustate) : nat :=
  match u_pc u with
  | UIdle => 3 * length (u_prog u)
  | UCrit => 3 * length (u_prog u) - 1
  | UUnlock => 3 * length (u_prog u) - 2
  end.
Definition user_work (s : state) : nat := fold_right Nat.add O (map u_work (users s)).
Definition user_steps (sched : list tid) : nat :=
  length (filter (fun t => match t with U _ => true | _ => false end) sched).

(* ====================================================================== *)
(* Lock paths (source facts, Generated/LockPaths.v) and their discipline   *)
(* ====================================================================== *)
Inductive lock_event := Lock | RLock | Unlock | RUnlock | DeferUnlock | DeferRUnlock.

(* what ONE goroutine holds of one (RW)mutex *)
Inductive held := Free | HeldW | HeldR.

(* one event; None = the goroutine can never get past it (Lock/RLock while it already
   holds the mutex: sync.Mutex and sync.RWMutex are not reentrant) or the runtime
   throws ("unlock of unlocked mutex"). Deferred unlocks are pushed. *)
Definition ev_step (h : held) (defers : list lock_event) (e : lock_event)
  : option (held * list lock_event) :=
  match e, h with
  | Lock, Free => Some (HeldW, defers)
  | RLock, Free => Some (HeldR, defers)
  | Unlock, HeldW => Some (Free, defers)
  | RUnlock, HeldR => Some (Free, defers)
  | DeferUnlock, _ => Some (h, Unlock :: defers)
  | DeferRUnlock, _ => Some (h, RUnlock :: defers)
  | _, _ => None
  end.

Fixpoint ev_run (h : held) (defers : list lock_event) (p : list lock_event)
  : option (held * list lock_event) :=
  match p with
  | [] => Some (h, defers)
  | e :: r => match ev_step h defers e with Some (h', d') => ev_run h' d' r | None => None end
  end.

(* the deferred calls run at return, last pushed first; they contain no defers *)
Fixpoint run_defers (h : held) (ds : list lock_event) : option held :=
  match ds with
  | [] => Some h
  | e :: r => match ev_step h [] e with Some (h', _) => run_defers h' r | None => None end
  end.

(* executing one path from entry to return, starting from [h] *)
Definition exec_path (h : held) (p : list lock_event) : option held :=
  match ev_run h [] p with
  | Some (h', ds) => run_defers h' ds
  | None => None
  end.

Definition held_eqb (a b : held) : bool :=
  match a, b with Free, Free | HeldW, HeldW | HeldR, HeldR => true | _, _ => false end.

Definition balanced (p : list lock_event) : bool :=
  match exec_path Free p with Some h => held_eqb h Free | None => false end.

Definition lock_event_eqb (a b : lock_event) : bool :=
  match a, b with
  | Lock, Lock | RLock, RLock | Unlock, Unlock | RUnlock, RUnlock
  | DeferUnlock, DeferUnlock | DeferRUnlock, DeferRUnlock => true
  | _, _ => false
  end.
Fixpoint path_eqb (a b : list lock_event) : bool :=
  match a, b with
  | [], [] => true
  | x :: r, y :: q => lock_event_eqb x y && path_eqb r q
  | _, _ => false
  end.

(* ---- a system of goroutines that each execute lock paths over ONE RWMutex ----
   (the synchronized wrappers and the catcher; also the interval recorders when the
   bodies are abstracted away).  Goroutine g has a list of paths still to execute;
   [cur] is the rest of the path it is in, with its pending defers. *)
Record pgor := mkPG { pg_cur : list lock_event; pg_defers : list lock_event;
                      pg_todo : list (list lock_event) }.
Record rw := mkRW { rw_writer : option nat; rw_readers : list nat }.
Record psys := mkPS { ps_g : list pgor; ps_rw : rw }.

Fixpoint remove_one (g : nat) (l : list nat) : list nat :=
  match l with
  | [] => []
  | x :: r => if Nat.eqb x g then r else x :: remove_one g r
  end.

(* one lock event of goroutine g on the shared RWMutex; None = blocked (or throws) *)
Definition rw_event (g : nat) (m : rw) (e : lock_event) : option rw :=
  match e with
  | Lock => match rw_writer m, rw_readers m with
            | None, [] => Some (mkRW (Some g) []) | _, _ => None end
  | RLock => match rw_writer m with
             | None => Some (mkRW None (g :: rw_readers m)) | Some _ => None end
  | Unlock => match rw_writer m with
              | Some _ => Some (mkRW None (rw_readers m)) | None => None end
  | RUnlock => if existsb (Nat.eqb g) (rw_readers m)
               then Some (mkRW (rw_writer m) (remove_one g (rw_readers m))) else None
  | DeferUnlock | DeferRUnlock => Some m
  end.

Definition pstep (s : psys) (g : nat) : option psys :=
  match nth_error (ps_g s) g with
  | None => None
  | Some p =>
      match pg_cur p with
      | e :: r =>
          match e with
          | DeferUnlock => Some (mkPS (upd g (mkPG r (Unlock :: pg_defers p) (pg_todo p)) (ps_g s)) (ps_rw s))
          | DeferRUnlock => Some (mkPS (upd g (mkPG r (RUnlock :: pg_defers p) (pg_todo p)) (ps_g s)) (ps_rw s))
          | _ => match rw_event g (ps_rw s) e with
                 | Some m => Some (mkPS (upd g (mkPG r (pg_defers p) (pg_todo p)) (ps_g s)) m)
                 | None => None
                 end
          end
      | [] =>
          match pg_defers p with
          | e :: ds =>                       (* returning: run the deferred calls *)
              match rw_event g (ps_rw s) e with
              | Some m => Some (mkPS (upd g (mkPG [] ds (pg_todo p)) (ps_g s)) m)
              | None => None
              end
          | [] =>
              match pg_todo p with
              | nxt :: more => Some (mkPS (upd g (mkPG nxt [] more) (ps_g s)) (ps_rw s))
              | [] => None                   (* finished *)
              end
          end
      end
  end.

Fixpoint prun (s : psys) (sched : list nat) : option psys :=
  match sched with
  | [] => Some s
  | g :: r => match pstep s g with Some s' => prun s' r | None => None end
  end.

Definition pinit (todo : list (list (list lock_event))) : psys :=
  mkPS (map (fun t => mkPG [] [] t) todo) (mkRW None []).

Definition pg_finished (p : pgor) : bool :=
  match pg_cur p, pg_defers p, pg_todo p with [], [], [] => true | _, _, _ => false end.

(* ====================================================================== *)
(* Executable schedules used by the driver (model predictions)             *)
(* ====================================================================== *)

(* [n] consecutive steps of one label *)
Definition rep (n : nat) (t : tid) : list tid := repeat t n.
Definition call_steps (g : nat) : list tid := rep 3 (U g).
(* one complete iteration of flusher f: tick, lock, check, persist, unlock *)
Definition fl_iter (f : nat) : list tid := Tick f :: rep 4 (F f).

(* The systematic schedule of the harness, one cycle with flusher index f:
     Begin; (k-1 complete flusher iterations); then
     stall_at_tick = true : tick [flusher stalled before Lock]; Inc a; EndTest/Reset;
                            released flusher: lock, check (cancelled), unlock+return
     stall_at_tick = false: tick, lock [stalled holding the mutex]; check, persist,
                            unlock (the user call could not start before); Inc a; EndTest/Reset;
                            flusher takes the Done arm
     then Inc b on the reset recorder. *)
Definition sys_cycle_sched (stall_at_tick : bool) (k : nat) (f : nat) : list tid :=
  call_steps 0 ++ concat (repeat (fl_iter f) (Nat.pred k)) ++
  (if stall_at_tick
   then [Tick f] ++ call_steps 0 ++ call_steps 0 ++ rep 3 (F f)
   else [Tick f; F f; F f; F f; F f] ++ call_steps 0 ++ call_steps 0 ++ [F f])
  ++ call_steps 0.
Definition sys_cycle_prog (use_reset : bool) (a b : Z) : list call :=
  [Begin; Inc a; if use_reset then Reset else EndTest; Inc b].

(* two cycles, then EndIteration (stamps without starting a flusher) and a closing EndTest *)
Definition sys_prog (use_reset : bool) (a b a2 b2 : Z) : list call :=
  sys_cycle_prog use_reset a b ++ sys_cycle_prog use_reset a2 b2 ++ [End; EndTest].
Definition sys_sched (stall_at_tick : bool) (k : nat) : list tid :=
  sys_cycle_sched stall_at_tick k 0 ++ sys_cycle_sched stall_at_tick k 1 ++ call_steps 0 ++ call_steps 0.

Definition by_user (x : sample) : bool := match s_by x with OU _ => true | OF _ => false end.

Record sys_obs := mkObs {
  o_blocked : bool;            (* some call could not complete *)
  o_live : nat;                (* flusher goroutines not yet returned at the end *)
  o_late : nat;                (* flusher events observed after the closing EndTest settled *)
  o_flushers : nat;            (* flusher goroutines started *)
  o_samples : list Z;          (* ops counter of every persisted sample, oldest first *)
  o_end : list Z               (* ... of the samples persisted by EndTest (user goroutine) *)
}.

Definition obs_of (r : option state) : sys_obs :=
  match r with
  | Some s => mkObs (negb (all_returnedb s)) (live_flushers s) O (length (flushers s))
                    (rev (map s_ops (persisted (rc s))))
                    (rev (map s_ops (filter by_user (persisted (rc s)))))
  | None => mkObs true O O O [] []
  end.

Definition model_obs_sys (c : cfg) (stall_at_tick use_reset : bool) (k : nat) (a b a2 b2 : Z) : sys_obs :=
  obs_of (run c (init [sys_prog use_reset a b a2 b2]) (sys_sched stall_at_tick k)).

(* SPECIFICATION of what EndTest must persist, for a program executed by ONE goroutine
   (program order = lock order): the wrap-around sum of the increments since the previous
   EndTest/Reset if Begin/End stamped the point in that cycle, nothing otherwise.
   Independent of the transition system above. *)
Fixpoint spec_end_samples (st : bool) (acc : Z) (p : list call) : list Z :=
  match p with
  | [] => []
  | Inc k :: r => spec_end_samples st (wrap64 (acc + k)) r
  | Begin :: r => spec_end_samples true acc r
  | End :: r => spec_end_samples true acc r
  | SetGauge _ :: r => spec_end_samples st acc r
  | EndTest :: r => (if st then [acc] else []) ++ spec_end_samples false 0 r
  | Reset :: r => spec_end_samples false 0 r
  end.

(* ---- round-robin runner for the stress programs: in every round the ticker of each
   flusher fires (if it waits), each flusher and each user takes one step if enabled ---- *)
Definition try_step (c : cfg) (s : state) (t : tid) : state :=
  match step c s t with Some s' => s' | None => s end.
(* the flushers that have not returned *)
Definition live_fl (s : state) : list nat :=
  filter (fun f => match nth_error (flushers s) f with
                   | Some fl => match f_pc fl with FDone => false | _ => true end
                   | None => false end) (seq 0 (length (flushers s))).
Definition round_tids (tick : bool) (s : state) : list tid :=
  flat_map (fun f => if tick then [Tick f; F f] else [F f]) (live_fl s) ++ map U (seq 0 (length (users s))).
(* [cnt] counts down to the next round with ticks (every 8th round) *)
Fixpoint run_rr (c : cfg) (fuel : nat) (cnt : nat) (s : state) : state :=
  match fuel with
  | O => s
  | S n => if all_returnedb s then s
           else match cnt with
                | O => run_rr c n 7%nat (fold_left (try_step c) (round_tids true s) s)
                | S m => run_rr c n m (fold_left (try_step c) (round_tids false s) s)
                end
  end.
(* let the cancelled flushers finish *)
Definition drain (c : cfg) (s : state) : state :=
  fold_left (try_step c) (flat_map (fun f => rep 6 (F f)) (live_fl s)) s.

(* ops of the samples persisted by user goroutines: with_flusher = true => exactly the
   EndTest samples; with_flusher = false (raw recorder under the synchronized wrapper) =>
   EndIteration samples too, and the last one is the closing EndTest's *)
Definition user_samples (s : state) : list Z := map s_ops (filter by_user (persisted (rc s))).  (* newest first *)

Record stress_obs := mkSObs {
  so_blocked : bool;
  so_live : nat;
  so_late : nat;
  so_overlap : nat;            (* cycles with samples of two flushers + flushers with samples in two cycles *)
  so_total : Z                 (* interval recorders: wrap-around sum of the counters persisted by
                                  EndTest; synchronized(raw): the counter persisted by the closing EndTest *)
}.
(* the harness joins the incrementing goroutines before goroutine 0 issues its [closing]
   calls (one more iteration and the closing EndTest): two phases of round-robin *)
Definition model_obs_stress (c : cfg) (fuel : nat) (progs : list (list call)) (closing : list call)
  : stress_obs :=
  let s1 := run_rr c fuel O (init progs) in
  let s2 := mkSt (upd O (mkU UIdle closing) (users s1)) (flushers s1) (mu s1) (rc s1) (lock_log s1) in
  let s := drain c (run_rr c fuel O s2) in
  mkSObs (negb (all_returnedb s1 && all_returnedb s)) (live_flushers s) O O
         (if with_flusher c then wrap64 (sumZ (user_samples s))
          else match user_samples s with x :: _ => x | [] => 0 end).

(* ====================================================================== *)
(* Oracles on the implementation's observations                            *)
(* ====================================================================== *)

Fixpoint zlist_eqb (a b : list Z) : bool :=
  match a, b with
  | [], [] => true
  | x :: r, y :: q => Z.eqb x y && zlist_eqb r q
  | _, _ => false
  end.

(* systematic run (one user goroutine executing [prog]): nothing blocked; no flusher
   goroutine left and no flusher event after the closing EndTest; exactly one flusher per
   Begin-after-reset ([cycles]); the EndTest samples are what the specification says *)
Definition c16_ok_sys (cycles : nat) (prog : list call) (o : sys_obs) : bool :=
  negb (o_blocked o) && Nat.eqb (o_live o) O && Nat.eqb (o_late o) O &&
  Nat.eqb (o_flushers o) cycles && zlist_eqb (o_end o) (spec_end_samples false 0 prog).

(* stress run: nothing blocked, no flusher left / no flusher event after the final
   EndTest, at most one flusher per cycle (none persisting outside its cycle), persisted total = sum of all increments *)
Definition c16_ok_stress (incs : list Z) (cycles flushers : nat) (o : stress_obs) : bool :=
  negb (so_blocked o) && Nat.eqb (so_live o) O && Nat.eqb (so_late o) O &&
  Nat.eqb (so_overlap o) O && Nat.leb flushers cycles && Z.eqb (so_total o) (wrap64 (sumZ incs)).

(* ====================================================================== *)
(* ---- reading the shape of the code off a lock-path table (Generated/LockPaths.v) ---- *)
From Coq Require Import String.   (* imported last: String.length/concat must not shadow List's above *)
Definition paths_of (tbl : list (string * list lock_event)) (name : string) : list (list lock_event) :=
  map snd (filter (fun p => String.eqb (fst p) name) tbl).
(* every listed function occurs in the table and all its paths satisfy [ok] *)
Definition all_paths (tbl : list (string * list lock_event)) (ok : list lock_event -> bool)
           (names : list string) : bool :=
  forallb (fun n => match paths_of tbl n with [] => false | ps => forallb ok ps end) names.

Definition worker_names : list string :=
  ["events.intervalStream.worker"; "events.intervalStream.worker/loop";
   "events.intervalHistogramStream.worker"; "events.intervalHistogramStream.worker/loop"]%string.
(* the value of the model parameter for the tree the table was read from: do all paths of
   the two flushers (whole function and single loop iteration) release the mutex? *)
Definition src_flusher_unlocks (tbl : list (string * list lock_event)) : bool :=
  all_paths tbl balanced worker_names.

Definition recorder_methods : list string :=
  ["SetID"; "SetTime"; "SetTotalDuration"; "SetDuration"; "IncOperations"; "IncIterations";
   "IncSize"; "IncError"; "SetState"; "SetWorkers"; "SetFailed"; "BeginIteration";
   "EndIteration"; "EndTest"; "Reset"]%string.
Definition recorder_types : list string :=
  ["events.intervalStream"; "events.intervalHistogramStream"; "events.syncRecorder"]%string.
(* every public method of the three recorders is, on every path, exactly Lock; ...; Unlock
   (calls of helper methods inlined) - the shape the transition system gives to a call *)
Definition src_methods_lock_unlock (tbl : list (string * list lock_event)) : bool :=
  forallb (fun t => all_paths tbl (path_eqb [Lock; Unlock])
                      (map (fun m => (t ++ "." ++ m)%string) recorder_methods)) recorder_types.

