(* metrics/json.go (validate, getSource with an InputSource, CollectJSONStream) and
   metrics/metrics.go (Validate, CollectRuntime).  Definitions only.

   What is a model and what is a parameter:
   - bufio.Scanner with ScanLines is modelled ([scan]): split at \n, one trailing
     \r dropped, a final unterminated line is a token, an empty input has no
     token, a raw line of [limit] bytes or more (before the \r is dropped, the \n
     not counted) ends the scan with ErrTooLong; [limit] is a parameter
     (bufio.MaxScanTokenSize = 65536 in Go).  A reader that fails with a non-EOF
     error after delivering the input ([rerr]) makes the scanner hand out what it
     has (the partial last line is a token) and then report the error.
   - Extended JSON is a library: [parse] maps a token to the document the library
     built or to "error".  The source goroutine sends a NEW error for a parse
     failure (errors.Errorf, not a wrapper), so its cause is never io.EOF; the
     select loop still treats an error whose cause is io.EOF like the end of the
     input, which only a reader failing with a wrapped io.EOF can now produce
     ([eofc]).
   - the two select loops are labelled transition systems; which arm fires is an
     event supplied from outside (timers, cancellation, the reader's speed are the
     environment), so "for every timing" is "for every event list".
   - the collectors are the finished models of Collector.v ([dyn], [scoll]).
   - the filesystem is not modelled: a file is the [writer] the streaming
     collector was given (no write faults); os.Create/Close never fail. *)
From Coq Require Import ZArith NArith List Bool.
From FV.Model Require Import Bytes Bson Metrics Codec Collector.
Import ListNotations.
Open Scope Z_scope.

(* ------------------------------------------------------------------ scanner *)
Definition lf : N := 10%N.
Definition cr : N := 13%N.

(* bufio.dropCR *)
Fixpoint drop_cr (l : bytes) : bytes :=
  match l with
  | [] => []
  | c :: r => match r with
              | [] => if (c =? cr)%N then [] else [c]
              | _ :: _ => c :: drop_cr r
              end
  end.

(* the raw lines of an input (what lies between the \n's; a final unterminated
   piece is a line, nothing follows a final \n) *)
Fixpoint split_lines (inp : bytes) : list bytes :=
  match inp with
  | [] => []
  | b :: r =>
      let ls := split_lines r in
      if (b =? lf)%N then [] :: ls
      else match ls with
           | [] => [[b]]
           | l :: t => (b :: l) :: t
           end
  end.

Inductive scan_end := ScanEof | ScanTooLong | ScanReadErr.

Fixpoint scan_raw (limit : N) (rerr : bool) (raws : list bytes) : list bytes * scan_end :=
  match raws with
  | [] => ([], if rerr then ScanReadErr else ScanEof)
  | l :: r =>
      if (limit <=? N.of_nat (length l))%N then ([], ScanTooLong)
      else let '(ts, e) := scan_raw limit rerr r in (drop_cr l :: ts, e)
  end.

(* the tokens Scan() delivers and how the scan ended (Scanner.Err()) *)
Definition scan (limit : N) (inp : bytes) (rerr : bool) : list bytes * scan_end :=
  scan_raw limit rerr (split_lines inp).

(* ------------------------------------------------------------------ source goroutine *)
(* bson.UnmarshalExtJSON(line, false, doc) *)
Inductive pres := PDoc (d : doc) | PBad.

(* errors that reach the [errs] channel *)
(* SRead eofc: the reader's error; eofc: its pkg/errors cause is io.EOF *)
Inductive srcerr := SParse | STooLong | SRead (eofc : bool).
(* errors.Cause(err) == io.EOF in the select loop *)
Definition src_is_eof (k : srcerr) : bool := match k with SRead e => e | _ => false end.

(* what the goroutine puts on its channels, in order: a document on [docs]
   (unbuffered: the goroutine waits until the main loop takes it) or an error on
   [errs] (capacity 2: never blocks); after the last item it closes [errs] *)
Inductive item := IDoc (d : doc) | IErr (k : srcerr).

Section Source.
Variable parse : bytes -> pres.
Variable eofc : bool.   (* see SRead *)

Fixpoint script (ls : list bytes) (e : scan_end) : list item :=
  match ls with
  | [] => match e with ScanEof => [] | ScanTooLong => [IErr STooLong] | ScanReadErr => [IErr (SRead eofc)] end
  | l :: r => match parse l with
              | PDoc d => IDoc d :: script r e
              | PBad => [IErr SParse]     (* errs <- errors.Errorf(...); return *)
              end
  end.

Definition source (limit : N) (inp : bytes) (rerr : bool) : list item :=
  let '(ls, e) := scan limit inp rerr in script ls e.
End Source.

(* CollectJSONOptions.validate (the two locals are named the wrong way round in
   the Go code; the condition is what counts) *)
Definition json_valid (has_source has_file follow : bool) : bool :=
  let both := negb has_source && negb has_file in
  let neither := has_source && has_file in
  negb (both || neither) && negb (follow && negb has_file).

(* ------------------------------------------------------------------ CollectJSONStream *)
Inductive jerr := JInvalid | JAbort | JSrc (k : srcerr) | JAdd (r : ares) | JResolve.
(* the returned pair: the bytes are [enc_stream out] *)
Inductive jres := JOk (out : list doc) | JErr (e : jerr).

Inductive jev :=
| EvDoc (now : Z)    (* case doc := <-docs  (the collector reads the clock) *)
| EvErr              (* case err := <-errs, an error value *)
| EvClosed           (* case err := <-errs, nil: the channel is closed and drained *)
| EvTimer            (* case <-flushTimer.C *)
| EvCancel.          (* case <-ctx.Done() *)

Record jstate := mkJ { j_coll : dyn; j_src : list item; j_res : option jres }.

Section Zlib.
Variable deflate : bytes -> bytes.

(* flusher() with an empty OutputFilePrefix *)
Definition j_flush (c : dyn) : jres :=
  if snd (dy_info c) =? 0 then JOk []
  else match dy_resolve deflate c with
       | Some out => JOk out
       | None => JErr JResolve
       end.

Definition j_done (s : jstate) (r : jres) : jstate := mkJ (j_coll s) (j_src s) (Some r).

(* one iteration of the select loop; None = the arm is not ready in this state *)
Definition j_step (s : jstate) (e : jev) : option jstate :=
  match j_res s with
  | Some _ => None
  | None =>
      match e with
      | EvCancel => Some (j_done s (JErr JAbort))
      | EvTimer => Some (j_done s (j_flush (j_coll s)))
      | EvDoc now =>
          match j_src s with
          | IDoc d :: r =>
              let '(c', a) := dy_add (j_coll s) d now in
              Some (mkJ c' r (match a with ROk => None | _ => Some (JErr (JAdd a)) end))
          | _ => None
          end
      | EvErr =>
          match j_src s with
          | IErr k :: r =>
              Some (mkJ (j_coll s) r (Some (if src_is_eof k then j_flush (j_coll s) else JErr (JSrc k))))
          | _ => None
          end
      | EvClosed =>
          match j_src s with
          | [] => Some (j_done s (j_flush (j_coll s)))
          | _ :: _ => None
          end
      end
  end.

Fixpoint j_run (s : jstate) (evs : list jev) : option jstate :=
  match evs with
  | [] => Some s
  | e :: r => match j_step s e with Some s' => j_run s' r | None => None end
  end.

Definition j_init (valid : bool) (n : Z) (items : list item) : jstate :=
  mkJ (dy_new n) items (if valid then None else Some (JErr JInvalid)).

(* the timer fires or the context is cancelled while the source still has
   something to deliver *)
Fixpoint j_early (timer cancel : bool) (s : jstate) (evs : list jev) : bool :=
  match evs with
  | [] => false
  | e :: r =>
      (match e, j_src s with
       | EvTimer, _ :: _ => timer
       | EvCancel, _ => cancel
       | _, _ => false
       end)
      || match j_step s e with Some s' => j_early timer cancel s' r | None => false end
  end.

(* the schedule in which neither the timer nor the context interferes *)
Fixpoint j_calm (items : list item) (nows : list Z) : list jev :=
  match items with
  | [] => [EvClosed]
  | IDoc _ :: r => EvDoc (hd 0 nows) :: j_calm r (tl nows)
  | IErr _ :: _ => [EvErr]
  end.

(* ------------------------------------------------------------------ CollectRuntime *)
Record ropts := mkRopts {
  ro_flush : Z;            (* FlushInterval, nanoseconds *)
  ro_collect : Z;          (* CollectionInterval, nanoseconds *)
  ro_samples : Z;          (* SampleCount *)
  ro_skip_go : bool; ro_skip_sys : bool; ro_skip_proc : bool;
  ro_parallel : bool; ro_ncoll : Z }.

Definition ms : Z := 1000000.

(* CollectOptions.Validate *)
Definition rt_valid (o : ropts) : bool :=
  negb (ro_flush o <? ms) && negb (ro_collect o <? ms) && negb (ro_flush o <? ro_collect o)
  && negb (ro_samples o <? 10)
  && negb (ro_skip_go o && ro_skip_proc o && ro_skip_sys o)
  && negb (ro_parallel o && (ro_ncoll o =? 0)).

Inductive rterr := RInvalid | RAdd (a : ares) | RFlushErr.
Inductive rtres := RDone | RErr (e : rterr).

Inductive rtev :=
| RvCollect (now : Z)   (* case <-collectTimer.C *)
| RvFlush               (* case <-flushTimer.C *)
| RvCancel.             (* case <-ctx.Done() *)

(* r_closed: the files prefix.0 .. prefix.(k-1), closed; r_cur: the streaming
   collector and the file prefix.k it writes to; r_id: collectCount *)
Record rstate := mkR {
  r_max : Z; r_id : Z; r_closed : list writer; r_cur : scoll * writer; r_res : option rtres }.

Definition new_file : writer := mkWriter [] [] false.
Definition new_stream (n : Z) : scoll := mkScoll n 0 (IB (bc_new n)).

Section Gen.
(* opts.generate(ctx, id) at a clock reading.  With RunParallelCollectors the
   custom collectors run in worker goroutines that are waited for, the element
   channel is closed and drained, and the document is sorted by key: generate()
   still returns one document per call, so the loop below is the same *)
Variable gen : Z -> Z -> doc.

(* flusher(): (state, no error) *)
Definition r_flusher (s : rstate) : rstate * bool :=
  let '(c, w) := r_cur s in
  if snd (in_info (sc_inner c)) =? 0 then (s, true)
  else let '(c', w', ok) := sc_flush deflate c w in
       if ok then (mkR (r_max s) (r_id s) (r_closed s ++ [w']) (new_stream (r_max s), new_file) (r_res s), true)
       else (mkR (r_max s) (r_id s) (r_closed s) (c', w') (r_res s), false).

Definition r_finish (s : rstate) (r : rtres) : rstate :=
  mkR (r_max s) (r_id s) (r_closed s) (r_cur s) (Some r).

Definition r_step (s : rstate) (e : rtev) : option rstate :=
  match r_res s with
  | Some _ => None
  | None =>
      match e with
      | RvCancel => let '(s', ok) := r_flusher s in Some (r_finish s' (if ok then RDone else RErr RFlushErr))
      | RvFlush => let '(s', ok) := r_flusher s in Some (if ok then s' else r_finish s' (RErr RFlushErr))
      | RvCollect now =>
          let '(c, w) := r_cur s in
          let '(c', w', a) := sc_add deflate c w (gen (r_id s) now) now in
          match a with
          | ROk => Some (mkR (r_max s) (r_id s + 1) (r_closed s) (c', w') None)
          | _ => Some (mkR (r_max s) (r_id s) (r_closed s) (c', w') (Some (RErr (RAdd a))))
          end
      end
  end.

Fixpoint r_run (s : rstate) (evs : list rtev) : option rstate :=
  match evs with
  | [] => Some s
  | e :: r => match r_step s e with Some s' => r_run s' r | None => None end
  end.

(* after Validate and os.Create(prefix.0); an invalid option set returns before
   any file exists *)
Definition r_init (o : ropts) : rstate :=
  if rt_valid o then mkR (ro_samples o) 0 [] (new_stream (ro_samples o), new_file) None
  else mkR (ro_samples o) 0 [] (new_stream (ro_samples o), new_file) (Some (RErr RInvalid)).

(* the files that exist, oldest first: prefix.0 .. prefix.k *)
Definition r_files (s : rstate) : list writer :=
  match r_res s with
  | Some (RErr RInvalid) => []
  | _ => r_closed s ++ [snd (r_cur s)]
  end.

(* clock readings of the collect events, i.e. one per generated sample *)
Fixpoint collect_times (evs : list rtev) : list Z :=
  match evs with
  | [] => []
  | RvCollect t :: r => t :: collect_times r
  | _ :: r => collect_times r
  end.

(* the samples generated for clock readings ts, numbered from i *)
Fixpoint gens (i : Z) (ts : list Z) : list doc :=
  match ts with
  | [] => []
  | t :: r => gen i t :: gens (i + 1) r
  end.

End Gen.
End Zlib.

(* the id of a decoded sample *)
Definition k_sample_id : bytes := [105; 100]%N.      (* "id" *)
Definition sample_id (d : doc) : option Z :=
  match lookup k_sample_id d with
  | Some (VInt64 i) => Some i
  | Some (VInt32 i) => Some i
  | _ => None
  end.

Fixpoint zseq (i : Z) (n : nat) : list Z :=
  match n with O => [] | S m => i :: zseq (i + 1) m end.
