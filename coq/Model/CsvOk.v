(* C18 oracles: the property stated on what the implementation delivered through
   its public API (the CSV text and error of WriteCSV, the files and error of
   DumpCSV, the chunks read back from ConvertFromCSV's output), given the chunk
   stream that went in.  The oracles read the delivered text with the CSV reader
   [read_all] and never call the model's writer.  Plus the functions computing
   what the model predicts for a case.  Definitions only. *)
From Coq Require Import ZArith NArith List Bool.
From FV.Model Require Import Bytes Bson Metrics Codec Collector Wf RoundTrip CollectorOk Frame Instance Csv.
Import ListNotations.

(* ------------------------------------------------------------------ the table of a stream *)
(* the integer table: one row per sample, one value per metric, chunk after chunk *)
Definition chunk_int_rows (c : chunk) : list (list Z) :=
  map (sample_row c) (seq 0 (Z.to_nat (ck_npoints c))).
Definition int_rows (cs : list chunk) : list (list Z) := flat_map chunk_int_rows cs.

Definition chunk_types (c : chunk) : list mtype := map (fun mv => m_type (fst mv)) (ck_metrics c).

Definition has_date (c : chunk) : bool :=
  existsb (fun t => match t with MDate => true | _ => false end) (chunk_types c).

(* maximal runs of consecutive chunks with the same number of metrics *)
Fixpoint group_by_count (cs : list chunk) : list (list chunk) :=
  match cs with
  | [] => []
  | c :: r =>
      match group_by_count r with
      | (c' :: g) :: gs =>
          if Nat.eqb (nmetrics c) (nmetrics c') then (c :: c' :: g) :: gs else [c] :: (c' :: g) :: gs
      | _ => [[c]]
      end
  end.

(* the chunks before the first one whose metric count differs from the first chunk's *)
Definition leading (cs : list chunk) : list chunk := hd [] (group_by_count cs).
Definition count_changes (cs : list chunk) : bool := Nat.ltb 1 (length (group_by_count cs)).

Fixpoint list_eqb {A} (eq : A -> A -> bool) (a b : list A) : bool :=
  match a, b with
  | [], [] => true
  | x :: r, y :: s => eq x y && list_eqb eq r s
  | _, _ => false
  end.

Definition keys_eqb : list bytes -> list bytes -> bool := list_eqb bytes_eqb.

(* ------------------------------------------------------------------ WriteCSV *)
(* a cell of a non-datetime column is the decimal rendering of the value; a
   datetime cell is text (not a number) *)
Definition cell_ok (t : mtype) (v : Z) (c : bytes) : bool :=
  match t with
  | MDate => match parse_int c with None => true | Some _ => false end
  | _ => bytes_eqb c (render_int v)
  end.

Fixpoint row_ok (ts : list mtype) (vs : list Z) (cells : list bytes) : bool :=
  match ts, vs, cells with
  | [], [], [] => true
  | t :: ts', v :: vs', c :: cs' => cell_ok t v c && row_ok ts' vs' cs'
  | _, _, _ => false
  end.

(* the rows expected from a list of chunks: (types, values) per sample *)
Definition expected_rows (cs : list chunk) : list (list mtype * list Z) :=
  flat_map (fun c => map (fun r => (chunk_types c, r)) (chunk_int_rows c)) cs.

Fixpoint rows_ok (exp : list (list mtype * list Z)) (rows : list (list bytes)) : bool :=
  match exp, rows with
  | [], [] => true
  | (ts, vs) :: e', r :: rows' => row_ok ts vs r && rows_ok e' rows'
  | _, _ => false
  end.

(* a record that CSV cannot show: no field, or one empty field (an empty line) *)
Definition invisible (r : list bytes) : bool :=
  match r with [] | [[]] => true | _ => false end.

(* header = the keys of the first chunk, then one row per sample of the chunks up
   to the first change of the metric count; an error exactly if there is such a
   change.  A header without any key, or with the single key "", is an empty line *)
Definition c18_ok_write (cs : list chunk) (t : text) (err : bool) : bool :=
  Bool.eqb err (count_changes cs) &&
  match cs with
  | [] => match t with [] => true | _ => false end
  | c0 :: _ =>
      match read_all t with
      | (recs, None) =>
          if Nat.eqb (nmetrics c0) 0 then match recs with [] => true | _ => false end
          else if invisible (field_names c0) then rows_ok (expected_rows (leading cs)) recs
          else match recs with
               | h :: rows => keys_eqb h (field_names c0) && rows_ok (expected_rows (leading cs)) rows
               | [] => false
               end
      | (_, Some _) => false
      end
  end.

(* ------------------------------------------------------------------ DumpCSV *)
Fixpoint files_ok (gs : list (list chunk)) (fs : list text) : bool :=
  match gs, fs with
  | [], [] => true
  | g :: gs', f :: fs' => c18_ok_write g f false && files_ok gs' fs'
  | _, _ => false
  end.

(* one file per run of equal metric count, each with its own header and exactly
   the samples of its run; no error *)
Definition c18_ok_dump (cs : list chunk) (files : list text) (err : bool) : bool :=
  negb err && files_ok (group_by_count cs) files.

(* ------------------------------------------------------------------ round trip *)
(* the streams the round-trip clause of the property speaks about: at least one
   chunk, one metric count (>= 1) and one key list throughout, no datetime column *)
Definition rt_applies (cs : list chunk) : bool :=
  match cs with
  | [] => false
  | c0 :: _ =>
      negb (Nat.eqb (nmetrics c0) 0) &&
      forallb (fun c => Nat.eqb (nmetrics c) (nmetrics c0) && keys_eqb (field_names c) (field_names c0)
                        && negb (has_date c)) cs
  end.

(* what was read back: per chunk its keys and its rows *)
Definition reread := list (list bytes * list (list Z)).

Definition zrows_eqb : list (list Z) -> list (list Z) -> bool := list_eqb (list_eqb Z.eqb).

(* no error anywhere, every chunk read back carries the original keys, and the
   rows read back are the original rows in order *)
Definition c18_ok_roundtrip (cs : list chunk) (back : reread) (conv_err read_err : bool) : bool :=
  negb (rt_applies cs) ||
  (negb conv_err && negb read_err &&
   forallb (fun kr => keys_eqb (fst kr) (field_names (hd (mkChunk [] 0 None None []) cs))) back &&
   zrows_eqb (flat_map snd back) (int_rows cs)).

(* classes in which the unchanged code is known not to meet the wording (see the
   KNOWN_FINDINGS; both are behaviour of encoding/csv): a lone empty key; a key
   containing CR LF.  The driver accepts a
   failing oracle as "known" only inside such a class AND when the implementation
   did exactly what the model predicts *)
Fixpoint has_crlf (l : bytes) : bool :=
  match l with
  | b :: ((c :: _) as r) => ((b =? 13)%N && (c =? 10)%N) || has_crlf r
  | _ => false
  end.

(* the records that survive writing and reading: visible, no CR LF inside a field *)
Definition record_ok (r : list bytes) : bool :=
  negb (invisible r) && forallb (fun f => negb (has_crlf f)) r.

Definition class_lone_empty_key (cs : list chunk) : bool :=
  existsb (fun c => match field_names c with [[]] => true | _ => false end) cs.
Definition class_key_crlf (cs : list chunk) : bool :=
  existsb (fun c => existsb has_crlf (field_names c)) cs.

(* ------------------------------------------------------------------ model observations *)
Definition chunk_view (c : chunk) : list bytes * list (list Z) := (field_names c, chunk_int_rows c).

Definition model_obs_write (cs : list chunk) : text * bool := write_csv cs.
Definition model_obs_dump (cs : list chunk) : list text := dump_csv cs.

(* ConvertFromCSV into a writer that never fails, then ReadChunks over the output *)
Definition model_obs_convert (t : text) (bucket : Z) : list chunk * bool * bool :=
  let '(docs, e) := convert_from_csv deflate_flag t bucket [] [] in
  let '(cs, re) := x_read docs in
  (cs, e, match re with Some _ => true | None => false end).

(* ConvertFromCSV into a writer whose every write fails: the returned error flag *)
Definition model_obs_convert_failing (t : text) (bucket : Z) (nfaults : nat) : bool :=
  snd (convert_from_csv deflate_flag t bucket [] (repeat FError nfaults)).
