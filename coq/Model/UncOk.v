(* C17: the uncompressed collectors (collector_uncompressed.go and their streaming /
   schema-aware wrappers of collector_streaming.go).  The model itself is
   Collector.v (ucoll, scoll/IU, sdcoll); this file holds
     - the specification machine "(records handed to the writer, pending samples,
       metadata in force)" the theorems of Props/C17.v refine to,
     - the executable oracle c17_step applied by ocaml/c17_run.ml to the
       observations made on the implementation (and, in c17_run, to the model's own
       observations),
     - views of outputs (what the harness prints) and the model's views.
   Definitions only. *)
From Coq Require Import ZArith NArith List Bool.
From FV.Model Require Import Bytes Bson Metrics Codec Collector CollectorOk Instance.
Import ListNotations.
Open Scope Z_scope.

(* ------------------------------------------------------------------ the six kinds *)
Definition unc_kind (k : kind) : bool :=
  match k with KUncB | KUncJ | KStreamUncB | KStreamUncJ | KSDynUncB | KSDynUncJ => true | _ => false end.
Definition kind_json (k : kind) : bool :=
  match k with KUncJ | KStreamUncJ | KSDynUncJ => true | _ => false end.
Definition plain_kind (k : kind) : bool := match k with KUncB | KUncJ => true | _ => false end.
Definition stream_kind (k : kind) : bool := match k with KStreamUncB | KStreamUncJ => true | _ => false end.
Definition sdyn_kind (k : kind) : bool := match k with KSDynUncB | KSDynUncJ => true | _ => false end.

(* the uncompressed collector inside a collector of these kinds *)
Definition inner_ucoll (i : inner) : option ucoll := match i with IU u => Some u | IB _ => None end.
Definition coll_ucoll (c : coll) : option ucoll :=
  match c with
  | CUnc u => Some u
  | CStream s => inner_ucoll (sc_inner s)
  | CSDyn c => inner_ucoll (sc_inner (sd_s c))
  | _ => None
  end.
(* accepted, not yet flushed / discarded samples; metadata in force *)
Definition pend (c : coll) : list doc := match coll_ucoll c with Some u => uc_samples u | None => [] end.
Definition cmeta (c : coll) : option doc := match coll_ucoll c with Some u => uc_meta u | None => None end.
Definition cjson (c : coll) : option bool := match coll_ucoll c with Some u => Some (uc_json u) | None => None end.

(* the metadata document as the head of an output *)
Definition mh {A} (m : option A) : list A := match m with Some x => [x] | None => [] end.

(* the output a writer record carries *)
Definition wrec_outp (r : wrec) : outp := match r with WFull o => o | WPart _ o => o end.

(* ------------------------------------------------------------------ specification machine
   One writer record as the specification sees it: the metadata in force when it
   was written, the samples handed over, and None if the write was acknowledged
   (Some n: the writer consumed n bytes and failed). *)
Record grec := mkGrec { gr_meta : option doc; gr_samples : list doc; gr_part : option nat }.

Definition wrec_of (j : bool) (r : grec) : wrec :=
  let o := ODocs j (mh (gr_meta r) ++ gr_samples r) in
  match gr_part r with None => WFull o | Some n => WPart n o end.

(* the samples a record made durable *)
Definition gr_durable (r : grec) : list doc := match gr_part r with None => gr_samples r | Some _ => [] end.

Record aspec := mkAspec { a_recs : list grec; a_pend : list doc; a_meta : option doc }.
Definition aspec0 : aspec := mkAspec [] [] None.

(* accepted and not discarded, oldest first: durable ++ pending *)
Definition a_total (a : aspec) : list doc := flat_map gr_durable (a_recs a) ++ a_pend a.

(* what happened at the writer during one operation (an observation of the writer) *)
Inductive wev := WNone | WDone | WShort (n : nat).
Definition wev_of (w w' : writer) : wev :=
  match skipn (length (w_log w)) (w_log w') with
  | [] => WNone
  | WFull _ :: _ => WDone
  | WPart n _ :: _ => WShort n
  end.

(* a completed write moves all pending samples into a record; a failed one
   leaves them pending *)
Definition spec_flush (a : aspec) (e : wev) : aspec :=
  match e with
  | WNone => a
  | WDone => mkAspec (a_recs a ++ [mkGrec (a_meta a) (a_pend a) None]) [] (a_meta a)
  | WShort n => mkAspec (a_recs a ++ [mkGrec (a_meta a) (a_pend a) (Some n)]) (a_pend a) (a_meta a)
  end.

(* a sample becomes pending exactly when its Add returns no error; Reset discards
   exactly the pending samples; nothing else touches them *)
Definition spec_op (a : aspec) (o : op) (b : obs) : aspec :=
  match o, b with
  | OAdd d _, BAdd ROk => mkAspec (a_recs a) (a_pend a ++ [d]) (a_meta a)
  | OReset, _ => mkAspec (a_recs a) [] (a_meta a)
  | OSetMeta m, _ => mkAspec (a_recs a) (a_pend a) m
  | _, _ => a
  end.

(* writes happen before the operation's own effect (flush-before-add) *)
Definition spec_step (a : aspec) (o : op) (b : obs) (e : wev) : aspec := spec_op (spec_flush a e) o b.

(* what Resolve must return in a specification state *)
Definition spec_resolve (j : bool) (a : aspec) : option outp :=
  match a_pend a with [] => None | _ => Some (ODocs j (mh (a_meta a) ++ a_pend a)) end.

(* the model refines the specification state: the writer log is the rendering of
   the records, the collector holds exactly the pending samples and the metadata *)
Definition refines (j : bool) (st : coll * writer) (a : aspec) : Prop :=
  w_log (snd st) = map (wrec_of j) (a_recs a) /\ pend (fst st) = a_pend a /\ cmeta (fst st) = a_meta a.

(* every record holds between 1 and n samples *)
Definition recs_bounded (n : Z) (a : aspec) : Prop :=
  Forall (fun r => gr_samples r <> [] /\ Z.of_nat (length (gr_samples r)) <= n) (a_recs a).

(* all samples of a group have one metric signature (hash and metric count) *)
Definition one_schema (g : list doc) : Prop := forall x y, In x g -> In y g -> schema_sig x = schema_sig y.
Definition recs_unmixed (a : aspec) : Prop := Forall (fun r => one_schema (gr_samples r)) (a_recs a).

(* the log changed according to event e with payload p *)
Definition log_ev (w w' : writer) (p : outp) (e : wev) : Prop :=
  match e with
  | WNone => w_log w' = w_log w
  | WDone => w_log w' = w_log w ++ [WFull p]
  | WShort n => w_log w' = w_log w ++ [WPart n p]
  end.

(* the next write will be acknowledged *)
Definition next_write_ok (w : writer) : Prop := match w_faults w with [] | FNone :: _ => True | _ => False end.

(* the exact outcome of uncompressedCollector.Add *)
Definition uc_add_res (u : ucoll) (d : doc) : ares :=
  if negb (uc_mcount u =? 0) && negb (Z.of_nat (length d) =? uc_mcount u) then RCount
  else if uc_batch u <=? Z.of_nat (length (uc_samples u)) then RFull else ROk.

(* streamingDynamicCollector.Add's schema test *)
Definition sd_changed (c : sdcoll) (d : doc) : bool :=
  match sd_hash c with
  | None => true
  | Some h => negb (sd_mcount c =? snd (schema_sig d)) || negb (bytes_eqb h (fst (schema_sig d)))
  end.

(* the outputs of a schema-aware kind for a pure Add sequence: greedy groups, a new
   one whenever the metric signature differs from the current group's or the
   group holds n samples (the documents themselves, not only their sizes) *)
Definition sig_eqb (a b : bytes * Z) : bool := bytes_eqb (fst a) (fst b) && (snd a =? snd b).
Fixpoint groups_from (n : Z) (cur : list doc) (docs : list doc) : list (list doc) :=
  match docs with
  | [] => match cur with [] => [] | _ => [cur] end
  | d :: r =>
      match cur with
      | [] => groups_from n [d] r
      | c0 :: _ =>
          if sig_eqb (schema_sig c0) (schema_sig d) && (Z.of_nat (length cur) <? n)
          then groups_from n (cur ++ [d]) r
          else cur :: groups_from n [d] r
      end
  end.

Section Zlib.
Variable deflate : bytes -> bytes.

(* model and specification running side by side; the specification only sees
   the operation, its observation and the writer event *)
Fixpoint spec_trace (st : coll * writer) (a : aspec) (ops : list op) : (coll * writer) * aspec :=
  match ops with
  | [] => (st, a)
  | o :: r => let '(st', b) := step deflate st o in
              spec_trace st' (spec_step a o b (wev_of (snd st) (snd st'))) r
  end.

Definition init_state (k : kind) (n : Z) (fs : list fault) : coll * writer := (new_coll k n, mkWriter [] fs false).

(* states reachable by some history *)
Definition reachable (k : kind) (n : Z) (st : coll * writer) : Prop :=
  exists fs ops, fst (run deflate (init_state k n fs) ops) = st.

End Zlib.

(* ------------------------------------------------------------------ views of outputs
   What the harness prints for one output (a Resolve result or one writer record):
     VDocs   "d:"  a sequence of BSON documents (+ trailing bytes that are no document)
     VText   "j:"  raw text, and for every '\n'-separated line the document obtained
                   by parsing the line back with the library (None: unparseable)
     VFtdc   "b:"  compressed FTDC (sniffed: first document has _id/type/...)
     VPartial      a writer record of a failed write (bytes of a payload prefix)
     VBad          BSON the model's decoder does not accept *)
Inductive oview :=
| VDocs (ds : list doc) (trail : bool)
| VText (text : bytes) (parsed : list (option doc))
| VFtdc
| VPartial
| VBad.

(* complete lines (without their '\n') and the unterminated rest *)
Fixpoint split_lines (l : bytes) : list bytes * bytes :=
  match l with
  | [] => ([], [])
  | b :: r =>
      let '(ls, rest) := split_lines r in
      if (b =? 10)%N then ([] :: ls, rest)
      else match ls with
           | [] => ([], b :: rest)
           | l0 :: ls' => ((b :: l0) :: ls', rest)
           end
  end.

(* a sample: the document and the library's relaxed Extended-JSON text of it,
   computed by the harness when the document is generated ([] for BSON kinds) *)
Definition sample := (doc * bytes)%type.

(* documents whose relaxed Extended JSON parses back to the very same BSON:
   int64 outside the int32 range (smaller ones come back as int32), doubles that
   are not NaN (payload lost), no decimal128, no old-style binary, ASCII text *)
Definition ascii (s : bytes) : bool := forallb (fun b => (b <? 128)%N) s.
Definition is_nan (bits : Z) : bool :=
  let u := bits mod 2 ^ 64 in ((u / 2 ^ 52) mod 2 ^ 11 =? 2047) && negb (u mod 2 ^ 52 =? 0).
Fixpoint json_stable_v (v : value) : bool :=
  let elems := fix go (l : list (bytes * value)) : bool :=
    match l with [] => true | (k, x) :: r => ascii k && json_stable_v x && go r end in
  match v with
  | VDouble b => negb (is_nan b)
  | VString s => ascii s
  | VDoc d => elems d
  | VArr a => (fix go (l : list value) : bool := match l with [] => true | x :: r => json_stable_v x && go r end) a
  | VBinary st _ => negb (st =? 2)%N
  | VInt64 i => negb (in_i32 i)
  | VDecimal128 _ => false
  | VRegex p o => ascii p && ascii o
  | VDBPointer ns _ => ascii ns
  | VJavaScript s => ascii s
  | VSymbol s => ascii s
  | VCodeWithScope code scope => ascii code && elems scope
  | _ => true
  end.
Fixpoint json_stable (d : doc) : bool :=
  match d with [] => true | (k, x) :: r => ascii k && json_stable_v x && json_stable r end.

Fixpoint lines_eqb (a b : list bytes) : bool :=
  match a, b with
  | [], [] => true
  | x :: r, y :: s => bytes_eqb x y && lines_eqb r s
  | _, _ => false
  end.

(* every line parsed, and a stable document came back as itself *)
Fixpoint parsed_ok (ps : list (option doc)) (ds : list doc) : bool :=
  match ps, ds with
  | [], [] => true
  | Some p :: r, d :: s => (if json_stable d then doc_eqb p d else true) && parsed_ok r s
  | _, _ => false
  end.

Inductive viol :=
| XFlavour        (* output not in the flavour the collector was constructed with *)
| XTrailing       (* bytes that are no document / text after the last newline *)
| XContent        (* documents or lines differ from metadata ++ samples *)
| XUnparseable    (* a JSON line does not parse back (or not to the sample) *)
| XBatch          (* more than n samples in one output *)
| XEmpty          (* an output without samples *)
| XMissing        (* Resolve fails although samples are pending *)
| XInfo           (* Info().SampleCount differs from the pending samples *)
| XRewritten.     (* an earlier writer record changed *)

(* one output against the expected metadata ++ samples *)
Definition check_out (j : bool) (exp : list sample) (v : oview) : list viol :=
  match v with
  | VFtdc => [XFlavour]
  | VBad => [XContent]
  | VPartial => [XContent]
  | VDocs ds trail =>
      if j then [XFlavour]
      else (if trail then [XTrailing] else []) ++ (if docs_eqb ds (map fst exp) then [] else [XContent])
  | VText text parsed =>
      if negb j then [XFlavour]
      else let '(lines, rest) := split_lines text in
           (match rest with [] => [] | _ => [XTrailing] end) ++
           (if lines_eqb lines (map snd exp) then [] else [XContent]) ++
           (if parsed_ok parsed (map fst exp) then [] else [XUnparseable])
  end.

Definition view_count (v : oview) : nat :=
  match v with
  | VDocs ds _ => length ds
  | VText text _ => length (fst (split_lines text))
  | _ => 0%nat
  end.

(* oracle state: the accepted-and-not-discarded samples, how many of them are
   durable, the expected content of every writer record seen so far (None: failed
   write), the metadata in force *)
Record ost := mkOst { o_total : list sample; o_dur : nat; o_recs : list (option (list sample)); o_meta : option sample }.
Definition ost0 : ost := mkOst [] 0 [] None.

Fixpoint check_olds (j : bool) (recs : list (option (list sample))) (vs : list oview) : list viol :=
  match recs, vs with
  | [], _ => []
  | _ :: _, [] => [XRewritten]
  | r :: rs, v :: vs' =>
      (match r, v with
       | None, VPartial => []
       | Some exp, _ => match check_out j exp v with [] => [] | _ => [XRewritten] end
       | None, _ => [XRewritten]
       end) ++ check_olds j rs vs'
  end.

(* new writer records: each complete one must be metadata ++ the next samples
   that are not yet durable, between 1 and n of them *)
Fixpoint check_news (j : bool) (n : Z) (mhead : list sample) (total : list sample)
         (dur : nat) (recs : list (option (list sample))) (news : list oview)
  : nat * list (option (list sample)) * list viol :=
  match news with
  | [] => (dur, recs, [])
  | VPartial :: r => check_news j n mhead total dur (recs ++ [None]) r
  | v :: r =>
      let k := (view_count v - length mhead)%nat in
      let exp := mhead ++ firstn k (skipn dur total) in
      let vs := check_out j exp v ++ (if (k =? 0)%nat then [XEmpty] else []) ++
                (if Z.of_nat k <=? n then [] else [XBatch]) in
      let '(dur', recs', vs') := check_news j n mhead total (dur + k)%nat (recs ++ [Some exp]) r in
      (dur', recs', vs ++ vs')
  end.

(* C17 on one operation: k the kind of operation, okflag its success (Add: no
   error; SetMetadata: no error), x the input document (Add, SetMetadata), wv
   the whole writer log, rv Resolve's result and info Info().SampleCount, all
   observed after the operation *)
Definition c17_total1 (s : ost) (k : opk) (okflag : bool) (x : sample) : list sample :=
  match k with
  | KAdd => if okflag then o_total s ++ [x] else o_total s
  | KReset => firstn (o_dur s) (o_total s)
  | _ => o_total s
  end.
Definition c17_meta1 (s : ost) (k : opk) (okflag : bool) (x : sample) : option sample :=
  match k with KSetMeta => if okflag then Some x else o_meta s | _ => o_meta s end.

Definition c17_core (j : bool) (n : Z) (s : ost) (total1 : list sample) (meta' : option sample)
           (wv : list oview) (rv : option oview) (info : Z) : ost * list viol :=
  let v_old := check_olds j (o_recs s) wv in
  let '(dur', recs', v_new) :=
    check_news j n (mh (o_meta s)) total1 (o_dur s) (o_recs s) (skipn (length (o_recs s)) wv) in
  let pending := skipn dur' total1 in
  let v_res := match rv with
               | None => match pending with [] => [] | _ => [XMissing] end
               | Some v => (match pending with [] => [XEmpty] | _ => [] end) ++
                           check_out j (mh meta' ++ pending) v ++
                           (if Z.of_nat (length pending) <=? n then [] else [XBatch])
               end in
  let v_info := if info =? Z.of_nat (length pending) then [] else [XInfo] in
  (mkOst total1 dur' recs' meta', v_old ++ v_new ++ v_res ++ v_info).

Definition c17_step (j : bool) (n : Z) (s : ost) (k : opk) (okflag : bool) (x : sample)
           (wv : list oview) (rv : option oview) (info : Z) : ost * list viol :=
  c17_core j n s (c17_total1 s k okflag x) (c17_meta1 s k okflag x) wv rv info.

(* ------------------------------------------------------------------ the model's own views *)
Section Render.
(* the library's rendering of one document as a line of relaxed Extended JSON *)
Variable render : doc -> bytes.

Definition smp (d : doc) : sample := (d, render d).

Definition view_of (o : outp) : oview :=
  match o with
  | OFtdc _ => VFtdc
  | ODocs false ds => VDocs ds false
  | ODocs true ds => VText (flat_map (fun d => render d ++ [10%N]) ds) (map Some ds)
  end.
Definition view_of_rec (r : wrec) : oview := match r with WFull o => view_of o | WPart _ _ => VPartial end.

Definition op_sample (o : op) : sample :=
  match o with OAdd d _ => smp d | OSetMeta (Some m) => smp m | _ => ([], []) end.
Definition op_okflag (o : op) (b : obs) : bool :=
  match o with OSetMeta (Some _) => true | OSetMeta None => false | _ => obs_add_ok b end.

Variable deflate : bytes -> bytes.

(* the oracle applied to the model's observations along a history *)
Fixpoint c17_run_from (j : bool) (n : Z) (st : coll * writer) (s : ost) (ops : list op) : bool :=
  match ops with
  | [] => true
  | o :: r =>
      let '(st', b) := step deflate st o in
      let '(s', vs) := c17_step j n s (opk_of o) (op_okflag o b) (op_sample o)
                                (map view_of_rec (w_log (snd st')))
                                (option_map view_of (c_resolve deflate (fst st')))
                                (snd (c_info (fst st'))) in
      match vs with [] => c17_run_from j n st' s' r | _ => false end
  end.

Definition c17_run (k : kind) (n : Z) (fs : list fault) (ops : list op) : bool :=
  c17_run_from (kind_json k) n (new_coll k n, mkWriter [] fs false) ost0 ops.

End Render.

(* executable instance (trivial zlib, rendering by a table supplied by the driver) *)
Definition x_c17_run (render : doc -> bytes) := c17_run render deflate_flag.
