(* The FTDC chunk codec: collector_better.go (Add / Resolve / getPayload),
   util.go (compressBuffer, undelta), read.go (readChunks).
   zlib is a parameter: [deflate] / [inflate]; [inflate z = None] models
   zlib.NewReader rejecting the stream header, [Some p] the bytes the reader
   yields before it ends (cleanly or not).  Definitions only. *)
From Coq Require Import ZArith NArith List Bool.
From FV.Model Require Import Bytes Bson Metrics.
Import ListNotations.
Open Scope Z_scope.

(* ------------------------------------------------------------------ keys *)
Definition k_id   : bytes := [95; 105; 100]%N.            (* "_id"  *)
Definition k_type : bytes := [116; 121; 112; 101]%N.      (* "type" *)
Definition k_data : bytes := [100; 97; 116; 97]%N.        (* "data" *)
Definition k_doc  : bytes := [100; 111; 99]%N.            (* "doc"  *)

(* ------------------------------------------------------------------ deltas *)
(* extractDelta over a whole sample: current - previous, int64 wrap-around *)
Fixpoint delta_row (cur prev : list (mtype * Z)) : list Z :=
  match cur, prev with
  | (_, c) :: r1, (_, p) :: r2 => wrap64 (c - p) :: delta_row r1 r2
  | _, _ => []
  end.

(* first index at which the types differ *)
Fixpoint types_agree (cur prev : list (mtype * Z)) : bool :=
  match cur, prev with
  | (t1, _) :: r1, (t2, _) :: r2 => mtype_eqb t1 t2 && types_agree r1 r2
  | [], [] => true
  | _, _ => false
  end.

(* metric-major order: for i < nmetrics, for j < nsamples: rows[j][i] *)
Definition column (i : nat) (rows : list (list Z)) : list Z := map (fun row => nth i row 0) rows.
Definition metric_major (n : nat) (rows : list (list Z)) : list Z :=
  flat_map (fun i => column i rows) (seq 0 n).

(* zero run-length + varint: the zero count is carried across metric boundaries
   and flushed before the next non-zero delta or at the end *)
Definition flush_zeros (zc : N) : bytes :=
  if (zc =? 0)%N then [] else uvarint_enc 0 ++ uvarint_enc (zc - 1)%N.

Fixpoint rle (zc : N) (ds : list Z) : bytes :=
  match ds with
  | [] => flush_zeros zc
  | d :: r => if d =? 0 then rle (zc + 1)%N r
              else flush_zeros zc ++ uvarint_enc (u64 d) ++ rle 0%N r
  end.

(* undelta: out[0] = start, out[i+1] = out[i] + delta (int64 wrap-around) *)
Fixpoint undelta (start : Z) (ds : list Z) : list Z :=
  start :: match ds with [] => [] | d :: r => undelta (wrap64 (start + d)) r end.

(* ------------------------------------------------------------------ collector state *)
Record bcoll := mkBcoll {
  bc_meta : option doc;
  bc_ref : option doc;
  bc_started : Z;                 (* startedAt, milliseconds *)
  bc_last : list (mtype * Z);     (* lastSample *)
  bc_rows : list (list Z);        (* committed delta rows, oldest first *)
  bc_max : Z                      (* maxDeltas *)
}.

Definition bc_new (max : Z) : bcoll := mkBcoll None None 0 [] [] max.

Inductive add_res := AddOk | AddFull | AddCount | AddTypes.

Definition bc_add (st : bcoll) (d : doc) (now : Z) : bcoll * add_res :=
  match bc_ref st with
  | None =>
      let started := match first_ts_doc d with TsAt t => t | _ => now end in
      (mkBcoll (bc_meta st) (Some d) started (flatten_doc d) [] (bc_max st), AddOk)
  | Some _ =>
      if bc_max st <=? Z.of_nat (length (bc_rows st)) then (st, AddFull)
      else let m := flatten_doc d in
           if negb (Nat.eqb (length m) (length (bc_last st))) then (st, AddCount)
           else if negb (types_agree m (bc_last st)) then (st, AddTypes)
           else (mkBcoll (bc_meta st) (bc_ref st) (bc_started st) m
                         (bc_rows st ++ [delta_row m (bc_last st)]) (bc_max st), AddOk)
  end.

Definition bc_reset (st : bcoll) : bcoll :=
  mkBcoll (bc_meta st) None (bc_started st) [] [] (bc_max st).

Definition bc_set_meta (st : bcoll) (m : option doc) : bcoll :=
  mkBcoll m (bc_ref st) (bc_started st) (bc_last st) (bc_rows st) (bc_max st).

(* Info(): (MetricsCount, SampleCount) *)
Definition bc_info (st : bcoll) : Z * Z :=
  (Z.of_nat (length (bc_last st)),
   (match bc_ref st with Some _ => 1 | None => 0 end) + Z.of_nat (length (bc_rows st))).

Definition enc_stream (ds : list doc) : bytes := concat (map enc_doc ds).

Section Zlib.
Variable deflate : bytes -> bytes.
Variable inflate : bytes -> option bytes.

(* getPayload before compression *)
Definition payload (ref : doc) (nmetrics : nat) (rows : list (list Z)) : bytes :=
  enc_doc ref ++ le_enc 4 (N.of_nat nmetrics mod 2 ^ 32) ++ le_enc 4 (N.of_nat (length rows) mod 2 ^ 32)
  ++ rle 0%N (metric_major nmetrics rows).

(* compressBuffer: uncompressed length (uint32) then the zlib stream *)
Definition compress (p : bytes) : bytes := le_enc 4 (N.of_nat (length p) mod 2 ^ 32) ++ deflate p.

Definition meta_doc (started : Z) (m : doc) : doc :=
  [(k_id, VDateTime started); (k_type, VInt32 0); (k_doc, VDoc m)].
Definition chunk_doc (started : Z) (data : bytes) : doc :=
  [(k_id, VDateTime started); (k_type, VInt32 1); (k_data, VBinary 0%N data)].

(* Resolve: None = "no reference document"; the result is the sequence of outer
   documents (optional metadata document, chunk document); the bytes returned by
   the Go code are their concatenated encodings [enc_stream] *)
Definition bc_resolve (st : bcoll) : option (list doc) :=
  match bc_ref st with
  | None => None
  | Some ref =>
      let data := compress (payload ref (length (bc_last st)) (bc_rows st)) in
      Some ((match bc_meta st with
             | Some m => [meta_doc (bc_started st) m]
             | None => [] end) ++ [chunk_doc (bc_started st) data])
  end.

(* ------------------------------------------------------------------ reader *)
Record chunk := mkChunk {
  ck_metrics : list (metric * list Z);   (* metric, its values (nPoints of them) *)
  ck_npoints : Z;
  ck_id : option Z;
  ck_meta : option doc;
  ck_ref : doc
}.

Inductive rerr :=
| ENoData        (* "data is not populated" *)
| EZlibHeader    (* zlib.NewReader failed *)
| ERefDoc        (* reference document unreadable *)
| EShortCounts   (* fewer than 8 bytes after the reference document *)
| EMismatch      (* nmetrics <> metrics in the reference document *)
| EVarint        (* stream ended / overflow inside the delta section *)
| EBadData       (* data field not a binary value, or shorter than its 4-byte length prefix *)
| EHuge.         (* nmetrics*ndeltas beyond the model's cap (allocation bomb) *)

(* isNum(n, v) from util.go: int32/int64 equal, or double == float64(n);
   doubles are bit patterns: 0.0, -0.0 and 1.0 *)
Definition is_num (n : Z) (v : option value) : bool :=
  match v with
  | Some (VInt32 i) => i =? n
  | Some (VInt64 i) => i =? n
  | Some (VDouble b) => if n =? 0 then (b =? 0) || (b =? - 2 ^ 63)
                        else if n =? 1 then b =? 4607182418800017408 else false
  | _ => false
  end.

(* the nzeroes loop over all nmetrics*ndeltas positions, metric-major *)
Fixpoint read_deltas (cnt : nat) (nz : N) (l : bytes) : option (list Z * bytes) :=
  match cnt with
  | O => Some ([], l)
  | S c =>
      if (nz =? 0)%N then
        match uvarint_dec l with
        | VOk d r =>
            if (d =? 0)%N then
              match uvarint_dec r with
              | VOk z r' => match read_deltas c z r' with
                            | Some (ds, r'') => Some (0 :: ds, r'') | None => None end
              | _ => None
              end
            else match read_deltas c 0%N r with
                 | Some (ds, r') => Some (s64 d :: ds, r') | None => None end
        | _ => None
        end
      else match read_deltas c (nz - 1)%N l with
           | Some (ds, r) => Some (0 :: ds, r) | None => None end
  end.

(* cut a flat metric-major list into per-metric lists of n deltas *)
Fixpoint split_every (n : nat) (k : nat) (l : list Z) : list (list Z) :=
  match k with
  | O => []
  | S k' => firstn n l :: split_every n k' (skipn n l)
  end.

Definition delta_cap : N := 200000%N.

(* [cap]: the Go code allocates nmetrics*ndeltas words whatever their number; the
   executable instance of the model refuses absurd products (Some cap) instead of
   building a unary number of that size; the theorems are about [None] *)
Definition read_chunk_gen (cap : option N) (meta : option doc) (d : doc) : chunk + rerr :=
  match lookup k_data d with
  | None => inr ENoData
  | Some (VBinary _ zb) =>
      if Nat.ltb (length zb) 4 then inr EBadData else
      match inflate (skipn 4 zb) with
      | None => inr EZlibHeader
      | Some p =>
          match dec_doc p with
          | None => inr ERefDoc
          | Some (ref, r1) =>
              match take_exact 8 r1 with
              | None => inr EShortCounts
              | Some (w, r2) =>
                  let nmetrics := le_dec (firstn 4 w) in
                  let ndeltas := le_dec (skipn 4 w) in
                  let ms := metrics_of_doc [] ref in
                  if negb (nmetrics =? N.of_nat (length ms))%N then inr EMismatch
                  else if (match cap with Some c => (c <? nmetrics * ndeltas)%N | None => false end) then inr EHuge
                  else
                    match read_deltas (N.to_nat (nmetrics * ndeltas)) 0%N r2 with
                    | None => inr EVarint
                    | Some (ds, _) =>
                        let cols := split_every (N.to_nat ndeltas) (length ms) ds in
                        inl (mkChunk (map (fun mc => (fst mc, undelta (m_start (fst mc)) (snd mc)))
                                          (combine ms cols))
                                     (Z.of_N ndeltas + 1)
                                     (match lookup k_id d with Some (VDateTime t) => Some t | _ => None end)
                                     meta ref)
                    end
              end
          end
      end
  | Some _ => inr EBadData
  end.

(* readChunks over the sequence of outer documents: type 0 = metadata (kept for
   later chunks), type 1 = chunk, anything else skipped; stops at the first error *)
Fixpoint read_chunks_gen (cap : option N) (meta : option doc) (ds : list doc) : list chunk * option rerr :=
  match ds with
  | [] => ([], None)
  | d :: r =>
      let ty := lookup k_type d in
      if is_num 0 ty then read_chunks_gen cap (Some d) r
      else if negb (is_num 1 ty) then read_chunks_gen cap meta r
      else match read_chunk_gen cap meta d with
           | inl c => let '(cs, e) := read_chunks_gen cap meta r in (c :: cs, e)
           | inr e => ([], Some e)
           end
  end.

Definition read_chunk := read_chunk_gen None.
Definition read_chunks := read_chunks_gen None.

(* ------------------------------------------------------------------ views *)
(* the row of sample i: one value per metric *)
Definition sample_row (c : chunk) (i : nat) : list Z :=
  map (fun mv => nth i (snd mv) 0) (ck_metrics c).

(* Chunk.StructuredIterator / ReadStructuredMetrics: restoreDocument per sample *)
Definition structured_docs (c : chunk) : list (option doc) :=
  map (fun i => match restore_doc (ck_ref c) (sample_row c i) with
                | Some (d, _) => Some d | None => None end)
      (seq 0 (Z.to_nat (ck_npoints c))).

(* Chunk.Iterator / ReadMetrics: flattened documents *)
Definition flat_docs (c : chunk) : list doc :=
  map (fun i => map (fun mv => (metric_key (fst mv), restore_flat (m_type (fst mv)) (nth i (snd mv) 0)))
                    (ck_metrics c))
      (seq 0 (Z.to_nat (ck_npoints c))).

End Zlib.
