(* The model instantiated for execution: zlib is replaced by a trivially
   invertible codec (flag byte 1 + raw payload; flag 0 = header rejected).  The
   harness rewrites the implementation's streams into this codec with an
   inflater that is independent of the code under test (DESIGN.md section 5/6). *)
From Coq Require Import ZArith NArith List Bool.
From FV.Model Require Import Bytes Bson Metrics Codec Collector Wf RoundTrip CollectorOk Frame.
Import ListNotations.
Open Scope Z_scope.

Definition deflate_flag (p : bytes) : bytes := 1%N :: p.
Definition inflate_flag (z : bytes) : option bytes :=
  match z with
  | b :: p => if (b =? 1)%N then Some p else None
  | [] => None
  end.

Definition x_new := new_coll.
Definition x_step := step deflate_flag.
Definition x_read (ds : list doc) := read_chunks_gen inflate_flag (Some delta_cap) None ds.
Definition x_structured := structured_docs.
Definition x_flat := flat_docs.
Definition empty_writer (fs : list fault) : writer := mkWriter [] fs false.

(* ---- _id normalisation: a chunk whose reference document has no datetime leaf
   takes its _id from the wall clock; such _ids (and that of the metadata
   document written together with the chunk) are zeroed on both sides ---- *)
Definition set_id0 (d : doc) : doc :=
  map (fun kv => if bytes_eqb (fst kv) k_id then (fst kv, VDateTime 0) else kv) d.

Definition chunk_ref (d : doc) : option doc :=
  match lookup k_data d with
  | Some (VBinary _ zb) =>
      match inflate_flag (skipn 4 zb) with
      | Some p => match dec_doc p with Some (ref, _) => Some ref | None => None end
      | None => None
      end
  | _ => None
  end.

Definition clockless (d : doc) : bool :=
  is_num 1 (lookup k_type d) &&
  match chunk_ref d with
  | Some ref => match first_ts_doc ref with TsAt _ => false | _ => true end
  | None => false
  end.

Fixpoint norm_ids (ds : list doc) : list doc :=
  match ds with
  | [] => []
  | d :: r =>
      let r' := norm_ids r in
      if is_num 0 (lookup k_type d)
      then (match r with c :: _ => if clockless c then set_id0 d else d | [] => d end) :: r'
      else (if clockless d then set_id0 d else d) :: r'
  end.

(* ---- C01 oracle: the decoded structured documents are the inputs with their
   non-metric leaves removed.  A timestamp leaf with non-zero seconds is the
   class of a known finding (decoder multiplies the seconds by 1000). ---- *)
Definition c01_ok (inputs decoded : list doc) : bool := docs_eqb (map strip_doc inputs) decoded.

Definition x_structured_all (cs : list chunk) : option (list doc) :=
  all_some (flat_map structured_docs cs).
Definition x_flat_all (cs : list chunk) : list doc := flat_map flat_docs cs.

(* oracles with the trivial codec *)
Definition x_decode_ftdc := decode_ftdc inflate_flag (Some delta_cap).
Definition x_c07_run := c07_run deflate_flag inflate_flag (Some delta_cap).

(* byte-level reader with the evaluation cap; the third component tells that the
   model declined to expand a chunk larger than that cap (the driver skips the case) *)
Definition x_read_stream (bs : bytes) : list chunk * bool * bool :=
  let '(docs, fe) := read_docs bs in
  let '(cs, ce) := read_chunks_b inflate_flag reader_limit (Some delta_cap) None docs in
  (cs, match fe, ce with None, None => false | _, _ => true end,
   match ce with Some EHuge => true | _ => false end).
