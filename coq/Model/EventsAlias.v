(* The caller writes to an event object it handed over earlier and hands it over again (the everyday loop that re-uses
   one *Performance). The cumulative and sampling collectors keep the FIRST object they were given as their accumulator
   (c.current = in), so that write lands on the running totals. Definitions only. *)
From Coq Require Import ZArith List Bool.
From FV.Model Require Import Events.
Import ListNotations.
Open Scope Z_scope.

(* *ev_i = p *)
Definition caller_write (s : state) (i : nat) (p : perf) : state :=
  mkState (upd (s_store s) i (fun _ => p)) (s_current s) (s_count s).

(* *ev_i = p; AddEvent(ev_i) *)
Definition step_write (k : kind) (s : state) (i : nat) (p : perf) : state * obs :=
  step k (caller_write s i p) (EvAgain i).
