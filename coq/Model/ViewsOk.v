(* C02 oracle: every reader view of a stream is a projection of ONE table per
   chunk, and that table is the specification table of the input documents the
   chunk holds.  Stated on the implementation's observations (chunk view, the
   flattened / structured / matrix / series documents it delivered) and the
   accepted input documents only; nothing here calls the model's reader.
   Definitions only. *)
From Coq Require Import ZArith NArith List Bool.
From FV.Model Require Import Bytes Bson Metrics Codec Collector Wf RoundTrip CollectorOk Views.
Import ListNotations.
Open Scope Z_scope.

(* ------------------------------------------------------------------ the key specification *)
(* the path of every metric leaf: all enclosing field names and decimal array
   indices from the root, in document order; a timestamp leaf has two (the second
   one ends in "inc").  Same text as Proofs/MetricsProofs.leaf_paths (proved equal
   in Proofs/ViewsProofs.v); it lives here so that it can be extracted. *)
Definition seg_inc : bytes := [105; 110; 99]%N.   (* "inc" *)
Fixpoint lpaths (path : list bytes) (v : value) : list (list bytes) :=
  match v with
  | VArr a => (fix go (i : N) (l : list value) := match l with [] => [] | x :: r => lpaths (path ++ [dec_digits i]) x ++ go (i + 1)%N r end) 0%N a
  | VDoc d => (fix go (l : list (bytes * value)) := match l with [] => [] | (k, x) :: r => lpaths (path ++ [k]) x ++ go r end) d
  | VBool _ | VDouble _ | VInt32 _ | VInt64 _ | VDateTime _ => [path]
  | VTimestamp _ _ => [path; path ++ [seg_inc]]
  | _ => []
  end.
Fixpoint lpaths_doc (path : list bytes) (d : doc) : list (list bytes) :=
  match d with [] => [] | (k, x) :: r => lpaths (path ++ [k]) x ++ lpaths_doc path r end.

Definition spec_keys (d : doc) : list bytes := map join_dot (lpaths_doc [] d).

(* the BSON type byte of the leaf a metric type stands for *)
Definition mtype_tag (t : mtype) : N :=
  match t with MBool => 8 | MDouble => 1 | MInt32 => 16 | MInt64 => 18 | MDate => 9 | MTs => 17 end%N.

(* ------------------------------------------------------------------ projections of a table *)
(* flattened documents (ReadMetrics, Chunk.Iterator): sample i = one element per row *)
Definition tbl_flat_doc (t : list trow) (i : nat) : doc :=
  map (fun r => (r_key r, restore_flat (r_type r) (nth i (r_col r) 0))) t.
Definition tbl_flat (t : list trow) (n : nat) : list doc := map (tbl_flat_doc t) (seq 0 n).

(* series document (ReadSeries): one array per row *)
Definition tbl_series (t : list trow) : doc :=
  map (fun r => (r_key r, VArr (map (series_value (r_type r)) (r_col r)))) t.

(* matrix document (ReadMatrix): one array per row, except that the two rows of a
   timestamp leaf become one array of timestamps under the first row's key;
   None = a timestamp row without its second half *)
Fixpoint tbl_matrix (t : list trow) : option doc :=
  match t with
  | [] => Some []
  | r :: rest =>
      match r_type r with
      | MTs =>
          match rest with
          | r2 :: rest' =>
              match tbl_matrix rest' with
              | Some es => Some ((r_key r, VArr (zip_ts (r_col r) (r_col r2))) :: es)
              | None => None
              end
          | [] => None
          end
      | ty =>
          match tbl_matrix rest with
          | Some es => Some ((r_key r, VArr (map (restore_flat ty) (r_col r))) :: es)
          | None => None
          end
      end
  end.

(* the keys of the matrix document: the ".inc" half of each timestamp pair dropped *)
Fixpoint matrix_keys (t : list trow) : list bytes :=
  match t with
  | [] => []
  | r :: rest =>
      match r_type r with
      | MTs => r_key r :: match rest with [] => [] | _ :: rest' => matrix_keys rest' end
      | _ => r_key r :: matrix_keys rest
      end
  end.

(* structured documents (ReadStructuredMetrics, Chunk.StructuredIterator): the
   reference document refilled with row i of the table *)
Definition tbl_row (t : list trow) (i : nat) : list Z := map (fun r => nth i (r_col r) 0) t.
Definition tbl_structured (ref : doc) (t : list trow) (n : nat) : list (option doc) :=
  map (fun i => match restore_doc ref (tbl_row t i) with Some (d, _) => Some d | None => None end) (seq 0 n).

(* the rows of a timestamp leaf come in pairs (true of every reference document) *)
Fixpoint ts_paired (ts : list mtype) : bool :=
  match ts with
  | [] => true
  | MTs :: r => match r with MTs :: r' => ts_paired r' | _ => false end
  | _ :: r => ts_paired r
  end.

(* every column of the table holds n samples *)
Definition table_wf (n : nat) (t : list trow) : Prop := Forall (fun r => length (r_col r) = n) t.

(* ------------------------------------------------------------------ observations *)
(* one chunk as delivered by ReadChunks: Size() and per metric (Key(), Values) *)
Record cobs := mkCobs { co_npoints : Z; co_series : list (bytes * list Z) }.

(* everything the reader entry points delivered for one stream *)
Record sobs := mkSobs {
  so_err : bool;              (* some entry point reported an error *)
  so_chunks : list cobs;      (* ReadChunks *)
  so_cf : list doc;           (* Chunk.Iterator of every chunk, concatenated *)
  so_cs : list doc;           (* Chunk.StructuredIterator of every chunk, concatenated *)
  so_rs : list doc;           (* ReadStructuredMetrics *)
  so_rf : list doc;           (* ReadMetrics *)
  so_rm : list doc;           (* ReadMatrix: one document per chunk *)
  so_re : list doc            (* ReadSeries: one document per chunk *)
}.

(* structural equality of decoded documents (implies equality of the encodings) *)
Fixpoint value_eqb (a b : value) : bool :=
  let elems := fix go (l m : list (bytes * value)) : bool :=
    match l, m with
    | [], [] => true
    | (k, x) :: r, (k', y) :: s => bytes_eqb k k' && value_eqb x y && go r s
    | _, _ => false
    end in
  match a, b with
  | VDouble x, VDouble y => x =? y
  | VString x, VString y => bytes_eqb x y
  | VDoc x, VDoc y => elems x y
  | VArr x, VArr y =>
      (fix go (l m : list value) : bool :=
         match l, m with
         | [], [] => true
         | p :: r, q :: s => value_eqb p q && go r s
         | _, _ => false
         end) x y
  | VBinary s x, VBinary t y => (s =? t)%N && bytes_eqb x y
  | VUndefined, VUndefined => true
  | VObjectID x, VObjectID y => bytes_eqb x y
  | VBool x, VBool y => Bool.eqb x y
  | VDateTime x, VDateTime y => x =? y
  | VNull, VNull => true
  | VRegex p o, VRegex p' o' => bytes_eqb p p' && bytes_eqb o o'
  | VDBPointer n o, VDBPointer n' o' => bytes_eqb n n' && bytes_eqb o o'
  | VJavaScript x, VJavaScript y => bytes_eqb x y
  | VSymbol x, VSymbol y => bytes_eqb x y
  | VCodeWithScope c x, VCodeWithScope c' y => bytes_eqb c c' && elems x y
  | VInt32 x, VInt32 y => x =? y
  | VTimestamp t i, VTimestamp t' i' => (t =? t') && (i =? i')
  | VInt64 x, VInt64 y => x =? y
  | VDecimal128 x, VDecimal128 y => bytes_eqb x y
  | VMinKey, VMinKey => true
  | VMaxKey, VMaxKey => true
  | _, _ => false
  end.
Definition sdoc_eqb (a b : doc) : bool := value_eqb (VDoc a) (VDoc b).
Fixpoint sdocs_eqb (a b : list doc) : bool :=
  match a, b with
  | [], [] => true
  | x :: r, y :: s => sdoc_eqb x y && sdocs_eqb r s
  | _, _ => false
  end.

Definition keys_eqb (a b : list bytes) : bool :=
  if list_eq_dec (list_eq_dec N.eq_dec) a b then true else false.
Definition zs_eqb (a b : list Z) : bool := if list_eq_dec Z.eq_dec a b then true else false.

Fixpoint nodupb (l : list bytes) : bool :=
  match l with [] => true | x :: r => negb (existsb (bytes_eqb x) r) && nodupb r end.

(* consume the accepted inputs by the chunks' sample counts *)
Fixpoint slices (inputs : list doc) (cs : list cobs) : option (list (list doc * cobs)) :=
  match cs with
  | [] => match inputs with [] => Some [] | _ => None end
  | c :: r =>
      let n := Z.to_nat (co_npoints c) in
      if Nat.eqb n 0 || Nat.ltb (length inputs) n then None
      else match slices (skipn n inputs) r with
           | Some l => Some ((firstn n inputs, c) :: l)
           | None => None
           end
  end.

Definition vrow (d : doc) : list Z := map snd (flatten_doc d).

(* (a) the chunk's keys are the dot-joined full leaf paths of the first document
   of its slice, in document order, pairwise distinct *)
Definition keys_ok (g : list doc) (c : cobs) : bool :=
  keys_eqb (map fst (co_series c)) (spec_keys (hd [] g)) && nodupb (map fst (co_series c)).

(* (b) sample count = slice length; column i = i-th flattened value of every
   document of the slice *)
Definition values_ok (g : list doc) (c : cobs) : bool :=
  (co_npoints c =? Z.of_nat (length g)) &&
  forallb (fun d => Nat.eqb (length (flatten_doc d)) (length (co_series c))) g &&
  (let rows := map vrow g in
   forallb (fun ic => zs_eqb (snd (snd ic)) (map (fun row => nth (fst ic) row 0) rows))
           (combine (seq 0 (length (co_series c))) (co_series c))).

(* the ONE table of a chunk: keys and columns as the implementation's chunk view
   shows them, types from the input document *)
Definition obs_table (g : list doc) (c : cobs) : list trow :=
  map (fun st => mkRow (fst (fst st)) (snd st) (snd (fst st)))
      (combine (co_series c) (map fst (flatten_doc (hd [] g)))).

Definition types_ok (g : list doc) (c : cobs) : bool :=
  Nat.eqb (length (co_series c)) (length (flatten_doc (hd [] g))).

Definition all_some_docs (l : list (option doc)) : option (list doc) := all_some l.

(* (c) what every view must deliver, chunk after chunk *)
Definition exp_flat (sl : list (list doc * cobs)) : list doc :=
  flat_map (fun gc => tbl_flat (obs_table (fst gc) (snd gc)) (Z.to_nat (co_npoints (snd gc)))) sl.
Definition exp_structured (sl : list (list doc * cobs)) : option (list doc) :=
  all_some (flat_map (fun gc => tbl_structured (hd [] (fst gc)) (obs_table (fst gc) (snd gc))
                                               (Z.to_nat (co_npoints (snd gc)))) sl).
Definition exp_matrix (sl : list (list doc * cobs)) : option (list doc) :=
  all_some (map (fun gc => tbl_matrix (obs_table (fst gc) (snd gc))) sl).
Definition exp_series (sl : list (list doc * cobs)) : list doc :=
  map (fun gc => tbl_series (obs_table (fst gc) (snd gc))) sl.

Definition opt_docs_eqb (e : option (list doc)) (o : list doc) : bool :=
  match e with Some l => sdocs_eqb l o | None => false end.

(* the verdict, split into its parts for diagnostics:
   no error; inputs consumed exactly; keys; values; types derivable; CF; RF; CS; RS; RM; RE *)
Record c02_parts := mkParts {
  p_noerr : bool; p_slices : bool; p_keys : bool; p_values : bool; p_types : bool;
  p_cf : bool; p_rf : bool; p_cs : bool; p_rs : bool; p_rm : bool; p_re : bool }.

Definition c02_check (inputs : list doc) (o : sobs) : c02_parts :=
  match slices inputs (so_chunks o) with
  | None => mkParts (negb (so_err o)) false false false false false false false false false false
  | Some sl =>
      mkParts (negb (so_err o)) true
        (forallb (fun gc => keys_ok (fst gc) (snd gc)) sl)
        (forallb (fun gc => values_ok (fst gc) (snd gc)) sl)
        (forallb (fun gc => types_ok (fst gc) (snd gc)) sl)
        (sdocs_eqb (exp_flat sl) (so_cf o))
        (sdocs_eqb (exp_flat sl) (so_rf o))
        (opt_docs_eqb (exp_structured sl) (so_cs o))
        (opt_docs_eqb (exp_structured sl) (so_rs o))
        (opt_docs_eqb (exp_matrix sl) (so_rm o))
        (sdocs_eqb (exp_series sl) (so_re o))
  end.

Definition parts_all (p : c02_parts) : bool :=
  p_noerr p && p_slices p && p_keys p && p_values p && p_types p &&
  p_cf p && p_rf p && p_cs p && p_rs p && p_rm p && p_re p.

Definition c02_ok (inputs : list doc) (o : sobs) : bool := parts_all (c02_check inputs o).

(* ------------------------------------------------------------------ what the model predicts *)
Definition model_cobs (c : chunk) : cobs :=
  mkCobs (ck_npoints c) (map (fun mv => (metric_key (fst mv), snd mv)) (ck_metrics c)).

(* None: the model predicts a Go panic (index out of range) in some view *)
Definition model_sobs (cs : list chunk) (err : bool) : option sobs :=
  match all_some (flat_map structured_docs cs), all_some (map matrix_doc cs) with
  | Some sd, Some md =>
      Some (mkSobs err (map model_cobs cs) (flat_map flat_docs cs) sd sd (flat_map flat_docs cs) md
                   (map series_doc cs))
  | _, _ => None
  end.
