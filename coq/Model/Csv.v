(* CSV export and import: csv.go (getFieldNames, getRecord, WriteCSV, DumpCSV,
   ConvertFromCSV) together with the parts of Go's encoding/csv (go 1.23) and
   strconv it relies on: csv.Writer.Write / fieldNeedsQuotes, csv.Reader.readLine /
   readRecord with the default settings (Comma ',', no Comment, no LazyQuotes, no
   TrimLeadingSpace, FieldsPerRecord 0), strconv.FormatInt(v, 10), strconv.Atoi and
   time.Unix(s, 0).Format(time.RFC3339) in UTC.  Definitions only. *)
From Coq Require Import ZArith NArith List Bool.
From FV.Model Require Import Bytes Bson Metrics Codec Collector Wf RoundTrip.
Import ListNotations.

Definition text := bytes.

(* ------------------------------------------------------------------ integers *)
Open Scope N_scope.

Definition is_digit (b : N) : bool := (48 <=? b) && (b <=? 57).

(* strconv.Atoi's accumulation: n = n*10 + (ch - '0'), left to right *)
Definition dstep (a d : N) : N := 10 * a + (d - 48).

(* a non-empty all-digit string and its value *)
Definition parse_digits (s : bytes) : option N :=
  match s with
  | [] => None
  | _ => if forallb is_digit s then Some (fold_left dstep s 0) else None
  end.

Close Scope N_scope.
Open Scope Z_scope.

(* strconv.FormatInt(v, 10) *)
Definition render_int (z : Z) : bytes :=
  if z <? 0 then 45%N :: dec_digits (Z.to_N (- z)) else dec_digits (Z.to_N z).

(* strconv.Atoi on a 64-bit platform: optional sign, at least one digit, digits
   only (no underscores: base 10 is given explicitly), value inside int64;
   None = an error is returned *)
Definition parse_int (s : bytes) : option Z :=
  match s with
  | [] => None
  | b :: r =>
      let neg := (b =? 45)%N in
      let ds := if (b =? 45)%N || (b =? 43)%N then r else s in
      match parse_digits ds with
      | None => None
      | Some n => let z := if neg then - Z.of_N n else Z.of_N n in
                  if in_i64 z then Some z else None
      end
  end.

(* ------------------------------------------------------------------ datetime cells *)
(* days since 1970-01-01 -> (year, month, day) of the proleptic Gregorian
   calendar, year 0 = 1 BC as in Go *)
Definition civil (days : Z) : Z * Z * Z :=
  let z := days + 719468 in
  let era := z / 146097 in
  let doe := z - era * 146097 in
  let yoe := (doe - doe / 1460 + doe / 36524 - doe / 146096) / 365 in
  let doy := doe - (365 * yoe + yoe / 4 - yoe / 100) in
  let mp := (5 * doy + 2) / 153 in
  let d := doy - (153 * mp + 2) / 5 + 1 in
  let m := if mp <? 10 then mp + 3 else mp - 9 in
  (yoe + era * 400 + (if m <=? 2 then 1 else 0), m, d).

(* zero-padded decimal of a non-negative number, at least w digits *)
Definition pad (w : nat) (n : Z) : bytes :=
  let ds := dec_digits (Z.to_N n) in repeat 48%N (w - length ds) ++ ds.

(* time.Format "2006": appendInt(year, 4) *)
Definition render_year (y : Z) : bytes := if y <? 0 then 45%N :: pad 4 (- y) else pad 4 y.

(* time.Unix(v/1000, 0).Format(time.RFC3339) with time.Local = UTC; Go's integer
   division truncates towards zero *)
Definition render_date (v : Z) : bytes :=
  let sec := Z.quot v 1000 in
  let r := sec mod 86400 in
  let '(y, m, d) := civil (sec / 86400) in
  render_year y ++ [45%N] ++ pad 2 m ++ [45%N] ++ pad 2 d ++ [84%N] ++
  pad 2 (r / 3600) ++ [58%N] ++ pad 2 (r mod 3600 / 60) ++ [58%N] ++ pad 2 (r mod 60) ++ [90%N].

Close Scope Z_scope.
Open Scope N_scope.

(* ------------------------------------------------------------------ csv.Writer *)
(* unicode.IsSpace of the first rune (utf8.DecodeRuneInString): the ASCII spaces,
   U+0085, U+00A0, U+1680, U+2000..U+200A, U+2028, U+2029, U+202F, U+205F, U+3000
   in their (shortest, hence only valid) UTF-8 encodings; invalid UTF-8 decodes
   to U+FFFD, which is not a space *)
Definition starts_with_space (f : bytes) : bool :=
  match f with
  | [] => false
  | b :: r =>
      if b <? 128 then (b =? 9) || (b =? 10) || (b =? 11) || (b =? 12) || (b =? 13) || (b =? 32)
      else match r with
           | c :: r' =>
               if b =? 194 then (c =? 133) || (c =? 160)
               else match r' with
                    | d :: _ =>
                        if b =? 225 then (c =? 154) && (d =? 128)
                        else if b =? 226 then
                          ((c =? 128) && (((128 <=? d) && (d <=? 138)) || (d =? 168) || (d =? 169) || (d =? 175)))
                          || ((c =? 129) && (d =? 159))
                        else if b =? 227 then (c =? 128) && (d =? 128)
                        else false
                    | [] => false
                    end
           | [] => false
           end
  end.

(* the bytes that force quoting: Comma, quote, CR, LF *)
Definition is_special (b : N) : bool := (b =? 44) || (b =? 34) || (b =? 13) || (b =? 10).

(* Writer.fieldNeedsQuotes *)
Definition needs_quotes (f : bytes) : bool :=
  match f with
  | [] => false
  | _ => bytes_eqb f [92; 46] || existsb is_special f || starts_with_space f
  end.

(* the body of a quoted field: quotes doubled, CR and LF verbatim (UseCRLF = false) *)
Fixpoint qbody (f : bytes) : bytes :=
  match f with
  | [] => []
  | b :: r => if b =? 34 then 34 :: 34 :: qbody r else b :: qbody r
  end.

Definition render_field (f : bytes) : bytes :=
  if needs_quotes f then 34 :: qbody f ++ [34] else f.

Fixpoint render_fields (l : list bytes) : bytes :=
  match l with
  | [] => []
  | [f] => render_field f
  | f :: r => render_field f ++ 44 :: render_fields r
  end.

(* Writer.Write(record): fields joined by Comma, terminated by LF *)
Definition render_record (l : list bytes) : text := render_fields l ++ [10].
Definition render_records (rs : list (list bytes)) : text := concat (map render_record rs).

(* ------------------------------------------------------------------ csv.Reader *)
(* readLine over the whole input: every line ending in CR LF has the CR removed, a
   CR that is the very last byte of the input is dropped.  Every LF ends a line,
   so this is: drop each CR directly followed by LF, drop a final CR. *)
Fixpoint norm_input (l : bytes) : bytes :=
  match l with
  | [] => []
  | b :: r =>
      match r with
      | [] => if b =? 13 then [] else [b]
      | c :: _ => if (b =? 13) && (c =? 10) then norm_input r else b :: norm_input r
      end
  end.

Inductive perr := EBareQuote | EQuote.

(* result of parsing from inside a record: the rest of the field in progress,
   the following fields of the record, the input after the record's line end *)
Inductive pres := PRec (cur : bytes) (more : list bytes) (rest : bytes) | PErr (e : perr).

Definition pcons (b : N) (p : pres) : pres :=
  match p with PRec c m r => PRec (b :: c) m r | PErr e => PErr e end.
Definition pfield (p : pres) : pres :=
  match p with PRec c m r => PRec [] (c :: m) r | PErr e => PErr e end.

(* readRecord's parseField loop on the normalised input.  SStart: at the start of
   a field; SUnq: inside a non-quoted field; SQ: inside a quoted field; SQQ: just
   after a quote inside a quoted field.  A quoted field takes in line ends (the
   reader fetches further lines); the input ending inside one is ErrQuote; a
   quote inside a non-quoted field is ErrBareQuote; after the closing quote only
   a quote, a comma or the line end may follow. *)
Inductive pst := SStart | SUnq | SQ | SQQ.

Fixpoint parse (st : pst) (l : bytes) : pres :=
  match l with
  | [] => match st with SQ => PErr EQuote | _ => PRec [] [] [] end
  | b :: r =>
      match st with
      | SStart =>
          if b =? 34 then parse SQ r
          else if b =? 44 then pfield (parse SStart r)
          else if b =? 10 then PRec [] [] r
          else pcons b (parse SUnq r)
      | SUnq =>
          if b =? 34 then PErr EBareQuote
          else if b =? 44 then pfield (parse SStart r)
          else if b =? 10 then PRec [] [] r
          else pcons b (parse SUnq r)
      | SQ => if b =? 34 then parse SQQ r else pcons b (parse SQ r)
      | SQQ =>
          if b =? 34 then pcons 34 (parse SQ r)
          else if b =? 44 then pfield (parse SStart r)
          else if b =? 10 then PRec [] [] r
          else PErr EQuote
      end
  end.

(* empty lines are skipped before a record *)
Fixpoint skip_empty (l : bytes) : bytes :=
  match l with
  | b :: r => if b =? 10 then skip_empty r else l
  | [] => []
  end.

Inductive rres := REof | RErr (e : perr) | RRec (fields : list bytes) (rest : bytes).

(* Reader.Read without the field-count check *)
Definition read_record (l : bytes) : rres :=
  match skip_empty l with
  | [] => REof
  | l' => match parse SStart l' with
          | PRec c m rest => RRec (c :: m) rest
          | PErr e => RErr e
          end
  end.

(* all records of a text (ReadAll with FieldsPerRecord = -1); every record
   consumes at least one byte, so the input length is enough fuel *)
Fixpoint read_all_fuel (fuel : nat) (l : bytes) : list (list bytes) * option perr :=
  match fuel with
  | O => ([], None)
  | S f =>
      match read_record l with
      | REof => ([], None)
      | RErr e => ([], Some e)
      | RRec fs rest => let '(rs, e) := read_all_fuel f rest in (fs :: rs, e)
      end
  end.
Definition read_all (t : text) : list (list bytes) * option perr :=
  let l := norm_input t in read_all_fuel (S (length l)) l.

Close Scope N_scope.

(* ------------------------------------------------------------------ csv.go: export *)
(* Chunk.getFieldNames *)
Definition field_names (c : chunk) : list bytes := map (fun mv => metric_key (fst mv)) (ck_metrics c).

(* one cell of getRecord: datetime as RFC 3339 text, every other type in decimal *)
Definition cell (t : mtype) (v : Z) : bytes :=
  match t with MDate => render_date v | _ => render_int v end.

(* Chunk.getRecord(i); the reader delivers npoints values per metric *)
Definition record_of (c : chunk) (i : nat) : list bytes :=
  map (fun mv => cell (m_type (fst mv)) (nth i (snd mv) 0%Z)) (ck_metrics c).

Definition chunk_records (c : chunk) : list (list bytes) :=
  map (record_of c) (seq 0 (Z.to_nat (ck_npoints c))).

Definition nmetrics (c : chunk) : nat := length (ck_metrics c).

(* WriteCSV: the state is (headerWritten, numFields): None = no header written
   yet, Some nf = header written for nf fields; result: the text written and
   whether an error is returned.  The writer is flushed after every chunk, so the
   rows of the chunks before a schema change have reached the output *)
Fixpoint write_loop (st : option nat) (cs : list chunk) : text * bool :=
  match cs with
  | [] => ([], false)
  | c :: r =>
      match st with
      | None =>
          let '(t, e) := write_loop (Some (nmetrics c)) r in
          (render_record (field_names c) ++ render_records (chunk_records c) ++ t, e)
      | Some nf =>
          if negb (Nat.eqb nf (nmetrics c)) then ([], true)
          else let '(t, e) := write_loop (Some nf) r in (render_records (chunk_records c) ++ t, e)
      end
  end.
Definition write_csv (cs : list chunk) : text * bool := write_loop None cs.

(* DumpCSV: the text still going to the current file, and the later files *)
Fixpoint dump_loop (st : option nat) (cs : list chunk) : text * list text :=
  match cs with
  | [] => ([], [])
  | c :: r =>
      let body := render_record (field_names c) ++ render_records (chunk_records c) in
      match st with
      | None => let '(t, fs) := dump_loop (Some (nmetrics c)) r in (body ++ t, fs)
      | Some nf =>
          if negb (Nat.eqb nf (nmetrics c)) then
            let '(t, fs) := dump_loop (Some (nmetrics c)) r in ([], (body ++ t) :: fs)
          else let '(t, fs) := dump_loop (Some nf) r in (render_records (chunk_records c) ++ t, fs)
      end
  end.

(* the contents of prefix.0.csv, prefix.1.csv, ...; no chunk, no file *)
Definition dump_csv (cs : list chunk) : list text :=
  match cs with
  | [] => []
  | _ => let '(t, fs) := dump_loop None cs in t :: fs
  end.

(* ------------------------------------------------------------------ csv.go: import *)
Inductive cv_status :=
| CvOk        (* end of input reached, nil returned *)
| CvHeader    (* the first Read failed: nothing is written *)
| CvParse     (* a later Read failed with something else than ErrFieldCount *)
| CvCount     (* "unexpected field count change" *)
| CvAdd.      (* the collector refused a document *)

(* the document built from one record: the cells that strconv.Atoi accepts, as
   int64 elements keyed by the header cell of the same index; other cells are
   skipped silently *)
Fixpoint cell_doc (header record : list bytes) : doc :=
  match header, record with
  | h :: hs, c :: cs =>
      match parse_int c with
      | Some z => (h, VInt64 z) :: cell_doc hs cs
      | None => cell_doc hs cs
      end
  | _, _ => []
  end.

(* the loop of ConvertFromCSV: [fpr] is the reader's FieldsPerRecord (fixed by the
   first record of the input and never changed); a record with another number of
   fields comes back with ErrFieldCount and becomes the header; a record with
   [fpr] fields that does not match the current header's length ends the
   conversion.  Result: the documents handed to collector.Add, in order *)
Fixpoint cv_loop (fuel : nat) (fpr : nat) (header : list bytes) (l : bytes) : list doc * cv_status :=
  match fuel with
  | O => ([], CvOk)
  | S f =>
      match read_record l with
      | REof => ([], CvOk)
      | RErr _ => ([], CvParse)
      | RRec rec rest =>
          if negb (Nat.eqb (length rec) fpr) then cv_loop f fpr rec rest
          else if negb (Nat.eqb (length rec) (length header)) then ([], CvCount)
          else let '(ds, s) := cv_loop f fpr header rest in (cell_doc header rec :: ds, s)
      end
  end.

Definition cv_docs (t : text) : list doc * cv_status :=
  let l := norm_input t in
  match read_record l with
  | RRec h rest => cv_loop (S (length rest)) (length h) h rest
  | _ => ([], CvHeader)
  end.

Section Zlib.
Variable deflate : bytes -> bytes.

(* collector.Add for each document until one is refused *)
Fixpoint cv_feed (c : sdcoll) (w : writer) (ds : list doc) (nows : list Z) : sdcoll * writer * bool :=
  match ds with
  | [] => (c, w, true)
  | d :: r =>
      let '(c', w', res) := sd_add deflate c w d (hd 0%Z nows) in
      match res with
      | ROk => cv_feed c' w' r (tl nows)
      | _ => (c', w', false)
      end
  end.

(* ConvertFromCSV(ctx, bucket, input, output) with a context that is never
   cancelled: the outer documents written to [output] (a writer that may fail
   according to [faults]) and whether an error is returned.  The deferred
   FlushCollector runs on every path after the header was read; its error is
   assigned to a local variable and never reaches the caller. *)
Definition convert_from_csv (t : text) (bucket : Z) (nows : list Z) (faults : list fault) : list doc * bool :=
  match cv_docs t with
  | (_, CvHeader) => ([], true)
  | (docs, st) =>
      let c0 := mkSdcoll None 0 (mkScoll bucket 0 (IB (bc_new bucket))) in
      let '(c, w, ok) := cv_feed c0 (mkWriter [] faults false) docs nows in
      let '(_, w', _) := sd_flush deflate c w in
      (emitted w', negb ok || match st with CvOk => false | _ => true end)
  end.

End Zlib.
