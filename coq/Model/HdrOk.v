(* Executable statement of C12 over observations made through the public API
   (the oracle applied to what the implementation produced). *)
From Coq Require Import ZArith List Bool.
From FV.Model Require Import Hdr.
Import ListNotations.
Open Scope Z_scope.

(* one value recorded into a fresh histogram New(lo,hi,s):
   rejected?, TotalCount, Min, Max, ValueAtQuantile(100) *)
Record obs_v := mkObsV { ov_rejected : bool; ov_total : Z; ov_min : Z; ov_max : Z; ov_q100 : Z }.

Definition c12_ok_v (lo hi s v : Z) (o : obs_v) : bool :=
  if (0 <=? v) && (v <=? hi) then
    negb (ov_rejected o) && (ov_total o =? 1)
    && (ov_min o <=? v) && (v <=? ov_max o)
    && (let w := ov_max o - ov_min o + 1 in (w <=? Z.max 1 lo) || (w * 10 ^ s <=? v))
    && (ov_q100 o =? ov_max o)
  else (* outside the trackable range: either rejected and nothing changed, or counted *)
    if ov_rejected o then ov_total o =? 0 else ov_total o =? 1.

Definition model_obs_v (lo hi s v : Z) : obs_v :=
  let c := config_of lo hi s in
  let i := counts_index_for c v in
  if (i <? 0) || (c_len c <=? i) then mkObsV true 0 0 0 0
  else mkObsV false 1 (lowest_equiv c v) (highest_equiv c v) (highest_equiv c v).

(* a record sequence: number of rejected values, TotalCount, Distribution bars *)
Definition c12_ok_seq (n_values n_rejected total : Z) (bars : list bar) : bool :=
  (total =? n_values - n_rejected) && (fold_right Z.add 0 (map b_count bars) =? total).

Definition model_obs_seq (lo hi s : Z) (vs : list Z) : Z * Z * list bar :=
  let '(h, k) := record_all (new lo hi s) vs in
  (Z.of_nat (length vs) - k, h_total h, distribution h).

(* a sequence of RecordCorrectedValue(v, e) calls: which calls returned nil, TotalCount, Distribution bars. The total is
   the number of values the accepted calls stand for (v and its back-filled values), a refused call adds nothing *)
Definition model_obs_corr (lo hi s : Z) (ops : list (Z * Z)) : list bool * Z * list bar :=
  let '(h, oks) := record_corrected_all (new lo hi s) ops in (oks, h_total h, distribution h).
Fixpoint corr_expected (ops : list (Z * Z)) (oks : list bool) : Z :=
  match ops, oks with
  | (v, e) :: r, ok :: q => (if ok : bool then Z.of_nat (length (corrected_values v e)) else 0) + corr_expected r q
  | _, _ => 0
  end.
Definition c12_ok_corr (ops : list (Z * Z)) (oks : list bool) (total : Z) (bars : list bar) : bool :=
  Nat.eqb (length ops) (length oks) && (total =? corr_expected ops oks) && (fold_right Z.add 0 (map b_count bars) =? total).

Definition geometry (lo hi s : Z) : list Z :=
  let c := config_of lo hi s in
  [c_unit c; c_hm c; c_hc c; c_mask c; c_sbc c; c_bc c; c_len c].

Definition point_fns (lo hi s v : Z) : list Z :=
  let c := config_of lo hi s in
  [counts_index_for c v; lowest_equiv c v; highest_equiv c v; size_of_range c v].
