(* Byte-level reading of an FTDC stream: read.go readBufBSON / readDiagnostic,
   and readChunks as it reads the compressed payload with the same framing
   function, composed as the consumer observes them (chunks delivered, error
   reported or not).  Written so that it can be evaluated on hostile input: no
   attacker-controlled length is converted to a unary number before it has been
   compared with the data really present.  Definitions only. *)
From Coq Require Import ZArith NArith List Bool.
From FV.Model Require Import Bytes Bson Metrics Codec Validate.
Import ListNotations.
Open Scope Z_scope.

Inductive ferr :=
| FUnexpectedEof   (* the stream ends inside a length word or inside a document *)
| FBadLength       (* length field below 5 (incl. negative) *)
| FMalformed.      (* structurally invalid document *)

Inductive fres := FEof | FDoc (d : doc) (rest : bytes) | FErr (e : ferr).

(* readBufBSON on the remaining input *)
Definition read_one (l : bytes) : fres :=
  match l with
  | [] => FEof
  | _ =>
      match read_i32 l with
      | None => FErr FUnexpectedEof
      | Some (size, _) =>
          if size <? 5 then FErr FBadLength
          else if Z.of_nat (length l) <? size then FErr FUnexpectedEof
          else
            let n := Z.to_nat size in
            let b := firstn n l in
            if validate b then
              match dec_doc b with
              | Some (d, []) => FDoc d (skipn n l)
              | _ => FErr FMalformed
              end
            else FErr FMalformed
      end
  end.

(* readDiagnostic: documents until the clean end or the first error; every
   iteration consumes at least five bytes, so the input length is enough fuel *)
Fixpoint read_docs_fuel (fuel : nat) (l : bytes) : list doc * option ferr :=
  match fuel with
  | O => ([], None)
  | S f =>
      match read_one l with
      | FEof => ([], None)
      | FErr e => ([], Some e)
      | FDoc d rest => let '(ds, e) := read_docs_fuel f rest in (d :: ds, e)
      end
  end.
Definition read_docs (l : bytes) : list doc * option ferr := read_docs_fuel (S (length l)) l.

Section Zlib.
Variable inflate : bytes -> option bytes.
(* the reader's bound on metrics x samples of one chunk (2^27 in read.go), and an
   optional smaller bound below which this executable model is willing to expand a
   chunk (None for the theorems) *)
Variable limit : N.
Variable evalcap : option N.

Definition too_big (bound nmetrics ndeltas : N) : bool :=
  (bound <? ndeltas)%N || ((0 <? nmetrics)%N && (bound / nmetrics <? ndeltas)%N).

(* readChunks on one type-1 document, reading the payload with read_one *)
Definition read_chunk_b (meta : option doc) (d : doc) : chunk + rerr :=
  match lookup k_data d with
  | None => inr ENoData
  | Some (VBinary _ zb) =>
      if Nat.ltb (length zb) 4 then inr EBadData else
      match inflate (skipn 4 zb) with
      | None => inr EZlibHeader
      | Some p =>
          match read_one p with
          | FDoc ref r1 =>
              match take_exact 8 r1 with
              | None => inr EShortCounts
              | Some (w, r2) =>
                  let nmetrics := le_dec (firstn 4 w) in
                  let ndeltas := le_dec (skipn 4 w) in
                  let ms := metrics_of_doc [] ref in
                  if negb (nmetrics =? N.of_nat (length ms))%N then inr EMismatch
                  else if too_big limit nmetrics ndeltas then inr EMismatch (* rejected as unsupported size *)
                  else if (match evalcap with Some c => too_big c nmetrics ndeltas | None => false end) then inr EHuge
                  else
                    match read_deltas (N.to_nat (nmetrics * ndeltas)) 0%N r2 with
                    | None => inr EVarint
                    | Some (ds, _) =>
                        let cols := split_every (N.to_nat ndeltas) (length ms) ds in
                        inl (mkChunk (map (fun mc => (fst mc, undelta (m_start (fst mc)) (snd mc)))
                                          (combine ms cols))
                                     (Z.of_N ndeltas + 1)
                                     (match lookup k_id d with Some (VDateTime t) => Some t | _ => None end)
                                     meta ref)
                    end
              end
          | _ => inr ERefDoc
          end
      end
  | Some _ => inr EBadData
  end.

Fixpoint read_chunks_b (meta : option doc) (ds : list doc) : list chunk * option rerr :=
  match ds with
  | [] => ([], None)
  | d :: r =>
      let ty := lookup k_type d in
      if is_num 0 ty then read_chunks_b (Some d) r
      else if negb (is_num 1 ty) then read_chunks_b meta r
      else match read_chunk_b meta d with
           | inl c => let '(cs, e) := read_chunks_b meta r in (c :: cs, e)
           | inr e => ([], Some e)
           end
  end.

(* what a consumer of ReadChunks observes: the chunks delivered before the first
   error of the chunk decoder, and whether Err() is non-nil after Next() has
   returned false (the framing error or the decoder's error) *)
Definition read_stream (bs : bytes) : list chunk * bool :=
  let '(docs, fe) := read_docs bs in
  let '(cs, ce) := read_chunks_b None docs in
  (cs, match fe, ce with None, None => false | _, _ => true end).

End Zlib.

Definition reader_limit : N := 134217728%N.   (* maxChunkValues = 1 << 27 *)
