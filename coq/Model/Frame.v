(* Byte-level framing of an FTDC stream: read.go readBufBSON / readDiagnostic and
   the composition with readChunks as the consumer observes it (chunks delivered,
   error reported or not).  Definitions only. *)
From Coq Require Import ZArith NArith List Bool.
From FV.Model Require Import Bytes Bson Metrics Codec.
Import ListNotations.
Open Scope Z_scope.

Inductive ferr :=
| FUnexpectedEof   (* the stream ends inside a length word or inside a document *)
| FBadLength       (* length field below 5 (incl. negative) *)
| FMalformed.      (* structurally invalid document *)

Inductive fres := FEof | FDoc (d : doc) (rest : bytes) | FErr (e : ferr).

(* readBufBSON on the remaining input *)
Definition read_one (l : bytes) : fres :=
  match l with
  | [] => FEof
  | _ =>
      if Nat.ltb (length l) 4 then FErr FUnexpectedEof
      else
        let size := s32 (le_dec (firstn 4 l)) in
        if size <? 5 then FErr FBadLength
        else if Nat.ltb (length l) (Z.to_nat size) then FErr FUnexpectedEof
        else match dec_doc (firstn (Z.to_nat size) l) with
             | Some (d, []) => FDoc d (skipn (Z.to_nat size) l)
             | _ => FErr FMalformed
             end
  end.

(* readDiagnostic: documents until the clean end or the first error; every
   iteration consumes at least five bytes, so the input length is enough fuel *)
Fixpoint read_docs_fuel (fuel : nat) (l : bytes) : list doc * option ferr :=
  match fuel with
  | O => ([], None)
  | S f =>
      match read_one l with
      | FEof => ([], None)
      | FErr e => ([], Some e)
      | FDoc d rest => let '(ds, e) := read_docs_fuel f rest in (d :: ds, e)
      end
  end.
Definition read_docs (l : bytes) : list doc * option ferr := read_docs_fuel (S (length l)) l.

Section Zlib.
Variable inflate : bytes -> option bytes.
Variable cap : option N.

(* what a consumer of ReadChunks observes: the chunks delivered before the first
   error of the chunk decoder, and whether Err() is non-nil after Next() has
   returned false (the framing error or the decoder's error) *)
Definition read_stream (bs : bytes) : list chunk * bool :=
  let '(docs, fe) := read_docs bs in
  let '(cs, ce) := read_chunks_gen inflate cap None docs in
  (cs, match fe, ce with None, None => false | _, _ => true end).

End Zlib.
