(* SysReader: the goroutines behind ReadChunks / ReadMetrics / ReadStructuredMetrics /
   ReadMatrix / ReadSeries of /repo as a labelled transition system (definitions only).

   Goroutines (tids) and the code they mirror:
     RD   readDiagnostic + its wrapper in ReadChunks   (iterator_chunk.go, read.go)
     RC   readChunks     + its wrapper in ReadChunks
     W    combinedIterator.worker (KDoc) or matrixIterator.worker (KMatrix)
     S    the per-chunk sample streamer started by Chunk.Iterator / StructuredIterator
     CN   the caller: Next* ; Close ; cancel of the construction context
   Every `select` arm on ctx.Done() is a tid of its own (T_RDc, T_RCc, T_Wc, T_Sc), so that
   step is a function; when both arms of a select are ready both tids are enabled, which is
   Go's nondeterministic choice.

   Modelling assumptions (also listed in the evidence of C05/C06):
     * catcher.Add is atomic (it appends under the catcher's mutex);
     * Close is one atomic step that sets every cancel flag it sets;
     * readBufBSON is a step of RD that cannot block (blocking inside io.Reader.Read is outside
       the model) and is not cancellable (as in the code);
     * export errors of the matrix worker are not modelled. *)
From Coq Require Import List Arith Bool.
Import ListNotations.

(* ---------- input abstraction *)
Inductive item := Meta | GoodChunk (n : nat) | BadChunk | Other.
Inductive ending := CleanEOF | ReadError.
Record input := { i_docs : list item; i_fin : ending }.

Inductive err := EDecode | ERead | EAborted | EChunks.

(* ---------- configuration *)
Inductive kind := KChunk | KDoc | KMatrix.
Record cfg := {
  c_kind : kind;
  c_pcap : nat;              (* chunk pipe, 2 in the code *)
  c_dcap : nat;              (* document pipe, 100 (KDoc) / 25 (KMatrix) *)
  c_scap : nat;              (* sample channel, 100 *)
  c_abc : bool;              (* producers Add before they close (repaired order, 360cf42) *)
  c_mclose : bool            (* matrixIterator.Close calls its own closer (repair d877df8) *)
}.
Definition layered (c : cfg) : bool := match c_kind c with KChunk => false | _ => true end.
Definition is_matrix (c : cfg) : bool := match c_kind c with KMatrix => true | _ => false end.
(* pre-repair matrix worker: deferred close(pipe) ran before the deferred Add *)
Definition wold (c : cfg) : bool := is_matrix c && negb (c_abc c).

(* ---------- program counters *)
Inductive rdpc := RD_read | RD_send (d : item) | RD_add (e : bool) | RD_close (e : bool) | RD_done.
Inductive rcpc := RC_recv | RC_send (n : nat) | RC_add (e : bool) | RC_close (e : bool) | RC_done.
Inductive wpc := W_next | W_snext | W_dsend | W_sadd | W_msend | W_abort | W_addc | W_close | W_done.
Inductive spc := S_none | S_run (k : nat).
Inductive cnpc := CN_run | CN_end.

Record state := {
  docs : list item; fin : ending;
  rd : rdpc; rc : rcpc; ipc_cl : bool;
  pipe : list nat; pipe_cl : bool;
  catC : list err; addsC : nat;          (* chunk iterator's catcher; ghost: non-nil Add calls executed *)
  w : wpc; sp : spc; oq : nat; out_cl : bool;
  dq : nat; dq_cl : bool;
  catW : list err; addsW : nat;          (* layered iterator's catcher *)
  cn : cnpc; got : nat;
  fP : bool;                             (* construction context cancelled *)
  fI : bool;                             (* iterctx's cancel function (closer) called *)
  fC : bool;                             (* ChunkIterator.cancel called *)
  fS : bool;                             (* current sample iterator's cancel function called *)
  closed : bool                          (* Close has been called *)
}.

(* context tree: ctxS <| iterctx <| ctx ; ctxC <| iterctx (layered) or ctxC <| ctx *)
Definition done_I (s : state) : bool := fI s || fP s.
Definition done_C (s : state) : bool := fC s || fI s || fP s.
Definition done_S (s : state) : bool := fS s || fI s || fP s.

(* ---------- setters *)
Definition set_rd_side (s : state) (ds : list item) (v : rdpc) : state :=
  {| docs := ds; fin := fin s; rd := v; rc := rc s; ipc_cl := ipc_cl s; pipe := pipe s; pipe_cl := pipe_cl s;
     catC := catC s; addsC := addsC s; w := w s; sp := sp s; oq := oq s; out_cl := out_cl s; dq := dq s;
     dq_cl := dq_cl s; catW := catW s; addsW := addsW s; cn := cn s; got := got s;
     fP := fP s; fI := fI s; fC := fC s; fS := fS s; closed := closed s |}.
Definition set_ipc_cl (s : state) (v : rdpc) : state :=
  {| docs := docs s; fin := fin s; rd := v; rc := rc s; ipc_cl := true; pipe := pipe s; pipe_cl := pipe_cl s;
     catC := catC s; addsC := addsC s; w := w s; sp := sp s; oq := oq s; out_cl := out_cl s; dq := dq s;
     dq_cl := dq_cl s; catW := catW s; addsW := addsW s; cn := cn s; got := got s;
     fP := fP s; fI := fI s; fC := fC s; fS := fS s; closed := closed s |}.
Definition set_rd_rc (s : state) (v : rdpc) (u : rcpc) : state :=
  {| docs := docs s; fin := fin s; rd := v; rc := u; ipc_cl := ipc_cl s; pipe := pipe s; pipe_cl := pipe_cl s;
     catC := catC s; addsC := addsC s; w := w s; sp := sp s; oq := oq s; out_cl := out_cl s; dq := dq s;
     dq_cl := dq_cl s; catW := catW s; addsW := addsW s; cn := cn s; got := got s;
     fP := fP s; fI := fI s; fC := fC s; fS := fS s; closed := closed s |}.
Definition set_rc_pipe (s : state) (u : rcpc) (p : list nat) (cl : bool) : state :=
  {| docs := docs s; fin := fin s; rd := rd s; rc := u; ipc_cl := ipc_cl s; pipe := p; pipe_cl := cl;
     catC := catC s; addsC := addsC s; w := w s; sp := sp s; oq := oq s; out_cl := out_cl s; dq := dq s;
     dq_cl := dq_cl s; catW := catW s; addsW := addsW s; cn := cn s; got := got s;
     fP := fP s; fI := fI s; fC := fC s; fS := fS s; closed := closed s |}.
(* catcher.Add(e) on the chunk iterator's catcher by RD (v) or RC (u) *)
Definition addC (s : state) (e : option err) (v : rdpc) (u : rcpc) : state :=
  {| docs := docs s; fin := fin s; rd := v; rc := u; ipc_cl := ipc_cl s; pipe := pipe s; pipe_cl := pipe_cl s;
     catC := match e with Some x => x :: catC s | None => catC s end;
     addsC := match e with Some _ => S (addsC s) | None => addsC s end;
     w := w s; sp := sp s; oq := oq s; out_cl := out_cl s; dq := dq s;
     dq_cl := dq_cl s; catW := catW s; addsW := addsW s; cn := cn s; got := got s;
     fP := fP s; fI := fI s; fC := fC s; fS := fS s; closed := closed s |}.
Definition addW (s : state) (e : option err) (v : wpc) : state :=
  {| docs := docs s; fin := fin s; rd := rd s; rc := rc s; ipc_cl := ipc_cl s; pipe := pipe s; pipe_cl := pipe_cl s;
     catC := catC s; addsC := addsC s; w := v; sp := sp s; oq := oq s; out_cl := out_cl s; dq := dq s;
     dq_cl := dq_cl s;
     catW := match e with Some x => x :: catW s | None => catW s end;
     addsW := match e with Some _ => S (addsW s) | None => addsW s end;
     cn := cn s; got := got s;
     fP := fP s; fI := fI s; fC := fC s; fS := fS s; closed := closed s |}.
(* worker side: pc, chunk pipe, streamer, sample channel, document pipe, fS *)
Definition set_w (s : state) (v : wpc) (p : list nat) (x : spc) (o : nat) (ocl : bool) (d : nat) (dcl : bool)
  (fs : bool) : state :=
  {| docs := docs s; fin := fin s; rd := rd s; rc := rc s; ipc_cl := ipc_cl s; pipe := p; pipe_cl := pipe_cl s;
     catC := catC s; addsC := addsC s; w := v; sp := x; oq := o; out_cl := ocl; dq := d;
     dq_cl := dcl; catW := catW s; addsW := addsW s; cn := cn s; got := got s;
     fP := fP s; fI := fI s; fC := fC s; fS := fs; closed := closed s |}.
Definition set_wpc (s : state) (v : wpc) : state :=
  set_w s v (pipe s) (sp s) (oq s) (out_cl s) (dq s) (dq_cl s) (fS s).
Definition set_sp (s : state) (x : spc) (o : nat) (ocl : bool) : state :=
  set_w s (w s) (pipe s) x o ocl (dq s) (dq_cl s) (fS s).
Definition set_cn (s : state) (v : cnpc) (p : list nat) (d : nat) (g : nat) : state :=
  {| docs := docs s; fin := fin s; rd := rd s; rc := rc s; ipc_cl := ipc_cl s; pipe := p; pipe_cl := pipe_cl s;
     catC := catC s; addsC := addsC s; w := w s; sp := sp s; oq := oq s; out_cl := out_cl s; dq := d;
     dq_cl := dq_cl s; catW := catW s; addsW := addsW s; cn := v; got := g;
     fP := fP s; fI := fI s; fC := fC s; fS := fS s; closed := closed s |}.
Definition set_flags (s : state) (p i c x cl : bool) : state :=
  {| docs := docs s; fin := fin s; rd := rd s; rc := rc s; ipc_cl := ipc_cl s; pipe := pipe s; pipe_cl := pipe_cl s;
     catC := catC s; addsC := addsC s; w := w s; sp := sp s; oq := oq s; out_cl := out_cl s; dq := dq s;
     dq_cl := dq_cl s; catW := catW s; addsW := addsW s; cn := cn s; got := got s;
     fP := p; fI := i; fC := c; fS := x; closed := cl |}.

(* ---------- transitions *)
Inductive tid := T_RD | T_RDc | T_RC | T_RCc | T_W | T_Wc | T_S | T_Sc | T_CN | T_Close | T_Cancel.

Definition goroutine (t : tid) : bool :=
  match t with T_CN | T_Close | T_Cancel => false | _ => true end.

Definition some_if (b : bool) (e : err) : option err := if b then Some e else None.

(* the two deferred/sequenced actions "Add(result)" and "close(channel)" in the configured order *)
Definition rd_fin (c : cfg) (e : bool) : rdpc := if c_abc c then RD_add e else RD_close e.
Definition rc_fin (c : cfg) (e : bool) : rcpc := if c_abc c then RC_add e else RC_close e.
Definition w_fin (c : cfg) : wpc := if wold c then W_close else W_addc.

Definition step (c : cfg) (s : state) (t : tid) : option state :=
  match t with
  | T_RD =>
      match rd s with
      | RD_read =>
          match docs s with
          | d :: rest => Some (set_rd_side s rest (RD_send d))           (* vpoint rd.send, then the select *)
          | [] => Some (set_rd_side s []                                   (* vpoint rd.readend; io.EOF => nil *)
                         (rd_fin c (match fin s with ReadError => true | CleanEOF => false end)))
          end
      | RD_send _ => None                     (* unbuffered ipc: the receiver takes the item (see T_RC) *)
      | RD_add e => Some (addC s (some_if e ERead) (if c_abc c then RD_close e else RD_done) (rc s))
      | RD_close e => Some (set_ipc_cl s (if c_abc c then RD_done else RD_add e))
      | RD_done => None
      end
  | T_RDc =>
      match rd s with
      | RD_send _ => if done_C s then Some (set_rd_side s (docs s) (rd_fin c false)) else None  (* rd.cancelled *)
      | _ => None
      end
  | T_RC =>
      match rc s with
      | RC_recv =>                            (* for doc := range ipc  -- no ctx arm *)
          match rd s with
          | RD_send d =>
              Some (set_rd_rc s RD_read
                      (match d with
                       | Meta | Other => RC_recv
                       | GoodChunk n => RC_send n
                       | BadChunk => rc_fin c true
                       end))
          | _ => if ipc_cl s then Some (set_rd_rc s (rd s) (rc_fin c false)) else None
          end
      | RC_send n =>
          if length (pipe s) <? c_pcap c
          then Some (set_rc_pipe s RC_recv (pipe s ++ [n]) (pipe_cl s)) else None
      | RC_add e => Some (addC s (some_if e EDecode) (rd s) (if c_abc c then RC_close e else RC_done))
      | RC_close e => Some (set_rc_pipe s (if c_abc c then RC_done else RC_add e) (pipe s) true)
      | RC_done => None
      end
  | T_RCc =>
      match rc s with
      | RC_send _ => if done_C s then Some (set_rd_rc s (rd s) (rc_fin c false)) else None      (* rc.cancelled *)
      | _ => None
      end
  | T_W =>
      match w s with
      | W_next =>                             (* iter.chunks.Next() *)
          match pipe s with
          | n :: rest =>
              if is_matrix c
              then Some (set_w s W_msend rest (sp s) (oq s) (out_cl s) (dq s) (dq_cl s) (fS s))
              else (* chunk.Iterator(ctx): fresh sctx (own cancel not called), fresh channel, goroutine S *)
                   Some (set_w s W_snext rest (S_run n) 0 false (dq s) (dq_cl s) false)
          | [] => if pipe_cl s then Some (set_wpc s (w_fin c)) else None
          end
      | W_snext =>                            (* iter.sample.Next() *)
          match oq s with
          | S o => Some (set_w s W_dsend (pipe s) (sp s) o (out_cl s) (dq s) (dq_cl s) (fS s))
          | O => if out_cl s then Some (set_wpc s W_sadd) else None
          end
      | W_dsend =>
          if dq s <? c_dcap c
          then Some (set_w s W_snext (pipe s) (sp s) (oq s) (out_cl s) (S (dq s)) (dq_cl s) (fS s)) else None
      | W_sadd =>                             (* Add(sample.Err()) (always nil); sample.Close() *)
          Some (set_w s W_next (pipe s) (sp s) (oq s) (out_cl s) (dq s) (dq_cl s) true)
      | W_msend =>
          if dq s <? c_dcap c
          then Some (set_w s W_next (pipe s) (sp s) (oq s) (out_cl s) (S (dq s)) (dq_cl s) (fS s)) else None
      | W_abort =>                            (* Add("operation aborted"); return *)
          Some (addW s (Some EAborted) (if is_matrix c then w_fin c else W_close))   (* matrix: deferred Add follows *)
      | W_addc =>                             (* Add(iter.chunks.Err()) *)
          Some (addW s (match catC s with [] => None | _ => Some EChunks end)
                       (if wold c then W_done else W_close))
      | W_close =>
          Some (set_w s (if wold c then W_addc else W_done) (pipe s) (sp s) (oq s) (out_cl s) (dq s) true (fS s))
      | W_done => None
      end
  | T_Wc =>
      match w s with
      | W_dsend | W_msend => if done_I s then Some (set_wpc s W_abort) else None    (* cw.aborted / mw.aborted *)
      | _ => None
      end
  | T_S =>
      match sp s with
      | S_run (S k) => if oq s <? c_scap c then Some (set_sp s (S_run k) (S (oq s)) (out_cl s)) else None
      | S_run O => Some (set_sp s S_none (oq s) true)                               (* deferred close(out) *)
      | S_none => None
      end
  | T_Sc =>
      match sp s with
      | S_run (S _) => if done_S s then Some (set_sp s (S_run 0) (oq s) (out_cl s)) else None
      | _ => None
      end
  | T_CN =>                                   (* Next() *)
      match cn s with
      | CN_end => None
      | CN_run =>
          if layered c then
            match dq s with
            | S d => Some (set_cn s CN_run (pipe s) d (S (got s)))
            | O => if dq_cl s then Some (set_cn s CN_end (pipe s) 0 (got s)) else None
            end
          else
            match pipe s with
            | _ :: rest => Some (set_cn s CN_run rest (dq s) (S (got s)))
            | [] => if pipe_cl s then Some (set_cn s CN_end [] (dq s) (got s)) else None
            end
      end
  | T_Close =>
      match c_kind c with
      | KChunk => Some (set_flags s (fP s) (fI s) true (fS s) true)                 (* iter.cancel() *)
      | KDoc => Some (set_flags s (fP s) true true true true)                       (* closer; sample.Close; chunks.Close *)
      | KMatrix => Some (set_flags s (fP s) (if c_mclose c then true else fI s) true (fS s) true)
      end
  | T_Cancel => Some (set_flags s true (fI s) (fC s) (fS s) (closed s))
  end.

Fixpoint run (c : cfg) (s : state) (sched : list tid) : option state :=
  match sched with
  | [] => Some s
  | t :: rest => match step c s t with Some s' => run c s' rest | None => None end
  end.

Definition init (c : cfg) (i : input) : state :=
  {| docs := i_docs i; fin := i_fin i; rd := RD_read; rc := RC_recv; ipc_cl := false; pipe := []; pipe_cl := false;
     catC := []; addsC := 0; w := if layered c then W_next else W_done; sp := S_none; oq := 0; out_cl := true;
     dq := 0; dq_cl := false; catW := []; addsW := 0; cn := CN_run; got := 0;
     fP := false; fI := false; fC := false; fS := false; closed := false |}.

Definition reachable (c : cfg) (s : state) : Prop := exists i sched, run c (init c i) sched = Some s.

(* ---------- observables *)
Definition errors_registered (c : cfg) (s : state) : nat :=
  if layered c then length (catW s) else length (catC s).
Definition consumer_saw_end (s : state) : Prop := cn s = CN_end.
(* no context was cancelled by the caller *)
Definition nocancel (s : state) : Prop := fP s = false /\ fI s = false /\ fC s = false.
Definition has_failure (i : input) : Prop := In BadChunk (i_docs i) \/ i_fin i = ReadError.
Definition is_bad (d : item) : bool := match d with BadChunk => true | _ => false end.
Definition has_failureb (i : input) : bool :=
  existsb is_bad (i_docs i) || match i_fin i with ReadError => true | CleanEOF => false end.

(* every context the reader's goroutines select on is done *)
Definition cancelled (c : cfg) (s : state) : Prop :=
  done_C s = true /\ (layered c = true -> done_I s = true).
Definition cancelledb (c : cfg) (s : state) : bool := done_C s && (negb (layered c) || done_I s).
Definition all_doneb (s : state) : bool :=
  match rd s, rc s, w s, sp s with RD_done, RC_done, W_done, S_none => true | _, _, _, _ => false end.
Definition all_done (s : state) : Prop := all_doneb s = true.
(* items a caller can still receive *)
Definition buffered (c : cfg) (s : state) : nat := if layered c then dq s else length (pipe s).
Definition cap (c : cfg) : nat := if layered c then c_dcap c else c_pcap c.

(* ---------- termination measure (linear in the unread input, samples included) *)
Definition pw (n : nat) : nat := 3 * n + 4.                 (* a decoded chunk waiting in the pipe *)
Definition hw (d : item) : nat := match d with GoodChunk n => pw n + 2 | _ => 2 end.   (* in RD's hand *)
Definition dw (d : item) : nat := hw d + 1.                 (* still in the input *)
Fixpoint sumw {A} (f : A -> nat) (l : list A) : nat := match l with [] => 0 | x :: r => f x + sumw f r end.
Definition rank_rd (c : cfg) (p : rdpc) : nat :=
  match p with
  | RD_read => 3 | RD_send d => 3 + hw d
  | RD_add _ => if c_abc c then 2 else 1 | RD_close _ => if c_abc c then 1 else 2 | RD_done => 0
  end.
Definition rank_rc (c : cfg) (p : rcpc) : nat :=
  match p with
  | RC_recv => 3 | RC_send n => 4 + pw n
  | RC_add _ => if c_abc c then 2 else 1 | RC_close _ => if c_abc c then 1 else 2 | RC_done => 0
  end.
Definition rank_w (c : cfg) (p : wpc) : nat :=
  match p with
  | W_done => 0 | W_close => if wold c then 2 else 1 | W_addc => if wold c then 1 else 2
  | W_abort => 3 | W_next => 3 | W_sadd => 4 | W_msend => 4 | W_snext => 5 | W_dsend => 6
  end.
Definition rank_s (p : spc) : nat := match p with S_none => 0 | S_run k => 3 * k + 1 end.
Definition measure (c : cfg) (s : state) : nat :=
  sumw dw (docs s) + rank_rd c (rd s) + rank_rc c (rc s) + sumw pw (pipe s)
  + rank_w c (w s) + rank_s (sp s) + 2 * oq s.

(* ---------- a fair executor for the drivers: round-robin sweeps *)
Definition try_step (c : cfg) (s : state) (t : tid) : state :=
  match step c s t with Some s' => s' | None => s end.
Fixpoint sweeps (c : cfg) (fuel : nat) (ts : list tid) (s : state) : state :=
  match fuel with O => s | S f => sweeps c f ts (fold_left (try_step c) ts s) end.
Definition gor_tids_ctx_first : list tid := [T_RDc; T_RCc; T_Wc; T_Sc; T_RD; T_RC; T_W; T_S].
Definition gor_tids_send_first : list tid := [T_RD; T_RC; T_W; T_S; T_RDc; T_RCc; T_Wc; T_Sc].
(* some goroutine tid is enabled *)
Definition any_enabled (c : cfg) (s : state) : bool :=
  existsb (fun t => match step c s t with Some _ => true | None => false end) gor_tids_send_first.
(* let the caller take up to k items, the goroutines running fairly in between *)
Fixpoint consume (c : cfg) (k : nat) (fuel : nat) (s : state) : state :=
  match k, fuel with
  | O, _ | _, O => s
  | S k', S f =>
      match step c s T_CN with
      | Some s' => match cn s' with CN_end => s' | CN_run => consume c k' f s' end
      | None => if any_enabled c s then consume c k f (fold_left (try_step c) gor_tids_send_first s) else s
      end
  end.

(* the code's capacities *)
Definition cfg_of (k : kind) : cfg :=
  {| c_kind := k; c_pcap := 2; c_dcap := match k with KMatrix => 25 | _ => 100 end; c_scap := 100;
     c_abc := true; c_mclose := true |}.

(* ---------- per-goroutine automata over the vpoint labels (local-trace conformance) *)
Inductive label :=
  | L_add                                   (* catcher.add *)
  | L_rd_readend | L_rd_send | L_rd_cancelled | L_rd_added
  | L_rc_recv | L_rc_send | L_rc_cancelled | L_rc_added
  | L_cw_chunk | L_cw_send | L_cw_aborted | L_cw_done
  | L_mw_chunk | L_mw_send | L_mw_aborted
  | L_ss_send.
Inductive role := R_RD | R_RC | R_CW | R_MW | R_SS.

(* automaton states are numbers; None = reject. All states are accepting (a goroutine may be
   observed at any point of its run), so the accepted language is prefix closed. *)
Definition delta (r : role) (q : nat) (l : label) : option nat :=
  match r, q, l with
  (* RD: 0 loop (no send yet), 1 after rd.send, 2 left the loop, 3 after Add, 4 after rd.added *)
  | R_RD, 0, L_rd_send => Some 1 | R_RD, 0, L_rd_readend => Some 2
  | R_RD, 1, L_rd_send => Some 1 | R_RD, 1, L_rd_readend => Some 2 | R_RD, 1, L_rd_cancelled => Some 2
  | R_RD, 2, L_add => Some 3 | R_RD, 3, L_rd_added => Some 4
  (* RC: 0 loop head (nothing received), 1 after rc.recv, 2 after rc.send, 3 after rc.cancelled,
         4 after Add, 5 after rc.added *)
  | R_RC, 0, L_rc_recv => Some 1 | R_RC, 0, L_add => Some 4
  | R_RC, 1, L_rc_recv => Some 1 | R_RC, 1, L_rc_send => Some 2 | R_RC, 1, L_add => Some 4
  | R_RC, 2, L_rc_recv => Some 1 | R_RC, 2, L_rc_cancelled => Some 3 | R_RC, 2, L_add => Some 4
  | R_RC, 3, L_add => Some 4 | R_RC, 4, L_rc_added => Some 5
  (* CW: 0 chunk loop head, 1 in a chunk before any send, 2 after cw.send, 3 after cw.aborted,
         4 after cw.done, 5 finished *)
  | R_CW, 0, L_cw_chunk => Some 1 | R_CW, 0, L_cw_done => Some 4
  | R_CW, 1, L_cw_send => Some 2 | R_CW, 1, L_add => Some 0
  | R_CW, 2, L_cw_send => Some 2 | R_CW, 2, L_add => Some 0 | R_CW, 2, L_cw_aborted => Some 3
  | R_CW, 3, L_add => Some 5 | R_CW, 4, L_add => Some 5
  (* MW: 0 loop head, 1 after mw.chunk, 2 after mw.send, 3 after mw.aborted, 4 one more Add due
         (after "operation aborted"), 5 finished *)
  | R_MW, 0, L_mw_chunk => Some 1 | R_MW, 0, L_add => Some 5
  | R_MW, 1, L_mw_send => Some 2
  | R_MW, 2, L_mw_chunk => Some 1 | R_MW, 2, L_mw_aborted => Some 3 | R_MW, 2, L_add => Some 5
  | R_MW, 3, L_add => Some 4 | R_MW, 4, L_add => Some 5
  (* SS *)
  | R_SS, 0, L_ss_send => Some 0
  | _, _, _ => None
  end.
Fixpoint accepts_from (r : role) (q : nat) (tr : list label) : bool :=
  match tr with
  | [] => true
  | l :: rest => match delta r q l with Some q' => accepts_from r q' rest | None => false end
  end.
Definition accepts_local (r : role) (tr : list label) : bool := accepts_from r 0 tr.
Definition roles : list role := [R_RD; R_RC; R_CW; R_MW; R_SS].
Definition accepted_by_some_role (tr : list label) : bool := existsb (fun r => accepts_local r tr) roles.

(* ---------- the labels a goroutine logs when it takes a step: ties the automata above to step
   (Proofs: local_traces_accepted). The streamer's only label is ss.send, its automaton accepts ss.send*. *)
Definition owner (c : cfg) (t : tid) : option role :=
  match t with
  | T_RD | T_RDc => Some R_RD | T_RC | T_RCc => Some R_RC
  | T_W | T_Wc => if is_matrix c then Some R_MW else Some R_CW
  | _ => None
  end.
Definition role_eqb (a b : role) : bool :=
  match a, b with R_RD, R_RD | R_RC, R_RC | R_CW, R_CW | R_MW, R_MW | R_SS, R_SS => true | _, _ => false end.
Definition emits (c : cfg) (s : state) (t : tid) : list label :=
  match t with
  | T_RD => match rd s with
            | RD_read => match docs s with _ :: _ => [L_rd_send] | [] => [L_rd_readend] end
            | RD_add _ => [L_add; L_rd_added] | _ => [] end
  | T_RDc => [L_rd_cancelled]
  | T_RC => match rc s with
            | RC_recv => match rd s with
                         | RD_send (GoodChunk _) => [L_rc_recv; L_rc_send]
                         | RD_send _ => [L_rc_recv] | _ => [] end
            | RC_add _ => [L_add; L_rc_added] | _ => [] end
  | T_RCc => [L_rc_cancelled]
  | T_W => match w s with
           | W_next => match pipe s with
                       | _ :: _ => if is_matrix c then [L_mw_chunk; L_mw_send] else [L_cw_chunk]
                       | [] => if is_matrix c then [] else [L_cw_done] end
           | W_snext => match oq s with S _ => [L_cw_send] | O => [] end
           | W_sadd | W_abort | W_addc => [L_add]
           | _ => [] end
  | T_Wc => if is_matrix c then [L_mw_aborted] else [L_cw_aborted]
  | _ => []
  end.
(* the label sequence goroutine r logs along a run *)
Fixpoint ltrace (c : cfg) (r : role) (s : state) (sched : list tid) : list label :=
  match sched with
  | [] => []
  | t :: rest =>
      match step c s t with
      | Some s' => (match owner c t with
                    | Some r' => if role_eqb r r' then emits c s t else []
                    | None => [] end) ++ ltrace c r s' rest
      | None => []
      end
  end.


(* ---------- oracles: the properties stated on observations made through the public API *)
(* C05: obs = the three Err() observations of one run (None = not observed; Some true = non-nil):
   while a goroutine was still held, after the consumer finished, and a little later *)
Definition c05_ok (expect_fail : bool) (obs : list (option bool)) : bool :=
  forallb (fun o => match o with None => true | Some e => Bool.eqb e expect_fail end) obs.
(* concurrent catcher: g goroutines added m errors each *)
Definition c05_catcher_ok (g m len nerrors : nat) (has resolve monotone : bool) : bool :=
  (len =? g * m) && (nerrors =? g * m) && has && resolve && monotone.
(* C06: goroutines left after Close/cancel, further Next()=true after quiescence, the proved bound, watchdog *)
Definition c06_ok (leaked further bound : nat) (watchdog : bool) : bool :=
  (leaked =? 0) && (further <=? bound) && negb watchdog.

(* ---------- model observations *)
(* run with a consumer that never stops, fairly, to the end: (consumer saw end, an error is registered) *)
Definition c05_model (c : cfg) (i : input) : bool * bool :=
  let s0 := init c i in
  let fuel := S (measure c s0) in
  let s := consume c (fuel + fuel) (fuel + fuel + fuel) s0 in
  (match cn s with CN_end => true | CN_run => false end, 0 <? errors_registered c s).
(* read k items, perform the caller's cancel actions, let the goroutines run (ctx arms first or send arms
   first): (all goroutines gone, items still buffered, items read before) *)
Definition c06_model (c : cfg) (i : input) (k : nat) (acts : list tid) (ctx_first : bool) : bool * (nat * nat) :=
  let s0 := init c i in
  let fuel := S (measure c s0) in
  let s1 := consume c k (k + fuel) s0 in
  let s2 := fold_left (try_step c) acts s1 in
  let s3 := sweeps c fuel (if ctx_first then gor_tids_ctx_first else gor_tids_send_first) s2 in
  (all_doneb s3, (buffered c s3, got s1)).
