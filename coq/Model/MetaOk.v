(* C11 — metadata travels with the chunks it describes.
   Specification functions, the model of the per-item metadata of the four
   iterator views (iterator_combined.go, iterator_matrix.go after commit 63a24e4:
   every item travels with the metadata of the chunk it came from), the
   emit-side statement as a scan over the events of a collector history, the
   erasure of the metadata history, and the executable oracles.
   Definitions only. *)
From Coq Require Import ZArith NArith List Bool.
From FV.Model Require Import Bytes Bson Metrics Codec Collector Wf RoundTrip CollectorOk Views Instance.
Import ListNotations.
Open Scope Z_scope.

(* ================================================================== read side *)
(* readChunks' classification of an outer document: type 0 is tested first *)
Definition is_meta (d : doc) : bool := is_num 0 (lookup k_type d).
Definition is_chunkd (d : doc) : bool := negb (is_meta d) && is_num 1 (lookup k_type d).

(* the specification, a left-to-right scan that knows nothing of the reader: one
   entry per chunk document, the most recent metadata document seen before it *)
Fixpoint spec_metas (cur : option doc) (ds : list doc) : list (option doc) :=
  match ds with
  | [] => []
  | d :: r => if is_meta d then spec_metas (Some d) r
              else if is_chunkd d then cur :: spec_metas cur r
              else spec_metas cur r
  end.

(* the same thing said by position: the last metadata document of a prefix *)
Definition last_meta (pre : list doc) : option doc := find is_meta (rev pre).
Definition chunk_docs (ds : list doc) : list doc := filter is_chunkd ds.
Definition chunk_count (ds : list doc) : nat := length (chunk_docs ds).

(* ---- the iterator views: every delivered item paired with the metadata the
   iterator reports while that item is current ---- *)
Definition tag_items {A : Type} (f : chunk -> list A) (cs : list chunk) : list (option doc * A) :=
  flat_map (fun c => map (fun x => (ck_meta c, x)) (f c)) cs.

(* ReadMetrics / ReadStructuredMetrics: one item per sample of every chunk *)
Definition flat_items : list chunk -> list (option doc * doc) := tag_items flat_docs.
Definition structured_items : list chunk -> list (option doc * option doc) := tag_items structured_docs.
(* ReadSeries: one item per chunk *)
Definition series_items : list chunk -> list (option doc * doc) := tag_items (fun c => [series_doc c]).
(* ReadMatrix: one item per chunk; the worker stops at a chunk it cannot export *)
Fixpoint matrix_items (cs : list chunk) : list (option doc * doc) :=
  match cs with
  | [] => []
  | c :: r => match matrix_doc c with
              | Some d => (ck_meta c, d) :: matrix_items r
              | None => []
              end
  end.

(* the metadata expected per item: chunk j's entry once per item of chunk j *)
Definition spread (sizes : list nat) (ms : list (option doc)) : list (option doc) :=
  flat_map (fun nm => repeat (snd nm) (fst nm)) (combine sizes ms).

(* ================================================================== emit side *)
(* batchCollector / dynamicCollector: SetMetadata reaches chunk 0 only, Resolve
   concatenates all chunks, Reset builds fresh chunks (the slot is lost).
   base / streaming / streaming-dynamic: one chunk per output, Reset keeps the slot *)
Definition multi_chunk (k : kind) : bool := match k with KBatch | KDyn => true | _ => false end.

Definition opt_meta (slot : option doc) (s : Z) : list doc :=
  match slot with Some m => [meta_doc s m] | None => [] end.

Definition is_chunk_doc (d : doc) : Prop := exists s data, d = chunk_doc s data.

(* the shape of one output (Resolve result or writer record) under metadata slot
   [slot]: the metadata document — present exactly when the slot is set, its "doc"
   field exactly the slot's document, its _id that of the chunk — immediately
   followed by the first chunk document, then chunk documents only (none for the
   one-chunk kinds).  No other type-0 document occurs. *)
Definition out_ok (k : kind) (slot : option doc) (ds : list doc) : Prop :=
  exists s data rest,
    ds = opt_meta slot s ++ chunk_doc s data :: rest /\
    Forall is_chunk_doc rest /\ (multi_chunk k = false -> rest = []).

Definition outp_ok (k : kind) (slot : option doc) (o : outp) : Prop :=
  match o with OFtdc ds => out_ok k slot ds | ODocs _ _ => False end.

Definition rec_out (r : wrec) : outp := match r with WFull o => o | WPart _ o => o end.
Definition rec_full (r : wrec) : bool := match r with WFull _ => true | WPart _ _ => false end.

(* one operation as seen from outside: the operation, what Resolve returned (if it
   was a Resolve that succeeded) and the records the writer received during it *)
Record event := mkEvent { ev_op : op; ev_resolve : option outp; ev_recs : list wrec }.

(* the metadata slot after an operation: SetMetadata replaces it; Reset keeps it,
   except on the multi-chunk kinds; FlushCollector on those resets the collector
   exactly when it handed a complete record to the writer *)
Definition slot_next (k : kind) (slot : option doc) (e : event) : option doc :=
  match ev_op e with
  | OSetMeta m => m
  | OReset => if multi_chunk k then None else slot
  | OFlush => if multi_chunk k && existsb rec_full (ev_recs e) then None else slot
  | _ => slot
  end.

(* every output of every operation has the shape dictated by the slot in force
   when the operation started *)
Fixpoint trace_ok (k : kind) (slot : option doc) (evs : list event) : Prop :=
  match evs with
  | [] => True
  | e :: r =>
      (forall o, ev_resolve e = Some o -> outp_ok k slot o) /\
      Forall (fun rc => outp_ok k slot (rec_out rc)) (ev_recs e) /\
      trace_ok k (slot_next k slot e) r
  end.

Fixpoint slot_after (k : kind) (slot : option doc) (evs : list event) : option doc :=
  match evs with [] => slot | e :: r => slot_after k (slot_next k slot e) r end.

(* the last document passed to SetMetadata *)
Fixpoint last_set (cur : option doc) (ops : list op) : option doc :=
  match ops with
  | [] => cur
  | OSetMeta m :: r => last_set m r
  | _ :: r => last_set cur r
  end.

(* ---- erasing the metadata history ---- *)
Definition drop_meta (ds : list doc) : list doc := filter (fun d => negb (is_meta d)) ds.

Definition is_set_meta (o : op) : bool := match o with OSetMeta _ => true | _ => false end.
Definition ops_erase (ops : list op) : list op := filter (fun o => negb (is_set_meta o)) ops.

Definition out_erase (o : outp) : outp :=
  match o with OFtdc ds => OFtdc (drop_meta ds) | ODocs j ds => ODocs j ds end.
Definition wrec_erase (r : wrec) : wrec :=
  match r with WFull o => WFull (out_erase o) | WPart n o => WPart n (out_erase o) end.
Definition writer_erase (w : writer) : writer :=
  mkWriter (map wrec_erase (w_log w)) (w_faults w) (w_closed w).
Definition obs_erase (b : obs) : obs :=
  match b with
  | BResolve (Some o) => BResolve (Some (out_erase o))
  | _ => b
  end.
Definition is_bset (b : obs) : bool := match b with BSetMeta => true | _ => false end.
Definition obss_erase (bs : list obs) : list obs := map obs_erase (filter (fun b => negb (is_bset b)) bs).

Definition bc_erase (b : bcoll) : bcoll := bc_set_meta b None.
Definition ba_erase (b : batch) : batch := mkBatch (ba_max b) (map bc_erase (ba_chunks b)).
Definition dy_erase (c : dyn) : dyn := mkDyn (dy_max c) (map ba_erase (dy_chunks c)) (dy_hash c).
Definition in_erase (i : inner) : inner := match i with IB b => IB (bc_erase b) | IU u => IU u end.
Definition sc_erase (s : scoll) : scoll := mkScoll (sc_max s) (sc_count s) (in_erase (sc_inner s)).
Definition coll_erase (c : coll) : coll :=
  match c with
  | CBase b => CBase (bc_erase b)
  | CBatch b => CBatch (ba_erase b)
  | CDyn x => CDyn (dy_erase x)
  | CStream s => CStream (sc_erase s)
  | CSDyn s => CSDyn (mkSdcoll (sd_hash s) (sd_mcount s) (sc_erase (sd_s s)))
  | CUnc u => CUnc u
  end.

(* a collector built from compressing parts only *)
Definition comp_inner (i : inner) : bool := match i with IB _ => true | IU _ => false end.
Definition comp_coll (c : coll) : bool :=
  match c with
  | CBase _ | CBatch _ | CDyn _ => true
  | CStream s => comp_inner (sc_inner s)
  | CSDyn s => comp_inner (sc_inner (sd_s s))
  | CUnc _ => false
  end.

(* a chunk with its metadata forgotten, and "decode to the same samples" *)
Definition unmeta (c : chunk) : chunk := mkChunk (ck_metrics c) (ck_npoints c) (ck_id c) None (ck_ref c).

Definition same_samples (a b : option decoded) : Prop :=
  match a, b with
  | Some x, Some y => dc_docs x = dc_docs y /\ dc_sizes x = dc_sizes y
  | None, None => True
  | _, _ => False
  end.

(* all outputs of a run, in order of appearance per source: Resolve results, then
   the writer's records *)
Definition resolve_outs (bs : list obs) : list outp :=
  flat_map (fun b => match b with BResolve (Some o) => [o] | _ => [] end) bs.
Definition outp_docs (o : outp) : list doc := match o with OFtdc ds => ds | ODocs _ ds => ds end.

Section Zlib.
Variable deflate : bytes -> bytes.

Fixpoint run_trace (st : coll * writer) (ops : list op) : list event :=
  match ops with
  | [] => []
  | o :: r =>
      let '(st', b) := step deflate st o in
      mkEvent o (match b with BResolve x => x | _ => None end)
              (skipn (length (w_log (snd st))) (w_log (snd st')))
      :: run_trace st' r
  end.

End Zlib.

(* ================================================================== oracles *)
Definition odoc_eqb (a b : option doc) : bool :=
  match a, b with
  | Some x, Some y => doc_eqb x y
  | None, None => true
  | _, _ => false
  end.
Fixpoint odocs_eqb (a b : list (option doc)) : bool :=
  match a, b with
  | [], [] => true
  | x :: r, y :: s => odoc_eqb x y && odocs_eqb r s
  | _, _ => false
  end.

(* (1) read side.  [ds]: the outer documents of the stream; [cmetas]: what
   GetMetadata() returned for each delivered chunk *)
Definition c11_chunks_ok (ds : list doc) (cmetas : list (option doc)) : bool :=
  (length cmetas <=? length (spec_metas None ds))%nat &&
  odocs_eqb cmetas (firstn (length cmetas) (spec_metas None ds)).

(* [sizes]: Size() of each delivered chunk; [imetas]: Metadata() after every Next
   of a per-sample iterator (documents of chunk j carry chunk j's metadata) *)
Definition c11_samples_ok (ds : list doc) (sizes : list Z) (imetas : list (option doc)) : bool :=
  odocs_eqb imetas (spread (map Z.to_nat sizes) (firstn (length sizes) (spec_metas None ds))).

(* per-chunk iterators (matrix, series): item j carries chunk j's metadata *)
Definition c11_perchunk_ok (ds : list doc) (nchunks : nat) (imetas : list (option doc)) : bool :=
  (length imetas <=? nchunks)%nat &&
  odocs_eqb imetas (firstn (length imetas) (spec_metas None ds)).

(* the same said by position, with "nil only when the stream carries none": the
   i-th delivered chunk reports the last metadata document of the prefix that
   precedes the i-th chunk document, and reports nil exactly when that prefix
   holds no metadata document *)
Fixpoint prefix_before (i : nat) (ds : list doc) : option (list doc) :=
  match ds with
  | [] => None
  | d :: r =>
      if is_chunkd d then
        match i with
        | O => Some []
        | S j => match prefix_before j r with Some p => Some (d :: p) | None => None end
        end
      else match prefix_before i r with Some p => Some (d :: p) | None => None end
  end.

Definition is_none (m : option doc) : bool := match m with None => true | Some _ => false end.

Definition c11_chunks_pos_ok (ds : list doc) (cmetas : list (option doc)) : bool :=
  forallb (fun im => match prefix_before (fst im) ds with
                     | Some pre => odoc_eqb (snd im) (last_meta pre)
                                   && Bool.eqb (is_none (snd im)) (negb (existsb is_meta pre))
                     | None => false
                     end)
          (combine (seq 0 (length cmetas)) cmetas).

(* (2) emit side: the boolean reading of [out_ok] on documents as they come back
   from the implementation *)
Definition chunk_shape (d : doc) : option Z :=
  match d with
  | [(k1, VDateTime s); (k2, VInt32 t); (k3, VBinary st _)] =>
      if bytes_eqb k1 k_id && bytes_eqb k2 k_type && bytes_eqb k3 k_data && (t =? 1) && (st =? 0)%N
      then Some s else None
  | _ => None
  end.
Definition meta_shape (d : doc) : option (Z * doc) :=
  match d with
  | [(k1, VDateTime s); (k2, VInt32 t); (k3, VDoc m)] =>
      if bytes_eqb k1 k_id && bytes_eqb k2 k_type && bytes_eqb k3 k_doc && (t =? 0)
      then Some (s, m) else None
  | _ => None
  end.
Definition is_chunk_shape (d : doc) : bool := match chunk_shape d with Some _ => true | None => false end.

Definition tail_okb (k : kind) (rest : list doc) : bool :=
  forallb is_chunk_shape rest && (multi_chunk k || match rest with [] => true | _ => false end).

Definition out_okb (k : kind) (slot : option doc) (ds : list doc) : bool :=
  match slot with
  | Some m =>
      match ds with
      | d0 :: d1 :: rest =>
          match meta_shape d0, chunk_shape d1 with
          | Some (s0, m0), Some s1 => (s0 =? s1) && doc_eqb m0 m && tail_okb k rest
          | _, _ => false
          end
      | _ => false
      end
  | None =>
      match ds with
      | d1 :: rest => is_chunk_shape d1 && tail_okb k rest
      | [] => false
      end
  end.

Definition outp_okb (k : kind) (slot : option doc) (o : outp) : bool :=
  match o with OFtdc ds => out_okb k slot ds | ODocs _ _ => false end.

(* a partial record shows only a prefix of its bytes: nothing to judge *)
Definition rec_okb (k : kind) (slot : option doc) (r : wrec) : bool :=
  match r with WFull o => outp_okb k slot o | WPart _ _ => true end.

Fixpoint trace_okb (k : kind) (slot : option doc) (evs : list event) : bool :=
  match evs with
  | [] => true
  | e :: r =>
      match ev_resolve e with Some o => outp_okb k slot o | None => true end
      && forallb (rec_okb k slot) (ev_recs e)
      && trace_okb k (slot_next k slot e) r
  end.

(* one step of the same scan, for drivers that want the failing operation *)
Definition event_okb (k : kind) (slot : option doc) (e : event) : bool :=
  match ev_resolve e with Some o => outp_okb k slot o | None => true end
  && forallb (rec_okb k slot) (ev_recs e).

(* the outputs of a history and of the same history with every SetMetadata
   removed differ by the metadata documents only *)
Definition c11_twin_ok (with_meta without : list doc) : bool := docs_eqb (drop_meta with_meta) without.

(* the model's predictions with the trivial codec *)
Definition x_run_trace := run_trace deflate_flag.
Definition x_chunk_metas (cs : list chunk) : list (option doc) := map ck_meta cs.
