(* Bytes, fixed-width little-endian words, two's complement views and Go's
   unsigned varints (encoding/binary).  Definitions only. Arithmetic is written
   with / and mod so that lia (with Z.div_mod_to_equations) can reason about it. *)
From Coq Require Import ZArith NArith List Bool.
Import ListNotations.

Definition byte := N.
Definition bytes := list N.

Definition is_byte (b : N) : bool := (b <? 256)%N.
Definition wf_bytes (l : bytes) : Prop := Forall (fun b => (b < 256)%N) l.

(* ---- little endian ---- *)
Fixpoint le_enc (n : nat) (x : N) : bytes :=
  match n with
  | O => []
  | S k => (x mod 256)%N :: le_enc k (x / 256)%N
  end.

Fixpoint le_dec (l : bytes) : N :=
  match l with
  | [] => 0%N
  | b :: r => (b + 256 * le_dec r)%N
  end.

(* ---- two's complement views (Go int64/int32/uint64/uint32 conversions) ---- *)
Open Scope Z_scope.
Definition wrap64 (z : Z) : Z := (z + 2 ^ 63) mod 2 ^ 64 - 2 ^ 63.
Definition wrap32 (z : Z) : Z := (z + 2 ^ 31) mod 2 ^ 32 - 2 ^ 31.
Definition u64 (z : Z) : N := Z.to_N (z mod 2 ^ 64).   (* uint64(int64) *)
Definition u32 (z : Z) : N := Z.to_N (z mod 2 ^ 32).   (* uint32(...)   *)
Definition s64 (n : N) : Z := wrap64 (Z.of_N n).       (* int64(uint64) *)
Definition s32 (n : N) : Z := wrap32 (Z.of_N n).

Definition in_i64 (z : Z) : bool := (- 2 ^ 63 <=? z) && (z <? 2 ^ 63).
Definition in_i32 (z : Z) : bool := (- 2 ^ 31 <=? z) && (z <? 2 ^ 31).
Definition in_u32 (z : Z) : bool := (0 <=? z) && (z <? 2 ^ 32).
Close Scope Z_scope.

(* ---- unsigned varint: binary.PutUvarint / binary.ReadUvarint ---- *)
Open Scope N_scope.

(* PutUvarint: for x >= 0x80 { emit byte(x)|0x80; x >>= 7 }; emit byte(x).
   fuel 10 suffices for x < 2^64 *)
Fixpoint uvarint_enc_fuel (fuel : nat) (x : N) : bytes :=
  match fuel with
  | O => [x mod 128]
  | S f => if x <? 128 then [x] else (x mod 128 + 128) :: uvarint_enc_fuel f (x / 128)
  end.
Definition uvarint_enc (x : N) : bytes := uvarint_enc_fuel 9 x.

Inductive vres := VOk (x : N) (rest : bytes) | VEof | VUnexpectedEof | VOverflow.

(* ReadUvarint: at most 10 bytes; the 10th byte must be <= 1.
   i = index of the byte being read, acc = x so far, sh = 128^i *)
Fixpoint uvarint_dec_aux (fuel : nat) (i : nat) (acc sh : N) (l : bytes) : vres :=
  match fuel with
  | O => VOverflow
  | S f =>
      match l with
      | [] => if Nat.eqb i 0 then VEof else VUnexpectedEof
      | b :: r =>
          if b <? 128 then
            if Nat.eqb i 9 && (1 <? b) then VOverflow
            else VOk ((acc + b * sh) mod 2 ^ 64) r
          else uvarint_dec_aux f (S i) (acc + (b - 128) * sh) (sh * 128) r
      end
  end.
Definition uvarint_dec (l : bytes) : vres := uvarint_dec_aux 10 0 0 1 l.
Close Scope N_scope.

(* ---- list helpers ---- *)
Definition take := @firstn N.
Definition drop := @skipn N.

(* decimal rendering of a natural number (array index keys "0", "1", ...) *)
Fixpoint dec_digits_fuel (fuel : nat) (n : N) (acc : bytes) : bytes :=
  match fuel with
  | O => acc
  | S f => let acc' := (48 + n mod 10)%N :: acc in
           if (n <? 10)%N then acc' else dec_digits_fuel f (n / 10)%N acc'
  end.
Definition dec_digits (n : N) : bytes := dec_digits_fuel 40 n [].
