(* Definitions shared by the statements of C01/C03/C07/C08/C11: what "encode a
   history" and "read it back" mean on the model. *)
From Coq Require Import ZArith NArith List Bool.
From FV.Model Require Import Bytes Bson Metrics Codec Collector Wf.
Import ListNotations.
Open Scope Z_scope.

Fixpoint all_some {A} (l : list (option A)) : option (list A) :=
  match l with
  | [] => Some []
  | Some x :: r => match all_some r with Some xs => Some (x :: xs) | None => None end
  | None :: _ => None
  end.

Definition compressing (k : kind) : bool :=
  match k with KBase | KBatch | KDyn | KStream | KSDyn => true | _ => false end.

(* the outer documents completely handed to the writer, in order *)
Definition emitted (w : writer) : list doc :=
  flat_map (fun r => match r with WFull (OFtdc ds) => ds | _ => [] end) (w_log w).

(* NewBaseCollector(n) holds the reference sample plus n deltas and then refuses *)
Definition fits (k : kind) (n : Z) (docs : list doc) : Prop :=
  match k with KBase => Z.of_nat (length docs) <= n + 1 | _ => True end.

Definition add_ops (docs : list doc) (nows : list Z) : list op :=
  map (fun dt => OAdd (fst dt) (snd dt)) (combine docs nows).

Section Zlib.
Variable deflate : bytes -> bytes.
Variable inflate : bytes -> option bytes.

(* ReadStructuredMetrics over a sequence of outer documents: the restored
   documents of every chunk in order (None if a restoration would index out of
   range) and the reader's error *)
Definition read_structured (ds : list doc) : option (list doc) * option rerr :=
  let '(cs, e) := read_chunks inflate None ds in
  (all_some (flat_map structured_docs cs), e).

(* add every document, then FlushCollector into the writer *)
Definition emit (k : kind) (n : Z) (docs : list doc) (nows : list Z) : (coll * writer) * list obs :=
  run deflate (new_coll k n, mkWriter [] [] false) (add_ops docs nows ++ [OFlush]).

End Zlib.
