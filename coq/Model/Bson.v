(* BSON values (all 21 element types), canonical encoder, strict decoder.
   Definitions only.  Numbers: Z for signed fields (int32, int64, datetime and
   the int64 view of a double's bit pattern), Z in [0,2^32) for the two halves
   of a timestamp. *)
From Coq Require Import ZArith NArith List Bool.
From FV.Model Require Import Bytes.
Import ListNotations.

Inductive value :=
| VDouble (bits : Z)                       (* 0x01; int64(math.Float64bits(x)) *)
| VString (s : bytes)                      (* 0x02 *)
| VDoc (d : list (bytes * value))          (* 0x03 *)
| VArr (a : list value)                    (* 0x04 *)
| VBinary (subtype : N) (b : bytes)        (* 0x05 *)
| VUndefined                               (* 0x06 *)
| VObjectID (b : bytes)                    (* 0x07, 12 bytes *)
| VBool (b : bool)                         (* 0x08 *)
| VDateTime (ms : Z)                       (* 0x09 *)
| VNull                                    (* 0x0A *)
| VRegex (p o : bytes)                     (* 0x0B *)
| VDBPointer (ns : bytes) (oid : bytes)    (* 0x0C *)
| VJavaScript (s : bytes)                  (* 0x0D *)
| VSymbol (s : bytes)                      (* 0x0E *)
| VCodeWithScope (code : bytes) (scope : list (bytes * value))  (* 0x0F *)
| VInt32 (i : Z)                           (* 0x10 *)
| VTimestamp (t i : Z)                     (* 0x11: seconds, increment *)
| VInt64 (i : Z)                           (* 0x12 *)
| VDecimal128 (b : bytes)                  (* 0x13, 16 bytes *)
| VMinKey                                  (* 0xFF *)
| VMaxKey.                                 (* 0x7F *)

Definition doc := list (bytes * value).

Definition tag (v : value) : N :=
  match v with
  | VDouble _ => 1 | VString _ => 2 | VDoc _ => 3 | VArr _ => 4 | VBinary _ _ => 5
  | VUndefined => 6 | VObjectID _ => 7 | VBool _ => 8 | VDateTime _ => 9 | VNull => 10
  | VRegex _ _ => 11 | VDBPointer _ _ => 12 | VJavaScript _ => 13 | VSymbol _ => 14
  | VCodeWithScope _ _ => 15 | VInt32 _ => 16 | VTimestamp _ _ => 17 | VInt64 _ => 18
  | VDecimal128 _ => 19 | VMinKey => 255 | VMaxKey => 127
  end%N.

Definition cstring (k : bytes) : bytes := k ++ [0%N].
Definition bstring (s : bytes) : bytes := le_enc 4 (N.of_nat (length s + 1)) ++ s ++ [0%N].
Definition frame (body : bytes) : bytes := le_enc 4 (N.of_nat (length body + 5)) ++ body ++ [0%N].

Fixpoint enc_value (v : value) : bytes :=
  let enc_elems := fix go (l : list (bytes * value)) : bytes :=
    match l with
    | [] => []
    | (k, x) :: r => tag x :: cstring k ++ enc_value x ++ go r
    end in
  match v with
  | VDouble b => le_enc 8 (u64 b)
  | VString s => bstring s
  | VDoc d => frame (enc_elems d)
  | VArr a =>
      frame ((fix go (i : N) (l : list value) : bytes :=
                match l with
                | [] => []
                | x :: r => tag x :: cstring (dec_digits i) ++ enc_value x ++ go (i + 1)%N r
                end) 0%N a)
  | VBinary st b => le_enc 4 (N.of_nat (length b)) ++ st :: b
  | VUndefined => []
  | VObjectID b => b
  | VBool b => [if b then 1%N else 0%N]
  | VDateTime ms => le_enc 8 (u64 ms)
  | VNull => []
  | VRegex p o => cstring p ++ cstring o
  | VDBPointer ns oid => bstring ns ++ oid
  | VJavaScript s => bstring s
  | VSymbol s => bstring s
  | VCodeWithScope code scope =>
      let body := bstring code ++ frame (enc_elems scope) in
      le_enc 4 (N.of_nat (length body + 4)) ++ body
  | VInt32 i => le_enc 4 (u32 i)
  | VTimestamp t i => le_enc 4 (u32 i) ++ le_enc 4 (u32 t)
  | VInt64 i => le_enc 8 (u64 i)
  | VDecimal128 b => b
  | VMinKey => []
  | VMaxKey => []
  end.

Fixpoint enc_elems (l : list (bytes * value)) : bytes :=
  match l with
  | [] => []
  | (k, x) :: r => tag x :: cstring k ++ enc_value x ++ enc_elems r
  end.

Definition enc_doc (d : doc) : bytes := frame (enc_elems d).

(* ---- decoder ---- *)

(* split at the first 0 byte: (key, rest after the 0) *)
Fixpoint split_cstring (l : bytes) : option (bytes * bytes) :=
  match l with
  | [] => None
  | b :: r => if (b =? 0)%N then Some ([], r)
              else match split_cstring r with
                   | Some (k, rest) => Some (b :: k, rest)
                   | None => None
                   end
  end.

Definition take_exact (n : nat) (l : bytes) : option (bytes * bytes) :=
  if Nat.leb n (length l) then Some (firstn n l, skipn n l) else None.

Definition read_le (n : nat) (l : bytes) : option (N * bytes) :=
  match take_exact n l with
  | Some (w, rest) => Some (le_dec w, rest)
  | None => None
  end.

(* length-prefixed string: int32 n (n >= 1), n-1 bytes, a 0 byte *)
Definition read_bstring (l : bytes) : option (bytes * bytes) :=
  match read_le 4 l with
  | Some (n, r) =>
      if (n <? 1)%N then None else
      match take_exact (N.to_nat n - 1) r with
      | Some (s, r') => match r' with
                        | z :: r'' => if (z =? 0)%N then Some (s, r'') else None
                        | [] => None
                        end
      | None => None
      end
  | None => None
  end.

(* framed document body: int32 total, total-5 body bytes, a 0 byte *)
Definition read_frame (l : bytes) : option (bytes * bytes) :=
  match read_le 4 l with
  | Some (n, r) =>
      if (n <? 5)%N then None else
      match take_exact (N.to_nat n - 5) r with
      | Some (body, r') => match r' with
                           | z :: r'' => if (z =? 0)%N then Some (body, r'') else None
                           | [] => None
                           end
      | None => None
      end
  | None => None
  end.

Fixpoint dec_value (fuel : nat) (t : N) (l : bytes) {struct fuel} : option (value * bytes) :=
  match fuel with
  | O => None
  | S f =>
      let elems := fix go (fuel' : nat) (body : bytes) {struct fuel'} : option (list (bytes * value)) :=
        match fuel' with
        | O => None
        | S f' =>
            match body with
            | [] => Some []
            | tg :: r =>
                match split_cstring r with
                | Some (k, r1) =>
                    match dec_value f tg r1 with
                    | Some (v, r2) => match go f' r2 with
                                      | Some es => Some ((k, v) :: es)
                                      | None => None
                                      end
                    | None => None
                    end
                | None => None
                end
            end
        end in
      match t with
      | 1 => match read_le 8 l with Some (x, r) => Some (VDouble (s64 x), r) | None => None end
      | 2 => match read_bstring l with Some (s, r) => Some (VString s, r) | None => None end
      | 3 => match read_frame l with
             | Some (body, r) => match elems (S (length body)) body with
                                 | Some es => Some (VDoc es, r) | None => None end
             | None => None end
      | 4 => match read_frame l with
             | Some (body, r) => match elems (S (length body)) body with
                                 | Some es => Some (VArr (map snd es), r) | None => None end
             | None => None end
      | 5 => match read_le 4 l with
             | Some (n, r) => match r with
                              | st :: r1 => match take_exact (N.to_nat n) r1 with
                                            | Some (b, r2) => Some (VBinary st b, r2) | None => None end
                              | [] => None end
             | None => None end
      | 6 => Some (VUndefined, l)
      | 7 => match take_exact 12 l with Some (b, r) => Some (VObjectID b, r) | None => None end
      | 8 => match l with
             | b :: r => if (b =? 0) then Some (VBool false, r)
                         else if (b =? 1) then Some (VBool true, r) else None
             | [] => None end
      | 9 => match read_le 8 l with Some (x, r) => Some (VDateTime (s64 x), r) | None => None end
      | 10 => Some (VNull, l)
      | 11 => match split_cstring l with
              | Some (p, r) => match split_cstring r with
                               | Some (o, r') => Some (VRegex p o, r') | None => None end
              | None => None end
      | 12 => match read_bstring l with
              | Some (ns, r) => match take_exact 12 r with
                                | Some (oid, r') => Some (VDBPointer ns oid, r') | None => None end
              | None => None end
      | 13 => match read_bstring l with Some (s, r) => Some (VJavaScript s, r) | None => None end
      | 14 => match read_bstring l with Some (s, r) => Some (VSymbol s, r) | None => None end
      | 15 => match read_le 4 l with
              | Some (n, r) =>
                  match read_bstring r with
                  | Some (code, r1) =>
                      match read_frame r1 with
                      | Some (body, r2) =>
                          match elems (S (length body)) body with
                          | Some es =>
                              if (N.to_nat n =? 4 + (length r - length r2))%nat
                              then Some (VCodeWithScope code es, r2) else None
                          | None => None end
                      | None => None end
                  | None => None end
              | None => None end
      | 16 => match read_le 4 l with Some (x, r) => Some (VInt32 (s32 x), r) | None => None end
      | 17 => match read_le 4 l with
              | Some (i, r) => match read_le 4 r with
                               | Some (t', r') => Some (VTimestamp (Z.of_N t') (Z.of_N i), r')
                               | None => None end
              | None => None end
      | 18 => match read_le 8 l with Some (x, r) => Some (VInt64 (s64 x), r) | None => None end
      | 19 => match take_exact 16 l with Some (b, r) => Some (VDecimal128 b, r) | None => None end
      | 255 => Some (VMinKey, l)
      | 127 => Some (VMaxKey, l)
      | _ => None
      end%N
  end.

(* one framed document at the head of [l]; fuel = length of the input *)
Definition dec_doc (l : bytes) : option (doc * bytes) :=
  match dec_value (S (length l)) 3%N l with
  | Some (VDoc d, r) => Some (d, r)
  | _ => None
  end.

(* a whole byte string as a sequence of documents *)
Fixpoint dec_docs_fuel (fuel : nat) (l : bytes) : option (list doc) :=
  match fuel with
  | O => None
  | S f => match l with
           | [] => Some []
           | _ => match dec_doc l with
                  | Some (d, r) => match dec_docs_fuel f r with
                                   | Some ds => Some (d :: ds) | None => None end
                  | None => None
                  end
           end
  end.
Definition dec_docs (l : bytes) : option (list doc) := dec_docs_fuel (S (length l)) l.

(* ---- well-formedness of values (what the encoder can represent) ---- *)
Definition key_ok (k : bytes) : bool := forallb (fun b => (0 <? b)%N && (b <? 256)%N) k.
Definition bytes_ok (s : bytes) : bool := forallb (fun b => (b <? 256)%N) s.

Fixpoint value_ok (v : value) : bool :=
  let elems_ok := fix go (l : list (bytes * value)) : bool :=
    match l with [] => true | (k, x) :: r => key_ok k && value_ok x && go r end in
  match v with
  | VDouble b => in_i64 b
  | VString s => bytes_ok s
  | VDoc d => elems_ok d
  | VArr a => (fix go (l : list value) : bool :=
                 match l with [] => true | x :: r => value_ok x && go r end) a
  | VBinary st b => ((st <=? 5) || ((128 <=? st) && (st <? 256)))%N && bytes_ok b
  | VObjectID b => bytes_ok b && Nat.eqb (length b) 12
  | VDateTime ms => in_i64 ms
  | VRegex p o => key_ok p && key_ok o
  | VDBPointer ns oid => bytes_ok ns && bytes_ok oid && Nat.eqb (length oid) 12
  | VJavaScript s => bytes_ok s
  | VSymbol s => bytes_ok s
  | VCodeWithScope code scope => bytes_ok code && elems_ok scope
  | VInt32 i => in_i32 i
  | VTimestamp t i => in_u32 t && in_u32 i
  | VInt64 i => in_i64 i
  | VDecimal128 b => bytes_ok b && Nat.eqb (length b) 16
  | _ => true
  end.

Fixpoint doc_ok (d : doc) : bool :=
  match d with [] => true | (k, x) :: r => key_ok k && value_ok x && doc_ok r end.

(* lookup of a top-level key (first match) *)
Fixpoint lookup (k : bytes) (d : doc) : option value :=
  match d with
  | [] => None
  | (k', v) :: r => if list_eq_dec N.eq_dec k k' then Some v else lookup k r
  end.

Definition bytes_eqb (a b : bytes) : bool := if list_eq_dec N.eq_dec a b then true else false.
