(* Executable statement of C13 over observations made through the public API of
   hdrhist (the oracles named c13_ok_...), and the model's own observation functions
   (named model_...) for the correspondence check.  Definitions only.

   The oracles state the property on what the implementation returned and avoid
   the model's iteration code (steps / cells / iterate / merge): they use the
   exact sorted input list, the point functions of Model/Hdr.v (config_of,
   counts_index_for, lowest_equiv, highest_equiv, size_of_range) and a direct
   histogramming of the input values (expect_counts).  The model_... functions
   use the model's iterators, i.e. the definitions the theorems of Props/C13.v
   speak about. *)
From Coq Require Import ZArith List Bool.
From FV.Model Require Import Hdr.
Import ListNotations.
Open Scope Z_scope.

Definition hist_of (lo hi s : Z) (vs : list Z) : hist := fst (record_all (new lo hi s) vs).

(* the domain of the property: a valid configuration and values in 0..hi *)
Definition c13_valid (lo hi s : Z) (vs : list Z) : bool :=
  (0 <=? lo) && (1 <=? hi) && (hi <? 2 ^ 62) && (1 <=? s) && (s <=? 5)
  && forallb (fun v => (0 <=? v) && (v <=? hi)) vs.

(* ---- exact reference: sorting, sums ---- *)
Fixpoint insert (x : Z) (l : list Z) : list Z :=
  match l with
  | [] => [x]
  | y :: r => if x <=? y then x :: l else y :: insert x r
  end.
Definition isort (l : list Z) : list Z := fold_right insert [] l.

Definition zsum (l : list Z) : Z := fold_left Z.add l 0.
Definition zlen {A} (l : list A) : Z := Z.of_nat (length l).

(* ---- sparse counts: sorted association list (counts index, count), no zero entries ---- *)
Fixpoint bump (i n : Z) (l : list (Z * Z)) : list (Z * Z) :=
  match l with
  | [] => [(i, n)]
  | (j, m) :: r => if i <? j then (i, n) :: l
                   else if i =? j then (j, m + n) :: r
                   else (j, m) :: bump i n r
  end.

Definition in_counts (c : cfg) (i : Z) : bool := (0 <=? i) && (i <? c_len c).

(* counts array after recording vs into an empty histogram of geometry c, values the
   geometry cannot index being rejected: direct histogramming, no iterator *)
Definition expect_counts_from (c : cfg) (acc : list (Z * Z)) (vs : list Z) : list (Z * Z) :=
  fold_left (fun acc v => let i := counts_index_for c v in
                          if in_counts c i then bump i 1 acc else acc) vs acc.
Definition expect_counts (c : cfg) (vs : list Z) : list (Z * Z) := expect_counts_from c [] vs.

Fixpoint eq_pairs (a b : list (Z * Z)) : bool :=
  match a, b with
  | [], [] => true
  | (i, n) :: ra, (j, m) :: rb => (i =? j) && (n =? m) && eq_pairs ra rb
  | _, _ => false
  end.

Fixpoint eq_zs (a b : list Z) : bool :=
  match a, b with
  | [], [] => true
  | x :: ra, y :: rb => (x =? y) && eq_zs ra rb
  | _, _ => false
  end.

(* the model's counts array in the same sparse form *)
Definition sparse (h : hist) : list (Z * Z) :=
  filter (fun p => negb (snd p =? 0))
         (map (fun i => (i, h_counts h i)) (zrange 0 (c_len (h_cfg h)))).

(* ================= 1-3: quantiles, monotonicity, Min / Max / Mean ================= *)

(* monotone in the rank: all pairs (used for up to 100 quantiles); neighbours only, which
   is the same statement when the list is ordered by rank (the harness emits the quantiles
   in ascending order) *)
Definition monotone_all (qs : list (Z * Z)) : bool :=
  forallb (fun '(k1, v1) => forallb (fun '(k2, v2) => if k1 <=? k2 then v1 <=? v2 else true) qs) qs.
Fixpoint monotone_adj (qs : list (Z * Z)) : bool :=
  match qs with
  | (k1, v1) :: (((k2, v2) :: _) as r) =>
      (if k1 <=? k2 then v1 <=? v2 else true) && (if k2 <=? k1 then v2 <=? v1 else true) && monotone_adj r
  | _ => true
  end.

(* qs: (rank, ValueAtQuantile result); rank = round(q*n/100), computed exactly by the harness *)
Definition c13_ok_quant (lo hi s : Z) (vs : list Z) (qs : list (Z * Z)) : bool :=
  let c := config_of lo hi s in
  let sorted := isort vs in
  let n := zlen vs in
  forallb (fun '(k, v) => (1 <=? k) && (k <=? n)
                          && (v =? highest_equiv c (nth (Z.to_nat (k - 1)) sorted 0))) qs
  && monotone_adj qs
  && (if zlen qs <=? 100 then monotone_all qs else true).

(* the float step: the rank the Go expression int64(q/100*float64(n)+0.5) produced must be
   the exact round(q*n/100) (quantiles within 1e-9 of a rounding tie are not in the case) *)
Definition c13_ok_ranks (rs : list (Z * Z)) : bool := forallb (fun '(g, e) => g =? e) rs.

(* Mean is a float64 = mm * 2^me.  Exact mean = S/n; the histogram replaces every value
   by the middle of its range: |mean_num - S| <= T = sum (size_of_range v / 2); the float
   division is correctly rounded: relative error <= 2^-53 (2^-52 allowed). *)
Definition c13_ok_stats (lo hi s : Z) (vs : list Z) (total mn mx mm me : Z) : bool :=
  let c := config_of lo hi s in
  let sorted := isort vs in
  let n := zlen vs in
  let S := zsum vs in
  let T := zsum (map (fun v => size_of_range c v / 2) vs) in
  let k := if me <? 0 then - me else 0 in
  (total =? n)
  && (mn =? lowest_equiv c (hd 0 sorted))
  && (mx =? highest_equiv c (last sorted 0))
  && (2 ^ 52 * Z.abs (mm * 2 ^ (me + k) * n - S * 2 ^ k) <=? (2 ^ 52 * T + S + T) * 2 ^ k).

Record obs_q := mkObsQ { oq_total : Z; oq_min : Z; oq_max : Z; oq_mean_num : Z; oq_vals : list Z }.

(* model: value_at_rank h k = scan_rank (h_cfg h) (steps h) k; the steps are shared *)
Definition model_obs_q (lo hi s : Z) (vs ranks : list Z) : obs_q :=
  let h := hist_of lo hi s vs in
  let st := steps h in
  mkObsQ (h_total h) (hmin h) (hmax h) (mean_num h) (map (scan_rank (h_cfg h) st) ranks).

(* ================= 4-5: merge ================= *)

Record operand := mkOp { op_lo : Z; op_hi : Z; op_s : Z; op_vs : list Z }.
Definition op_cfg (o : operand) : cfg := config_of (op_lo o) (op_hi o) (op_s o).
Definition op_hist (o : operand) : hist := hist_of (op_lo o) (op_hi o) (op_s o) (op_vs o).
Definition op_valid (o : operand) : bool := c13_valid (op_lo o) (op_hi o) (op_s o) (op_vs o).

Definition same_geom (a b : cfg) : bool :=
  (c_lo a =? c_lo b) && (c_hi a =? c_hi b) && (c_sf a =? c_sf b) && (c_unit a =? c_unit b)
  && (c_hm a =? c_hm b) && (c_hc a =? c_hc b) && (c_mask a =? c_mask b) && (c_sbc a =? c_sbc b)
  && (c_bc a =? c_bc b) && (c_len a =? c_len b).

(* what a source contributes: every value is handed over as the representative (lowest
   equivalent value) of its range in the source geometry *)
Definition reps (o : operand) : list Z := map (lowest_equiv (op_cfg o)) (op_vs o).
Definition rejected_by (c : cfg) (vs : list Z) : Z :=
  zlen (filter (fun v => negb (in_counts c (counts_index_for c v))) vs).

(* t.Merge(s1); t.Merge(s2); ... observed: the dropped count of every Merge, then
   TotalCount and the counts array of t *)
Definition c13_ok_merge (t : operand) (srcs : list operand) (dropped : list Z)
           (total : Z) (counts : list (Z * Z)) : bool :=
  let c := op_cfg t in
  (* nothing is lost silently *)
  forallb (fun d => 0 <=? d) dropped
  && (zlen dropped =? zlen srcs)
  && (total + zsum dropped =? zlen (op_vs t) + zsum (map (fun o => zlen (op_vs o)) srcs))
  (* equal geometry: nothing dropped, the result is the histogram of the union *)
  && (if forallb (fun o => same_geom c (op_cfg o)) srcs
      then forallb (fun d => d =? 0) dropped
           && eq_pairs counts (expect_counts c (op_vs t ++ concat (map op_vs srcs)))
      else true)
  (* any geometry: the dropped count is exactly the number of source values whose
     representative the target cannot index; the others are counted at it *)
  && eq_zs dropped (map (fun o => rejected_by c (reps o)) srcs)
  && eq_pairs counts (expect_counts c (op_vs t ++ concat (map reps srcs))).

Definition model_merge (t : operand) (srcs : list operand) : list Z * Z * list (Z * Z) :=
  let '(h, ds) := fold_left (fun '(acc, ds) o => let '(h', d) := merge acc (op_hist o) in (h', ds ++ [d]))
                            srcs (op_hist t, []) in
  (ds, h_total h, sparse h).

(* ================= 6: windowed histogram ================= *)

Inductive wop := WRec (v : Z) | WRot.

Definition w_apply (w : window) (o : wop) : window :=
  match o with WRec v => fst (w_record w v) | WRot => rotate w end.

(* model: Merge() after the schedule (intermediate Merge() calls of the harness do not
   appear: w_merge is a pure function of the ring) *)
Definition model_window (n : nat) (lo hi s : Z) (ops : list wop) : Z * list (Z * Z) :=
  let m := w_merge (fold_left w_apply ops (new_windowed n lo hi s)) in
  (h_total m, sparse m).

(* reference: the windows as value lists, newest first, at most n of them *)
Definition win_step (n : nat) (ws : list (list Z)) (o : wop) : list (list Z) :=
  match o, ws with
  | WRec v, cur :: r => (v :: cur) :: r
  | WRec _, [] => []
  | WRot, _ => firstn n ([] :: ws)
  end.

Definition wop_valid (hi : Z) (o : wop) : bool :=
  match o with WRec v => (0 <=? v) && (v <=? hi) | WRot => true end.

Definition c13_ok_window (n : nat) (lo hi s : Z) (ops : list wop) (total : Z) (counts : list (Z * Z)) : bool :=
  let vs := concat (fold_left (win_step n) ops [[]]) in
  (total =? zlen vs) && eq_pairs counts (expect_counts (config_of lo hi s) vs).

(* ================= 7: Export / Import, BSON, JSON ================= *)

(* obs: for every round trip (Import(Export), BSON, JSON): Equals(original), TotalCount of the copy *)
Definition c13_ok_snapshot (vs : list Z) (obs : list (bool * Z)) : bool :=
  forallb (fun '(eq, tot) => eq && (tot =? zlen vs)) obs.

Definition model_snapshot (lo hi s : Z) (vs : list Z) : bool * Z :=
  let h := hist_of lo hi s vs in
  let h' := import (export h) in
  (hist_equal h' h, h_total h').
