(* Model of t2.go: TranslateGenny, GetGennyTime, translateAtNextWindow,
   translateMetrics, createZeroedMetrics, plus the sample-count behaviour of the
   streaming collector the output goes through.  Definitions only.

   Data view.  An actor is a name and the chunks that its ChunkIterator
   delivers, in order.  A chunk is given ROW-wise: one [sample] per position i of
   the chunk, holding
     - fst: Metrics[0].Values[i]  (t2.go takes Metrics[0] to be the timestamp, ms)
     - snd: (key id, Metrics[m].Values[i]) for EVERY metric m of the chunk, in the
            chunk's metric order (Metrics[0] itself included).
   Key ids: 0..7 stand for the eight keys that translateMetrics selects
   (counters.n, counters.ops, counters.size, counters.errors, timers.dur,
   timers.total, gauges.workers, gauges.failed) and at the same time for the
   names they are renamed to (n, ops, size, errors, dur, total, workers, failed);
   every other key (ts, id, gauges.state, ...) has an id outside 0..7.  The
   string <-> id table lives in the Go harness.  The row view presupposes that
   all metrics of a chunk have the same number of values (guaranteed by the
   FTDC reader; asserted by the harness).  The model is more general than the
   code's inputs in that rows of one chunk may carry different keys.

   Names are opaque: Z ids interned by the harness.
   Go panics are the outcome [None] of the option-valued functions.
   Not modelled: ctx cancellation (ctx.Err() = nil throughout), collector errors
   (log.Fatal; they need a schema change in the output, which performance-event
   streams - all eight keys always present - cannot produce). *)
From Coq Require Import ZArith List Bool.
Import ListNotations.
Open Scope Z_scope.

Definition vals := list (Z * Z).          (* (key id, value) in order *)
Definition sample := (Z * vals)%type.     (* (ts_ms, row) *)
Definition chunk := list sample.
Record actor := mkActor { a_name : Z; a_start : Z; a_end : Z; a_chunks : list chunk }.

(* int64(math.Ceil(float64(ts) / 1000)): ceil(x/n) = floor((x+n-1)/n) for every
   integer x (Z./ is floor division).  The float computation is exact for
   |ts| < 2^43 * 1000 (float64(ts) exact below 2^53; the quotient's ulp stays
   below 1/1000); tied by correspondence.  FTDC date metrics only survive the
   collectors between the years 1678 and 2262 (|ms| < 2^63 / 10^6 < 2^43.1), so
   every timestamp that can reach t2.go through a date is inside that range. *)
Definition ceil_sec (ts : Z) : Z := (ts + 999) / 1000.

Definition wrap_i64 (z : Z) : Z := (z + 2 ^ 63) mod 2 ^ 64 - 2 ^ 63.
(* birch.EC.DateTime("start", timeSecond*second_ms): int64 multiplication *)
Definition stamp_ms (t : Z) : Z := wrap_i64 (t * 1000).

(* translateMetrics: the selected keys, in the chunk's metric order, renamed *)
Definition selected_key (k : Z) : bool := (0 <=? k) && (k <? 8).
Definition select (s : sample) : vals := filter (fun kv => selected_key (fst kv)) (snd s).

(* createZeroedMetrics *)
Definition zeroed : vals := map (fun k => (k, 0)) [0; 1; 2; 3; 4; 5; 6; 7].

(* GennyOutputMetadata during translation.  Iterator: c_cur = iter.Chunk()
   (None = nil), c_rest = the chunks iter.Next() will still deliver.
   c_ci is a ghost counter: number of successful iter.Next() calls, so the
   current chunk is number c_ci - 1 of the stream. *)
Record cursor := mkCur {
  c_cur : option chunk; c_rest : list chunk; c_ci : nat;
  c_idx : nat;          (* prevIdx *)
  c_psec : Z;           (* prevSecond *)
  c_psample : vals      (* prevSample *)
}.

Definition init_cursor (a : actor) : cursor := mkCur None (a_chunks a) 0 0 0 zeroed.

(* for i := prevIdx; i < len(ts); i++ { if ceil(ts[i]) != prevSecond {...; break} }
   on the samples from position j on: first position whose second differs *)
Fixpoint find_from (psec : Z) (l : list sample) (j : nat) : option (nat * sample) :=
  match l with
  | [] => None
  | s :: r => if ceil_sec (fst s) =? psec then find_from psec r (S j) else Some (j, s)
  end.

(* the [for elems == nil] loop of translateAtNextWindow on a non-nil current
   chunk.  translateMetrics returns a nil slice when the chunk has none of the
   eight keys: then [elems == nil] although prevIdx/prevSecond/prevSample were
   updated, and the code goes on to the next chunk - mirrored here. *)
Fixpoint window_loop (rest : list chunk) (cur : chunk) (ci idx : nat) (psec : Z) (psample : vals)
  {struct rest} : option vals * cursor :=
  match find_from psec (skipn idx cur) idx with
  | Some (j, s) =>
      let e := select s in
      let sec := ceil_sec (fst s) in
      match e with
      | _ :: _ => (Some e, mkCur (Some cur) rest ci j sec e)
      | [] =>
          match rest with
          | [] => (None, mkCur (Some cur) [] ci j sec [])            (* iter.Next() = false *)
          | c' :: r' => window_loop r' c' (S ci) 0 sec []              (* prevIdx = 0 *)
          end
      end
  | None =>
      match rest with
      | [] => (None, mkCur (Some cur) [] ci idx psec psample)        (* file ended: nil *)
      | c' :: r' => window_loop r' c' (S ci) 0 psec psample
      end
  end.

(* translateAtNextWindow; None = nil-pointer panic on chunk.Metrics (the stream
   has no chunk at all) *)
Definition next_window (c : cursor) : option (option vals * cursor) :=
  let c1 := match c_cur c with
            | Some _ => c
            | None =>                                    (* if iter.Chunk() == nil { iter.Next() } *)
                match c_rest c with
                | [] => c
                | h :: t => mkCur (Some h) t (S (c_ci c)) (c_idx c) (c_psec c) (c_psample c)
                end
            end in
  match c_cur c1 with
  | None => None
  | Some ch => Some (window_loop (c_rest c1) ch (c_ci c1) (c_idx c1) (c_psec c1) (c_psample c1))
  end.

(* one actor at second t: the sub-document's elements *)
Definition step_actor (t : Z) (c : cursor) : option (cursor * vals) :=
  if c_psec c <=? t then
    match next_window c with
    | None => None
    | Some (Some e, c') => Some (c', e)
    | Some (None, c') => Some (c', c_psample c')       (* prevSample read after the call *)
    end
  else Some (c, c_psample c).

Definition astate := (Z * cursor)%type.   (* name, cursor *)

Fixpoint step_all (t : Z) (st : list astate) : option (list astate * list (Z * vals)) :=
  match st with
  | [] => Some ([], [])
  | (nm, c) :: r =>
      match step_actor t c with
      | None => None
      | Some (c', v) =>
          match step_all t r with
          | None => None
          | Some (r', vs) => Some ((nm, c') :: r', (nm, v) :: vs)
          end
      end
  end.

(* {cedar: {start: Date(ms), <actor>: {...}, ...}} *)
Definition out_sample := (Z * list (Z * vals))%type.

(* n iterations of [for timeSecond := t; ...; timeSecond++]; a document that
   holds only [start] is not added (len(workloadDoc) > 1) *)
Fixpoint run (n : nat) (t : Z) (st : list astate) : option (list astate * list out_sample) :=
  match n with
  | O => Some (st, [])
  | S k =>
      match step_all t st with
      | None => None
      | Some (st', vs) =>
          match run k (t + 1) st' with
          | None => None
          | Some (stf, outs) =>
              Some (stf, match vs with [] => outs | _ :: _ => (stamp_ms t, vs) :: outs end)
          end
      end
  end.

Definition init_states (actors : list actor) : list astate :=
  map (fun a => (a_name a, init_cursor a)) actors.

(* the loop for given bounds *)
Definition translate_span (actors : list actor) (start end_ : Z) : option (list out_sample) :=
  option_map snd (run (Z.to_nat (end_ - start)) start (init_states actors)).

Definition max_int64 : Z := 2 ^ 63 - 1.
Definition workload_start (actors : list actor) : Z :=
  fold_left (fun m a => Z.min m (a_start a)) actors max_int64.
Definition workload_end (actors : list actor) : Z :=
  fold_left (fun m a => Z.max m (a_end a)) actors 0.

(* TranslateGenny: the documents handed to the collector, in order *)
Definition translate (actors : list actor) : option (list out_sample) :=
  translate_span actors (workload_start actors) (workload_end actors).

(* ---- NewStreamingCollector(maxn, w) + final FlushCollector: the groups of
   samples that become chunks.  Add: if count >= maxn then flush (a flush with
   nothing collected writes nothing); then add, count++. *)
Fixpoint stream_collect {A : Type} (maxn : nat) (buf : list A) (l : list A) : list (list A) :=
  match l with
  | [] => match buf with [] => [] | _ :: _ => [buf] end
  | x :: r =>
      if (maxn <=? length buf)%nat
      then match buf with
           | [] => stream_collect maxn [x] r
           | _ :: _ => buf :: stream_collect maxn [x] r
           end
      else stream_collect maxn (buf ++ [x]) r
  end.

Definition max_samples : nat := 300.
Definition output_chunks (out : list out_sample) : list (list out_sample) :=
  stream_collect max_samples [] out.

(* ---- GetGennyTime.  Loop over the chunks: StartTime is taken from a chunk's
   first timestamp while it is still 0; endTime = max(endTime, last timestamp of
   the chunk), starting from 0.  None = index panic on a chunk without samples. *)
Fixpoint ggt_loop (chs : list chunk) (st en : Z) : option (Z * Z) :=
  match chs with
  | [] => Some (st, en)
  | ch :: r =>
      match ch with
      | [] => None
      | s0 :: _ =>
          ggt_loop r (if st =? 0 then ceil_sec (fst s0) else st) (Z.max en (fst (last ch s0)))
      end
  end.

Definition get_genny_time (a : actor) : option (Z * Z) :=
  match ggt_loop (a_chunks a) (a_start a) 0 with
  | None => None
  | Some (st, en) => Some (st, ceil_sec en)
  end.
