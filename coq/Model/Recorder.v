(* Model of events/recorder_*.go (definitions only; proofs live in Proofs/).

   One small state machine per recorder implementation:
     KRaw          recorder_performance_raw.go       rawStream
     KSingle       recorder_performance_single.go    singleStream
     KGrouped      recorder_performance_grouped.go   groupStream
     KInterval     recorder_performance_interval.go  intervalStream
     KHist         recorder_histogram.go             histogramStream
     KHistSingle   recorder_histogram_single.go      histogramSingle
     KHistGrouped  recorder_histogram_grouped.go     histogramGroupedStream
     KHistInterval recorder_histogram_interval.go    intervalHistogramStream
   and the two wrappers (recorder_wrapper_sync.go, recorder_wrapper_stdlib.go).

   Conventions
   * Time is an INPUT.  Every method that reads the clock in Go (time.Now, time.Since)
     carries one reading [now] (ns, Z).  A time.Time is a Z; 0 is the zero time
     (IsZero); the clock never returns 0 in Go.
   * int64 fields wrap: additions go through [wrap64] (identity on int64 values).
   * The collector is an input: [fails k] says whether the k-th call of
     collector.Add (counted from 0 over the life of the collector) returns an error.
     The recorders hand the SAME point object to the collector every time; a collector
     must read it during Add, so the model persists a copy of the current point.
   * A histogram is modelled by the list of successfully recorded values (oldest
     first); RecordValue rejects a value exactly when its counts index is outside the
     counts array (hdrhist/hdr.go RecordValues), computed from the geometry of
     FV.Model.Hdr.  The rejection error goes to the recorder's catcher.
   * The background flusher of the interval recorders is the explicit operation
     [Tick]: its body (stamp, persist) under the recorder's mutex.
   * The model follows the CODE where it deviates from the interface comment:
       - intervalStream.EndIteration has no Number++;
       - rawStream.EndTest persists the (unchanged) last point once more when stamped;
       - rawStream.SetDuration/SetTotalDuration overwrite, all others add;
       - groupStream clears the timestamp after persisting, so EndTest persists only if
         something stamped the point afterwards;
       - intervalHistogramStream.EndIteration does not clear [started]; EndTest records
         one more elapsed value if [started] is set;
       - NewGroupedRecorder sets lastCollected = now, NewHistogramGroupedRecorder leaves
         it at the zero time; Reset sets it to the zero time (gate open). *)
From Coq Require Import ZArith List Bool.
From FV.Model Require Import Hdr.
Import ListNotations.
Open Scope Z_scope.

(* ---- int64 arithmetic ---- *)
Definition two63 : Z := 9223372036854775808.
Definition two64 : Z := 18446744073709551616.
Definition wrap64 (z : Z) : Z := (z + two63) mod two64 - two63.
Arguments wrap64 : simpl never.

(* ---- HDR acceptance (hdrhist.RecordValues: idx < 0 || countsLen <= idx is an error) ---- *)
Definition cfg_accepts (c : cfg) (v : Z) : bool :=
  let idx := counts_index_for c v in (0 <=? v) && (0 <=? idx) && (idx <? c_len c).
Definition hdr_accepts (lo hi s v : Z) : bool := cfg_accepts (config_of lo hi s) v.

(* events/histogram.go NewHistogramMillisecond *)
Definition counter_cfg : cfg := config_of 0 10000 5.             (* newMillisecondCounterHistogram *)
Definition timer_cfg   : cfg := config_of 1000 60000000000 5.    (* newMillisecondDurationHistogram *)
Definition accepts_counter (v : Z) : bool := cfg_accepts counter_cfg v.
Definition accepts_timer   (v : Z) : bool := cfg_accepts timer_cfg v.
Arguments accepts_counter : simpl never.
Arguments accepts_timer : simpl never.

(* ---- data ---- *)
Inductive kind := KRaw | KSingle | KGrouped | KInterval
                | KHist | KHistSingle | KHistGrouped | KHistInterval.

Definition is_hist (K : kind) : bool :=
  match K with KHist | KHistSingle | KHistGrouped | KHistInterval => true | _ => false end.

Record gauges := mkG { g_state : Z; g_workers : Z; g_failed : bool }.
Definition gauges0 : gauges := mkG 0 0 false.

(* the six histograms of a PerformanceHDR: successfully recorded values, oldest first *)
Record hists := mkH { h_n : list Z; h_ops : list Z; h_size : list Z; h_errs : list Z;
                      h_dur : list Z; h_total : list Z }.
Definition hists0 : hists := mkH [] [] [] [] [] [].

(* Performance / PerformanceHDR in one record: the scalar counters and timers are used
   by the four Performance recorders, [p_h] by the four histogram recorders *)
Record point := mkP { p_ts : Z; p_id : Z;
                      p_n : Z; p_ops : Z; p_size : Z; p_errs : Z;
                      p_dur : Z; p_total : Z;
                      p_h : hists; p_g : gauges }.
Definition fresh_point (g : gauges) : point := mkP 0 0 0 0 0 0 0 0 hists0 g.

(* what the catcher holds: a failed collector.Add (its number) or a rejected record *)
Inductive err := ErrAdd (k : Z) | ErrRec (v : Z).

Record state := mkS { s_pt : point;
                      s_started : Z;        (* r.started *)
                      s_last : Z;           (* r.lastCollected (grouped recorders) *)
                      s_errs : list err;    (* r.catcher *)
                      s_adds : Z }.         (* number of collector.Add calls so far *)

Inductive op :=
| IncIterations (v : Z) | IncOperations (v : Z) | IncError (v : Z) | IncSize (v : Z)
| SetWorkers (v : Z) | SetState (v : Z) | SetFailed (b : bool)
| BeginIteration (now : Z) | EndIteration (d now : Z)
| SetTime (t : Z) | SetID (v : Z) | SetDuration (d : Z) | SetTotalDuration (d : Z)
| EndTest (now : Z) | Reset
| Tick (now : Z).

(* what one call makes observable: the points handed to the collector (copies) and,
   for EndTest, the errors it returns (Resolve joins their messages) *)
Record out := mkO { o_persisted : list point; o_ret : option (list err) }.
Definition no_out : out := mkO [] None.

(* ---- field updates ---- *)
Definition with_ts (p : point) (v : Z) : point :=
  mkP v (p_id p) (p_n p) (p_ops p) (p_size p) (p_errs p) (p_dur p) (p_total p) (p_h p) (p_g p).
Definition with_id (p : point) (v : Z) : point :=
  mkP (p_ts p) v (p_n p) (p_ops p) (p_size p) (p_errs p) (p_dur p) (p_total p) (p_h p) (p_g p).
Definition with_n (p : point) (v : Z) : point :=
  mkP (p_ts p) (p_id p) v (p_ops p) (p_size p) (p_errs p) (p_dur p) (p_total p) (p_h p) (p_g p).
Definition with_ops (p : point) (v : Z) : point :=
  mkP (p_ts p) (p_id p) (p_n p) v (p_size p) (p_errs p) (p_dur p) (p_total p) (p_h p) (p_g p).
Definition with_size (p : point) (v : Z) : point :=
  mkP (p_ts p) (p_id p) (p_n p) (p_ops p) v (p_errs p) (p_dur p) (p_total p) (p_h p) (p_g p).
Definition with_errs (p : point) (v : Z) : point :=
  mkP (p_ts p) (p_id p) (p_n p) (p_ops p) (p_size p) v (p_dur p) (p_total p) (p_h p) (p_g p).
Definition with_dur (p : point) (v : Z) : point :=
  mkP (p_ts p) (p_id p) (p_n p) (p_ops p) (p_size p) (p_errs p) v (p_total p) (p_h p) (p_g p).
Definition with_total (p : point) (v : Z) : point :=
  mkP (p_ts p) (p_id p) (p_n p) (p_ops p) (p_size p) (p_errs p) (p_dur p) v (p_h p) (p_g p).
Definition with_h (p : point) (h : hists) : point :=
  mkP (p_ts p) (p_id p) (p_n p) (p_ops p) (p_size p) (p_errs p) (p_dur p) (p_total p) h (p_g p).
Definition with_g (p : point) (g : gauges) : point :=
  mkP (p_ts p) (p_id p) (p_n p) (p_ops p) (p_size p) (p_errs p) (p_dur p) (p_total p) (p_h p) g.

Definition st_pt (st : state) (p : point) : state :=
  mkS p (s_started st) (s_last st) (s_errs st) (s_adds st).
Definition st_started (st : state) (v : Z) : state :=
  mkS (s_pt st) v (s_last st) (s_errs st) (s_adds st).
Definition st_last (st : state) (v : Z) : state :=
  mkS (s_pt st) (s_started st) v (s_errs st) (s_adds st).
Definition st_err (st : state) (es : list err) : state :=
  mkS (s_pt st) (s_started st) (s_last st) (s_errs st ++ es) (s_adds st).

(* ---- shared pieces ---- *)

(* Performance.setTimestamp / PerformanceHDR.setTimestamp (performance.go, histogram.go) *)
Definition stamp_ts (ts started now : Z) : Z :=
  if ts =? 0 then (if started =? 0 then now else started) else ts.
Definition stamp (st : state) (now : Z) : state :=
  st_pt st (with_ts (s_pt st) (stamp_ts (p_ts (s_pt st)) (s_started st) now)).

(* time.Since(r.lastCollected) >= r.interval; for the zero time the difference saturates
   at the maximal Duration, which is >= every interval *)
Definition gate_open (now last iv : Z) : bool :=
  if last =? 0 then true else iv <=? now - last.

(* r.catcher.Add(r.collector.Add(r.point)) *)
Definition persist (fails : Z -> bool) (st : state) : state * list point :=
  let k := s_adds st in
  (mkS (s_pt st) (s_started st) (s_last st)
       (s_errs st ++ (if fails k then [ErrAdd k] else [])) (k + 1),
   [s_pt st]).

(* Performance recorders: x += v *)
Definition add_n (p : point) (v : Z) := with_n p (wrap64 (p_n p + v)).
Definition add_ops (p : point) (v : Z) := with_ops p (wrap64 (p_ops p + v)).
Definition add_size (p : point) (v : Z) := with_size p (wrap64 (p_size p + v)).
Definition add_errs (p : point) (v : Z) := with_errs p (wrap64 (p_errs p + v)).
Definition add_dur (p : point) (v : Z) := with_dur p (wrap64 (p_dur p + v)).
Definition add_total (p : point) (v : Z) := with_total p (wrap64 (p_total p + v)).

(* histogram recorders: r.catcher.Add(hist.RecordValue(v)) *)
Definition hrec (acc : Z -> bool) (get : hists -> list Z) (set : hists -> list Z -> hists)
                (st : state) (v : Z) : state :=
  if acc v then st_pt st (with_h (s_pt st) (set (p_h (s_pt st)) (get (p_h (s_pt st)) ++ [v])))
  else st_err st [ErrRec v].
Definition set_hn (h : hists) (l : list Z) := mkH l (h_ops h) (h_size h) (h_errs h) (h_dur h) (h_total h).
Definition set_hops (h : hists) (l : list Z) := mkH (h_n h) l (h_size h) (h_errs h) (h_dur h) (h_total h).
Definition set_hsize (h : hists) (l : list Z) := mkH (h_n h) (h_ops h) l (h_errs h) (h_dur h) (h_total h).
Definition set_herrs (h : hists) (l : list Z) := mkH (h_n h) (h_ops h) (h_size h) l (h_dur h) (h_total h).
Definition set_hdur (h : hists) (l : list Z) := mkH (h_n h) (h_ops h) (h_size h) (h_errs h) l (h_total h).
Definition set_htotal (h : hists) (l : list Z) := mkH (h_n h) (h_ops h) (h_size h) (h_errs h) (h_dur h) l.
Definition hrec_n := hrec accepts_counter h_n set_hn.
Definition hrec_ops := hrec accepts_counter h_ops set_hops.
Definition hrec_size := hrec accepts_counter h_size set_hsize.
Definition hrec_errs := hrec accepts_counter h_errs set_herrs.
Definition hrec_dur := hrec accepts_timer h_dur set_hdur.
Definition hrec_total := hrec accepts_timer h_total set_htotal.

(* the Inc* methods are the same text in every file of a family *)
Definition inc_n (K : kind) (st : state) (v : Z) : state :=
  if is_hist K then hrec_n st v else st_pt st (add_n (s_pt st) v).
Definition inc_ops (K : kind) (st : state) (v : Z) : state :=
  if is_hist K then hrec_ops st v else st_pt st (add_ops (s_pt st) v).
Definition inc_size (K : kind) (st : state) (v : Z) : state :=
  if is_hist K then hrec_size st v else st_pt st (add_size (s_pt st) v).
Definition inc_errs (K : kind) (st : state) (v : Z) : state :=
  if is_hist K then hrec_errs st v else st_pt st (add_errs (s_pt st) v).

(* SetDuration / SetTotalDuration *)
Definition set_dur (K : kind) (st : state) (d : Z) : state :=
  match K with
  | KRaw => st_pt st (with_dur (s_pt st) (wrap64 d))            (* r.point.Timers.Duration = dur *)
  | KSingle | KGrouped | KInterval => st_pt st (add_dur (s_pt st) d)
  | _ => hrec_dur st d
  end.
Definition set_total (K : kind) (st : state) (d : Z) : state :=
  match K with
  | KRaw => st_pt st (with_total (s_pt st) (wrap64 d))          (* r.point.Timers.Total = dur *)
  | KSingle | KGrouped | KInterval => st_pt st (add_total (s_pt st) d)
  | _ => hrec_total st d
  end.

(* BeginIteration: r.started = time.Now() [; r.point.setTimestamp(r.started)] *)
Definition begin (K : kind) (st : state) (now : Z) : state :=
  let st := st_started st now in
  match K with
  | KSingle | KHistSingle => st
  | _ => stamp st now
  end.

(* if !r.started.IsZero() { Total += time.Since(r.started) }  (started not touched here) *)
Definition add_elapsed (st : state) (now : Z) : state :=
  if s_started st =? 0 then st else st_pt st (add_total (s_pt st) (now - s_started st)).
Definition hrec_elapsed (st : state) (now : Z) : state :=
  if s_started st =? 0 then st else hrec_total st (now - s_started st).

(* ---- EndIteration, one definition per implementation ---- *)
Definition end_raw (fails : Z -> bool) (st : state) (d now : Z) : state * list point :=
  let st := st_pt st (add_n (s_pt st) 1) in
  let st := add_elapsed st now in
  let st := stamp st now in
  let st := st_pt st (add_dur (s_pt st) d) in
  let r := persist fails st in
  (st_started (fst r) 0, snd r).

Definition end_single (st : state) (d now : Z) : state * list point :=
  let st := stamp st now in
  let st := st_pt st (add_n (s_pt st) 1) in
  let st := st_started (add_elapsed st now) 0 in
  (st_pt st (add_dur (s_pt st) d), []).

Definition end_grouped (iv : Z) (fails : Z -> bool) (st : state) (d now : Z) : state * list point :=
  let st := st_pt st (add_n (s_pt st) 1) in
  let st := add_elapsed st now in
  let st := st_pt st (add_dur (s_pt st) d) in
  if gate_open now (s_last st) iv then
    let st := stamp st now in
    let r := persist fails st in
    let st := st_last (fst r) now in
    let st := st_pt st (with_ts (s_pt st) 0) in      (* r.point.Timestamp = time.Time{} *)
    (st_started st 0, snd r)
  else (st_started st 0, []).

Definition end_interval (st : state) (d now : Z) : state * list point :=
  let st := stamp st now in
  let st := st_started (add_elapsed st now) 0 in       (* no Number++ here *)
  (st_pt st (add_dur (s_pt st) d), []).

(* the common head of the four histogram EndIterations *)
Definition end_hist_records (st : state) (d now : Z) : state :=
  let st := stamp st now in
  let st := hrec_n st 1 in
  let st := hrec_dur st d in
  hrec_elapsed st now.

Definition end_hist (fails : Z -> bool) (st : state) (d now : Z) : state * list point :=
  let st := st_started (end_hist_records st d now) 0 in
  persist fails st.

Definition end_hist_single (st : state) (d now : Z) : state * list point :=
  (st_started (end_hist_records st d now) 0, []).

Definition end_hist_grouped (iv : Z) (fails : Z -> bool) (st : state) (d now : Z) : state * list point :=
  let st := st_started (end_hist_records st d now) 0 in
  if gate_open now (s_last st) iv then
    let r := persist fails st in (st_last (fst r) now, snd r)
  else (st, []).

Definition end_hist_interval (st : state) (d now : Z) : state * list point :=
  (end_hist_records st d now, []).                     (* started is NOT cleared *)

Definition end_iter (K : kind) (iv : Z) (fails : Z -> bool) (st : state) (d now : Z) : state * list point :=
  match K with
  | KRaw => end_raw fails st d now
  | KSingle => end_single st d now
  | KGrouped => end_grouped iv fails st d now
  | KInterval => end_interval st d now
  | KHist => end_hist fails st d now
  | KHistSingle => end_hist_single st d now
  | KHistGrouped => end_hist_grouped iv fails st d now
  | KHistInterval => end_hist_interval st d now
  end.

(* ---- Reset ---- *)
Definition reset (K : kind) (st : state) : state :=
  mkS (fresh_point (p_g (s_pt st))) 0
      (match K with KGrouped | KHistGrouped => 0 | _ => s_last st end)
      [] (s_adds st).

(* ---- EndTest: (state, persisted, returned errors) ---- *)
Definition persist_if_stamped (fails : Z -> bool) (st : state) : state * list point :=
  if p_ts (s_pt st) =? 0 then (st, []) else persist fails st.

Definition end_test (K : kind) (fails : Z -> bool) (st : state) (now : Z) : state * list point * list err :=
  let r := match K with
           | KSingle | KHistSingle => persist fails (stamp st now)
           | KHistInterval => persist_if_stamped fails (st_started (hrec_elapsed st now) 0)
           | _ => persist_if_stamped fails st
           end in
  (reset K (fst r), snd r, s_errs (fst r)).

(* ---- the flusher's body (interval recorders only; no such thing elsewhere) ---- *)
Definition tick (K : kind) (fails : Z -> bool) (st : state) (now : Z) : state * list point :=
  match K with
  | KInterval | KHistInterval => persist fails (stamp st now)
  | _ => (st, [])
  end.

Definition set_gauges (st : state) (g : gauges) : state := st_pt st (with_g (s_pt st) g).

Definition step (K : kind) (iv : Z) (fails : Z -> bool) (st : state) (o : op) : state * out :=
  match o with
  | IncIterations v => (inc_n K st v, no_out)
  | IncOperations v => (inc_ops K st v, no_out)
  | IncError v => (inc_errs K st v, no_out)
  | IncSize v => (inc_size K st v, no_out)
  | SetWorkers v => (set_gauges st (mkG (g_state (p_g (s_pt st))) v (g_failed (p_g (s_pt st)))), no_out)
  | SetState v => (set_gauges st (mkG v (g_workers (p_g (s_pt st))) (g_failed (p_g (s_pt st)))), no_out)
  | SetFailed b => (set_gauges st (mkG (g_state (p_g (s_pt st))) (g_workers (p_g (s_pt st))) b), no_out)
  | BeginIteration now => (begin K st now, no_out)
  | EndIteration d now => let r := end_iter K iv fails st d now in (fst r, mkO (snd r) None)
  | SetTime t => (st_pt st (with_ts (s_pt st) t), no_out)
  | SetID v => (st_pt st (with_id (s_pt st) v), no_out)
  | SetDuration d => (set_dur K st d, no_out)
  | SetTotalDuration d => (set_total K st d, no_out)
  | EndTest now => let r := end_test K fails st now in
                   (fst (fst r), mkO (snd (fst r)) (Some (snd r)))
  | Reset => (reset K st, no_out)
  | Tick now => let r := tick K fails st now in (fst r, mkO (snd r) None)
  end.

(* the constructors: NewGroupedRecorder reads the clock ([last0]); every other one
   leaves lastCollected at the zero time.  [g] and [adds] are parameters so that the
   state after a Reset can be compared with a constructor state. *)
Definition fresh_state (g : gauges) (last adds : Z) : state := mkS (fresh_point g) 0 last [] adds.
Definition init (K : kind) (last0 : Z) : state :=
  fresh_state gauges0 (match K with KGrouped => last0 | _ => 0 end) 0.

Fixpoint run_from (K : kind) (iv : Z) (fails : Z -> bool) (st : state) (h : list op) : state * list out :=
  match h with
  | [] => (st, [])
  | o :: r => let a := step K iv fails st o in
              let b := run_from K iv fails (fst a) r in
              (fst b, snd a :: snd b)
  end.
Definition run (K : kind) (iv last0 : Z) (fails : Z -> bool) (h : list op) : state * list out :=
  run_from K iv fails (init K last0) h.

(* ---- wrappers ---- *)
Inductive wrapper := WNone | WSync | WShim.

(* calls on a wrapped recorder: the Recorder interface, plus Begin/End of the shim *)
Inductive wop := Plain (o : op) | ShimBegin (now : Z) | ShimEnd (d now : Z).

(* the mock TimerManager: number of ResetTimer / StartTimer / StopTimer calls *)
Record timers := mkT { t_reset : Z; t_start : Z; t_stop : Z }.
Definition timers0 : timers := mkT 0 0 0.

(* synchronized: Lock; method; Unlock -- the identity for one caller.
   shim: embeds the recorder; Reset = b.ResetTimer(); r.Reset(),
   Begin = b.StartTimer(); r.BeginIteration(), End = b.StopTimer(); r.EndIteration(dur).
   (Begin/End exist only on the shim; on the others the model ignores them.) *)
Definition wstep (W : wrapper) (K : kind) (iv : Z) (fails : Z -> bool)
                 (s : state * timers) (w : wop) : (state * timers) * out :=
  let st := fst s in let tm := snd s in
  match W, w with
  | WShim, Plain Reset =>
      let r := step K iv fails st Reset in
      ((fst r, mkT (t_reset tm + 1) (t_start tm) (t_stop tm)), snd r)
  | WShim, ShimBegin now =>
      let r := step K iv fails st (BeginIteration now) in
      ((fst r, mkT (t_reset tm) (t_start tm + 1) (t_stop tm)), snd r)
  | WShim, ShimEnd d now =>
      let r := step K iv fails st (EndIteration d now) in
      ((fst r, mkT (t_reset tm) (t_start tm) (t_stop tm + 1)), snd r)
  | _, Plain o => let r := step K iv fails st o in ((fst r, tm), snd r)
  | _, _ => (s, no_out)
  end.

Fixpoint wrun_from (W : wrapper) (K : kind) (iv : Z) (fails : Z -> bool)
                   (s : state * timers) (h : list wop) : (state * timers) * list out :=
  match h with
  | [] => (s, [])
  | w :: r => let a := wstep W K iv fails s w in
              let b := wrun_from W K iv fails (fst a) r in
              (fst b, snd a :: snd b)
  end.
Definition wrun (W : wrapper) (K : kind) (iv last0 : Z) (fails : Z -> bool) (h : list wop) :=
  wrun_from W K iv fails (init K last0, timers0) h.
