(* Document <-> metric vector: mirrors bson_extract.go (encoder side),
   bson_metric.go (decoder side: keys, paths, starting values),
   bson_restore.go (structured and flat restoration), bson_hash.go. *)
From Coq Require Import ZArith NArith List Bool.
From FV.Model Require Import Bytes Bson.
Import ListNotations.
Open Scope Z_scope.

Inductive mtype := MBool | MDouble | MInt32 | MInt64 | MDate | MTs.

Definition mtype_eqb (a b : mtype) : bool :=
  match a, b with
  | MBool, MBool | MDouble, MDouble | MInt32, MInt32 | MInt64, MInt64 | MDate, MDate | MTs, MTs => true
  | _, _ => false
  end.

(* epochMs(val.Time()): t.UnixMilli() on the time built from ms, which is ms again for every int64 (before fix
   "epochMs" it was t.UnixNano()/1e6, which wraps outside the years 1678..2262: kept as epoch_ms_nano) *)
Definition epoch_ms (ms : Z) : Z := ms.
Definition epoch_ms_nano (ms : Z) : Z := Z.quot (wrap64 (ms * 1000000)) 1000000.

(* ---- encoder side: extractMetricsFromValue ---- *)
Fixpoint flatten (v : value) : list (mtype * Z) :=
  match v with
  | VArr a => (fix go (l : list value) := match l with [] => [] | x :: r => flatten x ++ go r end) a
  | VDoc d => (fix go (l : list (bytes * value)) :=
                 match l with [] => [] | (_, x) :: r => flatten x ++ go r end) d
  | VBool b => [(MBool, if b then 1 else 0)]
  | VDouble bits => [(MDouble, bits)]
  | VInt32 i => [(MInt32, i)]
  | VInt64 i => [(MInt64, i)]
  | VDateTime ms => [(MDate, epoch_ms ms)]
  | VTimestamp t i => [(MTs, t); (MTs, i)]
  | _ => []
  end.

Fixpoint flatten_doc (d : doc) : list (mtype * Z) :=
  match d with [] => [] | (_, x) :: r => flatten x ++ flatten_doc r end.

(* metrics.ts, used as the chunk _id: the first datetime leaf in document order
   whose time.Time is not Go's zero time.  extractMetricsFromDocument falls back
   to time.Now() when it found none -- also for a nested document, so an embedded
   document without a datetime that precedes the first datetime leaf makes the
   result clock-dependent (TsNow). Arrays have no such fallback. *)
Definition go_zero_time_ms : Z := -62135596800000.

Inductive ts_res := TsNone | TsNow | TsAt (ms : Z).

Fixpoint first_ts (v : value) : ts_res :=
  match v with
  | VArr a => (fix go (l : list value) :=
                 match l with [] => TsNone | x :: r =>
                   match first_ts x with TsNone => go r | t => t end end) a
  | VDoc d => match (fix go (l : list (bytes * value)) :=
                       match l with [] => TsNone | (_, x) :: r =>
                         match first_ts x with TsNone => go r | t => t end end) d with
              | TsNone => TsNow
              | t => t
              end
  | VDateTime ms => if ms =? go_zero_time_ms then TsNone else TsAt ms
  | _ => TsNone
  end.

Definition first_ts_doc (d : doc) : ts_res := first_ts (VDoc d).

(* ---- decoder side: metricForDocument / metricForArray / metricForType ---- *)
Record metric := mkMetric { m_path : list bytes; m_key : bytes; m_type : mtype; m_start : Z }.

Definition dot : N := 46%N.

Fixpoint metrics_of (path : list bytes) (key : bytes) (v : value) : list metric :=
  match v with
  | VArr a =>
      (fix go (i : N) (l : list value) :=
         match l with
         | [] => []
         | x :: r => metrics_of path (key ++ dot :: dec_digits i) x ++ go (i + 1)%N r
         end) 0%N a
  | VDoc d =>
      (fix go (l : list (bytes * value)) :=
         match l with
         | [] => []
         | (k, x) :: r => metrics_of (path ++ [key]) k x ++ go r
         end) d
  | VBool b => [mkMetric path key MBool (if b then 1 else 0)]
  | VDouble bits => [mkMetric path key MDouble bits]
  | VInt32 i => [mkMetric path key MInt32 i]
  | VInt64 i => [mkMetric path key MInt64 i]
  | VDateTime ms => [mkMetric path key MDate (epoch_ms ms)]
  | VTimestamp t i =>
      (* the decoder multiplies the seconds by 1000 (bson_metric.go) *)
      [mkMetric path key MTs (t * 1000);
       mkMetric path (key ++ dot :: [105; 110; 99]%N) MTs i]
  | _ => []
  end.

Fixpoint metrics_of_doc (path : list bytes) (d : doc) : list metric :=
  match d with [] => [] | (k, x) :: r => metrics_of path k x ++ metrics_of_doc path r end.

(* Metric.Key(): strings.Join(append(ParentPath, KeyName), ".") *)
Fixpoint join_dot (l : list bytes) : bytes :=
  match l with
  | [] => []
  | [x] => x
  | x :: r => x ++ dot :: join_dot r
  end.
Definition metric_key (m : metric) : bytes := join_dot (m_path m ++ [m_key m]).

(* ---- restoration: restoreDocument / restoreElement ----
   [vals] is the row of the sample (one int64 per metric, metric order); the
   result carries the unconsumed tail; None = index out of range (a Go panic) *)
Definition bool_of_metric (x : Z) : bool := negb (x =? 0).

Fixpoint restore (v : value) (vals : list Z) : option (option value * list Z) :=
  match v with
  | VArr a =>
      match (fix go (l : list value) (vs : list Z) : option (list value * list Z) :=
               match l with
               | [] => Some ([], vs)
               | x :: r =>
                   match restore x vs with
                   | Some (ox, vs1) =>
                       match go r vs1 with
                       | Some (rs, vs2) => Some (match ox with Some y => y :: rs | None => rs end, vs2)
                       | None => None
                       end
                   | None => None
                   end
               end) a vals with
      | Some (items, rest) => Some (Some (VArr items), rest)
      | None => None
      end
  | VDoc d =>
      match (fix go (l : list (bytes * value)) (vs : list Z) : option (list (bytes * value) * list Z) :=
               match l with
               | [] => Some ([], vs)
               | (k, x) :: r =>
                   match restore x vs with
                   | Some (ox, vs1) =>
                       match go r vs1 with
                       | Some (rs, vs2) => Some (match ox with Some y => (k, y) :: rs | None => rs end, vs2)
                       | None => None
                       end
                   | None => None
                   end
               end) d vals with
      | Some (items, rest) => Some (Some (VDoc items), rest)
      | None => None
      end
  | VBool _ => match vals with x :: r => Some (Some (VBool (bool_of_metric x)), r) | [] => None end
  | VDouble _ => match vals with x :: r => Some (Some (VDouble x), r) | [] => None end
  | VInt32 _ => match vals with x :: r => Some (Some (VInt32 (wrap32 x)), r) | [] => None end
  | VInt64 _ => match vals with x :: r => Some (Some (VInt64 x), r) | [] => None end
  | VDateTime _ => match vals with x :: r => Some (Some (VDateTime x), r) | [] => None end
  | VTimestamp _ _ =>
      match vals with
      | x :: y :: r => Some (Some (VTimestamp (x mod 2 ^ 32) (y mod 2 ^ 32)), r)
      | _ => None
      end
  | _ => Some (None, vals)
  end.

Fixpoint restore_doc (d : doc) (vals : list Z) : option (doc * list Z) :=
  match d with
  | [] => Some ([], vals)
  | (k, x) :: r =>
      match restore x vals with
      | Some (ox, vs1) =>
          match restore_doc r vs1 with
          | Some (rs, vs2) => Some (match ox with Some y => (k, y) :: rs | None => rs end, vs2)
          | None => None
          end
      | None => None
      end
  end.

(* restoreFlat: one element per metric, keyed by the full dotted key *)
Definition restore_flat (t : mtype) (x : Z) : value :=
  match t with
  | MBool => VBool (bool_of_metric x)
  | MDouble => VDouble x
  | MInt32 => VInt32 (wrap32 x)
  | MDate => VDateTime x
  | MInt64 | MTs => VInt64 x
  end.

(* ---- specification side: the input with its non-metric leaves removed ---- *)
Fixpoint strip (v : value) : option value :=
  match v with
  | VArr a => Some (VArr ((fix go (l : list value) :=
                             match l with [] => [] | x :: r =>
                               match strip x with Some y => y :: go r | None => go r end end) a))
  | VDoc d => Some (VDoc ((fix go (l : list (bytes * value)) :=
                             match l with [] => [] | (k, x) :: r =>
                               match strip x with Some y => (k, y) :: go r | None => go r end end) d))
  | VBool _ | VDouble _ | VInt32 _ | VInt64 _ | VDateTime _ | VTimestamp _ _ => Some v
  | _ => None
  end.

Fixpoint strip_doc (d : doc) : doc :=
  match d with [] => [] | (k, x) :: r =>
    match strip x with Some y => (k, y) :: strip_doc r | None => strip_doc r end end.

(* the schema of a document: its stripped form with every leaf value zeroed.
   Two documents can share a chunk when their skeletons are equal (same tree,
   same keys, same leaf types). *)
Definition zero_leaf (v : value) : value :=
  match v with
  | VBool _ => VBool false | VDouble _ => VDouble 0 | VInt32 _ => VInt32 0 | VInt64 _ => VInt64 0
  | VDateTime _ => VDateTime 0 | VTimestamp _ _ => VTimestamp 0 0 | _ => v
  end.

Fixpoint skeleton (v : value) : option value :=
  match v with
  | VArr a => Some (VArr ((fix go (l : list value) :=
                             match l with [] => [] | x :: r =>
                               match skeleton x with Some y => y :: go r | None => go r end end) a))
  | VDoc d => Some (VDoc ((fix go (l : list (bytes * value)) :=
                             match l with [] => [] | (k, x) :: r =>
                               match skeleton x with Some y => (k, y) :: go r | None => go r end end) d))
  | VBool _ | VDouble _ | VInt32 _ | VInt64 _ | VDateTime _ | VTimestamp _ _ => Some (zero_leaf v)
  | _ => None
  end.

Fixpoint skeleton_doc (d : doc) : doc :=
  match d with [] => [] | (k, x) :: r =>
    match skeleton x with Some y => (k, y) :: skeleton_doc r | None => skeleton_doc r end end.

(* ---- bson_hash.go: the byte string fed to FNV and the metric count ----
   Every path component is introduced by a zero byte and a dot, every container announces itself with its path, a zero
   byte and '{' or '[', every metric with its path, a zero byte and ';' (field names hold no zero byte). *)
Definition mark_doc : bytes := [0; 123]%N.
Definition mark_arr : bytes := [0; 91]%N.
Definition mark_leaf : bytes := [0; 59]%N.
Definition comp (key k : bytes) : bytes := key ++ 0%N :: dot :: k.

Fixpoint hash_keys (key : bytes) (v : value) : list bytes * Z :=
  match v with
  | VArr a =>
      let '(ks, n) :=
      (fix go (i : N) (l : list value) : list bytes * Z :=
         match l with
         | [] => ([], 0)
         | x :: r => let '(k1, n1) := hash_keys (comp key (dec_digits i)) x in
                     let '(k2, n2) := go (i + 1)%N r in (k1 ++ k2, n1 + n2)
         end) 0%N a in ((key ++ mark_arr) :: ks, n)
  | VDoc d =>
      let '(ks, n) :=
      (fix go (l : list (bytes * value)) : list bytes * Z :=
         match l with
         | [] => ([], 0)
         | (k, x) :: r => let '(k1, n1) := hash_keys (comp key k) x in
                          let '(k2, n2) := go r in (k1 ++ k2, n1 + n2)
         end) d in ((key ++ mark_doc) :: ks, n)
  | VBool _ | VDouble _ | VInt32 _ | VInt64 _ | VDateTime _ => ([key ++ mark_leaf], 1)
  | VTimestamp _ _ => ([key ++ mark_leaf], 2)
  | _ => ([], 0)
  end.

Fixpoint hash_keys_fields (d : doc) : list bytes * Z :=
  match d with
  | [] => ([], 0)
  | (k, x) :: r => let '(k1, n1) := hash_keys (comp [] k) x in
                   let '(k2, n2) := hash_keys_fields r in (k1 ++ k2, n1 + n2)
  end.

Definition hash_keys_doc (d : doc) : list bytes * Z :=
  let '(ks, n) := hash_keys_fields d in (mark_doc :: ks, n).

(* what FNV sees: the concatenation of the written keys (hash.Write appends) *)
Definition schema_sig (d : doc) : bytes * Z :=
  let '(ks, n) := hash_keys_doc d in (concat ks, n).
