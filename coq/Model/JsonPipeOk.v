(* C19 as executable statements over observations made through the public API
   (metrics.CollectJSONStream, metrics.CollectRuntime, the ftdc readers), and the
   functions that compute what the model predicts for a case. *)
From Coq Require Import ZArith NArith List Bool.
From FV.Model Require Import Bytes Bson Metrics Codec Collector Wf RoundTrip CollectorOk Instance JsonPipe.
Import ListNotations.
Open Scope Z_scope.

(* ------------------------------------------------------------------ the property *)
(* a line of the input as the harness saw it (independently of the model's
   scanner): its raw length (bytes before the \n, a \r included) and the
   document the Extended JSON library built from it (None: the library refused) *)
Definition line_bad (limit : N) (l : N * option doc) : bool :=
  (limit <=? fst l)%N || match snd l with None => true | Some _ => false end.

Definition line_docs (lines : list (N * option doc)) : list doc :=
  flat_map (fun l => match snd l with Some d => [d] | None => [] end) lines.

(* C19, JSON part.  [res_ok]: CollectJSONStream returned a nil error; [decoded]:
   what ftdc.ReadStructuredMetrics delivers from the returned bytes.  A nil
   error requires that no line is malformed or too long, that the reader did not
   fail, and that the output decodes to the numeric projection of ALL lines in
   order; so an error is mandatory when a line is bad and a shortened result is
   never acceptable. *)
Definition c19_ok_json (limit : N) (lines : list (N * option doc)) (rerr : bool)
           (res_ok : bool) (decoded : list doc) : bool :=
  if res_ok then
    negb rerr && negb (existsb (line_bad limit) lines) && docs_eqb decoded (map strip_doc (line_docs lines))
  else true.

(* class of the finding D17: the flush interval is shorter than the time the
   reader needs to deliver the input (both in nanoseconds) *)
Definition c19_timer_class (flush_ns reader_ns : Z) : bool := flush_ns <? reader_ns.

Fixpoint ids_eqb (a : list (option Z)) (b : list Z) : bool :=
  match a, b with
  | [], [] => true
  | Some x :: r, y :: s => (x =? y) && ids_eqb r s
  | _, _ => false
  end.

(* C19, runtime part.  One entry per file prefix.N in order of N: did the file
   decode without error, and the id of every sample in it.  [generated]: how many
   samples generate() produced when the harness could count them.  The ids over
   all files are 0,1,..,n-1 with none missing or repeated. *)
Definition c19_ok_runtime (files : list (bool * list (option Z))) (generated : option Z) : bool :=
  let ids := flat_map snd files in
  forallb fst files && ids_eqb ids (zseq 0 (length ids))
  && match generated with Some g => Z.of_nat (length ids) =? g | None => true end.

(* ------------------------------------------------------------------ model observations *)
(* the result of a run and, for a nil error, what the model's reader decodes from
   the returned documents (samples, chunk sizes) *)
Inductive jobs := JObsOk (docs : list doc) (sizes : list Z) | JObsUnreadable | JObsErr (e : jerr) | JObsStuck.

Definition jobs_of (r : option jres) : jobs :=
  match r with
  | None => JObsStuck
  | Some (JErr e) => JObsErr e
  | Some (JOk out) =>
      match x_decode_ftdc out with
      | Some d => JObsOk (dc_docs d) (dc_sizes d)
      | None => JObsUnreadable
      end
  end.

Definition x_json_items (parse : bytes -> pres) (limit : N) (inp : bytes) (rerr : bool) : list item :=
  source parse false limit inp rerr.

(* CollectJSONStream on a schedule; events after the call has returned are ignored
   (a schedule computed beforehand cannot know that an Add will be refused) *)
Fixpoint j_exec (s : jstate) (evs : list jev) : option jstate :=
  match j_res s with
  | Some _ => Some s
  | None => match evs with
            | [] => Some s
            | e :: r => match j_step deflate_flag s e with Some s' => j_exec s' r | None => None end
            end
  end.

Definition x_json_run (valid : bool) (n : Z) (items : list item) (evs : list jev) : jobs :=
  match j_exec (j_init valid n items) evs with
  | Some s => jobs_of (j_res s)
  | None => JObsStuck
  end.

(* ... when neither the timer nor the context interferes *)
Definition x_json_calm (valid : bool) (n : Z) (items : list item) : jobs :=
  x_json_run valid n items (j_calm items []).

(* ... when the timer fires after k documents *)
Definition x_json_timer (n : Z) (items : list item) (k : nat) : jobs :=
  x_json_run true n items (repeat (EvDoc 0) k ++ [EvTimer]).

Definition item_is_doc (i : item) : bool := match i with IDoc _ => true | IErr _ => false end.

(* CollectRuntime: the sample the model generates carries only its id *)
Definition gen_simple (i now : Z) : doc := [(k_sample_id, VInt64 i)].

Record robs := mkRobs { rb_res : option rtres; rb_files : list (option (list (option Z) * list Z)) }.

Definition x_runtime (o : ropts) (evs : list rtev) : option robs :=
  match r_run deflate_flag gen_simple (r_init o) evs with
  | None => None
  | Some s =>
      Some (mkRobs (r_res s)
              (map (fun w => match x_decode_ftdc (emitted w) with
                             | Some d => Some (map sample_id (dc_docs d), dc_sizes d)
                             | None => None
                             end) (r_files s)))
  end.

(* the schedule read off an observation: the samples of each file, a flush after
   every file but the last, cancellation at the end *)
Fixpoint r_schedule (counts : list nat) : list rtev :=
  match counts with
  | [] => [RvCancel]
  | [k] => repeat (RvCollect 0) k ++ [RvCancel]
  | k :: r => repeat (RvCollect 0) k ++ RvFlush :: r_schedule r
  end.
