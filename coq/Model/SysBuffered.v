(* SysBuffered.v — labelled transition system of the thread-safe collector wrappers
   (collector_sync.go, collector_buffered.go, util/catcher.go). DEFINITIONS ONLY.

   One system contains everything C10 talks about:
   * any number of client goroutines g = 0,1,2,... each running a program (list of [op]);
     operations are issued either directly on the synchronized collector
     (OAdd / OInfo / OResolve / OSetMeta) or on a buffered collector placed over it
     (OBAdd / OBResolve; Info and SetMetadata of the buffered collector are the promoted
     methods of the embedded synchronized collector, i.e. OInfo / OSetMeta);
   * the synchronized collector's sync.RWMutex: a writer slot [wr] and a set of readers
     [rdrs]; every method is  Lock ; inner operation ; Unlock  as three separate steps
     (Info: RLock ; inner Info ; RUnlock).  Go's RWMutex additionally blocks new readers
     while a writer waits; leaving that out only adds interleavings (safety theorems are
     over a superset; no method takes the lock twice, so it cannot cause a deadlock);
   * the inner collector as an append-only log [olog] of accepted samples (its own
     correctness is C07); [accepts log x] says whether the inner Add takes x in state log;
   * the buffered collector: [pipe] with capacity [size] (0 = rendezvous), the drainer
     goroutine [dp], the context flag [cancelled], the catcher as a list;
   * ghost components (never read by a transition's guard): [ghist] completed operations
     with their results in completion order, [acq] lock acquisitions in order, [pre] the
     buffered Adds acknowledged before the cancel event, [drained] the items the drainer
     has finished with.

   step : state -> tid -> option state is a function: the two arms of a select are two
   different tids (P g = send arm, Pc g = ctx.Done arm; D = receive arm, Dc = ctx.Done arm).

   The return of a method is merged with its Unlock step (a return has no shared effect).
   The catcher's own mutex is modelled separately below (kstate); inside the big system
   catcher.Add / HasErrors are atomic steps. *)
From Coq Require Import List Arith Bool PeanoNat.
Import ListNotations.

Definition sample := nat.
(* (submitting client, payload): the harness encodes both into the document *)
Definition tsample := (nat * sample)%type.

Inductive op :=
  | OAdd (v : sample) | OInfo | OResolve | OSetMeta (m : nat)   (* on the synchronized collector *)
  | OBAdd (v : sample) | OBResolve.                              (* on the buffered collector *)

Inductive result :=
  | ROk                      (* nil *)
  | RRej                     (* error of the inner collector's Add *)
  | RCtx                     (* ctx.Err() *)
  | RCatch                   (* bufferedCollector.Resolve: the catcher's error *)
  | RInfo (n : nat)          (* SampleCount *)
  | RSnap (l : list tsample). (* Resolve: the samples in the returned bytes *)

Inductive who := Client (g : nat) | Drainer.

Inductive cpc :=
  | CIdle                    (* between operations / blocked at the first step of the next one *)
  | CChecked                 (* bufferedCollector.Resolve after HasErrors() = false *)
  | CLocked                  (* holds mu (write), inner call not yet made *)
  | CApplied (r : result)    (* inner call returned r, deferred Unlock pending *)
  | CRLocked                 (* holds mu (read) *)
  | CRApplied (r : result).

Inductive dpc :=
  | DSelect                              (* at the select of the for loop *)
  | DGot (x : tsample)                   (* received x, about to call inner.Add = Lock *)
  | DLocked (x : tsample)
  | DApplied (x : tsample) (ok : bool)   (* inner Add returned; Unlock pending *)
  | DCatch (x : tsample) (ok : bool)     (* about to call catcher.Add(err) *)
  | DCancelled                           (* took the ctx.Done arm; len(pipe) test pending *)
  | DRange                               (* for in := range c.pipe — blocks while the pipe is empty;
                                            nobody closes the pipe, so this pc is never left for DDone *)
  | DDone.                               (* goroutine returned *)

Record ev := mkEv { eg : nat; eo : op; er : result }.

Inductive acqe := AClient (g : nat) (o : op) | ADrainer (x : tsample).

Record state := mkState {
  prog : nat -> list op;
  pc : nat -> cpc;
  wr : option who;
  rdrs : list nat;
  olog : list (who * tsample);
  meta : option nat;
  pipe : list tsample;
  dp : dpc;
  draining : bool;
  cancelled : bool;
  catcher : list tsample;
  ghist : list ev;
  acq : list acqe;
  pre : list tsample;
  drained : list (tsample * bool)
}.

Definition set_prog (s : state) (x : nat -> list op) : state :=
  mkState x (pc s) (wr s) (rdrs s) (olog s) (meta s) (pipe s) (dp s) (draining s) (cancelled s) (catcher s) (ghist s) (acq s) (pre s) (drained s).
Definition set_pc (s : state) (x : nat -> cpc) : state :=
  mkState (prog s) x (wr s) (rdrs s) (olog s) (meta s) (pipe s) (dp s) (draining s) (cancelled s) (catcher s) (ghist s) (acq s) (pre s) (drained s).
Definition set_wr (s : state) (x : option who) : state :=
  mkState (prog s) (pc s) x (rdrs s) (olog s) (meta s) (pipe s) (dp s) (draining s) (cancelled s) (catcher s) (ghist s) (acq s) (pre s) (drained s).
Definition set_rdrs (s : state) (x : list nat) : state :=
  mkState (prog s) (pc s) (wr s) x (olog s) (meta s) (pipe s) (dp s) (draining s) (cancelled s) (catcher s) (ghist s) (acq s) (pre s) (drained s).
Definition set_olog (s : state) (x : list (who * tsample)) : state :=
  mkState (prog s) (pc s) (wr s) (rdrs s) x (meta s) (pipe s) (dp s) (draining s) (cancelled s) (catcher s) (ghist s) (acq s) (pre s) (drained s).
Definition set_meta (s : state) (x : option nat) : state :=
  mkState (prog s) (pc s) (wr s) (rdrs s) (olog s) x (pipe s) (dp s) (draining s) (cancelled s) (catcher s) (ghist s) (acq s) (pre s) (drained s).
Definition set_pipe (s : state) (x : list tsample) : state :=
  mkState (prog s) (pc s) (wr s) (rdrs s) (olog s) (meta s) x (dp s) (draining s) (cancelled s) (catcher s) (ghist s) (acq s) (pre s) (drained s).
Definition set_dp (s : state) (x : dpc) : state :=
  mkState (prog s) (pc s) (wr s) (rdrs s) (olog s) (meta s) (pipe s) x (draining s) (cancelled s) (catcher s) (ghist s) (acq s) (pre s) (drained s).
Definition set_draining (s : state) (x : bool) : state :=
  mkState (prog s) (pc s) (wr s) (rdrs s) (olog s) (meta s) (pipe s) (dp s) x (cancelled s) (catcher s) (ghist s) (acq s) (pre s) (drained s).
Definition set_cancelled (s : state) (x : bool) : state :=
  mkState (prog s) (pc s) (wr s) (rdrs s) (olog s) (meta s) (pipe s) (dp s) (draining s) x (catcher s) (ghist s) (acq s) (pre s) (drained s).
Definition set_catcher (s : state) (x : list tsample) : state :=
  mkState (prog s) (pc s) (wr s) (rdrs s) (olog s) (meta s) (pipe s) (dp s) (draining s) (cancelled s) x (ghist s) (acq s) (pre s) (drained s).
Definition set_ghist (s : state) (x : list ev) : state :=
  mkState (prog s) (pc s) (wr s) (rdrs s) (olog s) (meta s) (pipe s) (dp s) (draining s) (cancelled s) (catcher s) x (acq s) (pre s) (drained s).
Definition set_acq (s : state) (x : list acqe) : state :=
  mkState (prog s) (pc s) (wr s) (rdrs s) (olog s) (meta s) (pipe s) (dp s) (draining s) (cancelled s) (catcher s) (ghist s) x (pre s) (drained s).
Definition set_pre (s : state) (x : list tsample) : state :=
  mkState (prog s) (pc s) (wr s) (rdrs s) (olog s) (meta s) (pipe s) (dp s) (draining s) (cancelled s) (catcher s) (ghist s) (acq s) x (drained s).
Definition set_drained (s : state) (x : list (tsample * bool)) : state :=
  mkState (prog s) (pc s) (wr s) (rdrs s) (olog s) (meta s) (pipe s) (dp s) (draining s) (cancelled s) (catcher s) (ghist s) (acq s) (pre s) x.

Definition upd {A} (f : nat -> A) (g : nat) (x : A) : nat -> A :=
  fun j => if Nat.eqb j g then x else f j.

Definition log (s : state) : list tsample := map snd (olog s).

Definition lock_free (s : state) : bool :=
  match wr s, rdrs s with None, [] => true | _, _ => false end.

(* buffered Adds that returned nil, in the order of their sends *)
Definition backed (h : list ev) : list tsample :=
  flat_map (fun e => match eo e, er e with OBAdd v, ROk => [(eg e, v)] | _, _ => [] end) h.
(* direct Adds that returned nil, in the order of their returns *)
Definition acked (h : list ev) : list tsample :=
  flat_map (fun e => match eo e, er e with OAdd v, ROk => [(eg e, v)] | _, _ => [] end) h.
(* completed operations of client g with results, program order *)
Definition hist_of (g : nat) (h : list ev) : list ev := filter (fun e => Nat.eqb (eg e) g) h.

Definition waiting (d : dpc) : bool := match d with DSelect | DRange => true | _ => false end.

Inductive tid := P (g : nat) | Pc (g : nat) | D | Dc | Cancel.

Section Sys.
Variable accepts : list tsample -> tsample -> bool.
Variable size : nat.

Definition complete (s : state) (g : nat) (o : op) (r : result) (rest : list op) : state :=
  let s1 := set_pc s (upd (pc s) g CIdle) in
  let s2 := set_prog s1 (upd (prog s1) g rest) in
  set_ghist s2 (ghist s2 ++ [mkEv g o r]).

Definition acquire (s : state) (g : nat) (o : op) : state :=
  let s1 := set_pc s (upd (pc s) g CLocked) in
  let s2 := set_wr s1 (Some (Client g)) in
  set_acq s2 (acq s2 ++ [AClient g o]).

Definition racquire (s : state) (g : nat) : state :=
  let s1 := set_pc s (upd (pc s) g CRLocked) in
  let s2 := set_rdrs s1 (g :: rdrs s1) in
  set_acq s2 (acq s2 ++ [AClient g OInfo]).

(* the next step of client g other than the ctx.Done arm of a buffered Add *)
Definition step_client (s : state) (g : nat) : option state :=
  match prog s g with
  | [] => None
  | o :: rest =>
    match pc s g with
    | CIdle =>
      match o with
      | OAdd _ | OResolve | OSetMeta _ => if lock_free s then Some (acquire s g o) else None
      | OInfo => match wr s with None => Some (racquire s g) | Some _ => None end
      | OBAdd v =>
          (* case c.pipe <- in : room in the buffer, or a receiver waiting on a rendezvous channel *)
          if length (pipe s) <? size
          then Some (complete (set_pipe s (pipe s ++ [(g, v)])) g o ROk rest)
          else if (size =? 0) && waiting (dp s)
          then Some (complete (set_dp s (DGot (g, v))) g o ROk rest)
          else None
      | OBResolve =>
          match catcher s with
          | [] => Some (set_pc s (upd (pc s) g CChecked))
          | _ :: _ => Some (complete s g o RCatch rest)
          end
      end
    | CChecked => if lock_free s then Some (acquire s g o) else None
    | CLocked =>
      match o with
      | OAdd v =>
          if accepts (log s) (g, v)
          then Some (set_pc (set_olog s (olog s ++ [(Client g, (g, v))])) (upd (pc s) g (CApplied ROk)))
          else Some (set_pc s (upd (pc s) g (CApplied RRej)))
      | OResolve | OBResolve => Some (set_pc s (upd (pc s) g (CApplied (RSnap (log s)))))
      | OSetMeta m => Some (set_pc (set_meta s (Some m)) (upd (pc s) g (CApplied ROk)))
      | _ => None
      end
    | CApplied r => Some (complete (set_wr s None) g o r rest)
    | CRLocked => Some (set_pc s (upd (pc s) g (CRApplied (RInfo (length (olog s))))))
    | CRApplied r => Some (complete (set_rdrs s (remove Nat.eq_dec g (rdrs s))) g o r rest)
    end
  end.

(* case <-c.ctx.Done() of bufferedCollector.Add *)
Definition step_ctx (s : state) (g : nat) : option state :=
  match pc s g, prog s g with
  | CIdle, OBAdd v :: rest => if cancelled s then Some (complete s g (OBAdd v) RCtx rest) else None
  | _, _ => None
  end.

Definition step_drainer (s : state) : option state :=
  match dp s with
  | DSelect | DRange =>
      match pipe s with
      | x :: rest => Some (set_dp (set_pipe s rest) (DGot x))
      | [] => None
      end
  | DGot x =>
      if lock_free s
      then Some (let s1 := set_dp s (DLocked x) in
                 let s2 := set_wr s1 (Some Drainer) in set_acq s2 (acq s2 ++ [ADrainer x]))
      else None
  | DLocked x =>
      if accepts (log s) x
      then Some (set_dp (set_olog s (olog s ++ [(Drainer, x)])) (DApplied x true))
      else Some (set_dp s (DApplied x false))
  | DApplied x b => Some (set_dp (set_wr s None) (DCatch x b))
  | DCatch x b =>
      Some (let s1 := set_catcher s (if b then catcher s else catcher s ++ [x]) in
            let s2 := set_drained s1 (drained s1 ++ [(x, b)]) in
            set_dp s2 (if draining s then DRange else DSelect))
  | DCancelled =>
      match pipe s with
      | [] => Some (set_dp s DDone)
      | _ :: _ => Some (set_dp (set_draining s true) DRange)
      end
  | DDone => None
  end.

(* case <-ctx.Done() of the drainer's select *)
Definition step_dcancel (s : state) : option state :=
  match dp s with
  | DSelect => if cancelled s then Some (set_dp s DCancelled) else None
  | _ => None
  end.

Definition step_cancel (s : state) : option state :=
  if cancelled s then None
  else Some (set_pre (set_cancelled s true) (backed (ghist s))).

Definition step (s : state) (t : tid) : option state :=
  match t with
  | P g => step_client s g
  | Pc g => step_ctx s g
  | D => step_drainer s
  | Dc => step_dcancel s
  | Cancel => step_cancel s
  end.

Fixpoint run (s : state) (sched : list tid) : option state :=
  match sched with
  | [] => Some s
  | t :: r => match step s t with Some s' => run s' r | None => None end
  end.

(* like run, but a tid that is not enabled is skipped (convenient for drivers) *)
Fixpoint run_skip (s : state) (sched : list tid) : state :=
  match sched with
  | [] => s
  | t :: r => match step s t with Some s' => run_skip s' r | None => run_skip s r end
  end.

Definition quiescent (s : state) : Prop := forall t, step s t = None.

Definition enabledb (s : state) (t : tid) : bool :=
  match step s t with Some _ => true | None => false end.

(* no tid of the clients 0..G-1, the drainer or the cancel event is enabled *)
Definition quiescent_upto (G : nat) (s : state) : bool :=
  forallb (fun g => negb (enabledb s (P g)) && negb (enabledb s (Pc g))) (seq 0 G)
  && negb (enabledb s D) && negb (enabledb s Dc) && negb (enabledb s Cancel).

End Sys.

Definition init (progs : list (list op)) : state :=
  mkState (fun g => nth g progs []) (fun _ => CIdle) None [] [] None [] DSelect false false [] [] [] [] [].

(* what the drainer currently holds *)
Definition hand (s : state) : list tsample :=
  match dp s with
  | DGot x | DLocked x | DApplied x _ | DCatch x _ => [x]
  | _ => []
  end.

(* the Add whose inner call is still to come although the lock is already held *)
Definition pending (s : state) : list (who * tsample) :=
  match wr s with
  | Some (Client g) =>
      match pc s g, prog s g with
      | CLocked, OAdd v :: _ => [(Client g, (g, v))]
      | _, _ => []
      end
  | Some Drainer => match dp s with DLocked x => [(Drainer, x)] | _ => [] end
  | None => []
  end.

(* sequential specification of the inner collector: apply Adds one after the other *)
Definition sapp1 (accepts : list tsample -> tsample -> bool) (cur : list (who * tsample)) (e : who * tsample) :=
  if accepts (map snd cur) (snd e) then cur ++ [e] else cur.
Definition sapp accepts (cur : list (who * tsample)) (l : list (who * tsample)) :=
  fold_left (sapp1 accepts) l cur.

Definition adds_of (a : list acqe) : list (who * tsample) :=
  flat_map (fun e => match e with
                     | AClient g (OAdd v) => [(Client g, (g, v))]
                     | ADrainer x => [(Drainer, x)]
                     | _ => []
                     end) a.

(* lock acquisitions of client g, in order *)
Definition acq_of (g : nat) (a : list acqe) : list op :=
  flat_map (fun e => match e with AClient g' o => if Nat.eqb g' g then [o] else [] | _ => [] end) a.

(* the operations of a completed history that took the lock *)
Definition lock_ops (h : list ev) : list op :=
  flat_map (fun e => match eo e, er e with
                     | OBAdd _, _ => []
                     | OBResolve, RCatch => []
                     | o, _ => [o]
                     end) h.

(* the operation for which client g currently holds (or shares) the lock *)
Definition cur_held (s : state) (g : nat) : list op :=
  match pc s g, prog s g with
  | (CLocked | CApplied _ | CRLocked | CRApplied _), o :: _ => [o]
  | _, _ => []
  end.

Definition is_client (e : who * tsample) : bool := match fst e with Client _ => true | Drainer => false end.
Definition is_drainer (e : who * tsample) : bool := negb (is_client e).

(* a direct Add already applied by the lock holder but not yet returned *)
Definition inflight (s : state) : list tsample :=
  match wr s with
  | Some (Client g) =>
      match pc s g, prog s g with
      | CApplied ROk, OAdd v :: _ => [(g, v)]
      | _, _ => []
      end
  | _ => []
  end.

Definition hand_ok (s : state) : list tsample :=
  match dp s with DApplied x true | DCatch x true => [x] | _ => [] end.

Definition oks (d : list (tsample * bool)) : list tsample := map fst (filter (fun e => snd e) d).
Definition rejs (d : list (tsample * bool)) : list tsample := map fst (filter (fun e => negb (snd e)) d).

(* ------------------------------------------------------------------ drainer: local automaton
   labels of the vpoint hooks as the drainer goroutine logs them:
   bd.recv (after a receive in the select), catcher.add (entry of catcher.Add), bd.cancel *)
Inductive dlabel := LRecv | LCatch | LCancel.

Fixpoint drainer_accepts_from (q : nat) (l : list dlabel) : bool :=
  match l with
  | [] => true
  | x :: r =>
    match q, x with
    | 0, LRecv => drainer_accepts_from 1 r
    | 0, LCancel => drainer_accepts_from 2 r
    | 1, LCatch => drainer_accepts_from 0 r
    | 2, LCatch => drainer_accepts_from 2 r
    | _, _ => false
    end
  end.
Definition drainer_accepts (l : list dlabel) : bool := drainer_accepts_from 0 l.

(* labels emitted by one step of the big system *)
Definition emits (size : nat) (s : state) (t : tid) : list dlabel :=
  match t with
  | D => match dp s with
         | DSelect => match pipe s with _ :: _ => [LRecv] | [] => [] end
         | DCatch _ _ => [LCatch]
         | _ => []
         end
  | P g => match pc s g, prog s g, dp s with
           | CIdle, OBAdd _ :: _, DSelect => if length (pipe s) <? size then [] else if size =? 0 then [LRecv] else []
           | _, _, _ => []
           end
  | Dc => match dp s with DSelect => if cancelled s then [LCancel] else [] | _ => [] end
  | _ => []
  end.

Fixpoint trace (accepts : list tsample -> tsample -> bool) (size : nat) (s : state) (sched : list tid) : list dlabel :=
  match sched with
  | [] => []
  | t :: r => match step accepts size s t with
              | Some s' => emits size s t ++ trace accepts size s' r
              | None => []
              end
  end.

(* ------------------------------------------------------------------ the catcher (util/catcher.go)
   basicCatcher.Add:  if err == nil return ; Lock ; append ; Unlock
   Len / HasErrors:   RLock ; read len ; RUnlock                                           *)
Inductive kop := KAdd (e : option nat) | KLen.
Inductive kpc := KIdle | KLocked | KApplied | KRLocked | KRRead (n : nat).
Record kev := mkKev { kg : nat; ko : kop; kr : nat }.
Record kstate := mkK {
  kprog : nat -> list kop;
  kpcs : nat -> kpc;
  kwr : option nat;
  krd : list nat;
  kerrs : list (nat * nat);     (* (adding goroutine, error) *)
  kdone : list kev
}.

Definition kcomplete (s : kstate) (g : nat) (o : kop) (r : nat) (rest : list kop) (w : option nat) (rd : list nat) : kstate :=
  mkK (upd (kprog s) g rest) (upd (kpcs s) g KIdle) w rd (kerrs s) (kdone s ++ [mkKev g o r]).

Definition kstep (s : kstate) (g : nat) : option kstate :=
  match kprog s g with
  | [] => None
  | o :: rest =>
    match kpcs s g, o with
    | KIdle, KAdd None => Some (kcomplete s g o 0 rest (kwr s) (krd s))
    | KIdle, KAdd (Some _) =>
        match kwr s, krd s with
        | None, [] => Some (mkK (kprog s) (upd (kpcs s) g KLocked) (Some g) [] (kerrs s) (kdone s))
        | _, _ => None
        end
    | KLocked, KAdd (Some e) =>
        Some (mkK (kprog s) (upd (kpcs s) g KApplied) (kwr s) (krd s) (kerrs s ++ [(g, e)]) (kdone s))
    | KApplied, _ => Some (kcomplete s g o 0 rest None (krd s))
    | KIdle, KLen =>
        match kwr s with
        | None => Some (mkK (kprog s) (upd (kpcs s) g KRLocked) None (g :: krd s) (kerrs s) (kdone s))
        | Some _ => None
        end
    | KRLocked, _ => Some (mkK (kprog s) (upd (kpcs s) g (KRRead (length (kerrs s)))) (kwr s) (krd s) (kerrs s) (kdone s))
    | KRRead n, _ => Some (kcomplete s g o n rest (kwr s) (remove Nat.eq_dec g (krd s)))
    | _, _ => None
    end
  end.

Fixpoint krun (s : kstate) (sched : list nat) : option kstate :=
  match sched with
  | [] => Some s
  | t :: r => match kstep s t with Some s' => krun s' r | None => None end
  end.

Definition kinit (progs : list (list kop)) : kstate :=
  mkK (fun g => nth g progs []) (fun _ => KIdle) None [] [] [].

Definition nonnil (g : nat) (l : list kop) : list (nat * nat) :=
  flat_map (fun o => match o with KAdd (Some e) => [(g, e)] | _ => [] end) l.

Fixpoint sumto (G : nat) (f : nat -> nat) : nat :=
  match G with 0 => 0 | S n => sumto n f + f n end.

(* ------------------------------------------------------------------ oracle on observations
   (what the harness sees through the public API) *)
Definition ts_eqb (a b : tsample) : bool := Nat.eqb (fst a) (fst b) && Nat.eqb (snd a) (snd b).
Fixpoint count (x : tsample) (l : list tsample) : nat :=
  match l with [] => 0 | y :: r => (if ts_eqb x y then 1 else 0) + count x r end.
Definition same_multiset (a b : list tsample) : bool :=
  forallb (fun x => Nat.eqb (count x a) (count x b)) (a ++ b).
(* samples of one producer appear with increasing sequence numbers *)
Fixpoint order_ok (l : list tsample) : bool :=
  match l with
  | [] => true
  | x :: r => forallb (fun y => negb (Nat.eqb (fst y) (fst x)) || (snd x <? snd y)) r && order_ok r
  end.

Record addobs := mkAdd { a_p : nat; a_s : nat; a_nil : bool; a_pre : bool }.
Definition acked_nil (adds : list addobs) : list tsample :=
  map (fun a => (a_p a, a_s a)) (filter a_nil adds).

(* synchronized collector: decoded output = the Adds that returned nil, each once; order per producer *)
Definition c10_ok_sync (adds : list addobs) (decoded : list tsample) (panics : nat) : bool :=
  Nat.eqb panics 0 && same_multiset (acked_nil adds) decoded && order_ok decoded.

(* buffered collector after cancellation and quiescence:
   nothing duplicated or invented; everything acknowledged before the cancel call is there; order *)
Definition c10_ok_buffered (adds : list addobs) (decoded : list tsample) (panics : nat) : bool :=
  Nat.eqb panics 0
  && forallb (fun x => Nat.eqb (count x decoded) 1 && Nat.eqb (count x (acked_nil adds)) 1) decoded
  && forallb (fun a => negb (a_nil a && a_pre a) || Nat.eqb (count (a_p a, a_s a) decoded) 1) adds
  && order_ok decoded.

(* catcher: exactly the non-nil errors are retained *)
Definition c10_ok_catcher (expected got : list tsample) (len : nat) (has_err resolve_nonnil : bool) : bool :=
  same_multiset expected got && Nat.eqb len (length expected)
  && Bool.eqb has_err (negb (Nat.eqb (length expected) 0)) && Bool.eqb resolve_nonnil has_err.
