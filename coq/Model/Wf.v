(* Well-formedness predicates used as hypotheses of the property theorems. *)
From Coq Require Import ZArith NArith List Bool.
From FV.Model Require Import Bytes Bson Metrics.
Import ListNotations.
Open Scope Z_scope.

(* a byte string whose length fits BSON's signed 32-bit length fields *)
Definition small (b : bytes) : Prop := (N.of_nat (length b) < 2 ^ 31)%N.

(* UTC datetime within the range Go expresses in nanoseconds: |ms| * 10^6 < 2^63 *)
Definition date_ok (ms : Z) : bool := (-9223372036854 <=? ms) && (ms <=? 9223372036854).

(* every metric leaf holds a value of its own type's range *)
Fixpoint leaves_ok (v : value) : bool :=
  match v with
  | VArr a => (fix go (l : list value) := match l with [] => true | x :: r => leaves_ok x && go r end) a
  | VDoc d => (fix go (l : list (bytes * value)) :=
                 match l with [] => true | (_, x) :: r => leaves_ok x && go r end) d
  | VDouble b => in_i64 b
  | VInt32 i => in_i32 i
  | VInt64 i => in_i64 i
  | VDateTime ms => date_ok ms
  | VTimestamp t i => in_u32 t && in_u32 i
  | _ => true
  end.
Fixpoint doc_leaves_ok (d : doc) : bool :=
  match d with [] => true | (_, x) :: r => leaves_ok x && doc_leaves_ok r end.

(* no BSON timestamp with non-zero seconds (class of the known finding D1) *)
Fixpoint has_ts_seconds (v : value) : bool :=
  match v with
  | VArr a => (fix go (l : list value) := match l with [] => false | x :: r => has_ts_seconds x || go r end) a
  | VDoc d => (fix go (l : list (bytes * value)) :=
                 match l with [] => false | (_, x) :: r => has_ts_seconds x || go r end) d
  | VTimestamp t _ => negb (t =? 0)
  | _ => false
  end.
Fixpoint doc_has_ts_seconds (d : doc) : bool :=
  match d with [] => false | (_, x) :: r => has_ts_seconds x || doc_has_ts_seconds r end.

(* keys usable in dotted paths: no NUL, no '.', non-empty is not required *)
Definition key_nodot (k : bytes) : bool := forallb (fun b => negb (b =? 46)%N && (0 <? b)%N && (b <? 256)%N) k.

(* all documents of a sequence share one schema *)
Definition same_schema (docs : list doc) : Prop :=
  forall a b, In a docs -> In b docs -> skeleton_doc a = skeleton_doc b.
