(* Named aliases of the arithmetic the OCaml drivers need for converting between
   OCaml values and the extracted Z / N / positive. *)
From Coq Require Import ZArith NArith List.
Definition zadd := Z.add.
Definition zmul := Z.mul.
Definition zopp := Z.opp.
Definition zeqb := Z.eqb.
Definition zltb := Z.ltb.
Definition z_of_n := Z.of_N.
Definition z_to_n := Z.to_N.
Definition z_of_nat := Z.of_nat.
Definition z_to_nat := Z.to_nat.
