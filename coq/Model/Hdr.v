(* Model of hdrhist/hdr.go, hdrhist/window.go (definitions only; proofs live in
   Proofs/).  Numbers are Z; the Go code works on int64/int32, and the theorems
   carry range hypotheses: hi < 2^62, and for the int64 reading of the mask
   ((subBucketCount-1) << unitMagnitude) also c_mask < 2^63, which lo < 2^45
   implies (Props/FactsHdr.v, FactsHdr_mask_fits: the C12 theorems themselves hold
   over Z for every lo; the corollaries over the definitions regenerated from
   hdr.go carry the mask hypothesis explicitly).  Under these no intermediate
   value of the Go code leaves its machine type.

   Float steps of hdrhist.New that are replaced by exact integer functions:
     subBucketCountMagnitude = ceil(log2(2*10^sigfigs))   -> Z.log2_up (2*10^s)
     unitMagnitude           = floor(log2(float64(lo)))   -> Z.log2 lo   (0 if lo < 1)
   (tied by the correspondence check through the verif-tag export of the
   geometry fields.) *)
From Coq Require Import ZArith List Bool.
Import ListNotations.
Open Scope Z_scope.

Record cfg := mkCfg {
  c_lo   : Z;   (* lowestTrackableValue *)
  c_hi   : Z;   (* highestTrackableValue *)
  c_sf   : Z;   (* significantFigures *)
  c_unit : Z;   (* unitMagnitude *)
  c_hm   : Z;   (* subBucketHalfCountMagnitude *)
  c_hc   : Z;   (* subBucketHalfCount *)
  c_mask : Z;   (* subBucketMask *)
  c_sbc  : Z;   (* subBucketCount *)
  c_bc   : Z;   (* bucketCount *)
  c_len  : Z    (* countsLen *)
}.

(* for smallestUntrackableValue <= maxValue { smallest <<= 1; bucketsNeeded++ } *)
Fixpoint buckets_loop (fuel : nat) (smallest hi n : Z) : Z :=
  match fuel with
  | O => n
  | S f => if smallest <=? hi then buckets_loop f (2 * smallest) hi (n + 1) else n
  end.

Definition unit_magnitude (lo : Z) : Z := if lo <? 1 then 0 else Z.log2 lo.
Definition sub_bucket_count_magnitude (s : Z) : Z := Z.log2_up (2 * 10 ^ s).

Definition config_of (lo hi s : Z) : cfg :=
  let scm  := sub_bucket_count_magnitude s in
  let hm   := Z.max scm 1 - 1 in
  let u    := unit_magnitude lo in
  let sbc  := 2 ^ (hm + 1) in
  let hc   := sbc / 2 in
  let mask := (sbc - 1) * 2 ^ u in
  let bc   := buckets_loop 64 (sbc * 2 ^ u) hi 1 in
  mkCfg lo hi s u hm hc mask sbc bc ((bc + 1) * (sbc / 2)).

(* bitLen: number of bits needed for x (0 for x <= 0) *)
Definition bitlen (x : Z) : Z := if x <=? 0 then 0 else Z.log2 x + 1.

Definition bucket_index (c : cfg) (v : Z) : Z :=
  bitlen (Z.lor v (c_mask c)) - c_unit c - (c_hm c + 1).

Definition sub_bucket_index (c : cfg) (v b : Z) : Z :=
  Z.shiftr v (b + c_unit c).

Definition counts_index (c : cfg) (b s : Z) : Z :=
  (b + 1) * 2 ^ (c_hm c) + (s - c_hc c).

Definition counts_index_for (c : cfg) (v : Z) : Z :=
  let b := bucket_index c v in counts_index c b (sub_bucket_index c v b).

Definition value_from_index (c : cfg) (b s : Z) : Z := s * 2 ^ (b + c_unit c).

Definition size_of_range (c : cfg) (v : Z) : Z :=
  let b := bucket_index c v in
  let s := sub_bucket_index c v b in
  let adj := if c_sbc c <=? s then b + 1 else b in
  2 ^ (c_unit c + adj).

Definition lowest_equiv (c : cfg) (v : Z) : Z :=
  let b := bucket_index c v in value_from_index c b (sub_bucket_index c v b).
Definition next_non_equiv (c : cfg) (v : Z) : Z := lowest_equiv c v + size_of_range c v.
Definition highest_equiv (c : cfg) (v : Z) : Z := next_non_equiv c v - 1.
Definition median_equiv (c : cfg) (v : Z) : Z := lowest_equiv c v + size_of_range c v / 2.

(* ---- histogram state ---- *)

Record hist := mkHist { h_cfg : cfg; h_total : Z; h_counts : Z -> Z }.

Definition new (lo hi s : Z) : hist := mkHist (config_of lo hi s) 0 (fun _ => 0).

Definition upd (f : Z -> Z) (i d : Z) : Z -> Z := fun j => if j =? i then f j + d else f j.

(* RecordValues: None = error (value out of range), state unchanged *)
Definition record_values (h : hist) (v n : Z) : option hist :=
  let idx := counts_index_for (h_cfg h) v in
  if (idx <? 0) || (c_len (h_cfg h) <=? idx) then None
  else Some (mkHist (h_cfg h) (h_total h + n) (upd (h_counts h) idx n)).

Definition record_value (h : hist) (v : Z) : option hist := record_values h v 1.

(* record, ignoring failures (used for sequences); returns state and number of successes *)
Fixpoint record_all (h : hist) (vs : list Z) : hist * Z :=
  match vs with
  | [] => (h, 0)
  | v :: r => match record_value h v with
              | Some h' => let '(h'', k) := record_all h' r in (h'', k + 1)
              | None => record_all h r
              end
  end.

Definition reset (h : hist) : hist := mkHist (h_cfg h) 0 (fun _ => 0).

(* RecordCorrectedValue(v, e): v itself and then, when 0 < e < v, the back-filled values v-e, v-2e, ... for as long as
   they are at least e; the first rejected value ends the call with an error (what was recorded before it stays) *)
Fixpoint backfill (fuel : nat) (m e : Z) : list Z :=
  match fuel with
  | O => []
  | S f => if e <=? m then m :: backfill f (m - e) e else []
  end.
Definition corrected_values (v e : Z) : list Z :=
  v :: (if (e <=? 0) || (v <=? e) then [] else backfill (Z.to_nat (v / e)) (v - e) e).
Fixpoint record_until_fail (h : hist) (vs : list Z) : hist * bool :=
  match vs with
  | [] => (h, true)
  | v :: r => match record_value h v with Some h' => record_until_fail h' r | None => (h, false) end
  end.
Definition record_corrected (h : hist) (v e : Z) : hist * bool := record_until_fail h (corrected_values v e).
(* a sequence of RecordCorrectedValue calls: final state and, per call, whether it returned nil *)
Fixpoint record_corrected_all (h : hist) (ops : list (Z * Z)) : hist * list bool :=
  match ops with
  | [] => (h, [])
  | (v, e) :: r => let '(h1, ok) := record_corrected h v e in
                   let '(h2, oks) := record_corrected_all h1 r in (h2, ok :: oks)
  end.

(* ---- iteration: the (bucket, sub-bucket) cells in iterator order ---- *)

Definition zrange (a n : Z) : list Z := map (fun k => a + Z.of_nat k) (seq 0 (Z.to_nat n)).

(* bucket 0 visits sub-buckets 0..sbc-1, bucket b>=1 visits hc..sbc-1 *)
Definition cells (c : cfg) : list (Z * Z) :=
  flat_map (fun b => map (fun s => (b, s))
                       (if b =? 0 then zrange 0 (c_sbc c) else zrange (c_hc c) (c_sbc c - c_hc c)))
           (zrange 0 (c_bc c)).

Record step := mkStep { st_count_at : Z; st_count_to : Z; st_value_from : Z; st_highest : Z }.

(* iterator.next: stop when countToIdx >= totalCount, else advance *)
Fixpoint iterate (h : hist) (cs : list (Z * Z)) (count_to : Z) : list step :=
  match cs with
  | [] => []
  | (b, s) :: r =>
      if h_total h <=? count_to then []
      else let cnt := h_counts h (counts_index (h_cfg h) b s) in
           let v := value_from_index (h_cfg h) b s in
           mkStep cnt (count_to + cnt) v (highest_equiv (h_cfg h) v)
             :: iterate h r (count_to + cnt)
  end.

Definition steps (h : hist) : list step := iterate h (cells (h_cfg h)) 0.

Record bar := mkBar { b_from : Z; b_to : Z; b_count : Z }.

Definition distribution (h : hist) : list bar :=
  map (fun st => mkBar (lowest_equiv (h_cfg h) (st_value_from st)) (st_highest st) (st_count_at st))
      (steps h).

Definition hmax (h : hist) : Z :=
  let m := fold_left (fun acc st => if st_count_at st =? 0 then acc else st_highest st) (steps h) 0 in
  highest_equiv (h_cfg h) m.

(* Min: first step with a non-zero count (min == 0 always holds until the break) *)
Fixpoint first_nonzero (l : list step) : Z :=
  match l with
  | [] => 0
  | st :: r => if st_count_at st =? 0 then first_nonzero r else st_highest st
  end.
Definition hmin (h : hist) : Z := lowest_equiv (h_cfg h) (first_nonzero (steps h)).

(* ValueAtQuantile after the float step: the rank countAtPercentile is an input *)
Fixpoint scan_rank (c : cfg) (l : list step) (rank : Z) : Z :=
  match l with
  | [] => 0
  | st :: r => if rank <=? st_count_to st then highest_equiv c (st_value_from st)
               else scan_rank c r rank
  end.
Definition value_at_rank (h : hist) (rank : Z) : Z := scan_rank (h_cfg h) (steps h) rank.

(* Mean numerator: sum of count * median-equivalent *)
Definition mean_num (h : hist) : Z :=
  fold_left (fun acc st => if st_count_at st =? 0 then acc
                           else acc + st_count_at st * median_equiv (h_cfg h) (st_value_from st))
            (steps h) 0.

(* Merge: re-record every non-empty cell of [from]; returns (h', dropped) *)
Definition merge (h from : hist) : hist * Z :=
  fold_left (fun '(acc, dropped) st =>
               if st_count_at st =? 0 then (acc, dropped)
               else match record_values acc (st_value_from st) (st_count_at st) with
                    | Some acc' => (acc', dropped)
                    | None => (acc, dropped + st_count_at st)
                    end)
            (steps from) (h, 0).

(* Export / Import *)
Record snapshot := mkSnap { s_lo : Z; s_hi : Z; s_sf : Z; s_counts : list Z }.

Definition export (h : hist) : snapshot :=
  mkSnap (c_lo (h_cfg h)) (c_hi (h_cfg h)) (c_sf (h_cfg h))
         (map (h_counts h) (zrange 0 (c_len (h_cfg h)))).

Definition import (s : snapshot) : hist :=
  let c := config_of (s_lo s) (s_hi s) (s_sf s) in
  let f := fun i => if (0 <=? i) && (i <? c_len c) then nth (Z.to_nat i) (s_counts s) 0 else 0 in
  let tot := fold_left (fun acc i => let x := f i in if 0 <? x then acc + x else acc)
                       (zrange 0 (c_len c)) 0 in
  mkHist c tot f.

Definition counts_list (h : hist) : list Z := map (h_counts h) (zrange 0 (c_len (h_cfg h))).

Definition hist_equal (a b : hist) : bool :=
  let ca := h_cfg a in let cb := h_cfg b in
  (c_lo ca =? c_lo cb) && (c_hi ca =? c_hi cb) && (c_unit ca =? c_unit cb) && (c_sf ca =? c_sf cb)
  && (c_hm ca =? c_hm cb) && (c_hc ca =? c_hc cb) && (c_mask ca =? c_mask cb) && (c_sbc ca =? c_sbc cb)
  && (c_bc ca =? c_bc cb) && (c_len ca =? c_len cb) && (h_total a =? h_total b)
  && forallb (fun i => h_counts a i =? h_counts b i) (zrange 0 (c_len ca)).

(* ---- windowed histogram: ring of n histograms ---- *)
Record window := mkWin { w_idx : Z; w_hs : list hist; w_m : hist }.

Definition w_cur_pos (w : window) : nat := Z.to_nat (w_idx w mod Z.of_nat (length (w_hs w))).

Fixpoint set_nth {A} (l : list A) (n : nat) (x : A) : list A :=
  match l, n with
  | [], _ => []
  | _ :: r, O => x :: r
  | a :: r, S k => a :: set_nth r k x
  end.

Definition rotate (w : window) : window :=
  let idx := w_idx w + 1 in
  let pos := Z.to_nat (idx mod Z.of_nat (length (w_hs w))) in
  match nth_error (w_hs w) pos with
  | Some h => mkWin idx (set_nth (w_hs w) pos (reset h)) (w_m w)
  | None => mkWin idx (w_hs w) (w_m w)
  end.

Definition new_windowed (n : nat) (lo hi s : Z) : window :=
  rotate (mkWin (-1) (repeat (new lo hi s) n) (new lo hi s)).

Definition w_record (w : window) (v : Z) : window * bool :=
  match nth_error (w_hs w) (w_cur_pos w) with
  | Some h => match record_value h v with
              | Some h' => (mkWin (w_idx w) (set_nth (w_hs w) (w_cur_pos w) h') (w_m w), true)
              | None => (w, false)
              end
  | None => (w, false)
  end.

Definition w_merge (w : window) : hist :=
  fold_left (fun acc h => fst (merge acc h)) (w_hs w) (reset (w_m w)).
