(* Structural validation of one BSON document: mirrors validateBSON /
   validateBSONValue in read.go.  All length fields are handled as N and
   compared with what is really there before anything is converted to nat, so
   the function can be evaluated on hostile input (a length field of 2^31 must
   not become a unary number).  Definitions only. *)
From Coq Require Import ZArith NArith List Bool.
From FV.Model Require Import Bytes Bson.
Import ListNotations.
Open Scope N_scope.

(* split after n bytes; n is an N counter, recursion is structural on the list *)
Fixpoint take_n (l : bytes) (n : N) : option (bytes * bytes) :=
  if n =? 0 then Some ([], l)
  else match l with
       | [] => None
       | b :: r => match take_n r (n - 1) with
                   | Some (a, rest) => Some (b :: a, rest)
                   | None => None
                   end
       end.

Definition drop_n (l : bytes) (n : N) : option bytes :=
  match take_n l n with Some (_, r) => Some r | None => None end.

(* a signed 32-bit length field at the head of l: (value as Z, rest) *)
Definition read_i32 (l : bytes) : option (Z * bytes) :=
  match l with
  | b0 :: b1 :: b2 :: b3 :: r => Some (s32 (le_dec [b0; b1; b2; b3]), r)
  | _ => None
  end.

(* length-prefixed string: n >= 1, n bytes present, the last one is 0 *)
Definition skip_str (l : bytes) : option bytes :=
  match read_i32 l with
  | Some (n, r) =>
      if (n <? 1)%Z then None
      else match take_n r (Z.to_N n) with
           | Some (s, rest) => if (last s 1 =? 0) then Some rest else None
           | None => None
           end
  | None => None
  end.

Definition skip_cstr (l : bytes) : option bytes :=
  match split_cstring l with Some (_, r) => Some r | None => None end.

(* validateBSON on exactly the bytes of one document; fuel bounds the nesting depth *)
Fixpoint validate_doc (fuel : nat) (b : bytes) {struct fuel} : bool :=
  match fuel with
  | O => false
  | S f =>
      let embedded := fun (l : bytes) =>
        match read_i32 l with
        | Some (n, _) =>
            if (n <? 5)%Z then None
            else match take_n l (Z.to_N n) with
                 | Some (d, rest) => if validate_doc f d then Some rest else None
                 | None => None
                 end
        | None => None
        end in
      let value := fun (t : N) (l : bytes) =>
        match t with
        | 1 | 9 | 17 | 18 => drop_n l 8
        | 2 | 13 | 14 => skip_str l
        | 3 | 4 => embedded l
        | 5 => match read_i32 l with
               | Some (n, r) =>
                   if (n <? 0)%Z then None
                   else match r with
                        | st :: _ => if (5 <? st) && (st <? 128) then None   (* subtypes birch refuses *)
                                     else drop_n r (1 + Z.to_N n)
                        | [] => None
                        end
               | None => None
               end
        | 6 | 10 | 255 | 127 => Some l
        | 7 => drop_n l 12
        | 8 => match l with x :: r => if x <=? 1 then Some r else None | [] => None end
        | 11 => match skip_cstr l with Some r => skip_cstr r | None => None end
        | 12 => match skip_str l with Some r => drop_n r 12 | None => None end
        | 15 => match read_i32 l with
                | Some (total, r) =>
                    match skip_str r with
                    | Some r1 =>
                        match embedded r1 with
                        | Some r2 =>
                            if (total =? 4 + Z.of_nat (length r) - Z.of_nat (length r2))%Z then Some r2 else None
                        | None => None
                        end
                    | None => None
                    end
                | None => None
                end
        | 16 => drop_n l 4
        | 19 => drop_n l 16
        | _ => None
        end in
      let elems := fix go (fuel' : nat) (body : bytes) {struct fuel'} : bool :=
        match fuel' with
        | O => false
        | S f' =>
            match body with
            | [] => true
            | t :: r =>
                match skip_cstr r with
                | Some r1 => match value t r1 with
                             | Some r2 => go f' r2
                             | None => false
                             end
                | None => false
                end
            end
        end in
      match read_i32 b with
      | Some (n, r) =>
          (5 <=? n)%Z && (n =? Z.of_nat (length b))%Z && (last b 1 =? 0)
          && elems (S (length b)) (removelast r)
      | None => false
      end
  end.

Definition validate (b : bytes) : bool := validate_doc (S (length b)) b.
