(* Model of events/performance.go (Performance, Add, MarshalDocument,
   UnmarshalDocument) and of the three deterministic collectors of
   events/collector.go (basicCumulativeCollector, samplingCollector,
   passthroughCollector).  Definitions only; proofs live in Proofs/.

   Go's *Performance arguments are POINTERS: the cumulative and the sampling
   collector keep the pointer of the first event as their running total
   (c.current = in) and mutate that object on every later AddEvent, and
   Performance.Add writes in.ID = p.ID + 1 into the INPUT object when its ID is
   0.  The model therefore works on a store of event objects (the heap); an
   event object is named by its index, so that adding the same pointer twice -
   including the pointer that is c.current - is expressible and means what it
   means in Go.

   Numbers are Z; every int64 addition of the Go code is written with wrap64.
   The timestamp of an event is carried at the precision at which it is
   marshalled (milliseconds since the epoch, birch.EC.Time); the time.Time <->
   millisecond conversions are modelled separately (time_to_ms, ms_to_time). *)
From Coq Require Import ZArith NArith List Bool.
From FV.Model Require Import Bytes Bson.
Import ListNotations.
Open Scope Z_scope.

(* ---- type Performance ---- *)
Record perf := mkPerf {
  p_ts      : Z;     (* Timestamp, Unix milliseconds *)
  p_id      : Z;     (* ID *)
  p_n       : Z;     (* Counters.Number *)
  p_ops     : Z;     (* Counters.Operations *)
  p_size    : Z;     (* Counters.Size *)
  p_errors  : Z;     (* Counters.Errors *)
  p_dur     : Z;     (* Timers.Duration (int64 nanoseconds) *)
  p_total   : Z;     (* Timers.Total    (int64 nanoseconds) *)
  p_state   : Z;     (* Gauges.State *)
  p_workers : Z;     (* Gauges.Workers *)
  p_failed  : bool   (* Gauges.Failed *)
}.

Definition zero_perf : perf := mkPerf 0 0 0 0 0 0 0 0 0 0 false.

(* assignments to one field *)
Definition set_ts (p : perf) (x : Z) : perf :=
  mkPerf x (p_id p) (p_n p) (p_ops p) (p_size p) (p_errors p) (p_dur p) (p_total p) (p_state p) (p_workers p) (p_failed p).
Definition set_id (p : perf) (x : Z) : perf :=
  mkPerf (p_ts p) x (p_n p) (p_ops p) (p_size p) (p_errors p) (p_dur p) (p_total p) (p_state p) (p_workers p) (p_failed p).
Definition set_n (p : perf) (x : Z) : perf :=
  mkPerf (p_ts p) (p_id p) x (p_ops p) (p_size p) (p_errors p) (p_dur p) (p_total p) (p_state p) (p_workers p) (p_failed p).
Definition set_ops (p : perf) (x : Z) : perf :=
  mkPerf (p_ts p) (p_id p) (p_n p) x (p_size p) (p_errors p) (p_dur p) (p_total p) (p_state p) (p_workers p) (p_failed p).
Definition set_size (p : perf) (x : Z) : perf :=
  mkPerf (p_ts p) (p_id p) (p_n p) (p_ops p) x (p_errors p) (p_dur p) (p_total p) (p_state p) (p_workers p) (p_failed p).
Definition set_errors (p : perf) (x : Z) : perf :=
  mkPerf (p_ts p) (p_id p) (p_n p) (p_ops p) (p_size p) x (p_dur p) (p_total p) (p_state p) (p_workers p) (p_failed p).
Definition set_dur (p : perf) (x : Z) : perf :=
  mkPerf (p_ts p) (p_id p) (p_n p) (p_ops p) (p_size p) (p_errors p) x (p_total p) (p_state p) (p_workers p) (p_failed p).
Definition set_total (p : perf) (x : Z) : perf :=
  mkPerf (p_ts p) (p_id p) (p_n p) (p_ops p) (p_size p) (p_errors p) (p_dur p) x (p_state p) (p_workers p) (p_failed p).
Definition set_state (p : perf) (x : Z) : perf :=
  mkPerf (p_ts p) (p_id p) (p_n p) (p_ops p) (p_size p) (p_errors p) (p_dur p) (p_total p) x (p_workers p) (p_failed p).
Definition set_workers (p : perf) (x : Z) : perf :=
  mkPerf (p_ts p) (p_id p) (p_n p) (p_ops p) (p_size p) (p_errors p) (p_dur p) (p_total p) (p_state p) x (p_failed p).
Definition set_failed (p : perf) (x : bool) : perf :=
  mkPerf (p_ts p) (p_id p) (p_n p) (p_ops p) (p_size p) (p_errors p) (p_dur p) (p_total p) (p_state p) (p_workers p) x.

(* ---- the heap of event objects ---- *)
Definition store := list perf.

Definition get (st : store) (i : nat) : perf := nth i st zero_perf.

(* *st[i] = f( *st[i] ) *)
Fixpoint upd (st : store) (i : nat) (f : perf -> perf) : store :=
  match st, i with
  | [], _ => []
  | p :: r, O => f p :: r
  | p :: r, S k => p :: upd r k f
  end.

(* ---- func (p *Performance) Add(in *Performance), p = object pi, in = object ii ----

   if in.ID == 0 { in.ID = p.ID + 1 }          -- a write into the INPUT object *)
Definition add_id_rule (st : store) (pi ii : nat) : store :=
  if p_id (get st ii) =? 0
  then upd st ii (fun x => set_id x (wrap64 (p_id (get st pi) + 1)))
  else st.

(* the eleven assignments that follow, in source order; each maps the current
   value of *p and the current value of *in to the new value of *p *)
Definition add_assignments : list (perf -> perf -> perf) :=
  [ (fun p i => set_ts p (p_ts i));                              (* p.Timestamp = in.Timestamp *)
    (fun p i => set_id p (p_id i));                              (* p.ID = in.ID *)
    (fun p i => set_n p (wrap64 (p_n p + p_n i)));               (* p.Counters.Number += in.Counters.Number *)
    (fun p i => set_errors p (wrap64 (p_errors p + p_errors i)));(* p.Counters.Errors += ... *)
    (fun p i => set_ops p (wrap64 (p_ops p + p_ops i)));         (* p.Counters.Operations += ... *)
    (fun p i => set_size p (wrap64 (p_size p + p_size i)));      (* p.Counters.Size += ... *)
    (fun p i => set_dur p (wrap64 (p_dur p + p_dur i)));         (* p.Timers.Duration += ... *)
    (fun p i => set_total p (wrap64 (p_total p + p_total i)));   (* p.Timers.Total += ... *)
    (fun p i => set_failed p (p_failed i));                      (* p.Gauges.Failed = in.Gauges.Failed *)
    (fun p i => set_workers p (p_workers i));                    (* p.Gauges.Workers = in.Gauges.Workers *)
    (fun p i => set_state p (p_state i)) ].                      (* p.Gauges.State = in.Gauges.State *)

(* one assignment statement executed on the heap: both objects are re-read from
   the heap, so pi = ii (p and in are the same pointer) has its Go meaning *)
Definition assign (s : store) (pi ii : nat) (f : perf -> perf -> perf) : store :=
  upd s pi (fun p => f p (get s ii)).

Definition perf_add (st : store) (pi ii : nat) : store :=
  fold_left (fun s f => assign s pi ii f) add_assignments (add_id_rule st pi ii).

(* ---- the collectors ---- *)
Inductive kind :=
| KCumulative                 (* NewBasicCollector *)
| KSampling (n : Z)           (* NewSamplingCollector(fc, n) *)
| KPassthrough.               (* NewPassthroughCollector *)

Record state := mkState {
  s_store   : store;          (* every event object allocated so far *)
  s_current : option nat;     (* c.current: nil or a pointer into the store *)
  s_count   : Z               (* samplingCollector.count *)
}.

Definition init : state := mkState [] None 0.

(* what AddEvent did *)
Inductive res :=
| RWritten (d : perf)   (* c.Collector.Add(x) was called; d = the value *x had at that
                           moment, i.e. the document [marshal d] was handed over *)
| RSkipped              (* sampling collector: summed but not persisted, returns nil *)
| RRefused              (* "cannot add nil performance event" *)
| RPanic                (* sampling collector with sample = 0: integer divide by zero *)
| RNoObject.            (* not a Go outcome: EvAgain names an object that does not exist *)

(* c.current == nil ? c.current = in : c.current.Add(in) *)
Definition fold_current (s : state) (idx : nat) : state :=
  match s_current s with
  | None => mkState (s_store s) (Some idx) (s_count s)
  | Some c => mkState (perf_add (s_store s) c idx) (Some c) (s_count s)
  end.

Definition current_value (s : state) : perf :=
  match s_current s with Some c => get (s_store s) c | None => zero_perf end.

(* AddEvent(in) for a non-nil in = object idx *)
Definition add_event (k : kind) (s : state) (idx : nat) : state * res :=
  match k with
  | KPassthrough => (s, RWritten (get (s_store s) idx))
  | KCumulative =>
      let s1 := fold_current s idx in (s1, RWritten (current_value s1))
  | KSampling n =>
      let s1 := fold_current s idx in
      if n =? 0 then (s1, RPanic)       (* c.count % c.sample panics before count++ *)
      else
        let should := Z.rem (s_count s1) n =? 0 in                       (* Go's % truncates *)
        let s2 := mkState (s_store s1) (s_current s1) (wrap64 (s_count s1 + 1)) in
        if should then (s2, RWritten (current_value s2)) else (s2, RSkipped)
  end.

(* ---- histories ---- *)
Inductive op :=
| EvNew (p : perf)     (* ev := &Performance{...}; AddEvent(ev) *)
| EvAgain (i : nat)    (* AddEvent(ev_i) once more, ev_i = the i-th allocated object *)
| EvNil.               (* AddEvent(nil) *)

(* per operation: the value the added object had when it was added (None when no
   object was added), and the outcome *)
Record obs := mkObs { o_added : option perf; o_res : res }.

Definition step (k : kind) (s : state) (o : op) : state * obs :=
  match o with
  | EvNil => (s, mkObs None RRefused)
  | EvNew p =>
      let idx := length (s_store s) in
      let s0 := mkState (s_store s ++ [p]) (s_current s) (s_count s) in
      let '(s1, r) := add_event k s0 idx in (s1, mkObs (Some p) r)
  | EvAgain i =>
      if Nat.ltb i (length (s_store s))
      then let '(s1, r) := add_event k s i in (s1, mkObs (Some (get (s_store s) i)) r)
      else (s, mkObs None RNoObject)
  end.

Fixpoint run (k : kind) (s : state) (ops : list op) : state * list obs :=
  match ops with
  | [] => (s, [])
  | o :: r => let '(s1, ob) := step k s o in
              let '(s2, obs) := run k s1 r in (s2, ob :: obs)
  end.

(* projections of a trace *)
Fixpoint added_of (tr : list obs) : list perf :=
  match tr with
  | [] => []
  | o :: r => match o_added o with Some p => p :: added_of r | None => added_of r end
  end.

(* outcomes of the operations that added an object, in order *)
Fixpoint results_of (tr : list obs) : list res :=
  match tr with
  | [] => []
  | o :: r => match o_added o with Some _ => o_res o :: results_of r | None => results_of r end
  end.

Fixpoint written_of (tr : list obs) : list perf :=
  match tr with
  | [] => []
  | o :: r => match o_res o with RWritten d => d :: written_of r | _ => written_of r end
  end.

(* ---- MarshalDocument / UnmarshalDocument ---- *)
(* Keys are byte strings, written out as ASCII codes so that the extracted model needs
   no string type; Proofs/EventsProofs.v (key_tables_spelled) checks each against
   its spelling. *)
(* keys written by MarshalDocument *)
Definition mk_ts : bytes := [116; 115]%N.  (* "ts" *)
Definition mk_id : bytes := [105; 100]%N.  (* "id" *)
Definition mk_counters : bytes := [99; 111; 117; 110; 116; 101; 114; 115]%N.  (* "counters" *)
Definition mk_n : bytes := [110]%N.  (* "n" *)
Definition mk_ops : bytes := [111; 112; 115]%N.  (* "ops" *)
Definition mk_size : bytes := [115; 105; 122; 101]%N.  (* "size" *)
Definition mk_errors : bytes := [101; 114; 114; 111; 114; 115]%N.  (* "errors" *)
Definition mk_timers : bytes := [116; 105; 109; 101; 114; 115]%N.  (* "timers" *)
Definition mk_dur : bytes := [100; 117; 114]%N.  (* "dur" *)
Definition mk_total : bytes := [116; 111; 116; 97; 108]%N.  (* "total" *)
Definition mk_gauges : bytes := [103; 97; 117; 103; 101; 115]%N.  (* "gauges" *)
Definition mk_state : bytes := [115; 116; 97; 116; 101]%N.  (* "state" *)
Definition mk_workers : bytes := [119; 111; 114; 107; 101; 114; 115]%N.  (* "workers" *)
Definition mk_failed : bytes := [102; 97; 105; 108; 101; 100]%N.  (* "failed" *)

Definition marshal (p : perf) : doc :=
  [ (mk_ts, VDateTime (p_ts p));                    (* birch.EC.Time("ts", p.Timestamp) *)
    (mk_id, VInt64 (p_id p));
    (mk_counters, VDoc [ (mk_n, VInt64 (p_n p));
                         (mk_ops, VInt64 (p_ops p));
                         (mk_size, VInt64 (p_size p));
                         (mk_errors, VInt64 (p_errors p)) ]);
    (mk_timers, VDoc [ (mk_dur, VInt64 (p_dur p));   (* birch.EC.Duration = Int64 *)
                       (mk_total, VInt64 (p_total p)) ]);
    (mk_gauges, VDoc [ (mk_state, VInt64 (p_state p));
                       (mk_workers, VInt64 (p_workers p));
                       (mk_failed, VBool (p_failed p)) ]) ].

(* the case labels of the four UnmarshalDocument switches (separate literals in
   the source, hence a separate table here) *)
Definition uk_ts : bytes := [116; 115]%N.  (* "ts" *)
Definition uk_id : bytes := [105; 100]%N.  (* "id" *)
Definition uk_counters : bytes := [99; 111; 117; 110; 116; 101; 114; 115]%N.  (* "counters" *)
Definition uk_n : bytes := [110]%N.  (* "n" *)
Definition uk_ops : bytes := [111; 112; 115]%N.  (* "ops" *)
Definition uk_size : bytes := [115; 105; 122; 101]%N.  (* "size" *)
Definition uk_errors : bytes := [101; 114; 114; 111; 114; 115]%N.  (* "errors" *)
Definition uk_timers : bytes := [116; 105; 109; 101; 114; 115]%N.  (* "timers" *)
Definition uk_dur : bytes := [100; 117; 114]%N.  (* "dur" *)
Definition uk_total : bytes := [116; 111; 116; 97; 108]%N.  (* "total" *)
Definition uk_gauges : bytes := [103; 97; 117; 103; 101; 115]%N.  (* "gauges" *)
Definition uk_state : bytes := [115; 116; 97; 116; 101]%N.  (* "state" *)
Definition uk_workers : bytes := [119; 111; 114; 107; 101; 114; 115]%N.  (* "workers" *)
Definition uk_failed : bytes := [102; 97; 105; 108; 101; 100]%N.  (* "failed" *)

Fixpoint key_eqb (a b : bytes) : bool :=
  match a, b with
  | [], [] => true
  | x :: r, y :: s => (x =? y)%N && key_eqb r s
  | _, _ => false
  end.

(* None = the birch accessor panics (value of another type than the case expects) *)
Fixpoint unmarshal_counters (p : perf) (d : doc) : option perf :=
  match d with
  | [] => Some p
  | (k, v) :: r =>
      if key_eqb k uk_n then
        match v with VInt64 i => unmarshal_counters (set_n p i) r | _ => None end
      else if key_eqb k uk_ops then
        match v with VInt64 i => unmarshal_counters (set_ops p i) r | _ => None end
      else if key_eqb k uk_size then
        match v with VInt64 i => unmarshal_counters (set_size p i) r | _ => None end
      else if key_eqb k uk_errors then
        match v with VInt64 i => unmarshal_counters (set_errors p i) r | _ => None end
      else unmarshal_counters p r
  end.

Fixpoint unmarshal_timers (p : perf) (d : doc) : option perf :=
  match d with
  | [] => Some p
  | (k, v) :: r =>
      if key_eqb k uk_dur then
        match v with VInt64 i => unmarshal_timers (set_dur p i) r | _ => None end
      else if key_eqb k uk_total then
        match v with VInt64 i => unmarshal_timers (set_total p i) r | _ => None end
      else unmarshal_timers p r
  end.

Fixpoint unmarshal_gauges (p : perf) (d : doc) : option perf :=
  match d with
  | [] => Some p
  | (k, v) :: r =>
      if key_eqb k uk_state then
        match v with VInt64 i => unmarshal_gauges (set_state p i) r | _ => None end
      else if key_eqb k uk_workers then
        match v with VInt64 i => unmarshal_gauges (set_workers p i) r | _ => None end
      else if key_eqb k uk_failed then
        match v with VBool b => unmarshal_gauges (set_failed p b) r | _ => None end
      else unmarshal_gauges p r
  end.

(* (p *Performance) UnmarshalDocument(doc): fields without an element keep the
   value they had in p *)
Fixpoint unmarshal (p : perf) (d : doc) : option perf :=
  match d with
  | [] => Some p
  | (k, v) :: r =>
      if key_eqb k uk_ts then
        match v with VDateTime ms => unmarshal (set_ts p ms) r | _ => None end
      else if key_eqb k uk_id then
        match v with VInt64 i => unmarshal (set_id p i) r | _ => None end
      else if key_eqb k uk_counters then
        match v with
        | VDoc sub => match unmarshal_counters p sub with Some p1 => unmarshal p1 r | None => None end
        | _ => None end
      else if key_eqb k uk_timers then
        match v with
        | VDoc sub => match unmarshal_timers p sub with Some p1 => unmarshal p1 r | None => None end
        | _ => None end
      else if key_eqb k uk_gauges then
        match v with
        | VDoc sub => match unmarshal_gauges p sub with Some p1 => unmarshal p1 r | None => None end
        | _ => None end
      else unmarshal p r
  end.

(* keys of the flattened metrics document a written sample decodes to
   (ftdc.ReadMetrics: "parent.child") *)
Definition dot : N := 46%N.
Fixpoint flat_keys (pre : bytes) (d : list (bytes * value)) : list bytes :=
  match d with
  | [] => []
  | (k, VDoc sub) :: r =>
      (fix inner (l : list (bytes * value)) : list bytes :=
         match l with [] => [] | (k2, _) :: r2 => (pre ++ k ++ dot :: k2) :: inner r2 end) sub
      ++ flat_keys pre r
  | (k, _) :: r => (pre ++ k) :: flat_keys pre r
  end.

(* ---- time.Time <-> milliseconds ----
   A time.Time is (Unix() seconds, Nanosecond() in [0,1e9)).
   birch.EC.Time:   t.Unix()*1000 + int64(t.Nanosecond()/1e6)
   Value.Time():   time.Unix(i/1000, i%1000*1000000), Go's / and % truncating *)
Definition time_to_ms (sec nsec : Z) : Z :=
  wrap64 (wrap64 (sec * 1000) + nsec / 1000000).

(* time.Unix(sec, nsec) normalises nsec into [0, 1e9) *)
Definition go_time_unix (sec nsec : Z) : Z * Z :=
  if (nsec <? 0) || (1000000000 <=? nsec) then
    let n := Z.quot nsec 1000000000 in
    let sec1 := wrap64 (sec + n) in
    let nsec1 := wrap64 (nsec - wrap64 (n * 1000000000)) in
    if nsec1 <? 0 then (wrap64 (sec1 - 1), wrap64 (nsec1 + 1000000000)) else (sec1, nsec1)
  else (sec, nsec).

Definition ms_to_time (ms : Z) : Z * Z :=
  go_time_unix (Z.quot ms 1000) (wrap64 (Z.rem ms 1000 * 1000000)).
