(* Two further entry points of the library, modelled over Model/Collector.v:
     collector_sample.go  NewSamplingCollector(minimumInterval, collector)
     writer.go            NewWriterCollector(chunkSize, writer): Write / Close
   The correspondence harness (harness/hist.go, c07.go, c09.go; driver
   ocaml/hist_run.ml) maps both onto Collector.step by convention; the theorems
   in Props/C07.v (section C07Wrappers) justify those conventions for every
   history.  Definitions only. *)
From Coq Require Import ZArith NArith List Bool.
From FV.Model Require Import Bytes Bson Metrics Codec Collector.
Import ListNotations.
Open Scope Z_scope.

(* ---- vocabulary of the statements ---- *)

(* Add of a readable or of an unreadable input *)
Definition is_add (o : op) : bool := match o with OAdd _ _ | OAddBad => true | _ => false end.

(* number of Adds of a history = number of clock readings the sampling wrapper takes *)
Definition adds (ops : list op) : nat := length (filter is_add ops).

(* the documents offered by the readable Adds of a history, in order *)
Fixpoint added_docs (ops : list op) : list doc :=
  match ops with
  | [] => []
  | OAdd d _ :: r => d :: added_docs r
  | _ :: r => added_docs r
  end.

(* the elements of l at the positions where mask is true *)
Fixpoint select {A : Type} (mask : list bool) (l : list A) : list A :=
  match mask, l with
  | m :: ms, x :: xs => if m then x :: select ms xs else select ms xs
  | _, _ => []
  end.

(* l1 is l2 with some elements left out (order kept) *)
Inductive subseq {A : Type} : list A -> list A -> Prop :=
| sub_nil : subseq [] []
| sub_skip : forall x l1 l2, subseq l1 l2 -> subseq l1 (x :: l2)
| sub_take : forall x l1 l2, subseq l1 l2 -> subseq (x :: l1) (x :: l2).

(* ---- samplingCollector ----
     func (c *samplingCollector) Add(d interface{}) error {
         if time.Since(c.lastCollection) < c.minimumInterval { return nil }
         c.lastCollection = time.Now()
         return errors.WithStack(c.Collector.Add(d))
     }
   every other method is the embedded collector's.  lastCollection is set before
   the inner Add and whatever its result; no method clears it (Reset is the
   embedded collector's Reset).

   [last] = None is the zero time.Time the struct starts with: time.Since of it
   saturates at the largest Duration, which is not below any minimumInterval, so
   the first Add always passes.  Afterwards the test is  now - last < interval
   on integers (durations in Z; Go's saturation of differences beyond 292 years is
   not modelled).

   Clock: the Go code reads the clock twice in an Add that passes (time.Since,
   then time.Now); the model takes ONE reading per Add, used for the test and
   stored, i.e. the time between the two reads is taken to be zero.  An Add that
   is skipped reads the clock once in both.  The reading is taken for every Add,
   of a readable or an unreadable input alike: the wrapper looks at the clock
   before anyone looks at the input. *)
Definition sampling_due (interval now : Z) (last : option Z) : bool :=
  match last with
  | None => true
  | Some l => negb (now - l <? interval)
  end.

Section Zlib.
Variable deflate : bytes -> bytes.

Record sstate := mkSstate { ss_st : coll * writer; ss_last : option Z }.

(* [now] is looked at for Adds only *)
Definition sampling_step (interval now : Z) (s : sstate) (o : op) : sstate * obs :=
  if is_add o then
    if sampling_due interval now (ss_last s) then
      let '(st', b) := step deflate (ss_st s) o in (mkSstate st' (Some now), b)
    else (s, BAdd ROk)
  else
    let '(st', b) := step deflate (ss_st s) o in (mkSstate st' (ss_last s), b).

(* a history under a clock given as the list of its successive readings: every
   Add (readable or not, passed on or skipped) consumes exactly one reading, no
   other operation consumes any.  When the readings run out at an Add the run
   stops there (the theorems assume [adds ops <= length clock]). *)
Fixpoint sampling_run (interval : Z) (clock : list Z) (s : sstate) (ops : list op) : sstate * list obs :=
  match ops with
  | [] => (s, [])
  | o :: r =>
      if is_add o then
        match clock with
        | [] => (s, [])
        | now :: clock' =>
            let '(s', b) := sampling_step interval now s o in
            let '(s'', bs) := sampling_run interval clock' s' r in (s'', b :: bs)
        end
      else
        let '(s', b) := sampling_step interval 0 s o in
        let '(s'', bs) := sampling_run interval clock s' r in (s'', b :: bs)
  end.

End Zlib.

(* which operations reach the wrapped collector (true) and which Adds are
   answered nil by the wrapper itself (false): a function of the interval, the
   clock and the positions of the Adds only, not of the collector *)
Fixpoint sampling_mask (interval : Z) (clock : list Z) (last : option Z) (ops : list op) : list bool :=
  match ops with
  | [] => []
  | o :: r =>
      if is_add o then
        match clock with
        | [] => []
        | now :: clock' =>
            if sampling_due interval now last then true :: sampling_mask interval clock' (Some now) r
            else false :: sampling_mask interval clock' last r
        end
      else true :: sampling_mask interval clock last r
  end.

(* readings never go back; [last] = None is before every reading *)
Fixpoint clock_mono (last : option Z) (clock : list Z) : Prop :=
  match clock with
  | [] => True
  | t :: r => match last with None => True | Some l => l <= t end /\ clock_mono (Some t) r
  end.

(* the interval never elapses after the first reading *)
Definition never_elapses (interval : Z) (clock : list Z) : Prop :=
  match clock with
  | [] => True
  | t0 :: r => Forall (fun t => t - t0 < interval) r
  end.

(* keep everything up to and including the first Add, and no Add after it
   ([seen]: an Add has been seen already) *)
Fixpoint first_add_mask (seen : bool) (ops : list op) : list bool :=
  match ops with
  | [] => []
  | o :: r => if is_add o then negb seen :: first_add_mask true r else true :: first_add_mask seen r
  end.

Definition first_add_only (ops : list op) : list op := select (first_add_mask false ops) ops.

(* ---- writerCollector ----
     func NewWriterCollector(chunkSize int, writer io.WriteCloser) io.WriteCloser {
         return &writerCollector{writer: writer, collector: &streamingDynamicCollector{
             output: writer, streamingCollector: newStreamingCollector(chunkSize, writer)}} }
     func (w *writerCollector) Write(in []byte) (int, error) {
         doc, err := birch.ReadDocument(in)
         if err != nil { return 0, errors.Wrap(err, ...) }
         return len(in), errors.Wrap(w.collector.Add(doc), ...) }
     func (w *writerCollector) Close() error {
         if err := FlushCollector(w.collector, w.writer); err != nil { return errors.Wrap(err, ...) }
         return errors.Wrap(w.writer.Close(), ...) }
   The state is that of the streaming dynamic collector behind it and of the
   writer.  WWrite d now: the bytes are a readable document d (now: the clock
   reading the chunk under construction may take, as in OAdd).  WWriteBad:
   birch.ReadDocument fails before anything else happens.  WClose: FlushCollector
   with the static type *streamingDynamicCollector (its Reset; Info and Resolve
   come from the embedded collectors), callable any number of times.
   Not modelled: the Close of the underlying writer after a successful flush
   (the harness passes a writer whose Close does nothing and succeeds; w_closed
   is left alone), a nil writer, and the byte count returned by Write (len(in)
   with WBWrite, whatever Add answered; 0 with WBRefused). *)
Inductive wop := WWrite (d : doc) (now : Z) | WWriteBad | WClose.
Inductive wobs := WBWrite (r : ares) | WBRefused | WBClose (ok : bool).

Definition wc_new (n : Z) (fs : list fault) : sdcoll * writer :=
  (mkSdcoll None 0 (mkScoll n 0 (IB (bc_new n))), mkWriter [] fs false).

Section ZlibW.
Variable deflate : bytes -> bytes.

Definition wc_step (st : sdcoll * writer) (o : wop) : (sdcoll * writer) * wobs :=
  let '(c, w) := st in
  match o with
  | WWrite d now => let '(c', w', r) := sd_add deflate c w d now in ((c', w'), WBWrite r)
  | WWriteBad => ((c, w), WBRefused)
  | WClose => let '(c', w', ok) := sd_flush deflate c w in ((c', w'), WBClose ok)
  end.

Fixpoint wc_run (st : sdcoll * writer) (ops : list wop) : (sdcoll * writer) * list wobs :=
  match ops with
  | [] => (st, [])
  | o :: r => let '(st', b) := wc_step st o in
              let '(st'', bs) := wc_run st' r in (st'', b :: bs)
  end.

End ZlibW.

(* the harness's reading of a writer-collector history as a collector history of
   kind sdyn: Write of a readable document = Add, Close = FlushCollector, Write of
   unreadable bytes = nothing at all *)
Fixpoint wc_translate (ops : list wop) : list op :=
  match ops with
  | [] => []
  | WWrite d now :: r => OAdd d now :: wc_translate r
  | WWriteBad :: r => wc_translate r
  | WClose :: r => OFlush :: wc_translate r
  end.

(* ... and of the collector's answers as the writer collector's: the refusal is
   put back at every WWriteBad *)
Fixpoint wc_answers (ops : list wop) (bs : list obs) : list wobs :=
  match ops with
  | [] => []
  | WWriteBad :: r => WBRefused :: wc_answers r bs
  | WWrite _ _ :: r => match bs with BAdd a :: bs' => WBWrite a :: wc_answers r bs' | _ => [] end
  | WClose :: r => match bs with BFlush ok :: bs' => WBClose ok :: wc_answers r bs' | _ => [] end
  end.
