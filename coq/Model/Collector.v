(* Collector kinds: collector_batch.go, collector_streaming.go,
   collector_dynamic.go, collector_uncompressed.go, writer.go, FlushCollector.
   The synchronized wrapper and the interval-0 sampling wrapper are the identity
   in sequential use and have no state of their own.  Definitions only. *)
From Coq Require Import ZArith NArith List Bool.
From FV.Model Require Import Bytes Bson Metrics Codec.
Import ListNotations.
Open Scope Z_scope.

(* what Resolve returns / what is handed to the writer: an FTDC stream given as
   its sequence of outer BSON documents (the bytes are [enc_stream ds]), or, for
   the uncompressed collectors, a sequence of sample documents in one flavour
   (the JSON rendering of a document is a library step) *)
Inductive outp := OFtdc (ds : list doc) | ODocs (json : bool) (ds : list doc).

(* ---- uncompressedCollector ---- *)
Record ucoll := mkUcoll {
  uc_json : bool; uc_batch : Z; uc_mcount : Z; uc_meta : option doc; uc_samples : list doc }.

Inductive ares := ROk | RFull | RCount | RTypes | RFlush | RNoWriter.

Definition of_add_res (r : add_res) : ares :=
  match r with AddOk => ROk | AddFull => RFull | AddCount => RCount | AddTypes => RTypes end.

Definition uc_add (u : ucoll) (d : doc) : ucoll * ares :=
  let len := Z.of_nat (length d) in
  let mc := if uc_mcount u =? 0 then len else uc_mcount u in
  let u1 := mkUcoll (uc_json u) (uc_batch u) mc (uc_meta u) (uc_samples u) in
  if negb (len =? mc) then (u1, RCount)
  else if uc_batch u <=? Z.of_nat (length (uc_samples u)) then (u1, RFull)
  else (mkUcoll (uc_json u) (uc_batch u) mc (uc_meta u) (uc_samples u ++ [d]), ROk).

Definition uc_reset (u : ucoll) : ucoll := mkUcoll (uc_json u) (uc_batch u) 0 (uc_meta u) [].
Definition uc_resolve (u : ucoll) : option outp :=
  match uc_samples u with
  | [] => None
  | _ => Some (ODocs (uc_json u) ((match uc_meta u with Some m => [m] | None => [] end) ++ uc_samples u))
  end.

Section Zlib.
Variable deflate : bytes -> bytes.

(* ---- the collector wrapped by a streaming collector ---- *)
Inductive inner := IB (b : bcoll) | IU (u : ucoll).

Definition in_add (i : inner) (d : doc) (now : Z) : inner * ares :=
  match i with
  | IB b => let '(b', r) := bc_add b d now in (IB b', of_add_res r)
  | IU u => let '(u', r) := uc_add u d in (IU u', r)
  end.
Definition in_reset (i : inner) : inner := match i with IB b => IB (bc_reset b) | IU u => IU (uc_reset u) end.
Definition in_resolve (i : inner) : option outp :=
  match i with
  | IB b => match bc_resolve deflate b with Some x => Some (OFtdc x) | None => None end
  | IU u => uc_resolve u
  end.
Definition in_info (i : inner) : Z * Z :=
  match i with IB b => bc_info b | IU u => (uc_mcount u, Z.of_nat (length (uc_samples u))) end.
Definition in_set_meta (i : inner) (m : option doc) : inner :=
  match i with
  | IB b => IB (bc_set_meta b m)
  | IU u => IU (mkUcoll (uc_json u) (uc_batch u) (uc_mcount u) m (uc_samples u))
  end.

(* ---- the writer: a log of writes and a fault schedule ----
   WFull o: the whole rendering of o was written; WPart n o: only its first n
   bytes (FTDC / BSON flavour) were consumed before the writer failed *)
Inductive fault := FNone | FError | FShort (n : nat).
Inductive wrec := WFull (o : outp) | WPart (n : nat) (o : outp).
Record writer := mkWriter { w_log : list wrec; w_faults : list fault; w_closed : bool }.

Definition w_write (w : writer) (p : outp) : writer * bool :=
  match w_faults w with
  | [] | FNone :: _ => (mkWriter (w_log w ++ [WFull p]) (tl (w_faults w)) (w_closed w), true)
  | FError :: r => (mkWriter (w_log w) r (w_closed w), false)
  | FShort n :: r => (mkWriter (w_log w ++ [WPart n p]) r (w_closed w), false)
  end.

Definition outp_bytes (o : outp) : bytes :=
  match o with OFtdc ds => enc_stream ds | ODocs _ ds => enc_stream ds end.
Definition wrec_bytes (r : wrec) : bytes :=
  match r with WFull o => outp_bytes o | WPart n o => firstn n (outp_bytes o) end.
Definition log_bytes (w : writer) : bytes := concat (map wrec_bytes (w_log w)).

(* ---- batchCollector ---- *)
Record batch := mkBatch { ba_max : Z; ba_chunks : list bcoll }.
Definition ba_new (n : Z) : batch := mkBatch n [bc_new n].

Definition ba_info (b : batch) : Z * Z :=
  fold_left (fun '(m, s) c => let '(m', s') := bc_info c in (m + m', s + s')) (ba_chunks b) (0, 0).

Definition ba_add (b : batch) (d : doc) (now : Z) : batch * ares :=
  let last_c := last (ba_chunks b) (bc_new (ba_max b)) in
  if ba_max b <=? snd (bc_info last_c) then
    let '(c', r) := bc_add (bc_new (ba_max b)) d now in
    (mkBatch (ba_max b) (ba_chunks b ++ [c']), of_add_res r)
  else
    let '(c', r) := bc_add last_c d now in
    (mkBatch (ba_max b) (removelast (ba_chunks b) ++ [c']), of_add_res r).

Definition ba_resolve (b : batch) : option (list doc) :=
  fold_left (fun acc c => match acc, bc_resolve deflate c with
                          | Some a, Some x => Some (a ++ x) | _, _ => None end)
            (ba_chunks b) (Some []).

Definition ba_set_meta (b : batch) (m : option doc) : batch :=
  match ba_chunks b with
  | c :: r => mkBatch (ba_max b) (bc_set_meta c m :: r)
  | [] => b
  end.

(* ---- dynamicCollector ---- *)
Record dyn := mkDyn { dy_max : Z; dy_chunks : list batch; dy_hash : option bytes }.
Definition dy_new (n : Z) : dyn := mkDyn n [ba_new n] None.

Definition dy_add (c : dyn) (d : doc) (now : Z) : dyn * ares :=
  let sig := fst (schema_sig d) in
  match dy_hash c with
  | None =>
      match dy_chunks c with
      | b0 :: r => let '(b', res) := ba_add b0 d now in (mkDyn (dy_max c) (b' :: r) (Some sig), res)
      | [] => (c, RNoWriter)
      end
  | Some h =>
      if bytes_eqb h sig then
        let last_b := last (dy_chunks c) (ba_new (dy_max c)) in
        let '(b', res) := ba_add last_b d now in
        (mkDyn (dy_max c) (removelast (dy_chunks c) ++ [b']) (dy_hash c), res)
      else
        let '(b', res) := ba_add (ba_new (dy_max c)) d now in
        (mkDyn (dy_max c) (dy_chunks c ++ [b']) (Some sig), res)
  end.

Definition dy_info (c : dyn) : Z * Z :=
  fold_left (fun '(m, s) b => let '(m', s') := ba_info b in (m + m', s + s')) (dy_chunks c) (0, 0).

Definition dy_resolve (c : dyn) : option (list doc) :=
  fold_left (fun acc b => match acc, ba_resolve b with
                          | Some a, Some x => Some (a ++ x) | _, _ => None end)
            (dy_chunks c) (Some []).

Definition dy_set_meta (c : dyn) (m : option doc) : dyn :=
  match dy_chunks c with
  | b :: r => mkDyn (dy_max c) (ba_set_meta b m :: r) (dy_hash c)
  | [] => c
  end.

(* ---- streamingCollector ---- *)
Record scoll := mkScoll { sc_max : Z; sc_count : Z; sc_inner : inner }.

Definition sc_reset (s : scoll) : scoll := mkScoll (sc_max s) 0 (in_reset (sc_inner s)).

(* FlushCollector(c, writer) where c's Info/Resolve are the inner collector's and
   [rst] is the Reset of the static type handed to FlushCollector *)
Definition flush_with {A} (info : A -> Z * Z) (resolve : A -> option outp) (rst : A -> A)
           (c : A) (w : writer) : A * writer * bool :=
  if snd (info c) =? 0 then (c, w, true)
  else match resolve c with
       | None => (c, w, false)
       | Some p => let '(w', ok) := w_write w p in
                   if ok then (rst c, w', true) else (c, w', false)
       end.

Definition sc_flush (s : scoll) (w : writer) : scoll * writer * bool :=
  flush_with (fun s => in_info (sc_inner s)) (fun s => in_resolve (sc_inner s)) sc_reset s w.

Definition sc_add (s : scoll) (w : writer) (d : doc) (now : Z) : scoll * writer * ares :=
  let '(s1, w1, ok) := if sc_max s <=? sc_count s then sc_flush s w else (s, w, true) in
  if negb ok then (s1, w1, RFlush)
  else let '(i', r) := in_add (sc_inner s1) d now in
       match r with
       | ROk => (mkScoll (sc_max s1) (sc_count s1 + 1) i', w1, ROk)
       | _ => (mkScoll (sc_max s1) (sc_count s1) i', w1, r)
       end.

(* ---- streamingDynamicCollector ---- *)
Record sdcoll := mkSdcoll { sd_hash : option bytes; sd_mcount : Z; sd_s : scoll }.

Definition sd_reset (c : sdcoll) : sdcoll := mkSdcoll None 0 (sc_reset (sd_s c)).

Definition sd_flush (c : sdcoll) (w : writer) : sdcoll * writer * bool :=
  flush_with (fun c => in_info (sc_inner (sd_s c))) (fun c => in_resolve (sc_inner (sd_s c))) sd_reset c w.

Definition sd_add (c : sdcoll) (w : writer) (d : doc) (now : Z) : sdcoll * writer * ares :=
  let '(sig, num) := schema_sig d in
  let changed := match sd_hash c with
                 | None => true
                 | Some h => negb (sd_mcount c =? num) || negb (bytes_eqb h sig)
                 end in
  let '(c1, w1, ok) :=
    if changed then
      let '(c', w', ok') := if 0 <? sc_count (sd_s c) then sd_flush c w else (c, w, true) in
      if ok' then (mkSdcoll (Some sig) num (sd_s c'), w', true) else (c', w', false)
    else (c, w, true) in
  if negb ok then (c1, w1, RFlush)
  else let '(s', w2, r) := sc_add (sd_s c1) w1 d now in
       (mkSdcoll (sd_hash c1) (sd_mcount c1) s', w2, r).

(* ---- all kinds behind one interface ---- *)
Inductive coll :=
| CBase (b : bcoll) | CBatch (b : batch) | CDyn (d : dyn)
| CStream (s : scoll) | CSDyn (s : sdcoll) | CUnc (u : ucoll).

Inductive kind := KBase | KBatch | KDyn | KStream | KSDyn
                | KUncB | KUncJ | KStreamUncB | KStreamUncJ | KSDynUncB | KSDynUncJ.

Definition new_coll (k : kind) (n : Z) : coll :=
  let unc j := mkUcoll j n 0 None [] in
  match k with
  | KBase => CBase (bc_new n)
  | KBatch => CBatch (ba_new n)
  | KDyn => CDyn (dy_new n)
  | KStream => CStream (mkScoll n 0 (IB (bc_new n)))
  | KSDyn => CSDyn (mkSdcoll None 0 (mkScoll n 0 (IB (bc_new n))))
  | KUncB => CUnc (unc false)
  | KUncJ => CUnc (unc true)
  | KStreamUncB => CStream (mkScoll n 0 (IU (unc false)))
  | KStreamUncJ => CStream (mkScoll n 0 (IU (unc true)))
  | KSDynUncB => CSDyn (mkSdcoll None 0 (mkScoll n 0 (IU (unc false))))
  | KSDynUncJ => CSDyn (mkSdcoll None 0 (mkScoll n 0 (IU (unc true))))
  end.

Definition c_add (c : coll) (w : writer) (d : doc) (now : Z) : coll * writer * ares :=
  match c with
  | CBase b => let '(b', r) := bc_add b d now in (CBase b', w, of_add_res r)
  | CBatch b => let '(b', r) := ba_add b d now in (CBatch b', w, r)
  | CDyn x => let '(x', r) := dy_add x d now in (CDyn x', w, r)
  | CStream s => let '(s', w', r) := sc_add s w d now in (CStream s', w', r)
  | CSDyn s => let '(s', w', r) := sd_add s w d now in (CSDyn s', w', r)
  | CUnc u => let '(u', r) := uc_add u d in (CUnc u', w, r)
  end.

(* Add of an input that cannot be read as a document: every kind refuses it
   before touching its state, except that the streaming collector performs its
   flush-before-add at capacity first (the wrapped collector then rejects the
   input); RCount stands for "rejected" here *)
Definition c_add_bad (c : coll) (w : writer) : coll * writer * ares :=
  match c with
  | CStream s =>
      let '(s1, w1, ok) := if sc_max s <=? sc_count s then sc_flush s w else (s, w, true) in
      (CStream s1, w1, if ok then RCount else RFlush)
  | _ => (c, w, RCount)
  end.

Definition c_resolve (c : coll) : option outp :=
  let ob o := match o with Some x => Some (OFtdc x) | None => None end in
  match c with
  | CBase b => ob (bc_resolve deflate b)
  | CBatch b => ob (ba_resolve b)
  | CDyn x => ob (dy_resolve x)
  | CStream s => in_resolve (sc_inner s)
  | CSDyn s => in_resolve (sc_inner (sd_s s))
  | CUnc u => uc_resolve u
  end.

Definition c_reset (c : coll) : coll :=
  match c with
  | CBase b => CBase (bc_reset b)
  | CBatch b => CBatch (ba_new (ba_max b))
  | CDyn x => CDyn (dy_new (dy_max x))
  | CStream s => CStream (sc_reset s)
  | CSDyn s => CSDyn (sd_reset s)
  | CUnc u => CUnc (uc_reset u)
  end.

Definition c_info (c : coll) : Z * Z :=
  match c with
  | CBase b => bc_info b
  | CBatch b => ba_info b
  | CDyn x => dy_info x
  | CStream s => in_info (sc_inner s)
  | CSDyn s => in_info (sc_inner (sd_s s))
  | CUnc u => (uc_mcount u, Z.of_nat (length (uc_samples u)))
  end.

Definition c_set_meta (c : coll) (m : option doc) : coll :=
  match c with
  | CBase b => CBase (bc_set_meta b m)
  | CBatch b => CBatch (ba_set_meta b m)
  | CDyn x => CDyn (dy_set_meta x m)
  | CStream s => CStream (mkScoll (sc_max s) (sc_count s) (in_set_meta (sc_inner s) m))
  | CSDyn s => CSDyn (mkSdcoll (sd_hash s) (sd_mcount s)
                               (mkScoll (sc_max (sd_s s)) (sc_count (sd_s s)) (in_set_meta (sc_inner (sd_s s)) m)))
  | CUnc u => CUnc (mkUcoll (uc_json u) (uc_batch u) (uc_mcount u) m (uc_samples u))
  end.

(* FlushCollector(c, w) called by the user on any collector *)
Definition c_flush (c : coll) (w : writer) : coll * writer * bool :=
  match c with
  | CStream s => let '(s', w', ok) := sc_flush s w in (CStream s', w', ok)
  | CSDyn s => let '(s', w', ok) := sd_flush s w in (CSDyn s', w', ok)
  | _ => flush_with c_info c_resolve c_reset c w
  end.

(* ---- operation histories ---- *)
Inductive op :=
| OAdd (d : doc) (now : Z) | OAddBad | OResolve | OReset | OFlush | OSetMeta (m : option doc) | OInfo.

Inductive obs :=
| BAdd (r : ares) | BResolve (o : option outp) | BReset | BFlush (ok : bool) | BSetMeta | BInfo (m s : Z).

Definition step (st : coll * writer) (o : op) : (coll * writer) * obs :=
  let '(c, w) := st in
  match o with
  | OAdd d now => let '(c', w', r) := c_add c w d now in ((c', w'), BAdd r)
  | OAddBad => let '(c', w', r) := c_add_bad c w in ((c', w'), BAdd r)
  | OResolve => ((c, w), BResolve (c_resolve c))
  | OReset => ((c_reset c, w), BReset)
  | OFlush => let '(c', w', ok) := c_flush c w in ((c', w'), BFlush ok)
  | OSetMeta m => ((c_set_meta c m, w), BSetMeta)
  | OInfo => let '(m, s) := c_info c in ((c, w), BInfo m s)
  end.

Fixpoint run (st : coll * writer) (ops : list op) : (coll * writer) * list obs :=
  match ops with
  | [] => (st, [])
  | o :: r => let '(st', b) := step st o in
              let '(st'', bs) := run st' r in (st'', b :: bs)
  end.

End Zlib.
