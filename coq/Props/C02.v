(* C02 — each chunk exposes one series per metric leaf, keyed by the full dotted
   path, valued by the leaf's integer normalisation per sample; the flattened,
   per-chunk, matrix and series readers are exact projections of that one table.
   Only the property theorems; proofs in Proofs/ViewsProofs.v (keys: Proofs/MetricsProofs.v). *)
From Coq Require Import ZArith NArith List Bool.
From FV.Model Require Import Bytes Bson Metrics Codec Collector Wf RoundTrip Views ViewsOk.
From FV.Proofs Require Import MetricsProofs ViewsProofs.
Import ListNotations.
Open Scope Z_scope.

Section C02.
(* zlib is a parameter: any pair of functions with this property *)
Variable deflate : bytes -> bytes.
Variable inflate : bytes -> option bytes.
Hypothesis inflate_deflate : forall p, inflate (deflate p) = Some p.

(* the hypotheses on an input history, as in C01: one schema, keys and values
   representable, every document below BSON's 2 GiB limit, counts within the
   format's uint32 fields *)
Definition inputs_ok (docs : list doc) (nows : list Z) : Prop :=
  docs <> [] /\ length nows = length docs /\ Forall (fun t => in_i64 t = true) nows /\
  same_schema docs /\
  Forall (fun d => doc_ok d = true /\ doc_leaves_ok d = true /\ small (enc_doc d)) docs /\
  (N.of_nat (length (flatten_doc (hd [] docs))) < 2 ^ 32)%N.

(* ANY sequence of outer documents (any FTDC stream), whatever the reader makes of
   it: every chunk it returns has one row per metric leaf of its reference
   document, in document order; the row's key is the dot-joined list of every
   enclosing field name and array index ([lpaths_doc]: the path specification,
   written without the decoder), its type is the leaf's, timestamp rows come in
   pairs, and every column has exactly npoints (>= 1) values *)
Theorem C02_keys_full_paths : forall meta ds cs e,
  read_chunks inflate meta ds = (cs, e) ->
  Forall (fun c => map r_key (chunk_table c) = map join_dot (lpaths_doc [] (ck_ref c)) /\
                   map r_type (chunk_table c) = map fst (flatten_doc (ck_ref c)) /\
                   ts_paired (map r_type (chunk_table c)) = true /\
                   table_wf (Z.to_nat (ck_npoints c)) (chunk_table c) /\ 1 <= ck_npoints c) cs.
Proof. exact (c02_keys_full_paths inflate). Qed.

(* distinct leaves never share a key: whenever the field names of the reference
   document contain no '.', siblings have distinct names, and no array has more
   than 10^40 elements (decimal rendering of indices is injective below that) *)
Theorem C02_keys_unique : forall meta ds cs e c,
  read_chunks inflate meta ds = (cs, e) -> In c cs ->
  doc_keys_good (ck_ref c) = true -> doc_arrays_small (ck_ref c) = true ->
  NoDup (map r_key (chunk_table c)).
Proof. exact (c02_keys_unique inflate). Qed.

(* every compressing collector kind, every chunk size, every same-schema history:
   the stream reads back without error as chunks that partition the input in
   order, and the table of each chunk is the specification table of its group:
   keys = full paths of the group's first document, column i of row j = the
   integer normalisation of leaf j in sample i ([doc_table], written without the codec) *)
Theorem C02_table : forall k n docs nows,
  compressing k = true -> 1 <= n < 2 ^ 31 -> inputs_ok docs nows -> fits k n docs ->
  Forall (fun d => doc_has_ts_seconds d = false) docs ->
  exists cs groups,
    read_chunks inflate None (emitted (snd (fst (emit deflate k n docs nows)))) = (cs, None) /\
    concat groups = docs /\
    Forall2 (fun c g => g <> [] /\ ck_ref c = hd [] g /\ ck_npoints c = Z.of_nat (length g) /\
                        map r_key (chunk_table c) = spec_keys (hd [] g) /\
                        chunk_table c = doc_table (hd [] g) g) cs groups.
Proof. exact (c02_table deflate inflate inflate_deflate). Qed.

End C02.

(* EVERY chunk whose columns all have npoints values (true of every chunk the
   reader returns, C02_keys_full_paths): the flattened documents, the series
   document, the matrix document and the structured documents are the projections
   [tbl_flat] / [tbl_series] / [tbl_matrix] / [tbl_structured] of its one table;
   each view has exactly npoints samples; sample i of the flattened view has exactly
   the table's keys in order and its j-th element is restore_flat (type, value i of
   row j); the series document has the same keys in the same order; the matrix
   document has the same keys minus the ".inc" half of each timestamp pair, and it
   exists whenever timestamp rows are paired *)
Theorem C02_views_project : forall c : chunk,
  let t := chunk_table c in
  let n := Z.to_nat (ck_npoints c) in
  table_wf n t ->
  flat_docs c = tbl_flat t n /\ series_doc c = tbl_series t /\ matrix_doc c = tbl_matrix t /\
  structured_docs c = tbl_structured (ck_ref c) t n /\
  length (flat_docs c) = n /\ length (structured_docs c) = n /\
  Forall (fun kv => exists a, snd kv = VArr a /\ length a = n) (series_doc c) /\
  (forall d, matrix_doc c = Some d -> Forall (fun kv => exists a, snd kv = VArr a /\ length a = n) d) /\
  (forall i, (i < n)%nat ->
     map fst (nth i (flat_docs c) []) = map r_key t /\
     map snd (nth i (flat_docs c) []) = map (fun r => restore_flat (r_type r) (nth i (r_col r) 0)) t) /\
  map fst (series_doc c) = map r_key t /\
  map snd (series_doc c) = map (fun r => VArr (map (series_value (r_type r)) (r_col r))) t /\
  (forall d, matrix_doc c = Some d -> map fst d = matrix_keys t) /\
  (ts_paired (map r_type t) = true -> exists d, matrix_doc c = Some d).
Proof. exact views_project. Qed.

(* the original BSON type survives in every view: a leaf of metric type t (bool,
   int32, int64, double, datetime) has BSON type byte [mtype_tag t], and so has the
   value that the flattened / matrix views (restore_flat) and the series view
   (series_value) build for a row of type t *)
Theorem C02_types_preserved : forall t x,
  (t <> MTs -> tag (restore_flat t x) = mtype_tag t /\ tag (series_value t x) = mtype_tag t) /\
  (forall v y, In (t, y) (flatten v) -> match v with VDoc _ | VArr _ => False | _ => True end -> mtype_tag t = tag v).
Proof. exact views_types. Qed.

Print Assumptions C02_keys_full_paths.
Print Assumptions C02_keys_unique.
Print Assumptions C02_table.
Print Assumptions C02_views_project.
Print Assumptions C02_types_preserved.

(* the known finding D1 as a theorem about the faithful model: with a timestamp
   leaf whose seconds are non-zero the table read back is NOT the specification
   table (the decoder multiplies the seconds by 1000) -- the class excluded above *)
Theorem C02_timestamp_refuted :
  exists docs nows,
    let deflate := (fun p : bytes => 1%N :: p) in
    let inflate := (fun z : bytes => match z with b :: p => if (b =? 1)%N then Some p else None | [] => None end) in
    inputs_ok docs nows /\
    map chunk_table (fst (read_chunks inflate None (emitted (snd (fst (emit deflate KBase 3 docs nows))))))
      <> [doc_table (hd [] docs) docs].
Proof. exact c02_timestamp_refuted. Qed.
Print Assumptions C02_timestamp_refuted.

(* non-vacuity: two samples of a depth-4 document with sibling sub-documents
   (a.b.s1, a.b.s2), an array of documents, a non-metric leaf and a timestamp with
   zero seconds satisfy every hypothesis above; its keys and table are as expected *)
Example C02_example :
  let docs := [ex_doc 1 true; ex_doc 7 false] in
  inputs_ok docs [0; 0] /\
  Forall (fun d => doc_has_ts_seconds d = false) docs /\
  doc_keys_good (ex_doc 1 true) = true /\ doc_arrays_small (ex_doc 1 true) = true /\
  spec_keys (ex_doc 1 true) =
    [[97; 46; 98; 46; 115; 49; 46; 120]; [97; 46; 98; 46; 115; 50; 46; 120]; [97; 46; 98; 46; 115; 50; 46; 121];
     [114; 46; 48; 46; 112]; [114; 46; 48; 46; 113]; [114; 46; 49; 46; 112]; [116]; [116; 46; 105; 110; 99]]%N /\
  map r_col (doc_table (ex_doc 1 true) docs) = [[1; 7]; [2; 8]; [1; 0]; [1; 7]; [1000; 7000]; [-1; -7]; [0; 0]; [6; 12]].
Proof. exact c02_example. Qed.

(* ---- oracle = theorem: the executable oracle c02_check / c02_ok of Model/ViewsOk.v,
   which the driver ocaml/c02_run.ml evaluates on the implementation's observations and
   the accepted inputs, accepts the model's own observation model_sobs (what the driver
   computes from the model reader's chunks) of the model's own emission: under the
   hypotheses of C02_table, with the hypotheses of C02_keys_unique on the inputs (needed
   by the oracle's pairwise-distinct-keys clause only), every part of the verdict is true
   - no error, inputs consumed exactly by the chunks' sample counts, keys, values, types,
   and the six views CF RF CS RS RM RE (proofs in Proofs/OracleSoundC02.v) ---- *)
From FV.Proofs Require OracleSoundC02.

Theorem C02_oracle_sound : forall (deflate : bytes -> bytes) (inflate : bytes -> option bytes),
  (forall p, inflate (deflate p) = Some p) ->
  forall k n docs nows,
  compressing k = true -> 1 <= n < 2 ^ 31 -> inputs_ok docs nows -> fits k n docs ->
  Forall (fun d => doc_has_ts_seconds d = false) docs ->
  Forall (fun d => doc_keys_good d = true /\ doc_arrays_small d = true) docs ->
  exists cs o,
    read_chunks inflate None (emitted (snd (fst (emit deflate k n docs nows)))) = (cs, None) /\
    model_sobs cs false = Some o /\ c02_ok docs o = true.
Proof. exact OracleSoundC02.c02_oracle_sound. Qed.
Print Assumptions C02_oracle_sound.

(* the same in the executable instance the driver runs: trivial codec (deflate_flag /
   inflate_flag of Model/Instance.v, a zlib in the sense of the section: C01_flag_codec in
   Props/C01.v) and the model reader with its evaluation cap, x_read.  The cap does not
   bite when metric count * number of samples <= delta_cap = 200000 *)
From FV.Model Require Import Instance.
From FV.Proofs Require OracleSoundC02x.

Theorem C02_oracle_sound_x : forall k n docs nows,
  compressing k = true -> 1 <= n < 2 ^ 31 -> inputs_ok docs nows -> fits k n docs ->
  Forall (fun d => doc_has_ts_seconds d = false) docs ->
  Forall (fun d => doc_keys_good d = true /\ doc_arrays_small d = true) docs ->
  (N.of_nat (length (flatten_doc (hd [] docs))) * N.of_nat (length docs) <= delta_cap)%N ->
  exists cs o,
    x_read (emitted (snd (fst (emit deflate_flag k n docs nows)))) = (cs, None) /\
    model_sobs cs false = Some o /\ c02_ok docs o = true.
Proof. exact OracleSoundC02x.c02_oracle_sound_x. Qed.
Print Assumptions C02_oracle_sound_x.
