(* C01 — structured round trip is lossless for every metric type and document
   shape.  Only the property theorems; proofs in Proofs/CodecProofs.v. *)
From Coq Require Import ZArith NArith List Bool.
From FV.Model Require Import Bytes Bson Metrics Codec Collector Wf RoundTrip.
From FV.Proofs Require Import CodecProofs.
Import ListNotations.
Open Scope Z_scope.

Section C01.
(* zlib is a parameter: any pair of functions with these two properties *)
Variable deflate : bytes -> bytes.
Variable inflate : bytes -> option bytes.
Hypothesis inflate_deflate : forall p, inflate (deflate p) = Some p.
Hypothesis deflate_wf : forall p, wf_bytes (deflate p).

(* the hypotheses of the property: one schema, keys and values representable,
   every document below BSON's 2 GiB limit, counts within the format's uint32
   fields; the last one excludes the class of the known finding D1 *)
Definition inputs_ok (docs : list doc) (nows : list Z) : Prop :=
  docs <> [] /\ length nows = length docs /\ Forall (fun t => in_i64 t = true) nows /\
  same_schema docs /\
  Forall (fun d => doc_ok d = true /\ doc_leaves_ok d = true /\ small (enc_doc d)) docs /\
  (N.of_nat (length (flatten_doc (hd [] docs))) < 2 ^ 32)%N.

(* every compressing collector kind, every chunk size n >= 1, every document
   sequence: all Adds succeed, the flush succeeds, and reading the emitted outer
   documents back yields exactly the inputs with their non-metric leaves removed,
   in order, with no error *)
Theorem C01_roundtrip : forall k n docs nows,
  compressing k = true -> 1 <= n < 2 ^ 31 -> inputs_ok docs nows -> fits k n docs ->
  Forall (fun d => doc_has_ts_seconds d = false) docs ->
  let res := emit deflate k n docs nows in
  snd res = map (fun _ => BAdd ROk) docs ++ [BFlush true] /\
  read_structured inflate (emitted (snd (fst res))) = (Some (map strip_doc docs), None).
Proof. exact (codec_roundtrip deflate inflate inflate_deflate). Qed.

(* the emitted outer documents are well-formed BSON values, and whenever each of
   them stays below the 2 GiB limit the bytes in the writer decode to exactly
   that document sequence (no trailing bytes) *)
Theorem C01_bytes : forall k n docs nows,
  compressing k = true -> 1 <= n < 2 ^ 31 -> inputs_ok docs nows -> fits k n docs ->
  let w := snd (fst (emit deflate k n docs nows)) in
  Forall (fun d => doc_ok d = true) (emitted w) /\
  (Forall (fun d => small (enc_doc d)) (emitted w) -> dec_docs (log_bytes w) = Some (emitted w)).
Proof. exact (codec_bytes deflate deflate_wf). Qed.

End C01.

Print Assumptions C01_roundtrip.
Print Assumptions C01_bytes.

(* the known finding D1 as a theorem about the faithful model: a timestamp with
   non-zero seconds does not survive (witness by computation, with the trivial
   codec in place of zlib) *)
Theorem C01_timestamp_refuted :
  exists docs nows,
    let deflate := (fun p : bytes => 1%N :: p) in
    let inflate := (fun z : bytes => match z with b :: p => if (b =? 1)%N then Some p else None | [] => None end) in
    inputs_ok docs nows /\
    fst (read_structured inflate (emitted (snd (fst (emit deflate KBase 3 docs nows))))) <> Some (map strip_doc docs).
Proof. exact codec_timestamp_refuted. Qed.
Print Assumptions C01_timestamp_refuted.

(* non-vacuity: a two-sample history with a nested document, an array, a
   non-metric leaf and a wrap-around delta satisfies the hypotheses *)
Example C01_example :
  let d1 := [([97]%N, VInt64 (2 ^ 63 - 1)); ([98]%N, VDoc [([99]%N, VArr [VBool true; VString [120]%N; VDouble (- 2 ^ 63)])])] in
  let d2 := [([97]%N, VInt64 (- 2 ^ 63)); ([98]%N, VDoc [([99]%N, VArr [VBool false; VString [121]%N; VDouble 0])])] in
  inputs_ok [d1; d2] [0; 0] /\ Forall (fun d => doc_has_ts_seconds d = false) [d1; d2].
Proof. exact codec_example. Qed.

(* ---- oracle = theorem: the executable oracle c01_ok of Model/Instance.v, which the
   driver ocaml/read_run.ml applies (together with "reader error = none") to what the
   implementation's structured reader returned for the accepted inputs, accepts the
   model's own read-back of the model's own emission, for every zlib in the sense of the
   section above and every input satisfying the hypotheses of C01_roundtrip (proofs in
   Proofs/OracleSoundC01.v) ---- *)
From FV.Model Require Import CollectorOk Instance.
From FV.Proofs Require OracleSoundC01.

Theorem C01_oracle_sound : forall (deflate : bytes -> bytes) (inflate : bytes -> option bytes),
  (forall p, inflate (deflate p) = Some p) ->
  forall k n docs nows,
  compressing k = true -> 1 <= n < 2 ^ 31 -> inputs_ok docs nows -> fits k n docs ->
  Forall (fun d => doc_has_ts_seconds d = false) docs ->
  exists decoded,
    read_structured inflate (emitted (snd (fst (emit deflate k n docs nows)))) = (Some decoded, None) /\
    c01_ok docs decoded = true.
Proof. exact OracleSoundC01.c01_oracle_sound. Qed.
Print Assumptions C01_oracle_sound.

(* the trivial codec with which the oracle runs in extraction is such a zlib *)
Theorem C01_flag_codec : forall p, inflate_flag (deflate_flag p) = Some p.
Proof. exact OracleSoundC01.inflate_deflate_flag. Qed.
Print Assumptions C01_flag_codec.

Theorem C01_oracle_sound_flag : forall k n docs nows,
  compressing k = true -> 1 <= n < 2 ^ 31 -> inputs_ok docs nows -> fits k n docs ->
  Forall (fun d => doc_has_ts_seconds d = false) docs ->
  exists decoded,
    read_structured inflate_flag (emitted (snd (fst (emit deflate_flag k n docs nows)))) = (Some decoded, None) /\
    c01_ok docs decoded = true.
Proof. exact OracleSoundC01.c01_oracle_sound_flag. Qed.
Print Assumptions C01_oracle_sound_flag.
