(* C14 — the event collectors write the right running totals.
   Only the property theorems; each is closed by [exact] of a lemma from
   Proofs/EventsProofs.v and followed by Print Assumptions.

   Vocabulary (Model/Events.v, Model/EventsOk.v):
     run k init ops        the collector of kind k fed the history ops; a trace with one
                           entry per operation
     added_of tr           the values the added event objects had WHEN THEY WERE ADDED
     results_of tr         outcome of every operation that added an object
     written_of tr         the documents handed to the wrapped ftdc collector, in order
     totals evs            the sample standing for events evs = ev_1..ev_k: wrap64 of the
                           exact sums of the four counters and two timers, timestamp and
                           gauges of ev_k, and the id rule (theorem C14_totals_meaning) *)
From Coq Require Import String ZArith NArith List Bool.
From FV.Model Require Import Bytes Bson Events EventsOk.
From FV.Proofs Require Import EventsProofs.
Import ListNotations.
Open Scope Z_scope.

(* every field of every freshly created event is an int64 *)
Definition int64_events (ps : list perf) : Prop := Forall (fun p => perf_wf p = true) ps.
Definition int64_history (ops : list op) : Prop :=
  Forall (fun o => match o with EvNew p => perf_wf p = true | _ => True end) ops.

(* 0. what [totals] says, field by field: sums of counters and timers over ALL the
      events, last event's timestamp and gauges, id_1 = ev_1.id and
      id_k = ev_k.id if non-zero else id_{k-1} + 1 *)
Theorem C14_totals_meaning : forall evs e,
  p_n (totals evs) = wrap64 (sumf p_n evs) /\ p_ops (totals evs) = wrap64 (sumf p_ops evs) /\
  p_size (totals evs) = wrap64 (sumf p_size evs) /\ p_errors (totals evs) = wrap64 (sumf p_errors evs) /\
  p_dur (totals evs) = wrap64 (sumf p_dur evs) /\ p_total (totals evs) = wrap64 (sumf p_total evs) /\
  p_ts (totals (evs ++ [e])) = p_ts e /\ p_state (totals (evs ++ [e])) = p_state e /\
  p_workers (totals (evs ++ [e])) = p_workers e /\ p_failed (totals (evs ++ [e])) = p_failed e /\
  p_id (totals [e]) = p_id e /\
  (evs <> [] -> p_id (totals (evs ++ [e])) = if p_id e =? 0 then wrap64 (p_id (totals evs) + 1) else p_id e).
Proof. exact totals_meaning. Qed.
Print Assumptions C14_totals_meaning.

(* 1. Performance.Add on the heap, for ANY two pointers p, in (the same object or
      not): *p becomes the accumulation of the old *p and the old *in; *in, when it
      is another object, only gets its id filled in; no other object changes *)
Theorem C14_add_any_pointers : forall st pi ii, (pi < length st)%nat -> (ii < length st)%nat ->
  length (perf_add st pi ii) = length st /\
  get (perf_add st pi ii) pi = accumulate (get st pi) (get st ii) /\
  (ii <> pi -> get (perf_add st pi ii) ii = set_id (get st ii) (next_id (p_id (get st pi)) (get st ii))) /\
  (forall j, j <> pi -> j <> ii -> get (perf_add st pi ii) j = get st j).
Proof. exact perf_add_spec. Qed.
Print Assumptions C14_add_any_pointers.

(* 2. (a) cumulative collector, fresh events only: every event is written, and the
      k-th written sample is the totals of events 1..k *)
Theorem C14_cumulative : forall ps, int64_events ps ->
  let tr := snd (run KCumulative init (map EvNew ps)) in
  results_of tr = map RWritten (expected_cumulative ps) /\
  written_of tr = expected_cumulative ps /\
  forall k, (k < length ps)%nat -> nth k (written_of tr) zero_perf = totals (firstn (S k) ps).
Proof. exact cumulative_fresh. Qed.
Print Assumptions C14_cumulative.

(* 3. (b) cumulative collector, ANY history (repeated pointers, also the pointer that
      is the running total, nil events, names of objects that do not exist): the same,
      over the value each added object had when it was added *)
Theorem C14_cumulative_general : forall ops, int64_history ops ->
  let tr := snd (run KCumulative init ops) in
  results_of tr = map RWritten (expected_cumulative (added_of tr)) /\
  written_of tr = expected_cumulative (added_of tr).
Proof. exact cumulative_general. Qed.
Print Assumptions C14_cumulative_general.

(* 4. (c) n-sampling collector, any history, any n >= 1: the k-th added event (k from
      0) is written iff n divides k, and then carries the totals of events 0..k;
      ceil(len/n) samples are written *)
Theorem C14_sampling : forall n ops, 1 <= n -> int64_history ops -> Z.of_nat (length ops) < 2 ^ 63 ->
  let tr := snd (run (KSampling n) init ops) in
  results_of tr = expected_sampling_results n (added_of tr) /\
  written_of tr = expected_sampling n (added_of tr) /\
  Z.of_nat (length (written_of tr)) = (Z.of_nat (length (added_of tr)) + n - 1) / n.
Proof. exact sampling_general. Qed.
Print Assumptions C14_sampling.

Theorem C14_sampling_fresh : forall n ps, 1 <= n -> int64_events ps -> Z.of_nat (length ps) < 2 ^ 63 ->
  let tr := snd (run (KSampling n) init (map EvNew ps)) in
  results_of tr = expected_sampling_results n ps /\
  written_of tr = expected_sampling n ps /\
  Z.of_nat (length (written_of tr)) = (Z.of_nat (length ps) + n - 1) / n.
Proof. exact sampling_fresh. Qed.
Print Assumptions C14_sampling_fresh.

(* 5. (d) pass-through collector: every event is written as it is; fresh events are
      neither changed nor retained *)
Theorem C14_passthrough : forall ps,
  let r := run KPassthrough init (map EvNew ps) in
  results_of (snd r) = map RWritten ps /\ written_of (snd r) = ps /\
  s_store (fst r) = ps /\ s_current (fst r) = None.
Proof. exact passthrough_fresh. Qed.
Print Assumptions C14_passthrough.

Theorem C14_passthrough_general : forall ops,
  let tr := snd (run KPassthrough init ops) in
  results_of tr = map RWritten (added_of tr) /\ written_of tr = added_of tr.
Proof. exact passthrough_general. Qed.
Print Assumptions C14_passthrough_general.

(* 6. (e) a nil event is refused and changes nothing, whatever the kind and state;
      a history with nil events behaves like the history without them; and no other
      operation is refused *)
Theorem C14_nil : forall k s, step k s EvNil = (s, mkObs None RRefused).
Proof. exact nil_refused. Qed.
Print Assumptions C14_nil.

Theorem C14_nil_transparent : forall k ops s,
  fst (run k s ops) = fst (run k s (drop_nils ops)) /\
  added_of (snd (run k s ops)) = added_of (snd (run k s (drop_nils ops))) /\
  results_of (snd (run k s ops)) = results_of (snd (run k s (drop_nils ops))) /\
  written_of (snd (run k s ops)) = written_of (snd (run k s (drop_nils ops))).
Proof. exact nil_transparent. Qed.
Print Assumptions C14_nil_transparent.

Theorem C14_only_nil_refused : forall k s o, 1 <= match k with KSampling n => n | _ => 1 end ->
  (o_res (snd (step k s o)) = RRefused <-> o = EvNil).
Proof. exact refused_iff_nil. Qed.
Print Assumptions C14_only_nil_refused.

(* 7. (f) UnmarshalDocument (into any struct q0) of MarshalDocument of p is p, for
      every p; proved over the two key tables of the model, and the flattened keys of
      a written sample do not depend on the values *)
Theorem C14_marshal_roundtrip : forall p q0, unmarshal q0 (marshal p) = Some p.
Proof. exact marshal_roundtrip. Qed.
Print Assumptions C14_marshal_roundtrip.

Theorem C14_flat_keys : forall p, flat_keys [] (marshal p) = model_flat_keys.
Proof. exact marshal_flat_keys. Qed.
Print Assumptions C14_flat_keys.

(* the keys are the ones of the source: top-level keys written, flattened keys of a
   decoded sample, and the case labels of the UnmarshalDocument switches *)
Theorem C14_key_tables :
  map (fun kv => fst kv) (marshal zero_perf) =
    map bytes_of_string ["ts"; "id"; "counters"; "timers"; "gauges"]%string /\
  model_flat_keys =
    map bytes_of_string ["ts"; "id"; "counters.n"; "counters.ops"; "counters.size"; "counters.errors";
                         "timers.dur"; "timers.total"; "gauges.state"; "gauges.workers"; "gauges.failed"]%string /\
  [uk_ts; uk_id; uk_counters; uk_n; uk_ops; uk_size; uk_errors; uk_timers; uk_dur; uk_total;
   uk_gauges; uk_state; uk_workers; uk_failed] =
    map bytes_of_string ["ts"; "id"; "counters"; "n"; "ops"; "size"; "errors"; "timers"; "dur"; "total";
                         "gauges"; "state"; "workers"; "failed"]%string.
Proof. exact key_tables_spelled. Qed.
Print Assumptions C14_key_tables.

(* 8. the timestamp: every int64 millisecond count survives datetime -> time.Time ->
      datetime; a time.Time comes back cut to its millisecond *)
Theorem C14_time_ms_roundtrip : forall ms, in_i64 ms = true ->
  time_to_ms (fst (ms_to_time ms)) (snd (ms_to_time ms)) = ms /\
  0 <= snd (ms_to_time ms) < 1000000000.
Proof. exact time_ms_roundtrip. Qed.
Print Assumptions C14_time_ms_roundtrip.

Theorem C14_time_truncated_to_ms : forall sec nsec,
  - 2 ^ 50 < sec < 2 ^ 50 -> 0 <= nsec < 1000000000 ->
  ms_to_time (time_to_ms sec nsec) = (sec, nsec - nsec mod 1000000).
Proof. exact time_trunc_ms. Qed.
Print Assumptions C14_time_truncated_to_ms.

(* 9. the executable oracles applied by the driver to the implementation's
      observations say exactly this, and accept what the model writes *)
Theorem C14_oracle_cumulative_exact : forall evs written,
  c14_ok_cumulative evs written = true <-> written = expected_cumulative evs.
Proof. exact oracle_cumulative_exact. Qed.
Print Assumptions C14_oracle_cumulative_exact.

Theorem C14_oracles_accept_model : forall n ops, 1 <= n -> int64_history ops -> Z.of_nat (length ops) < 2 ^ 63 ->
  (let tr := snd (run KCumulative init ops) in c14_ok_cumulative (added_of tr) (written_of tr) = true) /\
  (let tr := snd (run (KSampling n) init ops) in c14_ok_sampling n (added_of tr) (written_of tr) = true) /\
  (let tr := snd (run KPassthrough init ops) in c14_ok_passthrough (added_of tr) (written_of tr) = true).
Proof.
  exact (fun n ops Hn Hwf Hlen =>
           conj (oracle_cumulative_sound ops Hwf)
                (conj (oracle_sampling_sound n ops Hn Hwf Hlen) (oracle_passthrough_sound ops))).
Qed.
Print Assumptions C14_oracles_accept_model.

Theorem C14_oracle_roundtrip : forall sec nsec p q0,
  - 2 ^ 50 < sec < 2 ^ 50 -> 0 <= nsec < 1000000000 ->
  exists s' n' q, model_obs_roundtrip sec nsec p q0 = Some (s', n', q) /\
                  c14_ok_roundtrip sec nsec p s' n' q = true.
Proof. exact oracle_roundtrip_sound. Qed.
Print Assumptions C14_oracle_roundtrip.

(* non-vacuity: a history with a zero id after a non-zero one, a counter sum that
   wraps int64, the running-total pointer added again, another pointer added again
   (its id was filled in by the first Add), a nil event and an unknown object *)
Definition ex_a := mkPerf 1000 7 (2 ^ 63 - 1) 1 10 0 5 6 1 2 false.
Definition ex_b := mkPerf 2000 0 1 1 (-30) 1 5 6 3 4 true.
Definition ex_c := mkPerf 3000 0 0 2 0 0 1 1 9 9 false.
Definition ex_ops := [EvNew ex_a; EvNew ex_b; EvAgain 0; EvNil; EvAgain 1; EvAgain 9; EvNew ex_c].

Example C14_example :
  int64_history ex_ops /\
  added_of (snd (run KCumulative init ex_ops)) =
    [ ex_a; ex_b;
      mkPerf 2000 8 (- 2 ^ 63) 2 (-20) 1 10 12 3 4 true;   (* the running total itself *)
      mkPerf 2000 8 1 1 (-30) 1 5 6 3 4 true;              (* ex_b with the id Add gave it *)
      ex_c ] /\
  written_of (snd (run KCumulative init ex_ops)) =
    [ ex_a;
      mkPerf 2000 8 (- 2 ^ 63) 2 (-20) 1 10 12 3 4 true;
      mkPerf 2000 8 0 4 (-40) 2 20 24 3 4 true;
      mkPerf 2000 8 1 5 (-70) 3 25 30 3 4 true;
      mkPerf 3000 9 1 7 (-70) 3 26 31 9 9 false ] /\
  written_of (snd (run (KSampling 2) init ex_ops)) =
    [ ex_a;
      mkPerf 2000 8 0 4 (-40) 2 20 24 3 4 true;
      mkPerf 3000 9 1 7 (-70) 3 26 31 9 9 false ] /\
  written_of (snd (run KPassthrough init ex_ops)) = [ex_a; ex_b; ex_a; ex_b; ex_c].
Proof.
  split; [repeat constructor|]. vm_compute. repeat split.
Qed.

(* ------------------------------------------------------------------------------
   10. END TO END (C14 o C01): "the written samples decode through any FTDC
   collector to exactly those values", proved across the component boundary.
   The event collectors hand [marshal d] (RWritten d) to the wrapped ftdc collector;
   [marshal] already yields a Bson.doc in the layout of Performance.MarshalDocument
   (ts datetime, id int64, counters/timers/gauges sub-documents with int64 leaves
   and the bool gauges.failed).  Composed with the structured round trip of the
   codec + collector model (Props/C01.v C01_roundtrip, same zlib parameters).
   Vocabulary (Proofs/ComposeEvents.v):
     doc_perf d          = unmarshal zero_perf d        (UnmarshalDocument into a zero struct)
     decode_perfs inflate outer = ReadStructuredMetrics over the emitted outer documents
                           without an error, every restored document unmarshalled
   [emit], [emitted], [read_structured], [compressing]: Model/RoundTrip.v as in C01.
   Hypotheses beyond C14's int64_events: the timestamps lie in the range of
   nanosecond time.Time values (Wf.date_ok: |ms| <= 9223372036854, years 1678..2262;
   outside it the codec's date metric does not round-trip, see C01), one clock
   reading per Add, and for NewBaseCollector(n) at most n + 1 samples (it refuses
   more).  The unqualified kind/run/... below are Collector's; the event
   collectors' are written Events.x. *)
From FV.Model Require Import Metrics Codec Collector Wf RoundTrip.
From FV.Proofs Require Import ComposeEvents.

Definition dated_events (ps : list perf) : Prop := Forall (fun p => date_ok (p_ts p) = true) ps.

(* a marshalled sample meets every per-document hypothesis of C01, all documents
   have one schema with 11 metrics, all leaves are metrics (nothing is stripped),
   and unmarshalling gives the sample back *)
Theorem C14_marshal_fits_codec : forall p, perf_wf p = true -> date_ok (p_ts p) = true ->
  doc_ok (marshal p) = true /\ doc_leaves_ok (marshal p) = true /\ Wf.small (enc_doc (marshal p)) /\
  doc_has_ts_seconds (marshal p) = false /\ length (flatten_doc (marshal p)) = 11%nat /\
  skeleton_doc (marshal p) = skeleton_doc (marshal zero_perf) /\
  strip_doc (marshal p) = marshal p /\ doc_perf (marshal p) = Some p.
Proof. exact marshal_facts. Qed.
Print Assumptions C14_marshal_fits_codec.

Section C14_end_to_end.
(* zlib is a parameter, as in C01 *)
Variable deflate : bytes -> bytes.
Variable inflate : bytes -> option bytes.
Hypothesis inflate_deflate : forall p, inflate (deflate p) = Some p.

(* any non-empty list of written samples through any compressing ftdc collector
   kind and chunk size: every Add and the flush succeed, the reader restores
   exactly the marshalled documents and they unmarshal to the samples *)
Theorem C14_written_roundtrip : forall k n ws nows,
  compressing k = true -> 1 <= n < 2 ^ 31 -> ws <> [] -> Forall perf_ok ws ->
  length nows = length ws -> Forall (fun t => in_i64 t = true) nows ->
  (k = KBase -> Z.of_nat (length ws) <= n + 1) ->
  let res := emit deflate k n (map marshal ws) nows in
  snd res = map (fun _ => BAdd ROk) ws ++ [BFlush true] /\
  read_structured inflate (emitted (snd (fst res))) = (Some (map marshal ws), None) /\
  decode_perfs inflate (emitted (snd (fst res))) = Some ws.
Proof. exact (perfs_roundtrip deflate inflate inflate_deflate). Qed.

(* cumulative event collector over fresh events ps, its output through any
   compressing ftdc collector, read back: exactly the running totals
   totals (firstn (S j) ps), j = 0 .. length ps - 1, in order *)
Theorem C14_end_to_end_cumulative : forall k n ps nows,
  compressing k = true -> 1 <= n < 2 ^ 31 -> ps <> [] ->
  int64_events ps -> dated_events ps ->
  length nows = length ps -> Forall (fun t => in_i64 t = true) nows ->
  (k = KBase -> Z.of_nat (length ps) <= n + 1) ->
  let written := written_of (snd (Events.run KCumulative init (map EvNew ps))) in
  let res := emit deflate k n (map marshal written) nows in
  snd res = map (fun _ => BAdd ROk) ps ++ [BFlush true] /\
  read_structured inflate (emitted (snd (fst res))) =
    (Some (map marshal (map (fun j => totals (firstn (S j) ps)) (seq 0 (length ps)))), None) /\
  decode_perfs inflate (emitted (snd (fst res))) =
    Some (map (fun j => totals (firstn (S j) ps)) (seq 0 (length ps))).
Proof. exact (end_to_end_cumulative deflate inflate inflate_deflate). Qed.

(* m-sampling event collector: the samples written (and read back) are the running
   totals at the positions j with m | j *)
Theorem C14_end_to_end_sampling : forall m k n ps nows,
  1 <= m -> Z.of_nat (length ps) < 2 ^ 63 ->
  compressing k = true -> 1 <= n < 2 ^ 31 -> ps <> [] ->
  int64_events ps -> dated_events ps ->
  let written := written_of (snd (Events.run (KSampling m) init (map EvNew ps))) in
  length nows = length written -> Forall (fun t => in_i64 t = true) nows ->
  (k = KBase -> Z.of_nat (length written) <= n + 1) ->
  let res := emit deflate k n (map marshal written) nows in
  snd res = map (fun _ => BAdd ROk) written ++ [BFlush true] /\
  written = map (fun j => totals (firstn (S j) ps))
                (filter (fun j => Z.of_nat j mod m =? 0) (seq 0 (length ps))) /\
  read_structured inflate (emitted (snd (fst res))) = (Some (map marshal written), None) /\
  decode_perfs inflate (emitted (snd (fst res))) = Some written.
Proof. exact (end_to_end_sampling deflate inflate inflate_deflate). Qed.

(* pass-through event collector: the events themselves *)
Theorem C14_end_to_end_passthrough : forall k n ps nows,
  compressing k = true -> 1 <= n < 2 ^ 31 -> ps <> [] ->
  int64_events ps -> dated_events ps ->
  length nows = length ps -> Forall (fun t => in_i64 t = true) nows ->
  (k = KBase -> Z.of_nat (length ps) <= n + 1) ->
  let written := written_of (snd (Events.run KPassthrough init (map EvNew ps))) in
  let res := emit deflate k n (map marshal written) nows in
  snd res = map (fun _ => BAdd ROk) ps ++ [BFlush true] /\
  read_structured inflate (emitted (snd (fst res))) = (Some (map marshal ps), None) /\
  decode_perfs inflate (emitted (snd (fst res))) = Some ps.
Proof. exact (end_to_end_passthrough deflate inflate inflate_deflate). Qed.

End C14_end_to_end.

Print Assumptions C14_written_roundtrip.
Print Assumptions C14_end_to_end_cumulative.
Print Assumptions C14_end_to_end_sampling.
Print Assumptions C14_end_to_end_passthrough.

(* non-vacuity: the three fresh events of C14_example satisfy the hypotheses (their
   timestamps are dates of 1970), for the streaming collector with chunk size 2 *)
Example C14_end_to_end_example :
  let ps := [ex_a; ex_b; ex_c] in
  ps <> [] /\ int64_events ps /\ dated_events ps /\ compressing KStream = true /\ 1 <= 2 < 2 ^ 31 /\
  Forall (fun t => in_i64 t = true) [0; 0; 0] /\
  map (fun j => totals (firstn (S j) ps)) (seq 0 (length ps)) =
    [ ex_a; mkPerf 2000 8 (- 2 ^ 63) 2 (-20) 1 10 12 3 4 true; mkPerf 3000 9 (- 2 ^ 63) 4 (-20) 1 11 13 9 9 false ].
Proof.
  cbv zeta. split; [discriminate|]. split; [repeat constructor|]. split; [repeat constructor|].
  split; [reflexivity|]. split; [split; [intro H; discriminate H|reflexivity]|]. split; [repeat constructor|]. vm_compute. reflexivity.
Qed.

(* ------------------------------------------------------------------------------
   11. THE TWO REMAINING COLLECTORS of events/collector.go: NewIntervalCollector and
   NewRandomSamplingCollector (Model/EventsMore.v, Proofs/EventsMoreProofs.v).
   Their decisions depend on the wall clock resp. on math/rand; both are explicit
   inputs of the model:
     run_interval dur clock ops      clock : list Z, one reading per event that reaches
                                     the collector's body (nil events return before the
                                     clock is read), from a fresh collector
     run_interval2 dur clock iinit ops   the same with the TWO readings a call can take
                                     (time.Since, then time.Now for lastCollected):
                                     clock : list (Z * Z); run_interval is the instance
                                     in which the two coincide
     run_rand percent coins ops      coins = the values rand.Intn(101) returned, consumed
                                     only by the calls that reach it (0 < percent <= 100)
     thin mask tr                    the trace tr in which the j-th written sample is
                                     withheld (RWritten -> RSkipped) when mask_j = false
     select mask l                   the elements of l at the positions where mask is true
     interval_mask dur clock, rand_mask percent coins k, samp_mask n 0 k
                                     the decisions, as functions of clock / coins / n alone
   The harness drives these constructors where they are deterministic and the driver maps
   them onto the kinds of Model/Events.v: NewIntervalCollector(fc, 0) and
   NewRandomSamplingCollector(fc, true, 101) as KCumulative, NewIntervalCollector(fc, 1000h)
   as KSampling 2^62.  The theorems below justify that mapping for every history, and say
   what holds at every other parameter value: the running totals are never thinned out,
   only the samples handed over are.
   (The unqualified run/op/... are Collector's here; the event collectors' are Events.x.) *)
From Coq Require Import Lia Sorted.
From FV.Model Require Import EventsMore.
From FV.Proofs Require Import EventsMoreProofs.

(* 11.1 interval collector, ANY interval and ANY clock (not even monotone) with a reading
   for every operation: the store and c.current are the cumulative collector's, the
   trace is the cumulative collector's thinned by interval_mask, the same events are
   added, and what is written is a selection of what the cumulative collector writes *)
Theorem C14_interval_totals_independent_of_clock : forall dur clock ops,
  (length ops <= length clock)%nat ->
  let r := run_interval dur clock ops in
  let rc := Events.run KCumulative init ops in
  let mask := interval_mask dur clock in
  i_base (fst r) = fst rc /\
  snd r = thin mask (snd rc) /\
  added_of (snd r) = added_of (snd rc) /\
  written_of (snd r) = select mask (written_of (snd rc)).
Proof. exact EventsMoreProofs.interval_general. Qed.
Print Assumptions C14_interval_totals_independent_of_clock.

Theorem C14_interval_totals_independent_of_clock_two_readings : forall dur clock ops,
  (length ops <= length clock)%nat ->
  let r := run_interval2 dur clock iinit ops in
  let rc := Events.run KCumulative init ops in
  let mask := interval_mask2 dur true 0 clock in
  i_base (fst r) = fst rc /\
  snd r = thin mask (snd rc) /\
  added_of (snd r) = added_of (snd rc) /\
  written_of (snd r) = select mask (written_of (snd rc)).
Proof. exact EventsMoreProofs.interval2_general. Qed.
Print Assumptions C14_interval_totals_independent_of_clock_two_readings.

(* every written sample is the running total (section 0) of the events added up to it *)
Theorem C14_interval_written_are_running_totals : forall dur clock ops,
  (length ops <= length clock)%nat -> int64_history ops ->
  let tr := snd (run_interval dur clock ops) in
  written_of tr = select (interval_mask dur clock) (expected_cumulative (added_of tr)).
Proof. exact EventsMoreProofs.interval_written_totals. Qed.
Print Assumptions C14_interval_written_are_running_totals.

(* 11.2 (a) "cum@ival0": interval <= 0 and a clock that does not go backwards: the WHOLE
   trace (what was added, every outcome, every written value) and the whole final state
   (store, c.current, count) are the cumulative collector's *)
Theorem C14_interval_zero_is_cumulative : forall dur clock ops,
  dur <= 0 -> Sorted Z.le clock -> (length ops <= length clock)%nat ->
  let r := run_interval dur clock ops in
  let rc := Events.run KCumulative init ops in
  snd r = snd rc /\ i_base (fst r) = fst rc.
Proof. exact EventsMoreProofs.interval_zero. Qed.
Print Assumptions C14_interval_zero_is_cumulative.

Theorem C14_interval_zero_is_cumulative_two_readings : forall dur clock ops,
  dur <= 0 -> Sorted Z.le (flat_clock clock) -> (length ops <= length clock)%nat ->
  let r := run_interval2 dur clock iinit ops in
  let rc := Events.run KCumulative init ops in
  snd r = snd rc /\ i_base (fst r) = fst rc.
Proof. exact EventsMoreProofs.interval2_zero. Qed.
Print Assumptions C14_interval_zero_is_cumulative_two_readings.

(* 11.3 (b) "samp@ivalmax": the interval never elapses (every later reading is less than
   dur after the first one): the WHOLE trace is the one of the n-sampling collector for
   any rate n = huge beyond the number of operations; exactly the first added event is
   written, as it is; and nothing is lost from the running totals: the final store and
   c.current are the cumulative collector's (for the sampling collector as well) *)
Theorem C14_interval_long_is_first_only : forall dur clock ops huge,
  never_elapses dur clock -> (length ops <= length clock)%nat ->
  Z.of_nat (length ops) < huge -> Z.of_nat (length ops) < 2 ^ 63 ->
  let r := run_interval dur clock ops in
  let rc := Events.run KCumulative init ops in
  let rs := Events.run (KSampling huge) init ops in
  snd r = snd rs /\
  written_of (snd r) = firstn 1 (added_of (snd r)) /\
  added_of (snd r) = added_of (snd rc) /\
  i_base (fst r) = fst rc /\
  s_store (fst rs) = s_store (fst rc) /\ s_current (fst rs) = s_current (fst rc).
Proof. exact EventsMoreProofs.interval_long. Qed.
Print Assumptions C14_interval_long_is_first_only.

Theorem C14_interval_long_is_first_only_two_readings : forall dur clock ops huge,
  never_elapses2 dur clock -> (length ops <= length clock)%nat ->
  Z.of_nat (length ops) < huge -> Z.of_nat (length ops) < 2 ^ 63 ->
  let r := run_interval2 dur clock iinit ops in
  let rc := Events.run KCumulative init ops in
  let rs := Events.run (KSampling huge) init ops in
  snd r = snd rs /\
  written_of (snd r) = firstn 1 (added_of (snd r)) /\
  added_of (snd r) = added_of (snd rc) /\
  i_base (fst r) = fst rc /\
  s_store (fst rs) = s_store (fst rc) /\ s_current (fst rs) = s_current (fst rc).
Proof. exact EventsMoreProofs.interval2_long. Qed.
Print Assumptions C14_interval_long_is_first_only_two_readings.

(* the n-sampling collector itself, any n <> 0 and any history (no int64 hypothesis): the
   cumulative collector's trace thinned by the count rule, same store and c.current *)
Theorem C14_sampling_is_thinned_cumulative : forall n ops, n <> 0 ->
  let rs := Events.run (KSampling n) init ops in
  let rc := Events.run KCumulative init ops in
  let mask := samp_mask n 0 (length ops) in
  snd rs = thin mask (snd rc) /\
  s_store (fst rs) = s_store (fst rc) /\ s_current (fst rs) = s_current (fst rc) /\
  added_of (snd rs) = added_of (snd rc) /\
  written_of (snd rs) = select mask (written_of (snd rc)).
Proof. exact EventsMoreProofs.sampling_thinned. Qed.
Print Assumptions C14_sampling_is_thinned_cumulative.

(* 11.4 (c) "cum@rand101": more than 100 percent: state and trace are the cumulative
   collector's, whatever the coins (none is consumed) *)
Theorem C14_rand_over_100_is_cumulative : forall percent coins ops, 100 < percent ->
  run_rand percent coins ops = Events.run KCumulative init ops.
Proof. exact EventsMoreProofs.rand_over_100. Qed.
Print Assumptions C14_rand_over_100_is_cumulative.

(* 11.5 (d) zero percent or less: nothing is ever written, and yet every event is summed *)
Theorem C14_rand_nonpositive_writes_nothing : forall percent coins ops, percent <= 0 ->
  let r := run_rand percent coins ops in
  let rc := Events.run KCumulative init ops in
  written_of (snd r) = [] /\ fst r = fst rc /\ added_of (snd r) = added_of (snd rc).
Proof. exact EventsMoreProofs.rand_nonpositive. Qed.
Print Assumptions C14_rand_nonpositive_writes_nothing.

(* 11.6 (e) any percent, any coins (one per operation when 0 < percent <= 100): the final
   state is the cumulative collector's - what is written may be thinned out, the totals
   never are; the trace is the cumulative one thinned by the coins, and the written
   samples are those of the cumulative collector at the positions the coins select *)
Theorem C14_rand_totals_independent_of_coins : forall percent coins ops,
  (0 < percent <= 100 -> (length ops <= length coins)%nat) ->
  let r := run_rand percent coins ops in
  let rc := Events.run KCumulative init ops in
  let mask := rand_mask percent coins (length ops) in
  fst r = fst rc /\
  snd r = thin mask (snd rc) /\
  added_of (snd r) = added_of (snd rc) /\
  written_of (snd r) = select mask (written_of (snd rc)).
Proof. exact EventsMoreProofs.rand_general. Qed.
Print Assumptions C14_rand_totals_independent_of_coins.

Theorem C14_rand_written_are_running_totals : forall percent coins ops,
  (0 < percent <= 100 -> (length ops <= length coins)%nat) -> int64_history ops ->
  let tr := snd (run_rand percent coins ops) in
  written_of tr = select (rand_mask percent coins (length ops)) (expected_cumulative (added_of tr)).
Proof. exact EventsMoreProofs.rand_written_totals. Qed.
Print Assumptions C14_rand_written_are_running_totals.

(* 11.7 (f) non-vacuity on the history of C14_example (5 added events: a counter sum that
   wraps, the running-total pointer and another pointer added again, a nil event, an
   unknown object): the hypotheses are satisfiable and the projections differ *)
Definition ex_w0 := ex_a.
Definition ex_w1 := mkPerf 2000 8 (- 2 ^ 63) 2 (-20) 1 10 12 3 4 true.
Definition ex_w2 := mkPerf 2000 8 0 4 (-40) 2 20 24 3 4 true.
Definition ex_w3 := mkPerf 2000 8 1 5 (-70) 3 25 30 3 4 true.
Definition ex_w4 := mkPerf 3000 9 1 7 (-70) 3 26 31 9 9 false.
Definition ex_hours_1000 : Z := 1000 * 3600 * 1000000000.   (* 1000 * time.Hour *)

Example C14_more_example :
  (* hypotheses of 11.2 and 11.3 *)
  Sorted Z.le [5; 5; 7; 7; 9; 9; 9] /\ (length ex_ops <= length [5; 5; 7; 7; 9; 9; 9])%nat /\
  never_elapses ex_hours_1000 [5; 50; 700; 7000; 90000; 90000; 90000] /\
  Z.of_nat (length ex_ops) < 2 ^ 62 /\
  (* the cumulative collector, for reference *)
  written_of (snd (Events.run KCumulative init ex_ops)) = [ex_w0; ex_w1; ex_w2; ex_w3; ex_w4] /\
  (* interval 0 *)
  written_of (snd (run_interval 0 [5; 5; 7; 7; 9; 9; 9] ex_ops)) = [ex_w0; ex_w1; ex_w2; ex_w3; ex_w4] /\
  (* interval 1000h *)
  map o_res (snd (run_interval ex_hours_1000 [5; 50; 700; 7000; 90000; 90000; 90000] ex_ops)) =
    [RWritten ex_w0; RSkipped; RSkipped; RRefused; RSkipped; RNoObject; RSkipped] /\
  snd (run_interval ex_hours_1000 [5; 50; 700; 7000; 90000; 90000; 90000] ex_ops) =
    snd (Events.run (KSampling (2 ^ 62)) init ex_ops) /\
  (* interval 10 ns, one reading per call ... *)
  interval_mask 10 [0; 4; 10; 21; 22; 30; 30] = [true; false; true; true; false; false; false] /\
  written_of (snd (run_interval 10 [0; 4; 10; 21; 22; 30; 30] ex_ops)) = [ex_w0; ex_w2; ex_w3] /\
  (* ... and with a second reading (lastCollected = 12) taken after the first (10) in the third call *)
  interval_mask2 10 true 0 [(0, 0); (4, 4); (10, 12); (21, 21); (22, 25); (30, 30); (30, 30)] =
    [true; false; true; false; true; false; false] /\
  written_of (snd (run_interval2 10 [(0, 0); (4, 4); (10, 12); (21, 21); (22, 25); (30, 30); (30, 30)] iinit ex_ops)) =
    [ex_w0; ex_w2; ex_w4] /\
  (* random sampling at 50 percent with the coins 70 20 99 3 50 (+ spares), at 101 and at 0 *)
  rand_mask 50 [70; 20; 99; 3; 50; 0; 0] (length ex_ops) = [false; true; false; true; false; true; true] /\
  written_of (snd (run_rand 50 [70; 20; 99; 3; 50; 0; 0] ex_ops)) = [ex_w1; ex_w3] /\
  written_of (snd (run_rand 101 [] ex_ops)) = [ex_w0; ex_w1; ex_w2; ex_w3; ex_w4] /\
  written_of (snd (run_rand 0 [] ex_ops)) = [] /\
  (* the running totals at the end are the same in all of them *)
  current_value (fst (Events.run KCumulative init ex_ops)) = ex_w4 /\
  current_value (i_base (fst (run_interval ex_hours_1000 [5; 50; 700; 7000; 90000; 90000; 90000] ex_ops))) = ex_w4 /\
  current_value (fst (run_rand 50 [70; 20; 99; 3; 50; 0; 0] ex_ops)) = ex_w4 /\
  current_value (fst (run_rand 0 [] ex_ops)) = ex_w4.
Proof.
  split; [repeat first [lia | constructor]|].
  split; [cbn [length ex_ops]; lia|].
  split; [cbn [never_elapses]; unfold ex_hours_1000; repeat first [lia | constructor]|].
  split; [cbn [length ex_ops]; lia|].
  vm_compute. repeat split.
Qed.

(* 12. NOT a theorem of the code: the cumulative and the sampling collector keep the first event object they were
       given as their accumulator, so a caller who writes to that object and hands it over again (one *Performance
       re-used in a loop) writes over the running totals. Model/EventsAlias.v adds the caller's write to the heap
       model; three events of one unit each come out as 1, 2, 2 (known finding C14-caller-write). *)
From FV.Model Require Import EventsAlias.
Example C14_caller_write_refuted :
  let p := mkPerf 1000 0 1 10 0 0 7 7 0 0 false in
  let '(s1, o1) := Events.step KCumulative Events.init (EvNew p) in
  let '(s2, o2) := step_write KCumulative s1 0 p in
  let '(s3, o3) := step_write KCumulative s2 0 p in
  map p_n (written_of [o1; o2; o3]) = [1; 2; 2] /\ map p_n (expected_cumulative [p; p; p]) = [1; 2; 3] /\
  c14_ok_cumulative [p; p; p] (written_of [o1; o2; o3]) = false.
Proof. vm_compute. repeat split. Qed.
