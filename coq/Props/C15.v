(* C15 -- every recorder hands to its collector exactly what its policy says.
   This file holds only the property theorems; each is closed by [exact] of a lemma from
   Proofs/RecorderProofs.v and followed by Print Assumptions.

   Reading guide.  [run K iv last0 fails h] runs the reference model of recorder
   implementation K (Model/Recorder.v, written method by method after the Go code) on
   the call history h; it returns the final state and, per call, the points handed to the
   collector and EndTest's result.  iv = the interval of the grouped recorders, last0 =
   the clock reading taken by NewGroupedRecorder, [fails k] = the k-th collector.Add
   fails.  Clock readings are arguments of the calls.  The right-hand sides are the
   policy of Model/RecorderOk.v (written field by field, as sums / last values over the
   calls since the last EndTest/Reset).  All theorems hold for EVERY history, interval,
   failure schedule and clock input, by induction over the history. *)
From Coq Require Import ZArith List Bool.
From FV.Model Require Import Hdr Recorder RecorderOk.
From FV.Proofs Require Import RecorderProofs.
Import ListNotations.
Open Scope Z_scope.

(* the point the recorder currently holds *)
Definition current (K : kind) (iv last0 : Z) (fails : Z -> bool) (h : list op) : point :=
  s_pt (fst (run K iv last0 fails h)).
(* what call number (length pre) of the history pre ++ o :: post made observable *)
Definition output_at (K : kind) (iv last0 : Z) (fails : Z -> bool) (pre : list op) (o : op) (post : list op) : out :=
  nth (length pre) (snd (run K iv last0 fails (pre ++ o :: post))) no_out.

(* 0. The whole statement in one: for every history, final state and all outputs of the
      model are those of the policy. *)
Theorem C15_model_meets_policy : forall K iv last0 fails h,
  run K iv last0 fails h = (abs_state K iv last0 fails h, spec_outs K iv last0 fails h).
Proof. exact run_spec. Qed.
Print Assumptions C15_model_meets_policy.

(* 1. Counters at any moment = (int64-wrapped) sum of the increments since the last
      EndTest/Reset; [att_n K] counts 1 per EndIteration except for the interval recorder,
      whose EndIteration has no Number++.  Histogram recorders: the histogram holds exactly
      the in-range increments (the others are rejected, see 5). *)
Theorem C15_counters : forall K iv last0 fails h, is_hist K = false ->
  let p := current K iv last0 fails h in
  p_n p = wrap64 (lsum (flat_map (att_n K) (since_reset h))) /\
  p_ops p = wrap64 (lsum (flat_map att_ops (since_reset h))) /\
  p_size p = wrap64 (lsum (flat_map att_size (since_reset h))) /\
  p_errs p = wrap64 (lsum (flat_map att_errs (since_reset h))).
Proof. exact counters_perf. Qed.
Print Assumptions C15_counters.

Theorem C15_counters_hist : forall K iv last0 fails h, is_hist K = true ->
  let p := current K iv last0 fails h in
  h_n (p_h p) = filter accepts_counter (flat_map (att_n K) (since_reset h)) /\
  h_ops (p_h p) = filter accepts_counter (flat_map att_ops (since_reset h)) /\
  h_size (p_h p) = filter accepts_counter (flat_map att_size (since_reset h)) /\
  h_errs (p_h p) = filter accepts_counter (flat_map att_errs (since_reset h)) /\
  h_dur (p_h p) = filter accepts_timer (flat_map att_dur (since_reset h)).
Proof. exact counters_hist. Qed.
Print Assumptions C15_counters_hist.

(* the same for every point handed to the collector by call o after history pre *)
Theorem C15_persisted_counters : forall K iv last0 fails pre o post p, is_hist K = false ->
  In p (o_persisted (output_at K iv last0 fails pre o post)) ->
  p_n p = wrap64 (lsum (flat_map (att_n K) (since_reset pre ++ [o]))) /\
  p_ops p = wrap64 (lsum (flat_map att_ops (since_reset pre ++ [o]))) /\
  p_size p = wrap64 (lsum (flat_map att_size (since_reset pre ++ [o]))) /\
  p_errs p = wrap64 (lsum (flat_map att_errs (since_reset pre ++ [o]))) /\
  p_g p = gauges_of gauges0 (pre ++ [o]).
Proof. exact persisted_counters_perf. Qed.
Print Assumptions C15_persisted_counters.

Theorem C15_persisted_counters_hist : forall K iv last0 fails pre o post p, is_hist K = true ->
  In p (o_persisted (output_at K iv last0 fails pre o post)) ->
  h_n (p_h p) = filter accepts_counter (flat_map (att_n K) (since_reset pre ++ [o])) /\
  h_ops (p_h p) = filter accepts_counter (flat_map att_ops (since_reset pre ++ [o])) /\
  h_size (p_h p) = filter accepts_counter (flat_map att_size (since_reset pre ++ [o])) /\
  h_errs (p_h p) = filter accepts_counter (flat_map att_errs (since_reset pre ++ [o])) /\
  h_dur (p_h p) = filter accepts_timer (flat_map att_dur (since_reset pre ++ [o])) /\
  p_g p = gauges_of gauges0 (pre ++ [o]).
Proof. exact persisted_counters_hist. Qed.
Print Assumptions C15_persisted_counters_hist.

(* 2. Gauges = the last value set over the WHOLE history (they survive EndTest/Reset). *)
Theorem C15_gauges : forall K iv last0 fails h,
  p_g (current K iv last0 fails h) = gauges_of gauges0 h.
Proof. exact gauges_last_set. Qed.
Print Assumptions C15_gauges.

(* 3. Durations.  Summing recorders: Duration = sum of the explicit durations
      (SetDuration, EndIteration's argument); Total = sum of the explicit totals and of the
      elapsed parts.  Raw recorder: SetDuration/SetTotalDuration overwrite ([dur_upd KRaw],
      [total_upd KRaw]: last value set, plus what was added afterwards).  Histogram
      recorders: the Total histogram holds the in-range ones of those values. *)
Theorem C15_durations : forall K iv last0 fails h, is_hist K = false -> K <> KRaw ->
  let p := current K iv last0 fails h in
  p_dur p = wrap64 (lsum (flat_map att_dur (since_reset h))) /\
  p_total p = wrap64 (lsum (wmapc (att_total K) (cwindow K iv last0 h))).
Proof. exact durations_summing. Qed.
Print Assumptions C15_durations.

Theorem C15_durations_raw : forall iv last0 fails h,
  let p := current KRaw iv last0 fails h in
  p_dur p = wrap64 (fold_left (dur_upd KRaw) (cwindow KRaw iv last0 h) 0) /\
  p_total p = wrap64 (fold_left (total_upd KRaw) (cwindow KRaw iv last0 h) 0).
Proof. exact durations_raw. Qed.
Print Assumptions C15_durations_raw.

Theorem C15_total_hist : forall K iv last0 fails h, is_hist K = true ->
  h_total (p_h (current K iv last0 fails h)) =
  filter accepts_timer (wmapc (att_total K) (cwindow K iv last0 h)).
Proof. exact total_hist. Qed.
Print Assumptions C15_total_hist.

(* every elapsed part is (the call's own clock reading) - (the reading of an earlier
   BeginIteration), hence inside the wall-clock span of the history whenever the readings
   are monotone *)
Theorem C15_elapsed_is_a_clock_difference : forall K iv last0 pre o e,
  In e (elapsed K (pctx K iv last0 pre) o) ->
  exists b now, In (BeginIteration b) pre /\ clock_of o = Some now /\ e = now - b.
Proof. exact elapsed_parts. Qed.
Print Assumptions C15_elapsed_is_a_clock_difference.

Theorem C15_elapsed_bounded_by_wall_clock : forall K iv last0 pre o e lo hi,
  In e (elapsed K (pctx K iv last0 pre) o) ->
  (forall b, In (BeginIteration b) pre -> lo <= b) ->
  (forall now, clock_of o = Some now -> now <= hi /\ forall b, In (BeginIteration b) pre -> b <= now) ->
  0 <= e <= hi - lo.
Proof. exact elapsed_bounded. Qed.
Print Assumptions C15_elapsed_bounded_by_wall_clock.

(* 4. Persistence moments: the calls at which a point is handed to the collector are
      exactly those of the policy table [persists]: each EndIteration (raw, histogram),
      each EndIteration with the interval elapsed (grouped), each Tick (interval), and
      EndTest iff the point is stamped (single recorders: always).  Never more than one
      point per call, and the number of collector.Add calls is the number of those moments. *)
Theorem C15_persistence_moments : forall K iv last0 fails h,
  persisted_positions (snd (run K iv last0 fails h)) = policy_positions K iv last0 h.
Proof. exact persistence_moments. Qed.
Print Assumptions C15_persistence_moments.

Theorem C15_one_point_per_call : forall K iv last0 fails pre o post,
  (length (o_persisted (output_at K iv last0 fails pre o post)) <= 1)%nat.
Proof. exact at_most_one_point. Qed.
Print Assumptions C15_one_point_per_call.

Theorem C15_add_calls : forall K iv last0 fails h,
  s_adds (fst (run K iv last0 fails h)) =
  Z.of_nat (length (persisted_positions (snd (run K iv last0 fails h)))).
Proof. exact adds_count. Qed.
Print Assumptions C15_add_calls.

(* the persisted point is the policy's point: window = the calls since the last
   EndTest/Reset including the persisting call, timestamp by [persist_ts] *)
Theorem C15_persisted_point : forall K iv last0 fails pre o post p,
  In p (o_persisted (output_at K iv last0 fails pre o post)) ->
  persists K iv (pctx K iv last0 pre) o = true /\
  p = point_of K (persist_ts K (pctx K iv last0 pre) o)
               (cwindow K iv last0 pre ++ [(pctx K iv last0 pre, o)]) (gauges_of gauges0 (pre ++ [o])).
Proof. exact persisted_point. Qed.
Print Assumptions C15_persisted_point.

(* 5. EndTest returns exactly the errors since the previous EndTest/Reset, in order: for
      every call of the window (this EndTest included) its rejected histogram records and,
      if it persisted and the collector's Add number [c_adds] is a failing one, that
      failure.  No other call returns anything. *)
Theorem C15_endtest_errors : forall K iv last0 fails pre now post,
  o_ret (output_at K iv last0 fails pre (EndTest now) post) =
  Some (errs_of K iv fails (cwindow K iv last0 pre ++ [(pctx K iv last0 pre, EndTest now)])).
Proof. exact endtest_returns. Qed.
Print Assumptions C15_endtest_errors.

Theorem C15_only_endtest_returns : forall K iv last0 fails pre o post,
  (forall now, o <> EndTest now) -> o_ret (output_at K iv last0 fails pre o post) = None.
Proof. exact only_endtest_returns. Qed.
Print Assumptions C15_only_endtest_returns.

(* 6. After EndTest or Reset the recorder is in the state of a freshly constructed one
      that carries the gauges (everything else zero, no errors, no start time,
      lastCollected at the zero time -- i.e. the gate of the grouped recorders open --
      only the collector's Add count continues), and the rest of the history behaves like
      a run from that fresh state. *)
Theorem C15_after_reset_fresh : forall K iv last0 fails h r, is_reset r = true ->
  let st := fst (run K iv last0 fails (h ++ [r])) in
  st = fresh_state (gauges_of gauges0 h) 0 (s_adds st).
Proof. exact after_reset_fresh. Qed.
Print Assumptions C15_after_reset_fresh.

Theorem C15_continues_like_fresh : forall K iv last0 fails h1 r h2, is_reset r = true ->
  let st := fst (run K iv last0 fails (h1 ++ [r])) in
  snd (run K iv last0 fails (h1 ++ r :: h2)) =
  snd (run K iv last0 fails (h1 ++ [r])) ++
  snd (run_from K iv fails (fresh_state (gauges_of gauges0 h1) 0 (s_adds st)) h2).
Proof. exact continues_like_fresh. Qed.
Print Assumptions C15_continues_like_fresh.

(* 7. Wrappers: the synchronized recorder and the shim hand on every call unchanged (the
      shim's Begin/End are BeginIteration/EndIteration); the shim additionally calls the
      TimerManager once per Reset / Begin / End. *)
Theorem C15_wrappers : forall W K iv last0 fails h, wellformed W h = true ->
  snd (wrun W K iv last0 fails h) = snd (run K iv last0 fails (erase W h)) /\
  fst (fst (wrun W K iv last0 fails h)) = fst (run K iv last0 fails (erase W h)) /\
  snd (fst (wrun W K iv last0 fails h)) = spec_timers W h.
Proof. exact wrappers_transparent. Qed.
Print Assumptions C15_wrappers.

(* non-vacuity: a grouped recorder (interval 0, constructed at time 5) whose collector
   fails on its first Add; the third call persists one point with n = 1, ops = 3,
   dur = 7, total = 25 - 10, stamped with the BeginIteration reading; EndTest persists
   nothing (the timestamp was cleared) and returns that one failure *)
Example C15_example :
  snd (run KGrouped 0 5 (fun k => k =? 0)
           [BeginIteration 10; IncOperations 3; EndIteration 7 25; EndTest 30]) =
  [no_out; no_out;
   mkO [mkP 10 0 1 3 0 0 7 15 hists0 gauges0] None;
   mkO [] (Some [ErrAdd 0])]
  /\ hdr_accepts 0 10000 5 262143 = true /\ hdr_accepts 0 10000 5 262144 = false
  /\ hdr_accepts 1000 60000000000 5 68719476735 = true /\ hdr_accepts 1000 60000000000 5 68719476736 = false
  /\ accepts_counter (-1) = false.
Proof. repeat split; vm_compute; reflexivity. Qed.

(* 8. Oracle soundness.  The executable oracle [c15_ok_w] (Model/RecorderOk.v) is what the
      run-time check applies to the observations of the Go recorders: per call the points
      handed to the collector (histograms through their non-zero counts, [observe]) and
      EndTest's result, plus the TimerManager call counts.  It accepts the model's own
      observation [model_obs] of the same case - for every wrapper, recorder kind, interval,
      construction time, failure schedule and well-formed call history, with the readings
      "before" and "after" each call both equal to the model's clock input (the model has one
      reading per call; the driver passes the harness's two readings, between which the
      recorder's own reading lies).  So a VIOL of the check is a difference between the
      implementation and what the theorems above describe, never an artefact of the oracle. *)
From FV.Proofs Require Import OracleC15.

Theorem C15_oracle_sound : forall W K iv last0 fl h, wellformed W h = true ->
  c15_ok_w W K iv last0 fl h h (fst (model_obs W K iv last0 fl h)) (snd (model_obs W K iv last0 fl h)) = true.
Proof. exact c15_oracle_sound. Qed.
Print Assumptions C15_oracle_sound.

(* the unwrapped oracle [c15_ok] on the outputs of [run] *)
Theorem C15_oracle_sound_plain : forall K iv last0 fl h,
  c15_ok K iv last0 fl h h (map observe_out (snd (run K iv last0 (fails_of fl) h))) = true.
Proof. exact c15_oracle_sound_plain. Qed.
Print Assumptions C15_oracle_sound_plain.
