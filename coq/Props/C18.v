(* C18 — CSV export and import preserve the metric table.
   Only the property theorems; proofs in Proofs/CsvProofs.v.  Model: Model/Csv.v
   (csv.go + the parts of encoding/csv, strconv and time it uses); specification
   side definitions (integer table, grouping by metric count): Model/CsvOk.v. *)
From Coq Require Import ZArith NArith List Bool.
From FV.Model Require Import Bytes Bson Metrics Codec Collector Wf RoundTrip CollectorOk Views Csv CsvOk.
From FV.Proofs Require Import CsvProofs.
Import ListNotations.

(* ------------------------------------------------------------------ quoting *)
(* The exact class of records that survive csv.Writer followed by csv.Reader
   ([record_ok]): a record with at least one field that is not the single empty
   field (both are written as an empty line, which the reader skips), and no
   field containing CR directly followed by LF (the reader turns CR LF into LF,
   also inside quoted fields).  Commas, quotes, LF, lone CR, leading spaces, the
   empty field among others: all inside the class.  For every list of such
   records, of any length and content: reading the written text gives the records
   back, without error. *)
Theorem C18_quote_roundtrip : forall rs : list (list bytes),
  Forall (fun r => record_ok r = true) rs ->
  read_all (render_records rs) = (rs, None).
Proof. exact quote_roundtrip. Qed.
Print Assumptions C18_quote_roundtrip.

(* strconv.Atoi inverts strconv.FormatInt on every int64; a datetime cell is never
   read as a number (so ConvertFromCSV drops datetime columns) *)
Theorem C18_int_roundtrip : forall z, in_i64 z = true -> parse_int (render_int z) = Some z.
Proof. exact parse_render_int. Qed.
Print Assumptions C18_int_roundtrip.

Theorem C18_date_is_text : forall v, parse_int (render_date v) = None.
Proof. exact date_not_int. Qed.
Print Assumptions C18_date_is_text.

(* ------------------------------------------------------------------ WriteCSV *)
(* every chunk list with one metric count: no error, and the text is the
   header line of the first chunk's keys followed by one line per sample of every
   chunk in order; the cells of a line are the sample's values rendered column by
   column: decimal for every type but datetime *)
Theorem C18_write : forall c cs n,
  Forall (fun c' => nmetrics c' = n) (c :: cs) ->
  write_csv (c :: cs) = (render_records (field_names c :: flat_map chunk_records (c :: cs)), false) /\
  (forall c' i, record_of c' i =
                map (fun tv => cell (fst tv) (snd tv)) (combine (chunk_types c') (sample_row c' i))) /\
  (forall t v, t <> MDate -> cell t v = render_int v).
Proof. exact write_all. Qed.
Print Assumptions C18_write.

(* a chunk whose metric count differs from the count of the chunks before it
   (zero included: csv.go keeps a headerWritten flag since the repair): WriteCSV returns an error, and what it has written is exactly what
   it writes for the earlier chunks alone (header and all their rows) *)
Theorem C18_write_error : forall p pre c post n,
  Forall (fun c' => nmetrics c' = n) (p :: pre) -> nmetrics c <> n ->
  write_csv ((p :: pre) ++ c :: post) = (fst (write_csv (p :: pre)), true).
Proof. exact write_error. Qed.
Print Assumptions C18_write_error.

(* ------------------------------------------------------------------ DumpCSV *)
(* every chunk list: the files are, in order, one
   per maximal run of equal metric count ([group_by_count]); each file is the
   header of its run's first chunk followed by the rows of the run's chunks.  The
   runs partition the stream in order, are non-empty, have one count each, and
   neighbouring runs have different counts -- so a new file starts exactly at the
   chunks whose count differs from the previous chunk's, and the files' rows
   concatenated are all samples in order *)
Theorem C18_dump : forall cs,
  dump_csv cs = map file_of (group_by_count cs) /\
  concat (group_by_count cs) = cs /\
  Forall (fun g => g <> [] /\ Forall (fun c => nmetrics c = nmetrics (hd (mkChunk [] 0 None None []) g)) g)
         (group_by_count cs) /\
  adjacent_differ (group_by_count cs) /\
  flat_map (fun g => flat_map chunk_records g) (group_by_count cs) = flat_map chunk_records cs.
Proof. exact dump_all. Qed.
Print Assumptions C18_dump.

(* ------------------------------------------------------------------ round trip *)
(* every chunk list with one metric count, no datetime column, int64 values, and
   first-chunk keys that form a record of the class above (hence at least one
   metric): WriteCSV
   succeeds, and ConvertFromCSV on its text reaches the end of the input without
   error having handed to the streaming dynamic collector exactly one document
   per sample, in order: the keys of the header with the sample's values as int64 *)
Theorem C18_roundtrip : forall c cs n,
  Forall (fun c' => nmetrics c' = n) (c :: cs) ->
  Forall (fun c' => has_date c' = false) (c :: cs) ->
  record_ok (field_names c) = true ->
  Forall (Forall (fun z => in_i64 z = true)) (int_rows (c :: cs)) ->
  snd (write_csv (c :: cs)) = false /\
  cv_docs (fst (write_csv (c :: cs))) = (table_docs (field_names c) (int_rows (c :: cs)), CvOk).
Proof. exact roundtrip_all. Qed.
Print Assumptions C18_roundtrip.

(* ------------------------------------------------------------------ composition with the FTDC codec *)
Section C18_compose.
(* zlib is a parameter: any pair of functions with this property *)
Variable deflate : bytes -> bytes.
Variable inflate : bytes -> option bytes.
Hypothesis inflate_deflate : forall p, inflate (deflate p) = Some p.

(* C18_roundtrip composed with C08_dynamic (Props/C08.v, streaming dynamic
   collector): under the hypotheses of C18_roundtrip plus representability of the
   documents in BSON (keys without NUL, each document below 2 GiB, metric count
   within uint32), for every bucket size and clock readings: ConvertFromCSV (into
   a writer that does not fail) returns no error, and its output decodes, without
   error, to exactly one document per sample of the original stream, in order,
   holding the header keys with the sample's int64 values -- the same keys and the
   same integer table; the chunks read back hold [bucket] samples each (the last
   one the remainder) *)
Theorem C18_roundtrip_reread : forall c cs n bucket nows,
  Forall (fun c' => nmetrics c' = n) (c :: cs) ->
  Forall (fun c' => has_date c' = false) (c :: cs) ->
  record_ok (field_names c) = true ->
  Forall (Forall (fun z => in_i64 z = true)) (int_rows (c :: cs)) ->
  Forall (fun k => key_ok k = true) (field_names c) ->
  (N.of_nat n < 2 ^ 32)%N ->
  Forall (fun d => small (enc_doc d)) (table_docs (field_names c) (int_rows (c :: cs))) ->
  (1 <= bucket < 2 ^ 31)%Z -> length nows = length (int_rows (c :: cs)) ->
  exists out d,
    convert_from_csv deflate (fst (write_csv (c :: cs))) bucket nows [] = (out, false) /\
    decode_ftdc inflate None out = Some d /\
    docs_eqb (dc_docs d) (table_docs (field_names c) (int_rows (c :: cs))) = true /\
    dc_sizes d = expected_sizes bucket (table_docs (field_names c) (int_rows (c :: cs))).
Proof. exact (roundtrip_reread deflate inflate inflate_deflate). Qed.

End C18_compose.
Print Assumptions C18_roundtrip_reread.

(* non-vacuity: two chunks (keys  a,b  and  q QUOTE LF, values 2^63-1 and -2^63; a
   second chunk with other keys, one of them empty) satisfy the hypotheses of
   C18_write, C18_roundtrip and C18_roundtrip_reread; followed by a one-metric
   chunk and a two-metric chunk they satisfy those of C18_write_error and
   C18_dump (three files) *)
Example C18_example :
  Forall (fun c' => nmetrics c' = 2%nat) [ex_cA; ex_cB] /\
  Forall (fun c' => has_date c' = false) [ex_cA; ex_cB] /\
  record_ok (field_names ex_cA) = true /\
  Forall (Forall (fun z => in_i64 z = true)) (int_rows [ex_cA; ex_cB]) /\
  Forall (fun k => key_ok k = true) (field_names ex_cA) /\
  Forall (fun d => small (enc_doc d)) (table_docs (field_names ex_cA) (int_rows [ex_cA; ex_cB])) /\
  int_rows [ex_cA; ex_cB] = [[1; 2 ^ 63 - 1]; [-2; - 2 ^ 63]; [1; 0]]%Z /\
  firstn 14 (fst (write_csv [ex_cA; ex_cB])) = [34; 97; 44; 98; 34; 44; 34; 113; 34; 34; 10; 34; 10; 49]%N /\
  nmetrics ex_cC <> 2%nat /\
  snd (write_csv [ex_cA; ex_cB; ex_cC; ex_cA]) = true /\
  group_by_count [ex_cA; ex_cB; ex_cC; ex_cA] = [[ex_cA; ex_cB]; [ex_cC]; [ex_cA]] /\
  length (dump_csv [ex_cA; ex_cB; ex_cC; ex_cA]) = 3%nat /\
  write_csv [ex_cZ; ex_cA] = ([10; 10; 10]%N, true) /\ length (dump_csv [ex_cZ; ex_cA]) = 2%nat.
Proof. exact csv_example. Qed.

(* the known findings C18-lone-empty-key and C18-key-crlf (behaviour of Go's
   encoding/csv underneath csv.go) as theorems about the faithful model: outside
   the class [record_ok] the round trip does fail.  A single metric with the empty
   key: the header is an empty line, the first row is taken for the header.  A key
   containing CR LF comes back with LF only. *)
Theorem C18_lone_empty_key_refuted :
  record_ok (field_names ex_cE) = false /\
  write_csv [ex_cE] = ([10; 53; 10; 54; 10]%N, false) /\
  cv_docs (fst (write_csv [ex_cE])) = ([[([53]%N, VInt64 6)]], CvOk) /\
  cv_docs (fst (write_csv [ex_cE])) <> (table_docs (field_names ex_cE) (int_rows [ex_cE]), CvOk).
Proof. exact lone_empty_key_refuted. Qed.
Print Assumptions C18_lone_empty_key_refuted.

Theorem C18_key_crlf_refuted :
  record_ok (field_names ex_cR) = false /\
  fst (write_csv [ex_cR]) = [34; 97; 13; 10; 98; 34; 10; 49; 10; 50; 10]%N /\
  cv_docs (fst (write_csv [ex_cR])) = ([[([97; 10; 98]%N, VInt64 1)]; [([97; 10; 98]%N, VInt64 2)]], CvOk) /\
  cv_docs (fst (write_csv [ex_cR])) <> (table_docs (field_names ex_cR) (int_rows [ex_cR]), CvOk).
Proof. exact key_crlf_refuted. Qed.
Print Assumptions C18_key_crlf_refuted.

(* ---- oracle = theorem: the executable oracles of Model/CsvOk.v, which the driver
   ocaml/c18_run.ml evaluates on the implementation's observations, accept the model's
   own observations (model_obs_write / model_obs_dump, exactly what the driver
   recomputes) for EVERY chunk stream outside the class key-crlf (the class of the known
   finding C18_key_crlf_refuted; no other hypothesis: any metric counts, zero included,
   any count changes, datetime columns, the lone empty key).  They are the reflected form
   of C18_write, C18_write_error, C18_dump, C18_date_is_text and of C18_quote_roundtrip
   extended to records that CSV cannot show (proofs in Proofs/OracleSoundC18.v) ---- *)
From FV.Proofs Require OracleSoundC18.

Theorem C18_oracle_write_sound : forall cs, class_key_crlf cs = false ->
  c18_ok_write cs (fst (model_obs_write cs)) (snd (model_obs_write cs)) = true.
Proof. exact OracleSoundC18.c18_oracle_write_sound. Qed.
Print Assumptions C18_oracle_write_sound.

Theorem C18_oracle_dump_sound : forall cs, class_key_crlf cs = false ->
  c18_ok_dump cs (model_obs_dump cs) false = true.
Proof. exact OracleSoundC18.c18_oracle_dump_sound. Qed.
Print Assumptions C18_oracle_dump_sound.

(* the round trip: under the hypotheses of C18_roundtrip_reread (which imply the oracle's
   own applicability test rt_applies except for "one key list throughout", a clause the
   oracle does not need here), for every bucket size within the model reader's evaluation
   cap (metric count * bucket <= delta_cap = 200000, the cap of the executable instance
   x_read; the theorems about the reader itself use no cap): the model's own observation
   model_obs_convert of the text the model's WriteCSV wrote - ConvertFromCSV with all
   clock readings 0 into a writer that does not fail, then the model reader, as the driver
   computes it - reports no conversion error and no read error, every chunk read back
   carries the first chunk's keys, the rows read back are the original integer table, and
   c18_ok_roundtrip is true.  Reflected form of C18_roundtrip_reread, re-proved on the
   chunk level through C02_table (proofs in Proofs/OracleSoundC18rt.v) *)
From FV.Model Require Import Instance.
From FV.Proofs Require OracleSoundC18rt.

Theorem C18_oracle_roundtrip_sound : forall c cs n bucket,
  Forall (fun c' => nmetrics c' = n) (c :: cs) ->
  Forall (fun c' => has_date c' = false) (c :: cs) ->
  record_ok (field_names c) = true ->
  Forall (Forall (fun z => in_i64 z = true)) (int_rows (c :: cs)) ->
  Forall (fun k => key_ok k = true) (field_names c) ->
  (N.of_nat n < 2 ^ 32)%N ->
  Forall (fun d => small (enc_doc d)) (table_docs (field_names c) (int_rows (c :: cs))) ->
  (1 <= bucket < 2 ^ 31)%Z ->
  (N.of_nat n * Z.to_N bucket <= delta_cap)%N ->
  exists mcs,
    model_obs_convert (fst (model_obs_write (c :: cs))) bucket = (mcs, false, false) /\
    Forall (fun kr => fst kr = field_names c) (map chunk_view mcs) /\
    flat_map snd (map chunk_view mcs) = int_rows (c :: cs) /\
    c18_ok_roundtrip (c :: cs) (map chunk_view mcs) false false = true.
Proof. exact OracleSoundC18rt.c18_oracle_roundtrip_sound. Qed.
Print Assumptions C18_oracle_roundtrip_sound.
