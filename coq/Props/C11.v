(* C11 — metadata travels with the chunks it describes.  Only the property
   theorems; definitions in Model/MetaOk.v, proofs in Proofs/MetaProofs.v. *)
From Coq Require Import ZArith NArith List Bool.
From FV.Model Require Import Bytes Bson Metrics Codec Collector Wf RoundTrip CollectorOk Views Instance MetaOk.
From FV.Proofs Require Import MetaProofs.
Import ListNotations.
Open Scope Z_scope.

Section C11.
(* zlib is a parameter: any two functions (no hypothesis about them is needed) *)
Variable deflate : bytes -> bytes.
Variable inflate : bytes -> option bytes.

(* READ SIDE.  For every sequence of outer documents [ds] (type 0, type 1 in any
   numeric representation, other or missing types, unreadable chunks) the
   delivered chunks are the readings of the first chunk documents of [ds], in
   order, and the i-th of them reports the i-th entry of [spec_metas None ds], a
   left-to-right scan written without the reader.  Delivery stops only at an
   unreadable chunk. *)
Theorem C11_read : forall ds,
  let cs := fst (read_chunks inflate None ds) in
  map ck_meta cs = firstn (length cs) (spec_metas None ds) /\
  Forall2 (fun c d => read_chunk inflate (ck_meta c) d = inl c) cs (firstn (length cs) (chunk_docs ds)) /\
  (length cs <= chunk_count ds)%nat /\
  (snd (read_chunks inflate None ds) = None -> length cs = chunk_count ds).
Proof. exact (meta_read inflate). Qed.

(* the scan said by position: for the chunk document [d] after the prefix [pre],
   the entry is the last type-0 document of [pre]; it is nil exactly when [pre]
   holds no type-0 document; the chunk delivered for [d] reports exactly that
   document (the whole outer document, as Chunk.GetMetadata does) *)
Theorem C11_read_at : forall pre d post,
  is_chunkd d = true ->
  nth_error (spec_metas None (pre ++ d :: post)) (chunk_count pre) = Some (last_meta pre) /\
  (last_meta pre = None <-> Forall (fun x => is_meta x = false) pre) /\
  (forall m, last_meta pre = Some m -> In m pre /\ is_meta m = true) /\
  forall c, nth_error (fst (read_chunks inflate None (pre ++ d :: post))) (chunk_count pre) = Some c ->
            ck_meta c = last_meta pre /\ read_chunk inflate (last_meta pre) d = inl c.
Proof. exact (meta_read_at inflate). Qed.

(* ITERATORS.  While an item is current, the document iterators (structured and
   flattened: one item per sample), the series iterator (one item per chunk) and
   the matrix iterator (one item per chunk up to the first chunk it cannot
   export) report the metadata of the chunk the item came from, i.e. the entry of
   [spec_metas] of that chunk; the items themselves are the views' documents. *)
Theorem C11_items : forall ds,
  let cs := fst (read_chunks inflate None ds) in
  let ms := firstn (length cs) (spec_metas None ds) in
  map fst (structured_items cs) = spread (map npoints_nat cs) ms /\
  map snd (structured_items cs) = flat_map structured_docs cs /\
  map fst (flat_items cs) = spread (map npoints_nat cs) ms /\
  map snd (flat_items cs) = flat_map flat_docs cs /\
  map fst (series_items cs) = ms /\
  map snd (series_items cs) = map series_doc cs /\
  map fst (matrix_items cs) = firstn (length (matrix_items cs)) ms /\
  map (fun x => Some (snd x)) (matrix_items cs) = firstn (length (matrix_items cs)) (map matrix_doc cs).
Proof. exact (meta_items inflate). Qed.

(* EMIT SIDE.  Every compressing collector kind, every chunk size, every writer
   fault schedule, EVERY history of operations (Add of any document, unreadable
   Add, Resolve, Reset, FlushCollector, SetMetadata, Info, in any order):
   [trace_ok]: each Resolve result and each record handed to the writer is
   [metadata document?] [chunk document] [chunk documents...] where the metadata
   document is present exactly when the collector's slot is set when the operation
   starts, sits immediately before the first chunk document, carries that chunk's
   _id and in "doc" exactly the slot's document; no other type-0 document occurs;
   the one-chunk kinds (base, streaming, streaming-dynamic) emit one chunk per
   output, so every chunk is preceded by the metadata; the multi-chunk kinds
   (batch, dynamic) put it before the first chunk of the output only.
   The slot follows [slot_next]: SetMetadata replaces it; nothing else changes it
   except Reset — and a FlushCollector that wrote a complete record — on the
   multi-chunk kinds, which forget it (their Reset builds fresh chunks).
   For the one-chunk kinds the slot is therefore the argument of the last
   SetMetadata of the history.  The second conjunct is the executable oracle that
   the check evaluates on the implementation's outputs. *)
Theorem C11_emit : forall k n faults ops, compressing k = true ->
  let tr := run_trace deflate (new_coll k n, mkWriter [] faults false) ops in
  trace_ok k None tr /\
  trace_okb k None tr = true /\
  (multi_chunk k = false -> slot_after k None tr = last_set None ops).
Proof. exact (meta_emit deflate). Qed.

(* never mixed into the samples: removing every SetMetadata from a history leaves
   every observation unchanged (Add results, flush results, Info), and every
   Resolve result and writer record unchanged except that the metadata documents
   are gone — the chunk documents (reference document, counts, deltas) are
   identical; and dropping the metadata documents from any document sequence
   changes neither the decoded samples nor the chunk sizes *)
Theorem C11_emit_indep : forall k n faults ops, compressing k = true ->
  let r1 := run deflate (new_coll k n, mkWriter [] faults false) ops in
  let r2 := run deflate (new_coll k n, mkWriter [] faults false) (ops_erase ops) in
  resolve_outs (snd r2) = map out_erase (resolve_outs (snd r1)) /\
  w_log (snd (fst r2)) = map wrec_erase (w_log (snd (fst r1))) /\
  snd r2 = obss_erase (snd r1) /\
  (forall cap ds, same_samples (decode_ftdc inflate cap (drop_meta ds)) (decode_ftdc inflate cap ds)).
Proof. exact (meta_indep deflate inflate). Qed.

End C11.

Print Assumptions C11_read.
Print Assumptions C11_read_at.
Print Assumptions C11_items.
Print Assumptions C11_emit.
Print Assumptions C11_emit_indep.

(* non-vacuity: a concrete batch history with a replaced metadata document *)
Example C11_example :
  exists d1 d2,
    resolve_outs (snd (run deflate_flag (new_coll KBatch 1, mkWriter [] [] false) ex_ops))
      = [OFtdc [meta_doc 0 ex_m2; chunk_doc 0 d1; chunk_doc 0 d2]] /\
    map ck_meta (fst (read_chunks inflate_flag None [meta_doc 0 ex_m2; chunk_doc 0 d1; chunk_doc 0 d2]))
      = [Some (meta_doc 0 ex_m2); Some (meta_doc 0 ex_m2)] /\
    spec_metas None [meta_doc 0 ex_m2; chunk_doc 0 d1; chunk_doc 0 d2]
      = [Some (meta_doc 0 ex_m2); Some (meta_doc 0 ex_m2)].
Proof. exact meta_example. Qed.

(* ------------------------------------------------------------------ oracle soundness, read side *)
(* The run-time check evaluates [c11_chunks_ok], [c11_chunks_pos_ok], [c11_samples_ok] and
   [c11_perchunk_ok] (Model/MetaOk.v) on what the Go reader and its four iterator views reported
   for a stream.  They accept what the MODEL's reader reports for the same outer documents - every
   sequence of outer documents, any zlib.  Observations as ocaml/c11_run.ml builds them:
   GetMetadata() of every delivered chunk = [map ck_meta cs]; Size() of every delivered chunk =
   [map ck_npoints cs]; Metadata() after every Next() of an iterator = [map fst] of the model's
   items; the number of delivered chunks = [length cs].  (Emit side: C11_emit's second conjunct.) *)
From FV.Proofs Require Import OracleC11.

Section C11_oracle.
Variable inflate : bytes -> option bytes.

Theorem C11_oracle_chunks_sound : forall ds,
  let cs := fst (read_chunks inflate None ds) in
  c11_chunks_ok ds (map ck_meta cs) = true /\ c11_chunks_pos_ok ds (map ck_meta cs) = true.
Proof. exact (c11_chunks_oracle_sound inflate). Qed.

(* ReadStructuredMetrics and ReadMetrics: one item per sample *)
Theorem C11_oracle_samples_sound : forall ds,
  let cs := fst (read_chunks inflate None ds) in
  c11_samples_ok ds (map ck_npoints cs) (map fst (structured_items cs)) = true /\
  c11_samples_ok ds (map ck_npoints cs) (map fst (flat_items cs)) = true.
Proof. exact (c11_samples_oracle_sound inflate). Qed.

(* ReadSeries and ReadMatrix: one item per chunk *)
Theorem C11_oracle_perchunk_sound : forall ds,
  let cs := fst (read_chunks inflate None ds) in
  c11_perchunk_ok ds (length cs) (map fst (series_items cs)) = true /\
  c11_perchunk_ok ds (length cs) (map fst (matrix_items cs)) = true.
Proof. exact (c11_perchunk_oracle_sound inflate). Qed.

End C11_oracle.
Print Assumptions C11_oracle_chunks_sound.
Print Assumptions C11_oracle_samples_sound.
Print Assumptions C11_oracle_perchunk_sound.

(* ------------------------------------------------------------------ a refused SetMetadata changes nothing *)
(* harness/c11.go issues SetMetadata(map[string]string{...}); readDocument refuses
   it and every SetMetadata of the library returns that error before assigning
   anything.  ocaml/c11_run.ml treats the call as "error, no effect".  The model's
   [op] has no such operation; Model/MetaBad.v adds it as a step of its own,
   [step_setmeta_bad s = (s, None)] (response type [option obs]: None = the
   refusal, so [obs] gets no new constructor), and [run_bad] folds [step] /
   [step_setmeta_bad] over histories [list (op + unit)].  What the driver relies
   on, checked against [run] (proofs: Proofs/MetaBadProofs.v): *)
From FV.Model Require Import MetaBad.
From FV.Proofs Require Import MetaBadProofs.

Section C11_refused.
Variable deflate : bytes -> bytes.

(* for every state [st] (any kind, any writer) and all histories h1, h2: in
   h1 ++ [refused SetMetadata] ++ h2 the operations of h1 and of h2 answer exactly
   as in h1 ++ h2, the refused call answers with the refusal, and the final state
   (collector — with its metadata slot — and writer, i.e. every record emitted
   by a later Add / flush) is that of h1 ++ h2.  In particular the metadata in
   later Resolve results and writer records is what was set before. *)
Theorem C11_refused_setmetadata_keeps_slot : forall st h1 h2,
  let s1 := fst (run deflate st h1) in
  run_bad deflate st (map inl h1 ++ inr tt :: map inl h2) =
    (fst (run deflate s1 h2), map Some (snd (run deflate st h1)) ++ None :: map Some (snd (run deflate s1 h2))) /\
  run deflate st (h1 ++ h2) = (fst (run deflate s1 h2), snd (run deflate st h1) ++ snd (run deflate s1 h2)).
Proof. exact (refused_setmeta_keeps deflate). Qed.

(* any number of refused calls at any positions: final state and the answers of
   the other operations are those of the history without the refused calls
   ([goods]), and exactly the refused calls are answered with the refusal *)
Theorem C11_refused_setmetadata_any : forall h st,
  fst (run_bad deflate st h) = fst (run deflate st (goods h)) /\
  answered (snd (run_bad deflate st h)) = snd (run deflate st (goods h)) /\
  refusals (snd (run_bad deflate st h)) = refused_at h.
Proof. exact (run_bad_goods deflate). Qed.

End C11_refused.
Print Assumptions C11_refused_setmetadata_keeps_slot.
Print Assumptions C11_refused_setmetadata_any.

(* non-vacuity: streaming collector, chunk size 1: SetMetadata m, Add, the refused
   SetMetadata, Add (flushes the first chunk), Resolve — the writer's record and
   the Resolve result both carry m *)
Example C11_refused_example :
  let rb := run_bad deflate_flag (new_coll KStream 1, mkWriter [] [] false) (map inl mb_h1 ++ inr tt :: map inl mb_h2) in
  exists d1 d2,
    w_log (snd (fst rb)) = [WFull (OFtdc [meta_doc 0 mb_m; chunk_doc 0 d1])] /\
    snd rb = [Some BSetMeta; Some (BAdd ROk); None; Some (BAdd ROk);
              Some (BResolve (Some (OFtdc [meta_doc 0 mb_m; chunk_doc 0 d2])))].
Proof. exact refused_setmeta_example. Qed.
