(* Source-facts obligations over Generated/PerfKeys.v (DESIGN.md 5b) — belongs to C14.

   Generated/PerfKeys.v is REWRITTEN from /repo/events/performance.go on every check run
   (`ftdcverif facts`, harness/facts.go):
     marshal_keys     the key literals of Performance.MarshalDocument with the field each element
                      marshals and the BSON type it writes (path, field, type; 3 = sub-document)
     unmarshal_keys   the `case "<key>":` labels of the four UnmarshalDocument methods with the
                      field each assigns and the BSON type its accessor requires
     struct_tag_keys  the bson struct tags
   The theorems are re-proved over the regenerated tables: renaming a key on one side only
   ("ops" -> "opts"), assigning another field, reading with another accessor, or dropping a case
   breaks a proof obligation here.

   Vocabulary (Proofs/FactsProofs.v): marshal_from_table / unmarshal_from_table interpret a key
   table as the model's MarshalDocument / UnmarshalDocument (field_value / field_set give the
   model's reading of a Go field path such as "Counters.Operations" = p_ops / set_ops). *)
From Coq Require Import String ZArith NArith List Bool.
From FV.Model Require Import Bytes Bson Events.
From FV.Proofs Require Import EventsProofs FactsProofs.
From FV.Generated Require Import PerfKeys.
Import ListNotations.
Local Open Scope string_scope.

(* the key tables the C14 model uses (Model/Events.v, the mk_ and uk_ definitions), with the field of the model's
   record each key is paired with in [marshal] and the four [unmarshal] functions *)
Definition model_marshal_keys : list kentry :=
  [ ([mk_ts], "Timestamp", 9%N); ([mk_id], "ID", 18%N);
    ([mk_counters], "Counters", 3%N);
    ([mk_counters; mk_n], "Counters.Number", 18%N); ([mk_counters; mk_ops], "Counters.Operations", 18%N);
    ([mk_counters; mk_size], "Counters.Size", 18%N); ([mk_counters; mk_errors], "Counters.Errors", 18%N);
    ([mk_timers], "Timers", 3%N);
    ([mk_timers; mk_dur], "Timers.Duration", 18%N); ([mk_timers; mk_total], "Timers.Total", 18%N);
    ([mk_gauges], "Gauges", 3%N);
    ([mk_gauges; mk_state], "Gauges.State", 18%N); ([mk_gauges; mk_workers], "Gauges.Workers", 18%N);
    ([mk_gauges; mk_failed], "Gauges.Failed", 8%N) ].

Definition model_unmarshal_keys : list kentry :=
  [ ([uk_ts], "Timestamp", 9%N); ([uk_id], "ID", 18%N);
    ([uk_counters], "Counters", 3%N);
    ([uk_counters; uk_n], "Counters.Number", 18%N); ([uk_counters; uk_ops], "Counters.Operations", 18%N);
    ([uk_counters; uk_size], "Counters.Size", 18%N); ([uk_counters; uk_errors], "Counters.Errors", 18%N);
    ([uk_timers], "Timers", 3%N);
    ([uk_timers; uk_dur], "Timers.Duration", 18%N); ([uk_timers; uk_total], "Timers.Total", 18%N);
    ([uk_gauges], "Gauges", 3%N);
    ([uk_gauges; uk_state], "Gauges.State", 18%N); ([uk_gauges; uk_workers], "Gauges.Workers", 18%N);
    ([uk_gauges; uk_failed], "Gauges.Failed", 8%N) ].

(* 1. keys_agree: every marshalled (path, field, type) has an unmarshal case with the same key
      assigning the same field through an accessor of the same type, and vice versa nothing extra
      is required; no key occurs twice at one level on either side *)
Theorem FactsKeys_keys_agree :
  (forall p f t, In (p, f, t) marshal_keys <-> In (p, f, t) unmarshal_keys) /\
  NoDup (map (fun e => fst (fst e)) marshal_keys) /\ NoDup (map (fun e => fst (fst e)) unmarshal_keys).
Proof. apply keys_agree_spec. vm_compute. reflexivity. Qed.
Print Assumptions FactsKeys_keys_agree.

(* 2. the bson struct tags (used by reflection-based (un)marshalling of the same structs) name the
      same fields by the same keys *)
Theorem FactsKeys_struct_tags_agree : forall p f,
  In (p, f) struct_tag_keys <-> exists t, In (p, f, t) marshal_keys.
Proof.
  assert (H : keys_agree_b (map (fun e => (fst e, snd e, 0%N)) struct_tag_keys)
                           (map (fun e => (fst (fst e), snd (fst e), 0%N)) marshal_keys) = true)
    by (vm_compute; reflexivity).
  apply keys_agree_spec in H. destruct H as [H _]. intros p f. split.
  - intros Hin. assert (Hm : In (p, f, 0%N) (map (fun e => (fst e, snd e, 0%N)) struct_tag_keys)).
    { apply in_map_iff. exists (p, f). split; [reflexivity | assumption]. }
    apply (proj1 (H p f 0%N)) in Hm. apply in_map_iff in Hm. destruct Hm as [[[p' f'] t] [He Hm]].
    cbn [fst snd] in He. inversion He; subst. now exists t.
  - intros [t Hin].
    assert (Hm : In (p, f, 0%N) (map (fun e => (fst (fst e), snd (fst e), 0%N)) marshal_keys)).
    { apply in_map_iff. exists (p, f, t). split; [reflexivity | assumption]. }
    apply (proj2 (H p f 0%N)) in Hm. apply in_map_iff in Hm. destruct Hm as [[p' f'] [He Hm]].
    cbn [fst snd] in He. inversion He; subst. assumption.
Qed.
Print Assumptions FactsKeys_struct_tags_agree.

(* 3. the key tables of the C14 model are literally the source's: the marshal table in the order
      written (the order of the elements is the order of the FTDC metrics), the unmarshal table as
      a set (the order of the cases of a switch over distinct keys is immaterial) *)
Theorem FactsKeys_model_tables_are_the_sources :
  marshal_keys = model_marshal_keys /\
  (forall e, In e unmarshal_keys <-> In e model_unmarshal_keys) /\
  NoDup (map (fun e => fst (fst e)) model_unmarshal_keys).
Proof.
  split; [vm_compute; reflexivity|].
  assert (H : keys_agree_b unmarshal_keys model_unmarshal_keys = true) by (vm_compute; reflexivity).
  apply keys_agree_spec in H. destruct H as [H [_ H2]]. split; [|exact H2].
  intros [[p f] t]. apply H.
Qed.
Print Assumptions FactsKeys_model_tables_are_the_sources.

(* 4. the model's MarshalDocument IS the source's table, interpreted: same keys, same nesting,
      same order, each key carrying the model's reading of the Go field, of the BSON type written *)
Theorem FactsKeys_marshal_is_source_table : forall p,
  marshal_from_table marshal_keys p = Some (marshal p).
Proof. intros p. vm_compute. reflexivity. Qed.
Print Assumptions FactsKeys_marshal_is_source_table.

(* 5. the model's four UnmarshalDocument functions ARE the source's case tables, interpreted, on
      EVERY document (any keys, any order, repeated keys, wrong types) *)
Lemma key_eqb_true : forall a b, key_eqb a b = true -> a = b.
Proof.
  induction a as [|x r IH]; destruct b as [|y s]; cbn; intros H; try reflexivity; try discriminate.
  apply andb_true_iff in H. destruct H as [H1 H2]. apply N.eqb_eq in H1. apply IH in H2. now subst.
Qed.

Ltac split_keys k :=
  repeat match goal with
         | |- context [key_eqb k ?c] =>
             let E := fresh "E" in destruct (key_eqb k c) eqn:E
         end;
  repeat match goal with
         | H : key_eqb k _ = true |- _ => apply key_eqb_true in H
         end;
  try (subst; discriminate).

Ltac same_arm IH v := destruct v; cbn; try reflexivity; try apply IH.

Lemma unmarshal_counters_tbl : forall d p,
  unmarshal_counters p d = unmarshal_sub (children [uk_counters] unmarshal_keys) p d.
Proof.
  set (cs := children [uk_counters] unmarshal_keys). vm_compute in cs. subst cs.
  unfold uk_n, uk_ops, uk_size, uk_errors.
  induction d as [|[k v] r IH]; intros p; [reflexivity|].
  cbn [unmarshal_counters unmarshal_sub find_case]. unfold uk_n, uk_ops, uk_size, uk_errors.
  split_keys k; try (same_arm IH v); try congruence.
Qed.

Lemma unmarshal_timers_tbl : forall d p,
  unmarshal_timers p d = unmarshal_sub (children [uk_timers] unmarshal_keys) p d.
Proof.
  set (cs := children [uk_timers] unmarshal_keys). vm_compute in cs. subst cs.
  induction d as [|[k v] r IH]; intros p; [reflexivity|].
  cbn [unmarshal_timers unmarshal_sub find_case]. unfold uk_dur, uk_total.
  split_keys k; try (same_arm IH v); try congruence.
Qed.

Lemma unmarshal_gauges_tbl : forall d p,
  unmarshal_gauges p d = unmarshal_sub (children [uk_gauges] unmarshal_keys) p d.
Proof.
  set (cs := children [uk_gauges] unmarshal_keys). vm_compute in cs. subst cs.
  induction d as [|[k v] r IH]; intros p; [reflexivity|].
  cbn [unmarshal_gauges unmarshal_sub find_case]. unfold uk_state, uk_workers, uk_failed.
  split_keys k; try (same_arm IH v); try congruence.
Qed.

Theorem FactsKeys_unmarshal_is_source_table : forall d p,
  unmarshal p d = unmarshal_from_table unmarshal_keys p d.
Proof.
  induction d as [|[k v] r IH]; intros p; [reflexivity|].
  cbn [unmarshal unmarshal_from_table].
  set (top := children [] unmarshal_keys). vm_compute in top. subst top.
  cbn [find_case]. unfold uk_ts, uk_id, uk_counters, uk_timers, uk_gauges.
  split_keys k; try congruence.
  all: cbn [N.eqb Pos.eqb].
  all: try (destruct v; cbn; try reflexivity; try apply IH).
  all: try (fold uk_counters; rewrite <- unmarshal_counters_tbl;
            match goal with |- context [unmarshal_counters ?p ?d] => destruct (unmarshal_counters p d) end;
            [apply IH | reflexivity]).
  all: try (fold uk_timers; rewrite <- unmarshal_timers_tbl;
            match goal with |- context [unmarshal_timers ?p ?d] => destruct (unmarshal_timers p d) end;
            [apply IH | reflexivity]).
  all: try (fold uk_gauges; rewrite <- unmarshal_gauges_tbl;
            match goal with |- context [unmarshal_gauges ?p ?d] => destruct (unmarshal_gauges p d) end;
            [apply IH | reflexivity]).
Qed.
Print Assumptions FactsKeys_unmarshal_is_source_table.

(* 6. hence the C14 round trip holds for the SOURCE's tables: whatever Performance is marshalled by
      the source's key table is read back, into any receiver, by the source's case tables *)
Theorem FactsKeys_roundtrip_over_source_tables : forall p q0,
  exists d, marshal_from_table marshal_keys p = Some d /\
            unmarshal_from_table unmarshal_keys q0 d = Some p.
Proof.
  intros p q0. exists (marshal p). split.
  - apply FactsKeys_marshal_is_source_table.
  - rewrite <- FactsKeys_unmarshal_is_source_table. apply marshal_roundtrip.
Qed.
Print Assumptions FactsKeys_roundtrip_over_source_tables.

(* the tables are not trivial: 14 entries, three sub-documents; and a document with a foreign key,
   a repeated key and the sub-documents out of order is read the same way by both *)
Example FactsKeys_example :
  length marshal_keys = 14%nat /\ length (children [] unmarshal_keys) = 5%nat /\
  let d := [ (uk_gauges, VDoc [(uk_failed, VBool true)]); ([120%N], VNull);
             (uk_id, VInt64 7%Z); (uk_id, VInt64 8%Z);
             (uk_counters, VDoc [(uk_ops, VInt64 3%Z); ([121%N], VInt64 1%Z)]) ] in
  unmarshal_from_table unmarshal_keys zero_perf d = Some (set_ops (set_id (set_failed zero_perf true) 8%Z) 3%Z).
Proof. split; [vm_compute; reflexivity|]. split; vm_compute; reflexivity. Qed.
