(* C04 — readers are total on arbitrary bytes: iteration terminates, no delivered
   chunk can make a view panic, a stream that is not a complete well-formed FTDC
   stream is reported, and what lies before the damage is delivered intact.
   Only the property theorems; the byte-level reader is Model/Frame.v (readBufBSON,
   readDiagnostic, readChunks as the consumer of ReadChunks observes them), the
   validator Model/Validate.v, statements Model/FrameOk.v, proofs
   Proofs/FrameValidate.v, Proofs/FrameProofs.v, Proofs/FrameStream.v.

   What is proved is a statement about the model for EVERY byte string.  That the
   model describes the Go readers on corrupt input is tied by the correspondence
   run of this check (every prefix, every single-byte edit of the outer stream
   and of the re-compressed payload, perturbed length/count fields, type
   confusion), in which a crash or hang of the implementation is an observation.
   Go runtime panics of the reader path are modelled as the partiality points of
   the model: [restore_doc] returning None (index out of range in
   metrics[idx].Values[sample]) and [matrix_doc] returning None. *)
From Coq Require Import ZArith NArith List Bool.
From FV.Model Require Import Bytes Bson Metrics Codec Collector Wf RoundTrip CollectorOk Validate Frame Views FrameOk.
From FV.Proofs Require Import CodecChunk FrameValidate FrameSound FrameProofs FrameStream.
Import ListNotations.
Open Scope Z_scope.

Section C04.
(* zlib is a parameter; the first four theorems hold for ANY inflate function *)
Variable inflate : bytes -> option bytes.
Notation limit := reader_limit.

(* termination: every iteration of readDiagnostic consumes at least five bytes, so
   the input length is enough fuel — more fuel never changes the result *)
Theorem C04_fuel : forall l k, read_docs_fuel (S (length l) + k) l = read_docs_fuel (S (length l)) l.
Proof. exact read_docs_fuel_enough. Qed.

(* for EVERY byte string: every chunk the reader delivers has one metric per leaf
   of its reference document, nPoints >= 1 values in each, so restoring any sample
   never runs out of values (structured view has no None), the matrix view exists
   (timestamp halves are paired), and the flat / structured views have nPoints
   documents *)
Theorem C04_no_panic : forall bs, Forall views_total (fst (read_stream inflate limit None bs)).
Proof. exact (no_panic inflate limit None). Qed.

(* cutting a stream of framed documents anywhere: exactly the documents lying
   wholly within the first k bytes are read, and the framing error is absent iff k
   is a document boundary (otherwise io.ErrUnexpectedEOF — also for a cut inside
   the four length bytes) *)
Theorem C04_truncation : forall ds k, Forall frame_ok ds -> (k <= length (enc_stream ds))%nat ->
  read_docs (firstn k (enc_stream ds)) =
  (firstn (within k (doc_lens ds)) ds, if at_boundary k (doc_lens ds) then None else Some FUnexpectedEof).
Proof. exact read_docs_truncated. Qed.

(* whatever follows a sequence of framed documents, they are read first, and the
   chunks delivered for the longer input extend those of the prefix (if the prefix
   itself contains a chunk that does not decode, nothing more is delivered) *)
Theorem C04_prefix_intact : forall good rest, Forall frame_ok good ->
  read_docs (enc_stream good ++ rest) = (good ++ fst (read_docs rest), snd (read_docs rest)) /\
  exists cs', fst (read_stream inflate limit None (enc_stream good ++ rest)) =
              fst (read_stream inflate limit None (enc_stream good)) ++ cs'.
Proof.
  intros good rest H. split; [apply prefix_intact_docs; exact H|apply prefix_intact_chunks; exact H].
Qed.

(* Err() is nil after Next() returned false exactly for the complete well-formed
   streams: concatenations of byte strings the validator accepts and the decoder
   reads, all of whose chunk documents decode; every other input is reported *)
Theorem C04_error_iff : forall bs,
  snd (read_stream inflate limit None bs) = false <-> stream_ok inflate bs.
Proof. exact (error_iff inflate). Qed.

Theorem C04_error_reported : forall bs, ~ stream_ok inflate bs -> snd (read_stream inflate limit None bs) = true.
Proof.
  intros bs H. destruct (snd (read_stream inflate limit None bs)) eqn:E; [reflexivity|].
  exfalso. apply H. apply (proj1 (error_iff inflate bs)). exact E.
Qed.

End C04.

(* which documents are framed: every representable document below 2 GiB
   (representable includes: no binary subtype in 0x06..0x7f, [value_ok]) — the
   validator accepts its canonical encoding and the decoder inverts it *)
Theorem C04_frame_ok : forall d,
  doc_ok d = true -> small (enc_doc d) ->
  validate (enc_doc d) = true /\ dec_doc (enc_doc d) = Some (d, []).
Proof. exact frame_ok_enc. Qed.

(* the validator accepts only what the strict decoder decodes (b a string of bytes,
   i.e. numbers below 256): readBufBSON's call of birch.ReadDocument after a
   successful validation cannot fail (FMalformed after validation is dead code) *)
Theorem C04_validate_sound : forall b, validate b = true -> wf_bytes b -> exists d, dec_doc b = Some (d, []).
Proof. exact validate_sound. Qed.

(* conversely: whatever the strict decoder reads as exactly one document (below
   2 GiB, binary subtypes outside 0x06..0x7f) the validator accepts — so readBufBSON
   rejects as malformed only what the decoder could not read, or what carries a
   binary subtype birch panics on *)
Theorem C04_validate_complete : forall b d,
  dec_doc b = Some (d, []) -> small b -> doc_bin_ok d = true -> validate b = true.
Proof. exact validate_complete. Qed.

(* the validator's fuel (nesting depth bounded by the length) suffices: more never
   changes the verdict; likewise the fuel of its element loop ([v_elems], the loop
   of validate_doc as unfolded by FrameValidate.validate_doc_S), each iteration of
   which consumes at least two bytes *)
Theorem C04_validate_fuel : forall b k, validate_doc (S (length b) + k) b = validate b.
Proof. exact validate_fuel_enough. Qed.

Theorem C04_validate_loop_fuel : forall f body k,
  v_elems f (S (length body) + k) body = v_elems f (S (length body)) body.
Proof. exact validate_inner_fuel_enough. Qed.

Section C04Bridge.
Variable deflate : bytes -> bytes.
Variable inflate : bytes -> option bytes.
Hypothesis inflate_deflate : forall p, inflate (deflate p) = Some p.
Hypothesis deflate_wf : forall p, wf_bytes (deflate p).

(* on a chunk document produced by the collectors (reference document representable,
   readable, within the reader's size limit) the byte-level readChunks is the
   document-level reader of Model/Codec.v used by C01–C11, so their round-trip
   theorems transfer *)
Theorem C04_bridge : forall meta s d0 ds,
  doc_ok d0 = true -> small (enc_doc d0) ->
  (N.of_nat (length (flatten_doc d0)) < 2 ^ 32)%N -> (N.of_nat (length ds) < 2 ^ 32)%N ->
  (N.of_nat (length ds) <= reader_limit)%N ->
  (N.of_nat (length (flatten_doc d0)) * N.of_nat (length ds) <= reader_limit)%N ->
  read_chunk_b inflate reader_limit None meta (group_chunk deflate s d0 ds) =
  read_chunk inflate meta (group_chunk deflate s d0 ds).
Proof. exact (bridge_chunk deflate inflate inflate_deflate reader_limit). Qed.

(* corollary: ReadChunks over the bytes written by a fault-free streaming history
   (any operations) delivers exactly the chunks of C07's emitted documents, no error *)
Theorem C04_bridge_stream : forall k n ops, streaming k = true -> 1 <= n < 2 ^ 31 -> ops_ok k ops ->
  Forall op_frame_ok ops -> ops_fit n ops ->
  let w := snd (c07_reach deflate k n ops) in
  Forall (fun d => small (enc_doc d)) (emitted w) ->
  exists cs, read_chunks inflate None (emitted w) = (cs, None) /\
             read_stream inflate reader_limit None (log_bytes w) = (cs, false).
Proof.
  intros k n ops Hk Hn Hok Hfr Hfit.
  exact (c09_whole_log deflate inflate inflate_deflate deflate_wf k n [] ops Hk Hn Hok Hfr Hfit (Forall_nil _)).
Qed.

End C04Bridge.

Print Assumptions C04_fuel.
Print Assumptions C04_no_panic.
Print Assumptions C04_truncation.
Print Assumptions C04_prefix_intact.
Print Assumptions C04_error_iff.
Print Assumptions C04_error_reported.
Print Assumptions C04_frame_ok.
Print Assumptions C04_validate_sound.
Print Assumptions C04_validate_complete.
Print Assumptions C04_validate_fuel.
Print Assumptions C04_validate_loop_fuel.
Print Assumptions C04_bridge.
Print Assumptions C04_bridge_stream.

(* non-vacuity: a three-document stream (metadata, a chunk, a document of another
   type with an array, a binary of subtype 0x80 and a code-with-scope) satisfies the
   hypotheses; a cut one byte into the second document yields the first document
   and an error, the five bytes ff ff ff ff 00 are reported, and a lone length word
   after a complete document is an error, not a clean end *)
Example C04_example :
  let inflate := (fun z : bytes => match z with b :: p => if (b =? 1)%N then Some p else None | [] => None end) in
  let d1 := [(k_id, VDateTime 5); (k_type, VInt32 0); (k_doc, VDoc [([109]%N, VString [120]%N)])] in
  let d2 := [(k_type, VInt32 7); ([97]%N, VArr [VBool true; VBinary 128 [1; 2]%N; VCodeWithScope [99]%N [([115]%N, VNull)]])] in
  Forall frame_ok [d1; d2] /\
  read_docs (firstn (length (enc_doc d1) + 1) (enc_stream [d1; d2])) = ([d1], Some FUnexpectedEof) /\
  read_stream inflate reader_limit None [255; 255; 255; 255; 0]%N = ([], true) /\
  read_stream inflate reader_limit None (enc_doc d1 ++ [12; 0; 0; 0]%N) = ([], true) /\
  read_stream inflate reader_limit None (enc_stream [d1; d2]) = ([], false).
Proof.
  intros inflate d1 d2. split.
  - repeat constructor; (apply frame_ok_enc; [reflexivity|unfold small; vm_compute; reflexivity]).
  - repeat split; vm_compute; reflexivity.
Qed.

(* ---- oracle = theorem: the executable oracle c04_ok of Model/FrameOk.v, which the
   driver ocaml/c04_run.ml evaluates on the implementation's observations of a damaged
   stream, accepts the model reader's own observation of it.  The situation of the check:
   a seed stream and a mutant agree on a prefix made of the framed documents [good] (whose
   chunk documents all decode: cs0); [m] = the number of chunk documents among them = the
   "chunks lying wholly before the first damaged byte" that checks/c04.py computes.  For
   ANY continuations [rest] (mutant) and [seed_rest] (seed), any inflate, size limit and
   evaluation cap: the model reader delivers cs0 as its first m chunks on both streams
   (the oracle's [intact]), delivers at least m chunks, and - all five reader entry points
   reporting the model's error flag, which is what the driver takes for [damaged] - the
   verdict is true.  Reflected form of C04_prefix_intact (proofs in
   Proofs/OracleSoundC04.v).  The content of [damaged] itself (error flag <-> not a
   complete well-formed stream) is C04_error_iff ---- *)
From FV.Model Require Import Instance.
From FV.Proofs Require OracleSoundC04.

Theorem C04_oracle_sound : forall (inflate : bytes -> option bytes) (limit : N) (cap : option N)
    good rest seed_rest cs0,
  Forall frame_ok good ->
  read_chunks_b inflate limit cap None good = (cs0, None) ->
  let m := length (filter OracleSoundC04.is_chunk_doc good) in
  let r := read_stream inflate limit cap (enc_stream good ++ rest) in
  let rs := read_stream inflate limit cap (enc_stream good ++ seed_rest) in
  firstn m (fst r) = cs0 /\ firstn m (fst rs) = cs0 /\
  c04_ok (snd r) (repeat (snd r) 5) m (length (fst r)) true = true.
Proof. exact OracleSoundC04.c04_oracle_sound. Qed.
Print Assumptions C04_oracle_sound.

(* the driver's [damaged] is the error flag of the byte-level model reader in its
   executable instance (trivial codec, limit reader_limit, evaluation cap delta_cap) *)
Theorem C04_damaged_is_error_flag : forall bs,
  fst (c04_damaged bs) = snd (read_stream inflate_flag reader_limit (Some delta_cap) bs).
Proof. exact OracleSoundC04.c04_damaged_spec. Qed.
Print Assumptions C04_damaged_is_error_flag.
