(* C03 — wire-format conformance in both directions.  Only the property theorems;
   the format specification is Spec/FtdcSpec.v (written from the description of the
   format, sharing only bytes and BSON values with the model of the library), the
   proofs are in Proofs/SpecProofs.v (and Proofs/CodecProofs.v for the collectors). *)
From Coq Require Import ZArith NArith List Bool.
From FV.Model Require Import Bytes Bson Metrics Codec Collector Wf RoundTrip.
From FV.Spec Require Import FtdcSpec.
From FV.Proofs Require Import CodecProofs SpecProofs.
Import ListNotations.
Open Scope Z_scope.

Section C03.
(* zlib is a parameter: any pair of functions with these properties *)
Variable deflate : bytes -> bytes.
Variable inflate : bytes -> option bytes.
Hypothesis inflate_deflate : forall p, inflate (deflate p) = Some p.
Hypothesis deflate_wf : forall p, wf_bytes (deflate p).

(* ---------------------------------------------------------------- the specification is self-consistent *)
(* Every stream of the specification's encoder decodes, with the specification's
   decoder, to exactly the chunks it was built from: for EVERY choice list (that is,
   every way of cutting the stretches of zeros into pairs, within a metric or across
   metric boundaries), every encoding of the type field as a BSON number, any
   metadata and unknown documents in between.  [item_wf]: the reference document is
   representable BSON below 2 GiB, every sample has one int64 per metric, the two
   counts and the payload length fit their uint32 fields. *)
Theorem C03_spec_roundtrip : forall items, Forall item_wf items ->
  spec_decode_stream inflate (spec_encode deflate items) = Some (item_tables items).
Proof. exact (spec_stream_roundtrip deflate inflate inflate_deflate). Qed.

(* the delta section alone: all legal run partitions decode to the same deltas *)
Theorem C03_runs_roundtrip : forall choice ds,
  Forall (fun d => (d < 2 ^ 64)%N) ds -> (N.of_nat (length ds) < 2 ^ 64)%N ->
  spec_expand (S (length (spec_encode_deltas choice ds))) (N.of_nat (length ds)) (spec_encode_deltas choice ds) = Some ds.
Proof. exact spec_expand_encode_deltas. Qed.

(* the canonical cutting (empty choice list) never writes two zero pairs in a row:
   every stretch of zeros, also one that crosses metric boundaries, is one pair *)
Theorem C03_canonical_maximal : forall f ds, maximal_runs (spec_tokens f [] ds) = true.
Proof. exact canonical_maximal. Qed.

(* ---------------------------------------------------------------- encode direction *)
(* the hypotheses of C01: one schema, keys and values representable, every document
   below BSON's 2 GiB limit, the metric count within the format's uint32 field *)
Definition inputs_ok (docs : list doc) (nows : list Z) : Prop :=
  docs <> [] /\ length nows = length docs /\ Forall (fun t => in_i64 t = true) nows /\
  same_schema docs /\
  Forall (fun d => doc_ok d = true /\ doc_leaves_ok d = true /\ small (enc_doc d)) docs /\
  (N.of_nat (length (flatten_doc (hd [] docs))) < 2 ^ 32)%N.

(* Every compressing collector kind, every chunk size, every same-schema document
   sequence: all Adds and the flush succeed and there is a partition of the inputs
   into consecutive non-empty groups such that the emitted outer documents are, one
   per group and in order, EXACTLY the specification's canonical chunk documents
   ([canon_of]: fields _id (a date), type (int32 1), data (binary subtype 0) in this
   order; length prefix = payload length; payload = reference document verbatim, the
   two counts, metric-major deltas with every stretch of zeros as one pair) -- no
   other documents.  Whenever the payloads are below 4 GiB the specification's
   independent decoder recovers from them exactly the metric vectors of the inputs
   ([group_table g] = the vectors of the documents of g, with the first document of
   g as reference).  No hypothesis about timestamps is needed in this direction. *)
Theorem C03_encode_canonical : forall k n docs nows,
  compressing k = true -> 1 <= n < 2 ^ 31 -> inputs_ok docs nows -> fits k n docs ->
  let res := emit deflate k n docs nows in
  snd res = map (fun _ => BAdd ROk) docs ++ [BFlush true] /\
  exists groups,
    concat groups = docs /\
    Forall2 (canon_of deflate) (emitted (snd (fst res))) groups /\
    (Forall group_small groups ->
     spec_decode_stream inflate (emitted (snd (fst res))) = Some (map group_table groups)).
Proof. exact (spec_encode_canonical deflate inflate inflate_deflate). Qed.

(* the bytes handed to the writer are the concatenation of the encodings of these
   documents and nothing else (no trailing bytes) *)
Theorem C03_encode_bytes : forall k n docs nows,
  compressing k = true -> 1 <= n < 2 ^ 31 -> inputs_ok docs nows -> fits k n docs ->
  let w := snd (fst (emit deflate k n docs nows)) in
  Forall (fun d => doc_ok d = true) (emitted w) /\
  (Forall (fun d => small (enc_doc d)) (emitted w) -> dec_docs (log_bytes w) = Some (emitted w)).
Proof. exact (codec_bytes deflate deflate_wf). Qed.

(* ---------------------------------------------------------------- decode direction *)
(* The model of the library's reader accepts EVERY stream the specification accepts
   ([spec_stream ds ts]: the specification's decoder reads the outer documents ds as
   the chunks ts), including the forms the library's encoder never produces: zero
   stretches cut into several pairs, pairs crossing metric boundaries, documents of
   unknown type, a type field given as int64 or double, metadata in between.  It
   reports no error and delivers, chunk by chunk, exactly the specified samples and
   reference document.  In scope ([ref_in_scope]): reference documents whose date
   leaves lie in the range Go expresses in nanoseconds and which hold no timestamp
   with non-zero seconds (the class of the known finding D1). *)
Theorem C03_decode_complete : forall ds ts,
  spec_stream inflate ds ts -> Forall (fun t => ref_in_scope (snd t)) ts ->
  exists cs, read_chunks inflate None ds = (cs, None) /\
             map (fun c => (chunk_samples c, ck_ref c)) cs = ts.
Proof. exact (spec_decode_complete_unbounded inflate). Qed.

(* the same for a reader that refuses chunks of more than [cap] values (the library:
   2^27), for streams whose chunks stay within that bound *)
Theorem C03_decode_complete_bounded : forall cap ds ts,
  spec_stream inflate ds ts ->
  Forall (fun t => ref_in_scope (snd t) /\ cap_allows cap t) ts ->
  forall meta, exists cs,
    read_chunks_gen inflate cap meta ds = (cs, None) /\
    map (fun c => (chunk_samples c, ck_ref c)) cs = ts.
Proof. exact (spec_decode_complete inflate). Qed.

End C03.

Print Assumptions C03_spec_roundtrip.
Print Assumptions C03_runs_roundtrip.
Print Assumptions C03_canonical_maximal.
Print Assumptions C03_encode_canonical.
Print Assumptions C03_encode_bytes.
Print Assumptions C03_decode_complete.
Print Assumptions C03_decode_complete_bounded.

(* ---------------------------------------------------------------- a stream the library's encoder never emits *)
(* metadata with an int64 type, an unknown document, and a chunk whose type is the
   double 1.0: metric a has the deltas 5 0 0 0, metric c the deltas 0 0 0 7; the
   choice list [0] cuts the stretch of six zeros into a pair of one zero and a pair
   of five zeros, and the second pair crosses from metric a into metric c *)
Example C03_split_run_crossing_boundary :
  Forall item_wf ex_items /\
  spec_encode_deltas [0%N] (spec_deltas 2 (spec_metrics_doc ex_ref :: ex_rest)) = [5; 0; 0; 0; 4; 7]%N /\
  canonical_payload ex_ref ex_rest <> spec_payload [0%N] ex_ref ex_rest /\
  spec_stream triv_inflate (spec_encode triv_deflate ex_items)
              [([[10; 3]; [15; 3]; [15; 3]; [15; 3]; [15; 10]], ex_ref)] /\
  (let '(cs, e) := read_chunks triv_inflate None (spec_encode triv_deflate ex_items) in
   (map (fun c => (chunk_samples c, ck_ref c)) cs, e))
  = ([([[10; 3]; [15; 3]; [15; 3]; [15; 3]; [15; 10]], ex_ref)], None).
Proof. exact spec_example. Qed.

(* the hypotheses of the encode direction are satisfiable by a non-trivial history *)
Example C03_example :
  let d1 := [([97]%N, VInt64 (2 ^ 63 - 1)); ([98]%N, VDoc [([99]%N, VArr [VBool true; VString [120]%N; VDouble (- 2 ^ 63)])])] in
  let d2 := [([97]%N, VInt64 (- 2 ^ 63)); ([98]%N, VDoc [([99]%N, VArr [VBool false; VString [121]%N; VDouble 0])])] in
  inputs_ok [d1; d2] [0; 0] /\ Forall (fun d => doc_has_ts_seconds d = false) [d1; d2].
Proof. exact codec_example. Qed.

(* ---- oracle = theorem (encode direction): the executable oracle c03_encode_verdict of
   Spec/FtdcSpec.v, which the driver ocaml/c03_run.ml evaluates on the outer documents the
   implementation emitted (zlib replaced by the trivial codec triv_deflate / triv_inflate
   the oracle runs with), answers COk on what the MODEL of the collectors emits, for every
   input satisfying the hypotheses of C03_encode_canonical, whenever the payloads of the
   partition of that theorem stay below 4 GiB (the hypothesis under which the
   specification's decoder is claimed to read them): decodable, every header exact,
   recovered samples = metric vectors of the inputs, reference samples verbatim, payloads
   and length prefixes canonical (proofs in Proofs/OracleSoundC03.v).  The decode
   direction has no boolean oracle: the driver compares the readers' observations with
   table_columns / table_docs of the specification's own decoding, which is the statement
   of C03_decode_complete itself ---- *)
From FV.Proofs Require OracleSoundC03.

(* the trivial codec is a zlib in the sense of the section above *)
Theorem C03_triv_codec : forall p, triv_inflate (triv_deflate p) = Some p.
Proof. exact OracleSoundC03.triv_inflate_deflate. Qed.
Print Assumptions C03_triv_codec.

Theorem C03_oracle_sound : forall k n docs nows,
  compressing k = true -> 1 <= n < 2 ^ 31 -> inputs_ok docs nows -> fits k n docs ->
  let ds := emitted (snd (fst (emit triv_deflate k n docs nows))) in
  exists groups,
    concat groups = docs /\ Forall2 (canon_of triv_deflate) ds groups /\
    (Forall group_small groups ->
     x_spec_decode_stream ds = Some (map group_table groups) /\
     c03_encode_verdict docs ds = COk /\ c03_encode_ok docs ds = true).
Proof. exact OracleSoundC03.c03_oracle_sound. Qed.
Print Assumptions C03_oracle_sound.

(* ---- the samples AS DOCUMENTS: c03_encode_verdict compares metric vectors and the first
   sample of each chunk; the additional oracle c03_encode_docs_ok reads every sample of the
   specification's own decoding back as a document (table_docs: the reference document of
   its chunk filled with its values, non-metric leaves removed) and compares with the
   inputs treated likewise (self_fill), so a sample filed under a chunk whose reference
   document has other key names and as many metrics is refused
   (OracleSoundC03Docs.docs_oracle_sensitive).  It too answers true on what the MODEL emits,
   under the hypotheses of C03_oracle_sound: documents of one schema are filled alike
   (OracleSoundC03Docs.spec_fill_doc_same_skeleton) ---- *)
From FV.Proofs Require OracleSoundC03Docs.

Theorem C03_oracle_docs_sound : forall k n docs nows,
  compressing k = true -> 1 <= n < 2 ^ 31 -> inputs_ok docs nows -> fits k n docs ->
  let ds := emitted (snd (fst (emit triv_deflate k n docs nows))) in
  exists groups,
    concat groups = docs /\ Forall2 (canon_of triv_deflate) ds groups /\
    (Forall group_small groups -> c03_encode_docs_ok docs ds = true).
Proof. exact OracleSoundC03Docs.c03_oracle_docs_sound. Qed.
Print Assumptions C03_oracle_docs_sound.
