(* C20 - Genny translation: one sample per second of the workload span, one
   sub-document per actor, every value is zero or the actor's own data selected
   at the first sample of a new second, cursors never move backwards, output
   chunks of at most 300 samples, GetGennyTime = ceiling seconds.
   Only the property theorems; each is closed by [exact] of a lemma from
   Proofs/GennyProofs.v and followed by Print Assumptions.  The vocabulary
   (pos_le, first_new_second, own, selection_rule, has_chunks, keys_ok,
   stamps_in_range, states_after, chunk_last_ts) is defined at the top of
   Proofs/GennyProofs.v.

   Hypotheses used:
     has_chunks actors  - every actor's stream has >= 1 chunk (an empty stream makes
                          translateAtNextWindow dereference a nil chunk: the model's
                          outcome None; see C20_example_panic)
     keys_ok actors     - every sample carries at least one of the eight selected keys
                          (otherwise translateMetrics returns a nil slice, which the
                          loop treats as "nothing found"; only C20_selected_first
                          needs it)
     stamps_in_range    - 1000 * second fits int64 *)
From Coq Require Import ZArith List.
From FV.Model Require Import Genny.
From FV.Proofs Require Import GennyProofs.
Import ListNotations.
Open Scope Z_scope.

(* 1. exactly end - start samples; the i-th carries start stamp 1000*(start+i) *)
Theorem C20_count : forall actors start end_,
  actors <> [] -> has_chunks actors -> start < end_ -> stamps_in_range start end_ ->
  exists out, translate_span actors start end_ = Some out /\
    map fst out = map (fun i => 1000 * (start + Z.of_nat i)) (seq 0 (Z.to_nat (end_ - start))).
Proof. exact genny_count. Qed.
Print Assumptions C20_count.

(* 2. every sample holds one sub-document per actor, in input order, under the
      actor's name *)
Theorem C20_shape : forall actors start end_,
  has_chunks actors ->
  exists out, translate_span actors start end_ = Some out /\
    Forall (fun o => map fst (snd o) = map a_name actors) out.
Proof. exact genny_shape. Qed.
Print Assumptions C20_shape.

(* 3. every sub-document is the all-zero sample or the translation of one of
      that actor's own samples *)
Theorem C20_own_data : forall actors start end_,
  has_chunks actors ->
  exists out, translate_span actors start end_ = Some out /\
    Forall (fun o => Forall2 (fun a nv => snd nv = zeroed \/ own (a_chunks a) (snd nv)) actors (snd o)) out.
Proof. exact genny_own_data. Qed.
Print Assumptions C20_own_data.

(* 4. second number n (cursors cs before, cs' after, sub-documents vs = the n-th
      output sample): each actor either repeats its previous sub-document
      (initially the zero sample) or - only when its gate t >= prevSecond is open -
      takes the first sample at or after its cursor whose ceiling second differs
      from the previously selected second (initially 0); that sample's position
      and second become the cursor *)
Theorem C20_selected_first : forall actors start n cs,
  has_chunks actors -> keys_ok actors ->
  states_after actors start n = Some cs ->
  exists cs' vs,
    step_all (start + Z.of_nat n) cs = Some (cs', vs) /\
    states_after actors start (S n) = Some cs' /\
    (forall j a nc nc' nv,
       nth_error actors j = Some a -> nth_error cs j = Some nc ->
       nth_error cs' j = Some nc' -> nth_error vs j = Some nv ->
       selection_rule (a_chunks a) (start + Z.of_nat n) (snd nc) (snd nc') (snd nv)) /\
    (forall end_ out, actors <> [] -> translate_span actors start end_ = Some out ->
       (n < Z.to_nat (end_ - start))%nat ->
       nth_error out n = Some (stamp_ms (start + Z.of_nat n), vs)).
Proof. exact genny_selected_first. Qed.
Print Assumptions C20_selected_first.

(* 5. the cursor positions (chunk, index) never move backwards over time *)
Theorem C20_monotone : forall actors start n m cs cs',
  has_chunks actors -> (n <= m)%nat ->
  states_after actors start n = Some cs -> states_after actors start m = Some cs' ->
  Forall2 (fun nc nc' => pos_le (c_pos (snd nc)) (c_pos (snd nc'))) cs cs'.
Proof. exact genny_monotone. Qed.
Print Assumptions C20_monotone.

(* 6. the streaming collector cuts the output into chunks of 1..300 samples,
      in order, and every chunk but the last has exactly 300 *)
Theorem C20_chunks : forall out,
  concat (output_chunks out) = out /\
  Forall (fun c => (1 <= length c <= 300)%nat) (output_chunks out) /\
  (forall pre lastc, output_chunks out = pre ++ [lastc] -> Forall (fun c => length c = 300%nat) pre).
Proof. exact genny_chunks. Qed.
Print Assumptions C20_chunks.

(* 7. GetGennyTime on a stream s0 :: ... (StartTime initially 0, first second not
      0): StartTime = ceil second of the first timestamp, EndTime = ceil second of
      the maximum of 0 and the chunks' last timestamps - which is the stream's
      last timestamp L whenever L >= 0 bounds all chunk-last timestamps *)
Theorem C20_time : forall a s0 c0 rest,
  a_start a = 0 -> a_chunks a = (s0 :: c0) :: rest ->
  Forall (fun ch => ch <> []) (a_chunks a) -> ceil_sec (fst s0) <> 0 ->
  get_genny_time a =
    Some (ceil_sec (fst s0), ceil_sec (fold_left Z.max (map chunk_last_ts (a_chunks a)) 0)) /\
  (forall L, 0 <= L -> In L (map chunk_last_ts (a_chunks a)) ->
             (forall x, In x (map chunk_last_ts (a_chunks a)) -> x <= L) ->
             get_genny_time a = Some (ceil_sec (fst s0), ceil_sec L)).
Proof. exact genny_time. Qed.
Print Assumptions C20_time.

(* ---- non-vacuity: two actors; "a" (id 1) has two chunks with a 3-second gap and
   two samples in one second, "b" (id 2) starts two seconds later.  Rows carry
   ts (key 8), id (9), the eight selected keys and gauges.state (10). *)
Definition row (ts v : Z) : sample :=
  (ts, [(8, ts); (9, v); (0, v); (1, 2 * v); (2, 3 * v); (3, 0); (4, 5 * v); (5, 6 * v); (10, 7); (6, 4); (7, 0)]).
Definition ex_a : actor := mkActor 1 10 15 [[row 9001 1; row 9500 2; row 10200 3]; [row 13900 4]; [row 14100 5]].
Definition ex_b : actor := mkActor 2 12 14 [[row 11500 1; row 12001 2; row 13000 3]].
Definition sub (v : Z) : vals := [(0, v); (1, 2 * v); (2, 3 * v); (3, 0); (4, 5 * v); (5, 6 * v); (6, 4); (7, 0)].

Example C20_example :
  has_chunks [ex_a; ex_b] /\ keys_ok [ex_a; ex_b] /\ stamps_in_range 10 15 /\
  translate [ex_a; ex_b] =
    Some [ (10000, [(1, sub 1); (2, sub 1)]);     (* a: 9001 -> second 10;  b: 11500 -> second 12 *)
           (11000, [(1, sub 3); (2, sub 1)]);     (* a: first sample of second 11; b waits for 12 *)
           (12000, [(1, sub 4); (2, sub 2)]);     (* a jumps the gap: second 14;   b: 12001 -> 13 *)
           (13000, [(1, sub 4); (2, sub 2)]);     (* both gated *)
           (14000, [(1, sub 5); (2, sub 2)]) ] /\ (* a: 14100 -> second 15; b: nothing new (13000 is second 13) *)
  get_genny_time (mkActor 1 0 0 (a_chunks ex_a)) = Some (10, 15).
Proof.
  split; [|split; [|split; [|split]]].
  - repeat constructor; discriminate.
  - repeat constructor; intros ch s Hc Hs; simpl in Hc;
      repeat (destruct Hc as [Hc|Hc]; [subst ch; simpl in Hs;
        repeat (destruct Hs as [Hs|Hs]; [subst s; vm_compute; discriminate|]); destruct Hs|]); destruct Hc.
  - unfold stamps_in_range. split; vm_compute; congruence.
  - vm_compute. reflexivity.
  - vm_compute. reflexivity.
Qed.

(* an actor whose stream has no chunk makes the translation panic *)
Example C20_example_panic : translate [mkActor 1 10 12 []] = None.
Proof. vm_compute. reflexivity. Qed.

(* ---- oracle = theorem: the executable oracles of Model/GennyOk.v, which the
   correspondence check evaluates on the implementation's observations, accept the
   model's own observations (model_out / model_chunk_sizes / model_time, exactly what
   the driver ocaml/c20_run.ml recomputes) for EVERY input that satisfies the
   hypotheses of theorems 1-7 (proofs in Proofs/OracleSoundC20.v) ---- *)
From FV.Model Require Import GennyOk.
From FV.Proofs Require OracleSoundC20.

(* 8. the translation: c20_ok_count (reflected theorem 1, also for an empty span and
      for no actors), c20_ok_shape (theorem 2), c20_ok_own (theorems 3-5 restated on the
      flattened stream: the model's cursor run is one of the readings the oracle
      follows) and their conjunction c20_ok_out.  keys_ok is needed by c20_ok_own only
      (as for theorem 4), stamps_in_range by c20_ok_count only (as for theorem 1) *)
Theorem C20_oracle_out_sound : forall actors out,
  has_chunks actors -> keys_ok actors ->
  stamps_in_range (workload_start actors) (workload_end actors) ->
  model_out actors = Some out ->
  c20_ok_count actors (workload_start actors) (workload_end actors) out = true /\
  c20_ok_shape actors out = true /\ c20_ok_own actors out = true /\ c20_ok_out actors out = true.
Proof. exact OracleSoundC20.c20_oracle_out_sound. Qed.
Print Assumptions C20_oracle_out_sound.

(* 9. the model's observation exists whenever every stream has a chunk *)
Theorem C20_model_out_defined : forall actors,
  has_chunks actors -> exists out, model_out actors = Some out.
Proof. exact OracleSoundC20.c20_model_out_defined. Qed.
Print Assumptions C20_model_out_defined.

(* 10. c20_ok_chunks is the reflected form of theorem 6 *)
Theorem C20_oracle_chunks_sound : forall out,
  c20_ok_chunks (model_chunk_sizes out) (Z.of_nat (length out)) = true.
Proof. exact OracleSoundC20.c20_oracle_chunks_sound. Qed.
Print Assumptions C20_oracle_chunks_sound.

(* 11. c20_ok_time is the reflected form of theorem 7 on its stated domain
       (time_domain: first timestamp after the epoch, timestamps non-decreasing,
       no empty chunk); inside the domain the model's GetGennyTime returns *)
Theorem C20_oracle_time_sound : forall a,
  (time_domain a = true -> exists st en, model_time a = Some (st, en)) /\
  (forall st en, model_time a = Some (st, en) -> c20_ok_time a st en = true).
Proof. exact OracleSoundC20.c20_oracle_time_sound. Qed.
Print Assumptions C20_oracle_time_sound.

(* ------------------------------------------------------------------------------
   END TO END (C20 o streaming collector o reader).  Model/Genny.v carries
   TranslateGenny's output as [out_sample]s and mirrors NewStreamingCollector(300)
   only by count ([output_chunks], theorem 6).  Here the output goes, as BSON
   documents, through the streaming collector of Model/Collector.v (the model of
   C01/C07/C08, kind KStream, chunk size 300, wrapped better-collector, zlib as a
   parameter) and through the FTDC reader of Model/Codec.v.
   Vocabulary (Proofs/ComposeGenny.v; every name below is written qualified so that
   the unqualified names of this file stay Genny's):
     CodecProofs.emits deflate n w groups   (theorem 12, as in the proof of C01) the writer
                            saw only complete FTDC writes and its outer documents are the
                            chunk documents (type 1, reference document + compressed delta
                            rows: CodecChunk.is_chunk) of the groups, one each, in order
     genny_doc name_of o    the document {cedar: {start: Date(fst o), <name_of actor>:
                            {n, ops, size, errors, dur, total, workers, failed: int64
                            as present}, ...}} that t2.go builds (keys checked against
                            their spelling by ComposeGenny.genny_keys_spelled)
     name_of : Z -> bytes   the actor names (ids in the model), a parameter; nothing is
                            assumed of it except [names_ok]: the names of the actors at
                            hand are BSON keys (no NUL byte) - not even distinctness
     reads_back name_of inflate outer out :=
        ReadChunks over the emitted outer documents returns chunks cs without an error,
        cs and output_chunks out correspond one to one: each chunk has as many samples
        as its group and its StructuredIterator yields exactly the documents of the
        group; and ReadStructuredMetrics yields map genny_doc out without an error
        (all leaves are metrics: nothing is stripped)
   Hypotheses, each needed:
     perf_streams actors   every sample of every actor carries exactly the eight selected
                           keys in createZeroedMetrics' order with int64 values (streams
                           written by the event collectors, cf. C14): then the zero
                           sample and every later selection have the same keys, i.e.
                           all output documents share ONE schema; with a schema change
                           the better-collector refuses the Add (log.Fatal in t2.go)
     names_fit actors      32 + sum (|name| + 122) < 2^31: the output document is below
                           BSON's 2 GiB limit (the exact encoded size)
     dates_in_range        -9223372036 <= start, end <= 9223372037: 1000 * second is a
                           date inside the nanosecond range of time.Time for every second
                           of the span (outside it a date metric does not survive the
                           codec, see C01's date_ok); implies stamps_in_range
     one clock reading per Add (nows); zlib: inflate (deflate p) = Some p *)
From FV.Model Require Bytes Bson Metrics Codec Collector Wf RoundTrip.
From FV.Proofs Require ComposeGenny.

Section C20_end_to_end.
Variable name_of : Z -> Bytes.bytes.
Variable deflate : Bytes.bytes -> Bytes.bytes.
Variable inflate : Bytes.bytes -> option Bytes.bytes.
Hypothesis inflate_deflate : forall p, inflate (deflate p) = Some p.

(* 12. the streaming collector of Model/Collector.v cuts ANY same-schema sequence of
       well-formed documents exactly as Model/Genny.v's stream_collect does: every
       Add and the final flush succeed and the chunk documents written are those of
       the groups stream_collect n [] docs, one each, in order *)
Theorem C20_streaming_collector_groups : forall n sk docs nows,
  1 <= n -> docs <> [] -> length nows = length docs ->
  Forall (fun t => Bytes.in_i64 t = true) nows ->
  Forall (fun d => Metrics.skeleton_doc d = sk /\ Bson.doc_ok d = true) docs ->
  exists c w,
    RoundTrip.emit deflate Collector.KStream n docs nows =
      ((c, w), map (fun _ => Collector.BAdd Collector.ROk) docs ++ [Collector.BFlush true]) /\
    CodecProofs.emits deflate n w (stream_collect (Z.to_nat n) [] docs).
Proof. exact (ComposeGenny.stream_emit_groups deflate). Qed.

(* 13. any output sequence whose samples have one key structure [sh] throughout *)
Theorem C20_output_roundtrip : forall out sh nows,
  out <> [] -> Forall (fun o => ComposeGenny.shape o = sh) out ->
  Forall (ComposeGenny.out_ok name_of) out ->
  (N.of_nat (ComposeGenny.doc_bytes name_of sh) < 2 ^ 31)%N ->
  length nows = length out -> Forall (fun t => Bytes.in_i64 t = true) nows ->
  let res := RoundTrip.emit deflate Collector.KStream 300 (map (ComposeGenny.genny_doc name_of) out) nows in
  snd res = map (fun _ => Collector.BAdd Collector.ROk) out ++ [Collector.BFlush true] /\
  ComposeGenny.reads_back name_of inflate (RoundTrip.emitted (snd (fst res))) out.
Proof. exact (ComposeGenny.genny_stream_roundtrip name_of deflate inflate inflate_deflate). Qed.

(* 14. TranslateGenny end to end: the translation is defined, has one sample per
       second, every collector.Add and FlushCollector succeed, and reading the
       written stream back gives exactly the translated samples, in chunks of exactly
       the sizes of output_chunks (theorem 6: 300, ..., 300, rest) *)
Theorem C20_end_to_end : forall actors start end_,
  actors <> [] -> has_chunks actors ->
  ComposeGenny.perf_streams actors -> ComposeGenny.names_ok name_of actors -> ComposeGenny.names_fit name_of actors ->
  start < end_ -> ComposeGenny.dates_in_range start end_ ->
  exists out, translate_span actors start end_ = Some out /\
    length out = Z.to_nat (end_ - start) /\
    forall nows, length nows = length out -> Forall (fun t => Bytes.in_i64 t = true) nows ->
      let res := RoundTrip.emit deflate Collector.KStream 300 (map (ComposeGenny.genny_doc name_of) out) nows in
      snd res = map (fun _ => Collector.BAdd Collector.ROk) out ++ [Collector.BFlush true] /\
      ComposeGenny.reads_back name_of inflate (RoundTrip.emitted (snd (fst res))) out.
Proof. exact (ComposeGenny.genny_end_to_end name_of deflate inflate inflate_deflate). Qed.

(* the same for TranslateGenny's own bounds *)
Theorem C20_end_to_end_translate : forall actors,
  actors <> [] -> has_chunks actors ->
  ComposeGenny.perf_streams actors -> ComposeGenny.names_ok name_of actors -> ComposeGenny.names_fit name_of actors ->
  workload_start actors < workload_end actors ->
  ComposeGenny.dates_in_range (workload_start actors) (workload_end actors) ->
  exists out, translate actors = Some out /\
    length out = Z.to_nat (workload_end actors - workload_start actors) /\
    forall nows, length nows = length out -> Forall (fun t => Bytes.in_i64 t = true) nows ->
      let res := RoundTrip.emit deflate Collector.KStream 300 (map (ComposeGenny.genny_doc name_of) out) nows in
      snd res = map (fun _ => Collector.BAdd Collector.ROk) out ++ [Collector.BFlush true] /\
      ComposeGenny.reads_back name_of inflate (RoundTrip.emitted (snd (fst res))) out.
Proof.
  exact (fun actors => ComposeGenny.genny_end_to_end name_of deflate inflate inflate_deflate
                         actors (workload_start actors) (workload_end actors)).
Qed.

End C20_end_to_end.

Print Assumptions C20_streaming_collector_groups.
Print Assumptions C20_output_roundtrip.
Print Assumptions C20_end_to_end.
Print Assumptions C20_end_to_end_translate.

(* non-vacuity: the two actors of C20_example carry all eight keys in every sample;
   with one-letter names "a", "b" the hypotheses of C20_end_to_end hold on [10, 15) *)
Example C20_end_to_end_example :
  let name_of := (fun i : Z => [N.of_nat (Z.to_nat (96 + i))]) in
  [ex_a; ex_b] <> [] /\ has_chunks [ex_a; ex_b] /\ ComposeGenny.perf_streams [ex_a; ex_b] /\
  ComposeGenny.names_ok name_of [ex_a; ex_b] /\ ComposeGenny.names_fit name_of [ex_a; ex_b] /\
  workload_start [ex_a; ex_b] < workload_end [ex_a; ex_b] /\
  ComposeGenny.dates_in_range (workload_start [ex_a; ex_b]) (workload_end [ex_a; ex_b]) /\
  ComposeGenny.genny_doc name_of (10000, [(1, sub 1); (2, sub 1)]) =
    [ ([99; 101; 100; 97; 114]%N,
       Bson.VDoc [ ([115; 116; 97; 114; 116]%N, Bson.VDateTime 10000);
                   ([97]%N, Bson.VDoc [ ([110]%N, Bson.VInt64 1); ([111; 112; 115]%N, Bson.VInt64 2);
                                        ([115; 105; 122; 101]%N, Bson.VInt64 3);
                                        ([101; 114; 114; 111; 114; 115]%N, Bson.VInt64 0);
                                        ([100; 117; 114]%N, Bson.VInt64 5); ([116; 111; 116; 97; 108]%N, Bson.VInt64 6);
                                        ([119; 111; 114; 107; 101; 114; 115]%N, Bson.VInt64 4);
                                        ([102; 97; 105; 108; 101; 100]%N, Bson.VInt64 0) ]);
                   ([98]%N, Bson.VDoc [ ([110]%N, Bson.VInt64 1); ([111; 112; 115]%N, Bson.VInt64 2);
                                        ([115; 105; 122; 101]%N, Bson.VInt64 3);
                                        ([101; 114; 114; 111; 114; 115]%N, Bson.VInt64 0);
                                        ([100; 117; 114]%N, Bson.VInt64 5); ([116; 111; 116; 97; 108]%N, Bson.VInt64 6);
                                        ([119; 111; 114; 107; 101; 114; 115]%N, Bson.VInt64 4);
                                        ([102; 97; 105; 108; 101; 100]%N, Bson.VInt64 0) ]) ]) ].
Proof.
  cbv zeta. split; [discriminate|]. split; [repeat constructor; discriminate|].
  split.
  { apply Forall_cons; [|apply Forall_cons; [|apply Forall_nil]]; intros ch s Hc Hs; simpl in Hc;
      repeat (destruct Hc as [Hc|Hc]; [subst ch; simpl in Hs;
        repeat (destruct Hs as [Hs|Hs]; [subst s; split; [reflexivity|repeat constructor]|]); destruct Hs|]); destruct Hc. }
  split; [repeat constructor|]. split; [vm_compute; reflexivity|]. split; [vm_compute; reflexivity|].
  split; [split; vm_compute; congruence|]. vm_compute. reflexivity.
Qed.
