(* C20 - Genny translation: one sample per second of the workload span, one
   sub-document per actor, every value is zero or the actor's own data selected
   at the first sample of a new second, cursors never move backwards, output
   chunks of at most 300 samples, GetGennyTime = ceiling seconds.
   Only the property theorems; each is closed by [exact] of a lemma from
   Proofs/GennyProofs.v and followed by Print Assumptions.  The vocabulary
   (pos_le, first_new_second, own, selection_rule, has_chunks, keys_ok,
   stamps_in_range, states_after, chunk_last_ts) is defined at the top of
   Proofs/GennyProofs.v.

   Hypotheses used:
     has_chunks actors  - every actor's stream has >= 1 chunk (an empty stream makes
                          translateAtNextWindow dereference a nil chunk: the model's
                          outcome None; see C20_example_panic)
     keys_ok actors     - every sample carries at least one of the eight selected keys
                          (otherwise translateMetrics returns a nil slice, which the
                          loop treats as "nothing found"; only C20_selected_first
                          needs it)
     stamps_in_range    - 1000 * second fits int64 *)
From Coq Require Import ZArith List.
From FV.Model Require Import Genny.
From FV.Proofs Require Import GennyProofs.
Import ListNotations.
Open Scope Z_scope.

(* 1. exactly end - start samples; the i-th carries start stamp 1000*(start+i) *)
Theorem C20_count : forall actors start end_,
  actors <> [] -> has_chunks actors -> start < end_ -> stamps_in_range start end_ ->
  exists out, translate_span actors start end_ = Some out /\
    map fst out = map (fun i => 1000 * (start + Z.of_nat i)) (seq 0 (Z.to_nat (end_ - start))).
Proof. exact genny_count. Qed.
Print Assumptions C20_count.

(* 2. every sample holds one sub-document per actor, in input order, under the
      actor's name *)
Theorem C20_shape : forall actors start end_,
  has_chunks actors ->
  exists out, translate_span actors start end_ = Some out /\
    Forall (fun o => map fst (snd o) = map a_name actors) out.
Proof. exact genny_shape. Qed.
Print Assumptions C20_shape.

(* 3. every sub-document is the all-zero sample or the translation of one of
      that actor's own samples *)
Theorem C20_own_data : forall actors start end_,
  has_chunks actors ->
  exists out, translate_span actors start end_ = Some out /\
    Forall (fun o => Forall2 (fun a nv => snd nv = zeroed \/ own (a_chunks a) (snd nv)) actors (snd o)) out.
Proof. exact genny_own_data. Qed.
Print Assumptions C20_own_data.

(* 4. second number n (cursors cs before, cs' after, sub-documents vs = the n-th
      output sample): each actor either repeats its previous sub-document
      (initially the zero sample) or - only when its gate t >= prevSecond is open -
      takes the first sample at or after its cursor whose ceiling second differs
      from the previously selected second (initially 0); that sample's position
      and second become the cursor *)
Theorem C20_selected_first : forall actors start n cs,
  has_chunks actors -> keys_ok actors ->
  states_after actors start n = Some cs ->
  exists cs' vs,
    step_all (start + Z.of_nat n) cs = Some (cs', vs) /\
    states_after actors start (S n) = Some cs' /\
    (forall j a nc nc' nv,
       nth_error actors j = Some a -> nth_error cs j = Some nc ->
       nth_error cs' j = Some nc' -> nth_error vs j = Some nv ->
       selection_rule (a_chunks a) (start + Z.of_nat n) (snd nc) (snd nc') (snd nv)) /\
    (forall end_ out, actors <> [] -> translate_span actors start end_ = Some out ->
       (n < Z.to_nat (end_ - start))%nat ->
       nth_error out n = Some (stamp_ms (start + Z.of_nat n), vs)).
Proof. exact genny_selected_first. Qed.
Print Assumptions C20_selected_first.

(* 5. the cursor positions (chunk, index) never move backwards over time *)
Theorem C20_monotone : forall actors start n m cs cs',
  has_chunks actors -> (n <= m)%nat ->
  states_after actors start n = Some cs -> states_after actors start m = Some cs' ->
  Forall2 (fun nc nc' => pos_le (c_pos (snd nc)) (c_pos (snd nc'))) cs cs'.
Proof. exact genny_monotone. Qed.
Print Assumptions C20_monotone.

(* 6. the streaming collector cuts the output into chunks of 1..300 samples,
      in order, and every chunk but the last has exactly 300 *)
Theorem C20_chunks : forall out,
  concat (output_chunks out) = out /\
  Forall (fun c => (1 <= length c <= 300)%nat) (output_chunks out) /\
  (forall pre lastc, output_chunks out = pre ++ [lastc] -> Forall (fun c => length c = 300%nat) pre).
Proof. exact genny_chunks. Qed.
Print Assumptions C20_chunks.

(* 7. GetGennyTime on a stream s0 :: ... (StartTime initially 0, first second not
      0): StartTime = ceil second of the first timestamp, EndTime = ceil second of
      the maximum of 0 and the chunks' last timestamps - which is the stream's
      last timestamp L whenever L >= 0 bounds all chunk-last timestamps *)
Theorem C20_time : forall a s0 c0 rest,
  a_start a = 0 -> a_chunks a = (s0 :: c0) :: rest ->
  Forall (fun ch => ch <> []) (a_chunks a) -> ceil_sec (fst s0) <> 0 ->
  get_genny_time a =
    Some (ceil_sec (fst s0), ceil_sec (fold_left Z.max (map chunk_last_ts (a_chunks a)) 0)) /\
  (forall L, 0 <= L -> In L (map chunk_last_ts (a_chunks a)) ->
             (forall x, In x (map chunk_last_ts (a_chunks a)) -> x <= L) ->
             get_genny_time a = Some (ceil_sec (fst s0), ceil_sec L)).
Proof. exact genny_time. Qed.
Print Assumptions C20_time.

(* ---- non-vacuity: two actors; "a" (id 1) has two chunks with a 3-second gap and
   two samples in one second, "b" (id 2) starts two seconds later.  Rows carry
   ts (key 8), id (9), the eight selected keys and gauges.state (10). *)
Definition row (ts v : Z) : sample :=
  (ts, [(8, ts); (9, v); (0, v); (1, 2 * v); (2, 3 * v); (3, 0); (4, 5 * v); (5, 6 * v); (10, 7); (6, 4); (7, 0)]).
Definition ex_a : actor := mkActor 1 10 15 [[row 9001 1; row 9500 2; row 10200 3]; [row 13900 4]; [row 14100 5]].
Definition ex_b : actor := mkActor 2 12 14 [[row 11500 1; row 12001 2; row 13000 3]].
Definition sub (v : Z) : vals := [(0, v); (1, 2 * v); (2, 3 * v); (3, 0); (4, 5 * v); (5, 6 * v); (6, 4); (7, 0)].

Example C20_example :
  has_chunks [ex_a; ex_b] /\ keys_ok [ex_a; ex_b] /\ stamps_in_range 10 15 /\
  translate [ex_a; ex_b] =
    Some [ (10000, [(1, sub 1); (2, sub 1)]);     (* a: 9001 -> second 10;  b: 11500 -> second 12 *)
           (11000, [(1, sub 3); (2, sub 1)]);     (* a: first sample of second 11; b waits for 12 *)
           (12000, [(1, sub 4); (2, sub 2)]);     (* a jumps the gap: second 14;   b: 12001 -> 13 *)
           (13000, [(1, sub 4); (2, sub 2)]);     (* both gated *)
           (14000, [(1, sub 5); (2, sub 2)]) ] /\ (* a: 14100 -> second 15; b: nothing new (13000 is second 13) *)
  get_genny_time (mkActor 1 0 0 (a_chunks ex_a)) = Some (10, 15).
Proof.
  split; [|split; [|split; [|split]]].
  - repeat constructor; discriminate.
  - repeat constructor; intros ch s Hc Hs; simpl in Hc;
      repeat (destruct Hc as [Hc|Hc]; [subst ch; simpl in Hs;
        repeat (destruct Hs as [Hs|Hs]; [subst s; vm_compute; discriminate|]); destruct Hs|]); destruct Hc.
  - unfold stamps_in_range. split; vm_compute; congruence.
  - vm_compute. reflexivity.
  - vm_compute. reflexivity.
Qed.

(* an actor whose stream has no chunk makes the translation panic *)
Example C20_example_panic : translate [mkActor 1 10 12 []] = None.
Proof. vm_compute. reflexivity. Qed.
