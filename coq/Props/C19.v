(* C19 — the metrics pipelines deliver every sample or fail loudly.
   metrics.CollectJSONStream (InputSource) and metrics.CollectRuntime as modelled
   in Model/JsonPipe.v; proofs in Proofs/JsonPipeProofs.v.  Only the property
   theorems.

   Parameters, not axioms: zlib ([deflate]/[inflate] with inflate (deflate p) =
   Some p), the Extended JSON library ([parse]), the scanner's token limit
   ([limit]; 65536 in Go), runtime's generate() ([gen]).  Timers, cancellation and
   the speed of the reader are the event list: every theorem quantifies over ALL
   event lists.  The operating system (files, timers) is not modelled. *)
From Coq Require Import ZArith NArith List Bool.
From FV.Model Require Import Bytes Bson Metrics Codec Collector Wf RoundTrip CollectorOk Instance JsonPipe JsonPipeOk.
From FV.Proofs Require Import JsonPipeProofs.
Import ListNotations.
Open Scope Z_scope.

Section C19.
Variable deflate : bytes -> bytes.
Variable inflate : bytes -> option bytes.
Hypothesis inflate_deflate : forall p, inflate (deflate p) = Some p.

(* ------------------------------------------------------------------ CollectJSONStream *)

(* [source parse false ..]: a failing reader fails with an error whose pkg/errors
   cause is not io.EOF (see C19_wrapped_eof_refuted below).

   Every input (bytes, possibly cut short by a failing reader), every token limit,
   every chunk size, every schedule of the select loop in which the flush timer
   does not fire and the context is not cancelled before the source is exhausted
   ([j_early true true = false]) and that ends the call:
   - either the scan reached EOF and the library accepted every line; then the
     call returns a nil error and bytes that decode, without error, to the numeric
     projection of EVERY line, in order, in chunks of at most n samples
     (composition with C08_dynamic's hypothesis [docs_ok KDyn]: representable
     documents, no change of value types alone);
   - or some line is malformed, some line reaches the token limit, or the reader
     failed; then the call returns an error. *)
Theorem C19_json : forall parse limit inp rerr ls e n evs s r,
  1 <= n < 2 ^ 31 ->
  scan limit inp rerr = (ls, e) -> docs_ok KDyn (parsed parse ls) ->
  let init := j_init true n (source parse false limit inp rerr) in
  j_run deflate init evs = Some s -> j_res s = Some r -> j_early deflate true true init evs = false ->
  (e = ScanEof /\ Forall2 (fun l d => parse l = PDoc d) ls (parsed parse ls) /\
   exists out dec, r = JOk out /\ decode_ftdc inflate None out = Some dec /\
                   dc_docs dec = map strip_doc (parsed parse ls) /\ forallb (fun z => z <=? n) (dc_sizes dec) = true) \/
  (input_bad parse ls e /\ exists e', r = JErr e').
Proof. exact (json_total_input deflate inflate inflate_deflate). Qed.

(* Without C08's "no change of value types alone": the only further outcome is
   that the dynamic collector refused a document, and then the call returns that
   error (observed: {"a":1} followed by {"a":1.5}) — never a shortened result. *)
Theorem C19_json_refusal : forall parse limit inp rerr ls e n evs s r,
  1 <= n < 2 ^ 31 ->
  scan limit inp rerr = (ls, e) ->
  (forall d, In d (parsed parse ls) -> doc_wf d) -> distinguishable KDyn (fun d => In d (parsed parse ls)) ->
  let init := j_init true n (source parse false limit inp rerr) in
  j_run deflate init evs = Some s -> j_res s = Some r -> j_early deflate true true init evs = false ->
  (e = ScanEof /\ exists docs, Forall2 (fun l d => parse l = PDoc d) ls docs /\
     ((exists out dec, r = JOk out /\ decode_ftdc inflate None out = Some dec /\
                       dc_docs dec = map strip_doc docs /\ forallb (fun z => z <=? n) (dc_sizes dec) = true) \/
      (exists a, a <> ROk /\ r = JErr (JAdd a)))) \/
  (input_bad parse ls e /\ exists e', r = JErr e').
Proof. exact (json_refusal_input deflate inflate inflate_deflate). Qed.

(* A nil error implies that every line was scanned, parsed and added: for every
   document list whatsoever (no well-formedness hypothesis), every schedule in
   which the timer does not fire early — cancellation may happen at any time —
   a returned [JOk out] is the flush of a collector into which ALL lines went, in
   order, every Add succeeding. *)
Theorem C19_json_never_short : forall parse limit inp rerr ls e n evs s out,
  scan limit inp rerr = (ls, e) ->
  let init := j_init true n (source parse false limit inp rerr) in
  j_run deflate init evs = Some s -> j_res s = Some (JOk out) -> j_early deflate true false init evs = false ->
  e = ScanEof /\ exists docs c, Forall2 (fun l d => parse l = PDoc d) ls docs /\
    fed (dy_new n) docs c /\ JOk out = j_flush deflate c.
Proof. exact (json_never_short_input deflate). Qed.

(* The hypothesis on the schedule is satisfiable from every input: the loop is
   live (one event per item of the source and one more end the call). *)
Theorem C19_json_live : forall parse limit inp rerr n,
  let init := j_init true n (source parse false limit inp rerr) in
  exists evs s, j_run deflate init evs = Some s /\ j_res s <> None /\ j_early deflate true true init evs = false /\
                (length evs <= S (length (source parse false limit inp rerr)))%nat.
Proof. exact (json_live_input deflate). Qed.

(* ------------------------------------------------------------------ CollectRuntime *)

(* Every option set Validate accepts (SampleCount within int32), every sequence
   of collect-timer, flush-timer and cancellation events (a run that is still
   going on included): every collect event produced a sample (no Add fails); the
   call has not failed; the files prefix.0 .. prefix.k are each valid FTDC
   ([file_holds]: decodes without error, chunks of at most SampleCount samples);
   their contents, in file order, followed by what is still pending in the
   collector, are exactly the generated samples gen 0 t0, gen 1 t1, ... in
   order — none missing, none repeated; every file but the last is non-empty; and
   once the call has returned (after cancellation) nothing is pending (the final
   partial batch was flushed) and the last file is empty. *)
Theorem C19_runtime : forall gen,
  (forall i t, doc_wf (gen i t)) ->
  (forall i t j u, skeleton_doc (gen i t) = skeleton_doc (gen j u)) ->
  forall o evs s,
  rt_valid o = true -> ro_samples o < 2 ^ 31 ->
  r_run deflate gen (r_init o) evs = Some s ->
  let n := ro_samples o in
  let ts := collect_times evs in
  r_id s = Z.of_nat (length ts) /\ (r_res s = None \/ r_res s = Some RDone) /\
  exists (fdocs : list (list doc)) (pending : list doc),
    Forall2 (file_holds inflate n) (r_files s) fdocs /\
    concat fdocs ++ pending = gens gen 0 ts /\
    Forall (fun docs : list doc => docs <> []) (removelast fdocs) /\
    (r_res s = Some RDone -> pending = [] /\ last fdocs [] = []).
Proof. exact (runtime_files deflate inflate inflate_deflate). Qed.

(* the i-th generated sample carries id i (while collectCount has not overflowed),
   so the ids read back over all files and the pending part are 0,1,..,n-1 *)
Theorem C19_runtime_ids : forall gen,
  (forall i t, 0 <= i < 2 ^ 63 -> sample_id (strip_doc (gen i t)) = Some i) ->
  forall ts, Z.of_nat (length ts) <= 2 ^ 63 ->
  map (fun d => sample_id (strip_doc d)) (gens gen 0 ts) = map Some (zseq 0 (length ts)).
Proof. exact sample_ids_gens0. Qed.

(* an option set Validate refuses: an error, and no file is created *)
Theorem C19_runtime_invalid : forall gen o evs s,
  rt_valid o = false -> r_run deflate gen (r_init o) evs = Some s ->
  evs = [] /\ r_res s = Some (RErr RInvalid) /\ r_files s = [].
Proof. exact (runtime_invalid deflate). Qed.

(* a flush with nothing pending creates no new file *)
Theorem C19_runtime_idle_flush : forall s,
  snd (in_info (sc_inner (fst (r_cur s)))) = 0 -> r_flusher deflate s = (s, true).
Proof. exact (runtime_idle_flush deflate). Qed.

End C19.

(* the scanner model: how a scan ends and what it delivered *)
Theorem C19_scanner : forall limit rerr raws ts e, scan_raw limit rerr raws = (ts, e) ->
  match e with
  | ScanTooLong => exists pre l post, raws = pre ++ l :: post /\ ts = map drop_cr pre /\
                     Forall (fun x => (N.of_nat (length x) < limit)%N) pre /\ (limit <= N.of_nat (length l))%N
  | _ => ts = map drop_cr raws /\ Forall (fun x => (N.of_nat (length x) < limit)%N) raws /\
         (e = ScanReadErr <-> rerr = true)
  end.
Proof. exact scan_raw_spec. Qed.

Print Assumptions C19_json.
Print Assumptions C19_json_refusal.
Print Assumptions C19_json_never_short.
Print Assumptions C19_json_live.
Print Assumptions C19_runtime.
Print Assumptions C19_runtime_ids.
Print Assumptions C19_runtime_invalid.
Print Assumptions C19_runtime_idle_flush.
Print Assumptions C19_scanner.

(* the known finding D17 as a theorem about the faithful model: without the
   hypothesis on the timer the statement is false.  Three lines that all parse,
   no cancellation, the timer fires after the first document: the call returns a
   nil error and bytes that decode to one sample. *)
Theorem C19_timer_refuted :
  let items := script wit_parse false wit_lines ScanEof in
  let evs := [EvDoc 0; EvTimer] in
  (exists docs, Forall2 (fun l d => wit_parse l = PDoc d) wit_lines docs /\ length docs = 3%nat) /\
  j_early deflate_flag false true (j_init true 5 items) evs = false /\
  exists s out, j_run deflate_flag (j_init true 5 items) evs = Some s /\ j_res s = Some (JOk out) /\
    option_map dc_docs (decode_ftdc inflate_flag None out) = Some [wit_doc 49].
Proof. exact json_timer_refuted. Qed.
Print Assumptions C19_timer_refuted.

(* the select loop still takes an error whose cause is io.EOF for the end of the
   input.  Parse errors are sent as new errors and the scanner's own errors are
   never io.EOF, so only a reader that fails with a (pkg/errors-)wrapped io.EOF
   can reach that branch: the call then returns a nil error although the reader
   failed.  Hence the [false] in the theorems above. *)
Theorem C19_wrapped_eof_refuted :
  let items := script wit_parse true [[49]%N] ScanReadErr in
  items = [IDoc (wit_doc 49); IErr (SRead true)] /\
  x_json_run true 5 items [EvDoc 0; EvErr] = JObsOk [wit_doc 49] [1].
Proof. exact json_wrapped_eof_refuted. Qed.
Print Assumptions C19_wrapped_eof_refuted.

(* non-vacuity.  JSON: the scanner on \r\n, an empty line, an unterminated last
   line and a line at the limit; three parsable lines satisfy C19_json's
   hypotheses and the calm run of the executable model returns all three in
   chunks [2;1]; an empty line makes it return the parse error.  Runtime: a
   generator satisfying C19_runtime's hypotheses for every id, a valid option set,
   and a run with 13 samples, an idle flush and a final flush: files
   [0..11 in chunks 10+2], [12], [] *)
Example C19_example_json :
  scan 8 [49; 13; 10; 50; 10; 10; 51]%N false = ([[49]; [50]; []; [51]]%N, ScanEof) /\
  scan 8 [49; 10; 50; 50; 50; 50; 50; 50; 50; 50; 10; 51]%N false = ([[49]]%N, ScanTooLong) /\
  docs_ok KDyn (parsed wit_parse wit_lines) /\
  x_json_calm true 2 (script wit_parse false wit_lines ScanEof) = JObsOk [wit_doc 49; wit_doc 50; wit_doc 51] [2; 1] /\
  x_json_calm true 2 (script wit_parse false [[49]; []; [51]]%N ScanEof) = JObsErr (JSrc SParse).
Proof. exact json_example. Qed.

Example C19_example_runtime :
  (forall i t, doc_wf (gen_ex i t)) /\
  (forall i t j u, skeleton_doc (gen_ex i t) = skeleton_doc (gen_ex j u)) /\
  (forall i t, 0 <= i < 2 ^ 63 -> sample_id (strip_doc (gen_ex i t)) = Some i) /\
  rt_valid (mkRopts (10 * ms) (2 * ms) 10 false true true false 0) = true /\
  match x_runtime (mkRopts (10 * ms) (2 * ms) 10 false true true false 0)
          (repeat (RvCollect 0) 12 ++ [RvFlush; RvFlush; RvCollect 0; RvCancel]) with
  | Some ob => rb_res ob = Some RDone /\
               rb_files ob = [Some (map Some (zseq 0 12), [10; 2]); Some ([Some 12], [1]); Some ([], [])]
  | None => False
  end.
Proof. exact runtime_example. Qed.

(* ------------------------------------------------------------------ oracle soundness *)
(* The executable oracles [c19_ok_json] / [c19_ok_runtime] (Model/JsonPipeOk.v) are what the
   run-time check applies to what the Go functions returned.  They accept the MODEL's own
   observation of the same case, for every input and every schedule covered by C19_json /
   C19_runtime.  The observations are built as ocaml/c19_run.ml builds them from the harness's
   output (definitions in Proofs/OracleC19.v):
   [obs_lines parse limit inp]: one entry per raw line of the input (the harness's own split at
     \n, [split_lines]): (raw length, the document the library makes of the line without its
     trailing \r; None if the line reaches the token limit or the library refuses);
   [obs_res_ok r]: the call returned a nil error; [obs_decoded inflate r]: the documents the
     reader delivers from the returned bytes;
   [obs_files inflate s]: per file prefix.N whether it decodes, and the id of each of its samples;
     the number of generated samples is collectCount [r_id s] (or unknown). *)
From FV.Proofs Require Import OracleC19.

Section C19_oracle.
Variable deflate : bytes -> bytes.
Variable inflate : bytes -> option bytes.
Hypothesis inflate_deflate : forall p, inflate (deflate p) = Some p.

(* JSON: under the hypotheses of C19_json (every input, token limit, chunk size, every schedule
   without early timer/cancellation that ends the call) the oracle holds of the outcome, and a
   nil error comes with bytes the reader decodes without error (the driver's second conjunct). *)
Theorem C19_oracle_json_sound : forall parse limit inp rerr ls e n evs s r,
  1 <= n < 2 ^ 31 ->
  scan limit inp rerr = (ls, e) -> docs_ok KDyn (parsed parse ls) ->
  let init := j_init true n (source parse false limit inp rerr) in
  j_run deflate init evs = Some s -> j_res s = Some r -> j_early deflate true true init evs = false ->
  c19_ok_json limit (obs_lines parse limit inp) rerr (obs_res_ok r) (obs_decoded inflate r) = true /\
  (forall out, r = JOk out -> decode_ftdc inflate None out <> None).
Proof. exact (c19_json_oracle_sound deflate inflate inflate_deflate). Qed.

(* runtime: under the hypotheses of C19_runtime and C19_runtime_ids, for every event list after
   which the call has returned: it returned nil, and the oracle holds of the files that exist -
   with the generated count known or unknown. *)
Theorem C19_oracle_runtime_sound : forall gen,
  (forall i t, doc_wf (gen i t)) ->
  (forall i t j u, skeleton_doc (gen i t) = skeleton_doc (gen j u)) ->
  (forall i t, 0 <= i < 2 ^ 63 -> sample_id (strip_doc (gen i t)) = Some i) ->
  forall o evs s,
  rt_valid o = true -> ro_samples o < 2 ^ 31 ->
  Z.of_nat (length (collect_times evs)) <= 2 ^ 63 ->
  r_run deflate gen (r_init o) evs = Some s ->
  r_res s <> None ->
  r_res s = Some RDone /\
  c19_ok_runtime (obs_files inflate s) (Some (r_id s)) = true /\
  c19_ok_runtime (obs_files inflate s) None = true.
Proof. exact (c19_runtime_oracle_sound deflate inflate inflate_deflate). Qed.

End C19_oracle.
Print Assumptions C19_oracle_json_sound.
Print Assumptions C19_oracle_runtime_sound.
