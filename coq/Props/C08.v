(* C08 — schema changes: the schema-aware collectors accept every document of a
   sequence whose schema changes arbitrarily and begin a new chunk exactly at each
   change point and at capacity; no collector ever stores a document in a chunk
   whose metric count or value types differ from the document's own.
   Only the property theorems; proofs in Proofs/Collector*.v (entry point
   Proofs/CollectorProofs.v); [docs_ok], [no_type_only_change], [same_sig],
   [unmixed], [bc_unmixed], [c08_ok], [expected_sizes] are defined in
   Model/CollectorOk.v. *)
From Coq Require Import ZArith NArith List Bool.
From FV.Model Require Import Bytes Bson Metrics Codec Collector Wf RoundTrip CollectorOk.
From FV.Proofs Require Import CollectorProofs SigInjective.
Import ListNotations.
Open Scope Z_scope.

Section C08.
Variable deflate : bytes -> bytes.
Variable inflate : bytes -> option bytes.
Hypothesis inflate_deflate : forall p, inflate (deflate p) = Some p.

(* dynamic and streaming dynamic collector, any chunk size, ANY document list
   (fields added, removed, renamed, reordered, nested, returning to an earlier
   schema, any number of times).  [docs_ok k docs]: every document representable
   ([doc_wf]); documents the kind cannot tell apart have one schema
   ([distinguishable]); and no change of value types alone: documents that the
   kind's signature comparison ([same_sig]: key string for the dynamic, key
   string and metric count for the streaming dynamic collector) takes for one
   schema have the same metric types.  Then every Add succeeds, the flush
   succeeds, and the output decodes to exactly the stripped input sequence with
   chunk sizes exactly [expected_sizes n docs]: a new chunk at every signature
   change and otherwise only at capacity. *)
Theorem C08_dynamic : forall k n docs nows,
  k = KDyn \/ k = KSDyn -> 1 <= n < 2 ^ 31 -> length nows = length docs -> docs_ok k docs ->
  let res := emit deflate k n docs nows in
  snd res = map (fun _ => BAdd ROk) docs ++ [BFlush true] /\
  exists d, decode_ftdc inflate None (emitted (snd (fst res))) = Some d /\ c08_ok n docs true d = true.
Proof. exact (c08_dynamic deflate inflate inflate_deflate). Qed.

(* every chunk under construction, in every state reachable by ANY history (no
   assumption on the documents at all) of ANY collector kind, is unmixed: its
   last sample has the metric types of the chunk's reference document and every
   stored row has its metric count *)
Theorem C08_no_mixing : forall k n ops, unmixed (fst (c07_reach deflate k n ops)).
Proof. exact (c08_no_mixing deflate). Qed.

(* the same without the [distinguishable] assumption: for the schema-aware kinds it
   is a theorem ([C08_signature_injective] below), so representable documents and
   no change of value types alone suffice, whatever the schemas *)
Theorem C08_dynamic_all_schemas : forall k n docs nows,
  k = KDyn \/ k = KSDyn -> 1 <= n < 2 ^ 31 -> length nows = length docs ->
  Forall doc_wf docs -> no_type_only_change k docs ->
  let res := emit deflate k n docs nows in
  snd res = map (fun _ => BAdd ROk) docs ++ [BFlush true] /\
  exists d, decode_ftdc inflate None (emitted (snd (fst res))) = Some d /\ c08_ok n docs true d = true.
Proof. exact (c08_dynamic_all_schemas deflate inflate inflate_deflate). Qed.

End C08.

(* the key string of the schema signature (the bytes fed to FNV, bson_hash.go) is an
   unambiguous framing: representable documents with one key string and the same
   metric types have one skeleton (same tree, same keys, same leaf types) *)
Theorem C08_signature_injective : forall a b,
  doc_ok a = true -> doc_ok b = true ->
  fst (schema_sig a) = fst (schema_sig b) ->
  map fst (flatten_doc a) = map fst (flatten_doc b) ->
  skeleton_doc a = skeleton_doc b.
Proof. exact sig_injective. Qed.

(* a successful Add into a non-empty chunk: the document has the metric count and
   metric types of the chunk's reference document *)
Theorem C08_add_same_types : forall st d now st' r,
  bc_add st d now = (st', AddOk) -> bc_ref st = Some r -> bc_unmixed st ->
  map fst (flatten_doc d) = map fst (flatten_doc r).
Proof. exact bc_add_accept_types. Qed.

(* a document whose metric count or types differ from a non-empty chunk's is
   refused with an error and the chunk is unchanged (a change of value type alone
   is therefore either refused, or stored in a fresh chunk) *)
Theorem C08_add_refused : forall st d now r,
  bc_ref st = Some r -> bc_unmixed st -> map fst (flatten_doc d) <> map fst (flatten_doc r) ->
  exists e, bc_add st d now = (st, e) /\ e <> AddOk.
Proof. exact bc_add_refuse. Qed.

(* with the full signature (key string AND metric count) in place of [same_sig]
   the statement is false of the dynamic collector, which compares only the key
   string: an int64 and a timestamp under one key have one key string and
   different counts; the second Add is refused *)
Theorem C08_dyn_count_refuted :
  let deflate := (fun p : bytes => 1%N :: p) in
  let docs := [[([97]%N, VInt64 1)]; [([97]%N, VTimestamp 0 5)]] in
  Forall doc_wf docs /\ distinguishable KDyn (fun d => In d docs) /\
  (forall a b, In a docs -> In b docs -> schema_sig a = schema_sig b ->
               map fst (flatten_doc a) = map fst (flatten_doc b)) /\
  snd (emit deflate KDyn 5 docs [0; 0]) = [BAdd ROk; BAdd RCount; BFlush true].
Proof. exact c08_dyn_count_refuted. Qed.

Print Assumptions C08_dynamic.
Print Assumptions C08_no_mixing.
Print Assumptions C08_add_same_types.
Print Assumptions C08_add_refused.
Print Assumptions C08_dyn_count_refuted.
Print Assumptions C08_dynamic_all_schemas.
Print Assumptions C08_signature_injective.

(* non-vacuity: A,B,B,A,A,A,C over three schemas (returning to an earlier one,
   a run longer than the chunk size) satisfies the hypotheses for both kinds; the
   expected sizes are [1;2;2;1;1] and the executable statement holds *)
Example C08_example :
  let deflate := (fun p : bytes => 1%N :: p) in
  let inflate := (fun z : bytes => match z with b :: p => if (b =? 1)%N then Some p else None | [] => None end) in
  let dA := (fun x => [([97]%N, VInt64 x); ([98]%N, VDouble 0); ([115]%N, VString [122]%N)]) in
  let dB := (fun x => [([97]%N, VInt64 x); ([99]%N, VDoc [([120]%N, VBool true)])]) in
  let dC := (fun x => [([97]%N, VArr [VInt32 x; VNull; VDateTime 1000]); ([116]%N, VTimestamp 0 7)]) in
  let docs := [dA 1; dB 2; dB 3; dA 4; dA 5; dA 6; dC 7] in
  forall k, k = KDyn \/ k = KSDyn ->
    docs_ok k docs /\ expected_sizes 2 docs = [1; 2; 2; 1; 1] /\
    match decode_ftdc inflate None (emitted (snd (fst (emit deflate k 2 docs [0; 0; 0; 0; 0; 0; 0])))) with
    | Some d => c08_ok 2 docs true d = true
    | None => False
    end.
Proof. exact collector_example_c08. Qed.
