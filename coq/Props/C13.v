(* C13 — quantiles, merges, windows and snapshots agree with an exact oracle.
   Only the property theorems; proofs are in Proofs/HdrQuantProofs.v. *)
From Coq Require Import ZArith List Sorting.Permutation Sorting.Sorted.
From FV.Model Require Import Hdr.
From FV.Proofs Require Import HdrQuantProofs.
Import ListNotations.
Open Scope Z_scope.

Definition valid_config (lo hi s : Z) : Prop :=
  0 <= lo /\ 1 <= hi < 2 ^ 62 /\ 1 <= s <= 5.

Definition in_range (hi : Z) (vs : list Z) : Prop := Forall (fun v => 0 <= v <= hi) vs.

(* the histogram obtained by recording a list of values into a fresh one *)
Definition hist_of (lo hi s : Z) (vs : list Z) : hist := fst (record_all (new lo hi s) vs).

(* same geometry, same total, same counts on the whole counts array *)
Definition hist_equiv (a b : hist) : Prop :=
  h_cfg a = h_cfg b /\ h_total a = h_total b /\
  forall i, 0 <= i < c_len (h_cfg a) -> h_counts a i = h_counts b i.

(* 1. value at rank k is the representative (highest equivalent value) of the
      exact k-th order statistic, for every multiset and every rank 1..n *)
Theorem C13_rank : forall lo hi s vs sorted k,
  valid_config lo hi s -> in_range hi vs ->
  Permutation sorted vs -> Sorted Z.le sorted ->
  1 <= k <= Z.of_nat (length vs) ->
  value_at_rank (hist_of lo hi s vs) k =
  highest_equiv (config_of lo hi s) (nth (Z.to_nat (k - 1)) sorted 0).
Proof. exact hdrq_rank. Qed.
Print Assumptions C13_rank.

(* 2. monotone in the rank (hence in q, the rank being monotone in q) *)
Theorem C13_monotone : forall lo hi s vs k1 k2,
  valid_config lo hi s -> in_range hi vs ->
  1 <= k1 <= k2 -> k2 <= Z.of_nat (length vs) ->
  value_at_rank (hist_of lo hi s vs) k1 <= value_at_rank (hist_of lo hi s vs) k2.
Proof. exact hdrq_monotone. Qed.
Print Assumptions C13_monotone.

(* 3. Min, Max are the range ends of the exact minimum / maximum; the mean's
      numerator is the sum of the median-equivalents, each within half a range
      width of its value *)
Theorem C13_min_max_mean : forall lo hi s vs sorted,
  valid_config lo hi s -> in_range hi vs -> vs <> [] ->
  Permutation sorted vs -> Sorted Z.le sorted ->
  let c := config_of lo hi s in
  let h := hist_of lo hi s vs in
  hmin h = lowest_equiv c (hd 0 sorted) /\
  hmax h = highest_equiv c (last sorted 0) /\
  mean_num h = fold_right Z.add 0 (map (median_equiv c) vs) /\
  (forall v, In v vs -> lowest_equiv c v <= median_equiv c v <= highest_equiv c v + 1).
Proof. exact hdrq_min_max_mean. Qed.
Print Assumptions C13_min_max_mean.

(* 4. merging histograms of equal geometry = recording the union, nothing dropped,
      in either order *)
Theorem C13_merge_same : forall lo hi s va vb,
  valid_config lo hi s -> in_range hi va -> in_range hi vb ->
  let a := hist_of lo hi s va in
  let b := hist_of lo hi s vb in
  snd (merge a b) = 0 /\
  hist_equiv (fst (merge a b)) (hist_of lo hi s (va ++ vb)) /\
  hist_equiv (fst (merge a b)) (fst (merge b a)).
Proof. exact hdrq_merge_same. Qed.
Print Assumptions C13_merge_same.

(* 5. merging into a different geometry: nothing is lost silently — what is not
      counted in the target is exactly the dropped count *)
Theorem C13_merge_dropped : forall lo hi s lo' hi' s' va vb,
  valid_config lo hi s -> valid_config lo' hi' s' ->
  in_range hi va -> in_range hi' vb ->
  let a := hist_of lo hi s va in
  let b := hist_of lo' hi' s' vb in
  0 <= snd (merge a b) /\
  h_total (fst (merge a b)) + snd (merge a b) = h_total a + h_total b /\
  h_cfg (fst (merge a b)) = h_cfg a.
Proof. exact hdrq_merge_dropped. Qed.
Print Assumptions C13_merge_dropped.

(* 6. windowed histogram: after any schedule of records and rotations, Merge is
      the histogram of the values recorded in the last n windows *)
Inductive wop := WRecord (v : Z) | WRotate.

Definition w_step (w : window) (o : wop) : window :=
  match o with WRecord v => fst (w_record w v) | WRotate => rotate w end.

(* reference: the list of windows, newest first, each a list of values *)
Definition spec_step (n : nat) (ws : list (list Z)) (o : wop) : list (list Z) :=
  match o, ws with
  | WRecord v, cur :: r => (cur ++ [v]) :: r
  | WRecord v, [] => []
  | WRotate, _ => firstn n ([] :: ws)
  end.

Theorem C13_window : forall n lo hi s ops,
  (1 <= n)%nat -> valid_config lo hi s ->
  Forall (fun o => match o with WRecord v => 0 <= v <= hi | WRotate => True end) ops ->
  let w := fold_left w_step ops (new_windowed n lo hi s) in
  let ws := fold_left (spec_step n) ops [[]] in
  hist_equiv (w_merge w) (hist_of lo hi s (concat (rev ws))).
Proof.
  intros n lo hi s ops Hn Hc Hops.
  apply (hdrq_window_gen wop (fun o => match o with WRecord v => Some v | WRotate => None end)
           w_step (spec_step n)); auto.
  - intros w o; destruct o; reflexivity.
  - intros ws o; destruct o; destruct ws; reflexivity.
  - eapply Forall_impl; [|exact Hops]. intros o; destruct o; auto.
Qed.
Print Assumptions C13_window.

(* 7. Export / Import reproduce an equal histogram *)
Theorem C13_export_import : forall lo hi s vs,
  valid_config lo hi s -> in_range hi vs ->
  let h := hist_of lo hi s vs in
  hist_equiv (import (export h)) h /\ hist_equal (import (export h)) h = true.
Proof. exact hdrq_export_import. Qed.
Print Assumptions C13_export_import.

Example C13_example :
  value_at_rank (hist_of 1 1000 1 [500; 3; 3; 999; 17]) 3 = highest_equiv (config_of 1 1000 1) 17.
Proof. vm_compute. reflexivity. Qed.
