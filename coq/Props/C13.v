(* C13 — quantiles, merges, windows and snapshots agree with an exact oracle.
   Only the property theorems; proofs are in Proofs/HdrQuantProofs.v. *)
From Coq Require Import ZArith List Sorting.Permutation Sorting.Sorted.
From FV.Model Require Import Hdr.
From FV.Proofs Require Import HdrQuantProofs.
Import ListNotations.
Open Scope Z_scope.

Definition valid_config (lo hi s : Z) : Prop :=
  0 <= lo /\ 1 <= hi < 2 ^ 62 /\ 1 <= s <= 5.

Definition in_range (hi : Z) (vs : list Z) : Prop := Forall (fun v => 0 <= v <= hi) vs.

(* the histogram obtained by recording a list of values into a fresh one *)
Definition hist_of (lo hi s : Z) (vs : list Z) : hist := fst (record_all (new lo hi s) vs).

(* same geometry, same total, same counts on the whole counts array *)
Definition hist_equiv (a b : hist) : Prop :=
  h_cfg a = h_cfg b /\ h_total a = h_total b /\
  forall i, 0 <= i < c_len (h_cfg a) -> h_counts a i = h_counts b i.

(* 1. value at rank k is the representative (highest equivalent value) of the
      exact k-th order statistic, for every multiset and every rank 1..n *)
Theorem C13_rank : forall lo hi s vs sorted k,
  valid_config lo hi s -> in_range hi vs ->
  Permutation sorted vs -> Sorted Z.le sorted ->
  1 <= k <= Z.of_nat (length vs) ->
  value_at_rank (hist_of lo hi s vs) k =
  highest_equiv (config_of lo hi s) (nth (Z.to_nat (k - 1)) sorted 0).
Proof. exact hdrq_rank. Qed.
Print Assumptions C13_rank.

(* 2. monotone in the rank (hence in q, the rank being monotone in q) *)
Theorem C13_monotone : forall lo hi s vs k1 k2,
  valid_config lo hi s -> in_range hi vs ->
  1 <= k1 <= k2 -> k2 <= Z.of_nat (length vs) ->
  value_at_rank (hist_of lo hi s vs) k1 <= value_at_rank (hist_of lo hi s vs) k2.
Proof. exact hdrq_monotone. Qed.
Print Assumptions C13_monotone.

(* 3. Min, Max are the range ends of the exact minimum / maximum; the mean's
      numerator is the sum of the median-equivalents, each within half a range
      width of its value *)
Theorem C13_min_max_mean : forall lo hi s vs sorted,
  valid_config lo hi s -> in_range hi vs -> vs <> [] ->
  Permutation sorted vs -> Sorted Z.le sorted ->
  let c := config_of lo hi s in
  let h := hist_of lo hi s vs in
  hmin h = lowest_equiv c (hd 0 sorted) /\
  hmax h = highest_equiv c (last sorted 0) /\
  mean_num h = fold_right Z.add 0 (map (median_equiv c) vs) /\
  (forall v, In v vs -> lowest_equiv c v <= median_equiv c v <= highest_equiv c v + 1).
Proof. exact hdrq_min_max_mean. Qed.
Print Assumptions C13_min_max_mean.

(* 4. merging histograms of equal geometry = recording the union, nothing dropped,
      in either order *)
Theorem C13_merge_same : forall lo hi s va vb,
  valid_config lo hi s -> in_range hi va -> in_range hi vb ->
  let a := hist_of lo hi s va in
  let b := hist_of lo hi s vb in
  snd (merge a b) = 0 /\
  hist_equiv (fst (merge a b)) (hist_of lo hi s (va ++ vb)) /\
  hist_equiv (fst (merge a b)) (fst (merge b a)).
Proof. exact hdrq_merge_same. Qed.
Print Assumptions C13_merge_same.

(* 5. merging into a different geometry: nothing is lost silently — what is not
      counted in the target is exactly the dropped count *)
Theorem C13_merge_dropped : forall lo hi s lo' hi' s' va vb,
  valid_config lo hi s -> valid_config lo' hi' s' ->
  in_range hi va -> in_range hi' vb ->
  let a := hist_of lo hi s va in
  let b := hist_of lo' hi' s' vb in
  0 <= snd (merge a b) /\
  h_total (fst (merge a b)) + snd (merge a b) = h_total a + h_total b /\
  h_cfg (fst (merge a b)) = h_cfg a.
Proof. exact hdrq_merge_dropped. Qed.
Print Assumptions C13_merge_dropped.

(* 6. windowed histogram: after any schedule of records and rotations, Merge is
      the histogram of the values recorded in the last n windows *)
Inductive wop := WRecord (v : Z) | WRotate.

Definition w_step (w : window) (o : wop) : window :=
  match o with WRecord v => fst (w_record w v) | WRotate => rotate w end.

(* reference: the list of windows, newest first, each a list of values *)
Definition spec_step (n : nat) (ws : list (list Z)) (o : wop) : list (list Z) :=
  match o, ws with
  | WRecord v, cur :: r => (cur ++ [v]) :: r
  | WRecord v, [] => []
  | WRotate, _ => firstn n ([] :: ws)
  end.

Theorem C13_window : forall n lo hi s ops,
  (1 <= n)%nat -> valid_config lo hi s ->
  Forall (fun o => match o with WRecord v => 0 <= v <= hi | WRotate => True end) ops ->
  let w := fold_left w_step ops (new_windowed n lo hi s) in
  let ws := fold_left (spec_step n) ops [[]] in
  hist_equiv (w_merge w) (hist_of lo hi s (concat (rev ws))).
Proof.
  intros n lo hi s ops Hn Hc Hops.
  apply (hdrq_window_gen wop (fun o => match o with WRecord v => Some v | WRotate => None end)
           w_step (spec_step n)); auto.
  - intros w o; destruct o; reflexivity.
  - intros ws o; destruct o; destruct ws; reflexivity.
  - eapply Forall_impl; [|exact Hops]. intros o; destruct o; auto.
Qed.
Print Assumptions C13_window.

(* 7. Export / Import reproduce an equal histogram *)
Theorem C13_export_import : forall lo hi s vs,
  valid_config lo hi s -> in_range hi vs ->
  let h := hist_of lo hi s vs in
  hist_equiv (import (export h)) h /\ hist_equal (import (export h)) h = true.
Proof. exact hdrq_export_import. Qed.
Print Assumptions C13_export_import.

Example C13_example :
  value_at_rank (hist_of 1 1000 1 [500; 3; 3; 999; 17]) 3 = highest_equiv (config_of 1 1000 1) 17.
Proof. vm_compute. reflexivity. Qed.

(* ---- oracle = theorem: the executable oracles of Model/HdrQuantOk.v, which the
   correspondence check evaluates on the implementation's observations, accept the
   model's own observation for every input of the domain (proofs in
   Proofs/HdrOracleProofs.v).  Names of Model/HdrQuantOk.v are written qualified. ---- *)
From FV.Model Require HdrQuantOk.
From FV.Proofs Require HdrOracleProofs.

(* 8. the driver's domain check c13_valid is the reflected hypothesis of the theorems *)
Theorem C13_oracle_domain : forall lo hi s vs,
  HdrQuantOk.c13_valid lo hi s vs = true <-> valid_config lo hi s /\ in_range hi vs.
Proof. exact HdrOracleProofs.c13_valid_iff. Qed.
Print Assumptions C13_oracle_domain.

(* 9. quantiles: for every list of ranks 1..n the (rank, value) pairs of the model
      satisfy c13_ok_quant (reflected form of theorems 1 and 2; the sorted reference
      of the oracle, isort, is a sorted permutation).  Not covered: c13_ok_ranks, which
      compares the rank the Go float expression produced with the exact rank — the
      model takes the rank as an input and has no float step. *)
Theorem C13_oracle_quant_sound : forall lo hi s vs ranks,
  valid_config lo hi s -> in_range hi vs ->
  Forall (fun k => 1 <= k <= Z.of_nat (length vs)) ranks ->
  HdrQuantOk.c13_ok_quant lo hi s vs
    (combine ranks (HdrQuantOk.oq_vals (HdrQuantOk.model_obs_q lo hi s vs ranks))) = true.
Proof. exact HdrOracleProofs.c13_quant_sound. Qed.
Print Assumptions C13_oracle_quant_sound.

(* 10. the integer content of the oracle's Mean clause: |mean_num - S| <= T *)
Theorem C13_oracle_mean_num : forall lo hi s vs,
  valid_config lo hi s -> in_range hi vs ->
  let c := config_of lo hi s in
  Z.abs (mean_num (hist_of lo hi s vs) - HdrQuantOk.zsum vs)
  <= HdrQuantOk.zsum (map (fun v => size_of_range c v / 2) vs).
Proof. exact HdrOracleProofs.c13_mean_num_bound. Qed.
Print Assumptions C13_oracle_mean_num.

(* 11. TotalCount, Min, Max exactly (reflected form of theorem 3); the Mean clause for
       EVERY float mm * 2^me within relative error 2^-52 of the model's exact mean
       mean_num / total (hypothesis scaled to integers, k = max 0 (-me)).  Not covered:
       that Go's float64 division yields such a float. *)
Theorem C13_oracle_stats_sound : forall lo hi s vs mm me,
  valid_config lo hi s -> in_range hi vs -> vs <> [] ->
  let o := HdrQuantOk.model_obs_q lo hi s vs [] in
  let k := if me <? 0 then - me else 0 in
  2 ^ 52 * Z.abs (mm * 2 ^ (me + k) * HdrQuantOk.oq_total o - HdrQuantOk.oq_mean_num o * 2 ^ k)
    <= HdrQuantOk.oq_mean_num o * 2 ^ k ->
  HdrQuantOk.c13_ok_stats lo hi s vs (HdrQuantOk.oq_total o) (HdrQuantOk.oq_min o)
    (HdrQuantOk.oq_max o) mm me = true.
Proof. exact HdrOracleProofs.c13_stats_sound. Qed.
Print Assumptions C13_oracle_stats_sound.

(* 12. merge: a target and ANY chain of sources of ANY valid geometries.  The oracle's
       clauses "dropped = exactly the number of source values whose representative the
       target cannot index" and "counts = direct histogramming of the representatives"
       are stronger than theorems 4 and 5 (which speak about one merge of two fresh
       histograms and, for different geometries, only about conservation); they are
       proved here from the model (HdrOracleProofs.merge_any, merge_chain). *)
Definition op_ok (o : HdrQuantOk.operand) : Prop :=
  valid_config (HdrQuantOk.op_lo o) (HdrQuantOk.op_hi o) (HdrQuantOk.op_s o) /\
  in_range (HdrQuantOk.op_hi o) (HdrQuantOk.op_vs o).

Theorem C13_oracle_merge_sound : forall t srcs,
  op_ok t -> Forall op_ok srcs ->
  let '(ds, total, counts) := HdrQuantOk.model_merge t srcs in
  HdrQuantOk.c13_ok_merge t srcs ds total counts = true.
Proof. exact HdrOracleProofs.c13_merge_sound. Qed.
Print Assumptions C13_oracle_merge_sound.

(* 13. windowed histogram (reflected form of theorem 6; the oracle's reference keeps
       every window newest value first, a permutation of theorem 6's reference) *)
Theorem C13_oracle_window_sound : forall n lo hi s ops,
  (1 <= n)%nat -> valid_config lo hi s ->
  Forall (fun o => match o with HdrQuantOk.WRec v => 0 <= v <= hi | HdrQuantOk.WRot => True end) ops ->
  let '(total, counts) := HdrQuantOk.model_window n lo hi s ops in
  HdrQuantOk.c13_ok_window n lo hi s ops total counts = true.
Proof. exact HdrOracleProofs.c13_window_sound. Qed.
Print Assumptions C13_oracle_window_sound.

(* 14. Export / Import (reflected form of theorem 7); the driver applies the same
       observation to the BSON and JSON round trips, which the model does not have *)
Theorem C13_oracle_snapshot_sound : forall lo hi s vs n,
  valid_config lo hi s -> in_range hi vs ->
  HdrQuantOk.c13_ok_snapshot vs (repeat (HdrQuantOk.model_snapshot lo hi s vs) n) = true.
Proof. exact HdrOracleProofs.c13_snapshot_sound. Qed.
Print Assumptions C13_oracle_snapshot_sound.
