(* C07 — every collector kind is a faithful log of the samples it accepted: what
   Resolve returns plus what was flushed decodes to exactly the accepted samples,
   chunk sizes and the reported count are right after every operation, Resolve is
   read-only, a rejected Add changes nothing, Reset makes the collector fresh.
   Only the property theorems; proofs in Proofs/Collector*.v (entry point
   Proofs/CollectorProofs.v); the hypotheses [ops_ok], [doc_wf],
   [distinguishable] and the executable statement [c07_run] are defined in
   Model/CollectorOk.v. *)
From Coq Require Import ZArith NArith List Bool.
From FV.Model Require Import Bytes Bson Metrics Codec Collector Wf RoundTrip CollectorOk.
From FV.Proofs Require Import CollectorProofs.
Import ListNotations.
Open Scope Z_scope.

Section C07.
(* zlib is a parameter: any pair of functions with this property *)
Variable deflate : bytes -> bytes.
Variable inflate : bytes -> option bytes.
Hypothesis inflate_deflate : forall p, inflate (deflate p) = Some p.

(* Histories are arbitrary lists of Add / Add-of-unreadable-input / Resolve /
   Reset / Flush / SetMetadata / Info, of any length, on a fault-free writer.
   [ops_ok k ops]: every added document is representable ([doc_wf]: keys and
   values encodable, below 2 GiB, metric count below 2^32, no timestamp seconds
   = known finding D1), and two added documents that collector kind k cannot
   tell apart (same metric types; for the schema-aware kinds also the same
   signature) have the same schema.  Nothing is assumed about metadata
   documents, about the clock readings, or about how often the schema changes.

   c07_run = true says: after EVERY operation the outputs are decodable, and
     decoded(writer) ++ decoded(Resolve) = the stripped documents accepted and not
        discarded by a Reset, once each, in order (Add appends iff it returned
        success, Reset keeps exactly the flushed part),
     Info's sample count = number of accepted, not yet flushed samples,
     every chunk holds at most cap_of k n samples. *)
Theorem C07_log : forall k n ops,
  compressing k = true -> 1 <= n < 2 ^ 31 -> ops_ok k ops ->
  c07_run deflate inflate None k n ops = true.
Proof. exact (c07_log deflate inflate inflate_deflate). Qed.

(* a rejected Add (full, other metric count, other metric types, unreadable
   input) on any reachable state changes nothing: the decodable contents are the
   same, and the collector and the writer are literally unchanged — except that
   the streaming collector performs its flush-before-add at capacity before the
   wrapped collector rejects an unreadable input (contents unchanged, pending
   samples moved to the writer) *)
Theorem C07_rejected_add : forall k n ops o,
  compressing k = true -> 1 <= n < 2 ^ 31 -> ops_ok k (ops ++ [o]) ->
  (o = OAddBad \/ exists d now, o = OAdd d now) ->
  let st := c07_reach deflate k n ops in
  let st' := fst (step deflate st o) in
  obs_add_ok (snd (step deflate st o)) = false ->
  (exists l, c07_contents deflate inflate st = Some l /\ c07_contents deflate inflate st' = Some l) /\
  (k <> KStream \/ o <> OAddBad -> st' = st).
Proof. exact (c07_rejected_add deflate inflate inflate_deflate). Qed.

(* Resolve and Info are read-only (and hence repeatable), on every state *)
Theorem C07_resolve_readonly : forall st,
  step deflate st OResolve = (st, BResolve (c_resolve deflate (fst st))) /\
  fst (step deflate st OInfo) = st /\
  snd (step deflate st OInfo) = BInfo (fst (c_info (fst st))) (snd (c_info (fst st))).
Proof. exact (c07_resolve_readonly deflate). Qed.

(* after Reset on any reachable state, every further history ops' (arbitrary, no
   assumption) yields the same observations and the same writer as on a freshly
   constructed collector carrying the metadata that survives Reset
   ([fresh_like]: base / streaming / streaming dynamic keep it, batch / dynamic
   are rebuilt without it) *)
Theorem C07_reset_fresh : forall k n ops ops',
  compressing k = true -> 1 <= n -> ops_ok k ops ->
  let c := fst (c07_reach deflate k n ops) in
  let w := snd (c07_reach deflate k n ops) in
  let r1 := run deflate (c_reset c, w) ops' in
  let r2 := run deflate (fresh_like k n c, w) ops' in
  snd r1 = snd r2 /\ snd (fst r1) = snd (fst r2).
Proof. exact (c07_reset_fresh deflate). Qed.

End C07.

Print Assumptions C07_log.
Print Assumptions C07_rejected_add.
Print Assumptions C07_resolve_readonly.
Print Assumptions C07_reset_fresh.

(* non-vacuity: a history over three schemas with metadata, rejected Adds (other
   types, other count, unreadable input), Resolve, Info, a Flush and a Reset in
   the middle satisfies the hypotheses for every compressing kind (with the
   trivial codec in place of zlib); the executable statement evaluates to true on
   it, and the base collector really rejects the third operation *)
Example C07_example :
  let deflate := (fun p : bytes => 1%N :: p) in
  let inflate := (fun z : bytes => match z with b :: p => if (b =? 1)%N then Some p else None | [] => None end) in
  let dA := (fun x => [([97]%N, VInt64 x); ([98]%N, VDouble 0); ([115]%N, VString [122]%N)]) in
  let dB := (fun x => [([97]%N, VInt64 x); ([99]%N, VDoc [([120]%N, VBool true)])]) in
  let dC := (fun x => [([97]%N, VArr [VInt32 x; VNull; VDateTime 1000]); ([116]%N, VTimestamp 0 7)]) in
  let ops := [OSetMeta (Some [([109]%N, VInt32 1)]); OAdd (dA 1) 10; OAdd (dB 2) 11; OAdd (dA (-3)) 12; OResolve; OInfo;
              OFlush; OAdd (dB 4) 13; OAdd (dB 5) 14; OAdd (dC 6) 15; OAddBad; OReset; OAdd (dA 7) 16; OAdd (dA 8) 17;
              OAdd (dA 9) 18; OInfo; OFlush; OResolve] in
  (forall p, inflate (deflate p) = Some p) /\
  forall k, compressing k = true ->
    ops_ok k ops /\ c07_run deflate inflate None k 2 ops = true /\
    (k = KBase -> nth 2 (snd (run deflate (new_coll k 2, mkWriter [] [] false) ops)) BReset = BAdd RTypes).
Proof. exact collector_example_c07. Qed.

(* ====================================================================== *)
(* C07, wrappers: the sampling collector (collector_sample.go) and the writer
   collector (writer.go), models in Model/Wrappers.v, proofs in
   Proofs/WrappersProofs.v.  These theorems justify how the correspondence
   harness maps the two entry points onto the collector model (hist.go,
   hist_run.ml): interval 0 = the wrapped collector itself; an interval that
   never elapses = only the first Add reaches the wrapped collector, the later
   ones answer nil; NewWriterCollector = the streaming dynamic collector. *)
From FV.Model Require Import Wrappers.
From FV.Proofs Require Import WrappersProofs.

Section C07Wrappers.
Variable deflate : bytes -> bytes.
Variable inflate : bytes -> option bytes.
Hypothesis inflate_deflate : forall p, inflate (deflate p) = Some p.

(* Histories are arbitrary lists of operations on ANY collector state st (any
   kind, any writer fault schedule).  The clock is the list of its successive
   readings, one per Add (of a readable or an unreadable input);
   [adds ops <= length clock] only says that the list is long enough.

   (a) minimum interval <= 0 under a clock that never goes back (readings >= the
   one stored by the previous Add; last = None, the zero time, is before all):
   the wrapper answers exactly like the wrapped collector and leaves it in
   exactly the same state. *)
Theorem C07_sampling_zero_is_identity : forall interval clock last st ops,
  interval <= 0 -> clock_mono last clock -> (adds ops <= length clock)%nat ->
  let r := sampling_run deflate interval clock (mkSstate st last) ops in
  (ss_st (fst r), snd r) = run deflate st ops.
Proof. exact (sampling_zero_is_identity deflate). Qed.

(* (b) the interval never elapses after the first Add (every later reading t has
   t - t0 < interval): the wrapped collector and its writer end in the state of
   the history [first_add_only ops] (= ops without every Add / unreadable Add
   after the first one: [first_add_mask false ops] marks the operations kept),
   the kept operations answer what that history answers, every removed Add
   answers nil, and nothing else is answered. *)
Theorem C07_sampling_long_first_only : forall interval clock st ops,
  never_elapses interval clock -> (adds ops <= length clock)%nat ->
  let r := sampling_run deflate interval clock (mkSstate st None) ops in
  let kept := first_add_mask false ops in
  let r' := run deflate st (first_add_only ops) in
  ss_st (fst r) = fst r' /\
  select kept (snd r) = snd r' /\
  Forall (fun b => b = BAdd ROk) (select (map negb kept) (snd r)) /\
  length (snd r) = length ops /\ length kept = length ops.
Proof. exact (sampling_long_first_only deflate). Qed.

(* (c) any interval, any clock, any starting state: the wrapped collector sees
   the sub-history selected by [sampling_mask] — a function of the interval, the
   clock and the positions of the Adds only —, which leaves out nothing but Adds;
   those answer nil. *)
Theorem C07_sampling_inner_history : forall interval clock s ops, (adds ops <= length clock)%nat ->
  let r := sampling_run deflate interval clock s ops in
  let kept := sampling_mask interval clock (ss_last s) ops in
  let r' := run deflate (ss_st s) (select kept ops) in
  ss_st (fst r) = fst r' /\
  select kept (snd r) = snd r' /\
  Forall (fun b => b = BAdd ROk) (select (map negb kept) (snd r)) /\
  Forall2 (fun (m : bool) o => m = false -> is_add o = true) kept ops /\
  length (snd r) = length ops /\ length kept = length ops.
Proof. exact (sampling_inner_history deflate). Qed.

(* ... and hence never invents a sample: after any history (hypotheses of C07_log)
   under any interval and clock, what the writer and Resolve hold decodes to a
   sub-sequence, in order, of the (stripped) documents of the Adds that were
   passed on, which are a sub-sequence of the documents offered.
   (It need not be a sub-sequence of what the unwrapped collector would hold after
   the same history: skipping an Add can make room for a later one, see the last
   lines of C07_sampling_example.) *)
Theorem C07_sampling_never_invents : forall interval clock k n ops,
  compressing k = true -> 1 <= n < 2 ^ 31 -> ops_ok k ops -> (adds ops <= length clock)%nat ->
  let r := sampling_run deflate interval clock (mkSstate (new_coll k n, mkWriter [] [] false) None) ops in
  let passed := select (sampling_mask interval clock None ops) ops in
  exists l, c07_contents deflate inflate (ss_st (fst r)) = Some l /\
    subseq l (map strip_doc (added_docs passed)) /\
    subseq (added_docs passed) (added_docs ops).
Proof. exact (sampling_never_invents deflate inflate inflate_deflate). Qed.

(* (d) the writer collector is the streaming dynamic collector: for every history
   of Write(readable document) / Write(unreadable bytes) / Close, every chunk size
   n and every fault schedule fs of the writer, the collector behind it and the
   writer (log, remaining faults) end exactly as collector kind sdyn does on the
   translated history (Write d -> Add d, Close -> FlushCollector, unreadable Write
   -> nothing), and the answers are those of that history with the refusal put
   back at every unreadable Write. *)
Theorem C07_writer_collector_is_sdyn : forall n fs ops,
  let r := wc_run deflate (wc_new n fs) ops in
  let r' := run deflate (new_coll KSDyn n, mkWriter [] fs false) (wc_translate ops) in
  CSDyn (fst (fst r)) = fst (fst r') /\
  snd (fst r) = snd (fst r') /\
  snd r = wc_answers ops (snd r') /\
  length (snd r) = length ops.
Proof. exact (writer_collector_is_sdyn deflate). Qed.

(* the same from any state of the collector and the writer *)
Theorem C07_writer_collector_is_sdyn_from : forall c w ops,
  let r := wc_run deflate (c, w) ops in
  let r' := run deflate (CSDyn c, w) (wc_translate ops) in
  CSDyn (fst (fst r)) = fst (fst r') /\
  snd (fst r) = snd (fst r') /\
  snd r = wc_answers ops (snd r') /\
  length (snd r) = length ops.
Proof. exact (writer_collector_is_sdyn_from deflate). Qed.

(* an unreadable Add has no effect on the streaming dynamic collector either (only
   the plain streaming collector flushes first), so reading an unreadable Write as
   an unreadable Add would reach the same states *)
Theorem C07_writer_bad_write_like_bad_add : forall c w,
  step deflate (CSDyn c, w) OAddBad = ((CSDyn c, w), BAdd RCount).
Proof. exact (sdyn_add_bad_no_effect deflate). Qed.

End C07Wrappers.

Print Assumptions C07_sampling_zero_is_identity.
Print Assumptions C07_sampling_long_first_only.
Print Assumptions C07_sampling_inner_history.
Print Assumptions C07_sampling_never_invents.
Print Assumptions C07_writer_collector_is_sdyn.
Print Assumptions C07_writer_collector_is_sdyn_from.
Print Assumptions C07_writer_bad_write_like_bad_add.

(* non-vacuity, sampling: a streaming collector (n = 2) behind a one-hour wrapper
   under the clock 100, 200, 300: the hypotheses of (a) and (b) hold; only the
   first Add counts (Info reports one sample where the unwrapped collector, having
   flushed at the unreadable Add, reports none); with interval 0 the answers are
   the unwrapped collector's.  Last three lines: a base collector (n = 1) behind
   an interval of 50 under the clock 0, 10, 60, 70 accepts the third Add, which
   the unwrapped collector refuses as full. *)
Example C07_sampling_example :
  let deflate := (fun p : bytes => 1%N :: p) in
  let d := (fun x => [([97]%N, VInt64 x); ([98]%N, VInt64 (x + 1))]) in
  let ops := [OInfo; OAdd (d 1) 10; OAdd (d 2) 11; OAddBad; OInfo; OReset] in
  let st0 := (new_coll KStream 2, mkWriter [] [] false) in
  let clock := [100; 200; 300] in
  clock_mono None clock /\ never_elapses 3600 clock /\ (adds ops <= length clock)%nat /\
  first_add_only ops = [OInfo; OAdd (d 1) 10; OInfo; OReset] /\
  snd (sampling_run deflate 3600 clock (mkSstate st0 None) ops) =
    [BInfo 0 0; BAdd ROk; BAdd ROk; BAdd ROk; BInfo 2 1; BReset] /\
  snd (run deflate st0 (first_add_only ops)) = [BInfo 0 0; BAdd ROk; BInfo 2 1; BReset] /\
  snd (sampling_run deflate 0 clock (mkSstate st0 None) ops) = snd (run deflate st0 ops) /\
  snd (run deflate st0 ops) = [BInfo 0 0; BAdd ROk; BAdd ROk; BAdd RCount; BInfo 0 0; BReset] /\
  let ops2 := [OAdd (d 1) 10; OAdd (d 2) 11; OAdd (d 3) 12; OAdd (d 4) 13; OInfo] in
  let st1 := (new_coll KBase 1, mkWriter [] [] false) in
  sampling_mask 50 [0; 10; 60; 70] None ops2 = [true; false; true; false; true] /\
  snd (sampling_run deflate 50 [0; 10; 60; 70] (mkSstate st1 None) ops2) = [BAdd ROk; BAdd ROk; BAdd ROk; BAdd ROk; BInfo 2 2] /\
  snd (run deflate st1 ops2) = [BAdd ROk; BAdd ROk; BAdd RFull; BAdd RFull; BInfo 2 2].
Proof. exact wrappers_example_sampling. Qed.

(* non-vacuity, writer collector (n = 2, the writer's second Write fails): three
   readable Writes and a refused one, the third Write flushes the full chunk, the
   first Close fails with the writer, the second succeeds; two chunks are written *)
Example C07_writer_example :
  let deflate := (fun p : bytes => 1%N :: p) in
  let d := (fun x => [([97]%N, VInt64 x); ([98]%N, VInt64 (x + 1))]) in
  let wops := [WWrite (d 1) 10; WWriteBad; WWrite (d 2) 11; WWrite (d 3) 12; WClose; WClose] in
  let fs := [FNone; FError] in
  wc_translate wops = [OAdd (d 1) 10; OAdd (d 2) 11; OAdd (d 3) 12; OFlush; OFlush] /\
  snd (wc_run deflate (wc_new 2 fs) wops) =
    [WBWrite ROk; WBRefused; WBWrite ROk; WBWrite ROk; WBClose false; WBClose true] /\
  snd (run deflate (new_coll KSDyn 2, mkWriter [] fs false) (wc_translate wops)) =
    [BAdd ROk; BAdd ROk; BAdd ROk; BFlush false; BFlush true] /\
  length (w_log (snd (fst (wc_run deflate (wc_new 2 fs) wops)))) = 2%nat /\
  c_info (CSDyn (fst (fst (wc_run deflate (wc_new 2 fs) wops)))) = (0, 0).
Proof. exact wrappers_example_writer. Qed.
