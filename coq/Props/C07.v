(* C07 — every collector kind is a faithful log of the samples it accepted: what
   Resolve returns plus what was flushed decodes to exactly the accepted samples,
   chunk sizes and the reported count are right after every operation, Resolve is
   read-only, a rejected Add changes nothing, Reset makes the collector fresh.
   Only the property theorems; proofs in Proofs/Collector*.v (entry point
   Proofs/CollectorProofs.v); the hypotheses [ops_ok], [doc_wf],
   [distinguishable] and the executable statement [c07_run] are defined in
   Model/CollectorOk.v. *)
From Coq Require Import ZArith NArith List Bool.
From FV.Model Require Import Bytes Bson Metrics Codec Collector Wf RoundTrip CollectorOk.
From FV.Proofs Require Import CollectorProofs.
Import ListNotations.
Open Scope Z_scope.

Section C07.
(* zlib is a parameter: any pair of functions with this property *)
Variable deflate : bytes -> bytes.
Variable inflate : bytes -> option bytes.
Hypothesis inflate_deflate : forall p, inflate (deflate p) = Some p.

(* Histories are arbitrary lists of Add / Add-of-unreadable-input / Resolve /
   Reset / Flush / SetMetadata / Info, of any length, on a fault-free writer.
   [ops_ok k ops]: every added document is representable ([doc_wf]: keys and
   values encodable, below 2 GiB, metric count below 2^32, no timestamp seconds
   = known finding D1), and two added documents that collector kind k cannot
   tell apart (same metric types; for the schema-aware kinds also the same
   signature) have the same schema.  Nothing is assumed about metadata
   documents, about the clock readings, or about how often the schema changes.

   c07_run = true says: after EVERY operation the outputs are decodable, and
     decoded(writer) ++ decoded(Resolve) = the stripped documents accepted and not
        discarded by a Reset, once each, in order (Add appends iff it returned
        success, Reset keeps exactly the flushed part),
     Info's sample count = number of accepted, not yet flushed samples,
     every chunk holds at most cap_of k n samples. *)
Theorem C07_log : forall k n ops,
  compressing k = true -> 1 <= n < 2 ^ 31 -> ops_ok k ops ->
  c07_run deflate inflate None k n ops = true.
Proof. exact (c07_log deflate inflate inflate_deflate). Qed.

(* a rejected Add (full, other metric count, other metric types, unreadable
   input) on any reachable state changes nothing: the decodable contents are the
   same, and the collector and the writer are literally unchanged — except that
   the streaming collector performs its flush-before-add at capacity before the
   wrapped collector rejects an unreadable input (contents unchanged, pending
   samples moved to the writer) *)
Theorem C07_rejected_add : forall k n ops o,
  compressing k = true -> 1 <= n < 2 ^ 31 -> ops_ok k (ops ++ [o]) ->
  (o = OAddBad \/ exists d now, o = OAdd d now) ->
  let st := c07_reach deflate k n ops in
  let st' := fst (step deflate st o) in
  obs_add_ok (snd (step deflate st o)) = false ->
  (exists l, c07_contents deflate inflate st = Some l /\ c07_contents deflate inflate st' = Some l) /\
  (k <> KStream \/ o <> OAddBad -> st' = st).
Proof. exact (c07_rejected_add deflate inflate inflate_deflate). Qed.

(* Resolve and Info are read-only (and hence repeatable), on every state *)
Theorem C07_resolve_readonly : forall st,
  step deflate st OResolve = (st, BResolve (c_resolve deflate (fst st))) /\
  fst (step deflate st OInfo) = st /\
  snd (step deflate st OInfo) = BInfo (fst (c_info (fst st))) (snd (c_info (fst st))).
Proof. exact (c07_resolve_readonly deflate). Qed.

(* after Reset on any reachable state, every further history ops' (arbitrary, no
   assumption) yields the same observations and the same writer as on a freshly
   constructed collector carrying the metadata that survives Reset
   ([fresh_like]: base / streaming / streaming dynamic keep it, batch / dynamic
   are rebuilt without it) *)
Theorem C07_reset_fresh : forall k n ops ops',
  compressing k = true -> 1 <= n -> ops_ok k ops ->
  let c := fst (c07_reach deflate k n ops) in
  let w := snd (c07_reach deflate k n ops) in
  let r1 := run deflate (c_reset c, w) ops' in
  let r2 := run deflate (fresh_like k n c, w) ops' in
  snd r1 = snd r2 /\ snd (fst r1) = snd (fst r2).
Proof. exact (c07_reset_fresh deflate). Qed.

End C07.

Print Assumptions C07_log.
Print Assumptions C07_rejected_add.
Print Assumptions C07_resolve_readonly.
Print Assumptions C07_reset_fresh.

(* non-vacuity: a history over three schemas with metadata, rejected Adds (other
   types, other count, unreadable input), Resolve, Info, a Flush and a Reset in
   the middle satisfies the hypotheses for every compressing kind (with the
   trivial codec in place of zlib); the executable statement evaluates to true on
   it, and the base collector really rejects the third operation *)
Example C07_example :
  let deflate := (fun p : bytes => 1%N :: p) in
  let inflate := (fun z : bytes => match z with b :: p => if (b =? 1)%N then Some p else None | [] => None end) in
  let dA := (fun x => [([97]%N, VInt64 x); ([98]%N, VDouble 0); ([115]%N, VString [122]%N)]) in
  let dB := (fun x => [([97]%N, VInt64 x); ([99]%N, VDoc [([120]%N, VBool true)])]) in
  let dC := (fun x => [([97]%N, VArr [VInt32 x; VNull; VDateTime 1000]); ([116]%N, VTimestamp 0 7)]) in
  let ops := [OSetMeta (Some [([109]%N, VInt32 1)]); OAdd (dA 1) 10; OAdd (dB 2) 11; OAdd (dA (-3)) 12; OResolve; OInfo;
              OFlush; OAdd (dB 4) 13; OAdd (dB 5) 14; OAdd (dC 6) 15; OAddBad; OReset; OAdd (dA 7) 16; OAdd (dA 8) 17;
              OAdd (dA 9) 18; OInfo; OFlush; OResolve] in
  (forall p, inflate (deflate p) = Some p) /\
  forall k, compressing k = true ->
    ops_ok k ops /\ c07_run deflate inflate None k 2 ops = true /\
    (k = KBase -> nth 2 (snd (run deflate (new_coll k 2, mkWriter [] [] false) ops)) BReset = BAdd RTypes).
Proof. exact collector_example_c07. Qed.
