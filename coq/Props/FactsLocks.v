(* Source facts for C10: the lock discipline of the two synchronized collector wrappers, read off
   coq/Generated/LockPaths.v (regenerated from /repo's source by `ftdcverif lockpaths` on every run
   of ./check C10 and ./check C16).  Every mutating method takes the WRITE lock and releases it by a
   deferred Unlock on its single path; only Info takes the read lock.  A method that switches to the
   read lock, or returns without unlocking, breaks this obligation. *)
From Coq Require Import String List Bool.
From FV.Model Require Import SysInterval.
From FV.Generated Require Import LockPaths.
Import ListNotations.
Local Open Scope string_scope.

Definition lock_event_eqb (a b : lock_event) : bool :=
  match a, b with
  | Lock, Lock | RLock, RLock | Unlock, Unlock | RUnlock, RUnlock
  | DeferUnlock, DeferUnlock | DeferRUnlock, DeferRUnlock => true
  | _, _ => false
  end.

Fixpoint path_eqb (p q : list lock_event) : bool :=
  match p, q with
  | [], [] => true
  | a :: r, b :: s => lock_event_eqb a b && path_eqb r s
  | _, _ => false
  end.

(* all paths recorded for a function *)
Definition paths_of (f : string) : list (list lock_event) :=
  map snd (filter (fun p => String.eqb (fst p) f) lock_paths).

(* the function occurs in the table and every one of its paths is exactly [expected] *)
Definition all_paths_are (expected : list lock_event) (f : string) : bool :=
  match paths_of f with
  | [] => false
  | ps => forallb (path_eqb expected) ps
  end.

Definition sync_writers : list string :=
  ["ftdc.synchronizedCollector.Add"; "ftdc.synchronizedCollector.SetMetadata";
   "ftdc.synchronizedCollector.Resolve"; "ftdc.synchronizedCollector.Reset";
   "events.synchronizedCollector.Add"; "events.synchronizedCollector.AddEvent";
   "events.synchronizedCollector.SetMetadata"; "events.synchronizedCollector.Resolve";
   "events.synchronizedCollector.Reset"].

Definition sync_readers : list string :=
  ["ftdc.synchronizedCollector.Info"; "events.synchronizedCollector.Info"].

Theorem FactsLocks_sync_collectors_write_lock :
  forallb (all_paths_are [Lock; DeferUnlock]) sync_writers = true.
Proof. vm_compute. reflexivity. Qed.
Print Assumptions FactsLocks_sync_collectors_write_lock.

Theorem FactsLocks_sync_collectors_read_lock :
  forallb (all_paths_are [RLock; DeferRUnlock]) sync_readers = true.
Proof. vm_compute. reflexivity. Qed.
Print Assumptions FactsLocks_sync_collectors_read_lock.

(* the catcher: Add appends under the write lock (after the nil test), observers take the read lock *)
Theorem FactsLocks_catcher_add :
  existsb (path_eqb [Lock; DeferUnlock]) (paths_of "util.basicCatcher.Add") = true /\
  forallb (fun p => path_eqb [] p || path_eqb [Lock; DeferUnlock] p) (paths_of "util.basicCatcher.Add") = true.
Proof. vm_compute. split; reflexivity. Qed.
Print Assumptions FactsLocks_catcher_add.
