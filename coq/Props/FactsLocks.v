(* Source facts for C10: the lock discipline of the two synchronized collector wrappers, read off
   coq/Generated/LockPaths.v (regenerated from /repo's source by `ftdcverif lockpaths` on every run
   of ./check C10 and ./check C16).  Every mutating method takes the WRITE lock and releases it on
   every path (by a deferred Unlock, or by an explicit Unlock as the last lock event of the path: both
   idioms are accepted, a path that returns between Lock and Unlock is recorded as [Lock] and is not);
   Info takes the read lock or the write lock.  A mutating method that switches to the read lock,
   returns without unlocking, or splits its critical section in two breaks this obligation. *)
From Coq Require Import String List Bool.
From FV.Model Require Import SysInterval.
From FV.Generated Require Import LockPaths.
Import ListNotations.
Local Open Scope string_scope.

Definition lock_event_eqb (a b : lock_event) : bool :=
  match a, b with
  | Lock, Lock | RLock, RLock | Unlock, Unlock | RUnlock, RUnlock
  | DeferUnlock, DeferUnlock | DeferRUnlock, DeferRUnlock => true
  | _, _ => false
  end.

Fixpoint path_eqb (p q : list lock_event) : bool :=
  match p, q with
  | [], [] => true
  | a :: r, b :: s => lock_event_eqb a b && path_eqb r s
  | _, _ => false
  end.

(* all paths recorded for a function *)
Definition paths_of (f : string) : list (list lock_event) :=
  map snd (filter (fun p => String.eqb (fst p) f) lock_paths).

(* the function occurs in the table and every one of its paths is exactly [expected] *)
Definition all_paths_are (expected : list lock_event) (f : string) : bool :=
  match paths_of f with
  | [] => false
  | ps => forallb (path_eqb expected) ps
  end.

Definition sync_writers : list string :=
  ["ftdc.synchronizedCollector.Add"; "ftdc.synchronizedCollector.SetMetadata";
   "ftdc.synchronizedCollector.Resolve"; "ftdc.synchronizedCollector.Reset";
   "events.synchronizedCollector.Add"; "events.synchronizedCollector.AddEvent";
   "events.synchronizedCollector.SetMetadata"; "events.synchronizedCollector.Resolve";
   "events.synchronizedCollector.Reset"].

Definition sync_readers : list string :=
  ["ftdc.synchronizedCollector.Info"; "events.synchronizedCollector.Info"].

(* one critical section under the write lock, released on the way out *)
Definition balanced_write (p : list lock_event) : bool :=
  path_eqb [Lock; DeferUnlock] p || path_eqb [Lock; Unlock] p.

(* one critical section under either lock *)
Definition balanced_any (p : list lock_event) : bool :=
  balanced_write p || path_eqb [RLock; DeferRUnlock] p || path_eqb [RLock; RUnlock] p.

Definition all_paths_satisfy (ok : list lock_event -> bool) (f : string) : bool :=
  match paths_of f with
  | [] => false
  | ps => forallb ok ps
  end.

Theorem FactsLocks_sync_collectors_write_lock :
  forallb (all_paths_satisfy balanced_write) sync_writers = true.
Proof. vm_compute. reflexivity. Qed.
Print Assumptions FactsLocks_sync_collectors_write_lock.

Theorem FactsLocks_sync_collectors_read_lock :
  forallb (all_paths_satisfy balanced_any) sync_readers = true.
Proof. vm_compute. reflexivity. Qed.
Print Assumptions FactsLocks_sync_collectors_read_lock.

(* the catcher: Add and Extend append under ONE write-locked section (after the nil / empty test, whose
   path takes no lock); a variant that reads the list under the read lock and swaps a copy in under the
   write lock loses the errors added in between, and shows up here as a path with two sections *)
Definition catcher_mutators : list string := ["util.basicCatcher.Add"; "util.basicCatcher.Extend"].

Theorem FactsLocks_catcher_add :
  forallb (fun f => existsb balanced_write (paths_of f) &&
                    forallb (fun p => path_eqb [] p || balanced_write p) (paths_of f)) catcher_mutators = true.
Proof. vm_compute. reflexivity. Qed.
Print Assumptions FactsLocks_catcher_add.
