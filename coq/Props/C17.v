(* C17 — uncompressed collectors emit exactly the samples given, in one stable
   encoding.  Only the property theorems; proofs in Proofs/UncProofs.v, the model in
   Model/Collector.v (ucoll / scoll over IU / sdcoll), the specification machine and
   the oracle in Model/UncOk.v.

   Quantification: every history [ops] of Add / Add(unreadable) / Resolve / Reset /
   Flush / SetMetadata / Info, every writer fault schedule [fs] (acknowledged,
   failing and short writes), the six uncompressed constructors (unc_kind), every
   batch size n >= 1, arbitrary documents (no well-formedness needed: a sample is
   the very same [doc] value wherever it appears, so the BSON flavour's bytes are
   [enc_doc] of it; the JSON text of a document is a library step outside the
   model). All theorems are proved by induction over the history. *)
From Coq Require Import ZArith NArith List Bool.
From FV.Model Require Import Bytes Bson Metrics Codec Collector Wf RoundTrip CollectorOk Instance UncOk.
From FV.Proofs Require Import UncProofs.
Import ListNotations.
Open Scope Z_scope.

Section C17.
(* zlib plays no role for these kinds; the theorems hold for every deflate *)
Variable deflate : bytes -> bytes.

(* C17_log: refinement to the (records, pending, metadata) machine of UncOk.v.
   The machine [a] is driven by the observations only (operation, its result, and
   whether the writer acknowledged / partly consumed a write during it):
   a sample becomes pending exactly when its Add returns no error, Reset discards
   exactly the pending samples, an acknowledged write moves all pending samples
   into a record, a failed one leaves them pending (spec_step).  After every
   history:
     - the writer log is, record by record, ODocs <flavour> (metadata in force at
       that time ++ the record's samples)  (complete or the consumed prefix),
     - Resolve returns ODocs <flavour> (metadata ++ pending), or fails iff nothing
       is pending,
     - Info().SampleCount = |pending|.
   Hence (samples of all acknowledged records) ++ (samples of Resolve) = a_total a,
   the accepted and not discarded samples, once each, in order, verbatim. *)
Theorem C17_log : forall k n fs ops, unc_kind k = true -> 1 <= n ->
  let st := fst (spec_trace deflate (init_state k n fs) aspec0 ops) in
  let a := snd (spec_trace deflate (init_state k n fs) aspec0 ops) in
  st = fst (run deflate (init_state k n fs) ops) /\
  refines (kind_json k) st a /\
  c_resolve deflate (fst st) = spec_resolve (kind_json k) a /\
  snd (c_info (fst st)) = Z.of_nat (length (a_pend a)).
Proof. exact (unc_log deflate). Qed.

(* what the machine's total is: Add-accepted appends, Reset keeps the durable
   part, writes move samples from pending to durable without changing the total *)
Theorem C17_total_flush : forall a e, a_total (spec_flush a e) = a_total a.
Proof. exact spec_flush_total. Qed.
Theorem C17_total_op : forall a o b,
  a_total (spec_op a o b) =
  match o, b with
  | OAdd d _, BAdd ROk => a_total a ++ [d]
  | OReset, _ => firstn (length (flat_map gr_durable (a_recs a))) (a_total a)
  | _, _ => a_total a
  end.
Proof. exact spec_op_total. Qed.

(* C17_flavour: the collector's flavour flag, every writer record (complete or
   partial) and every Resolve result carry the flavour the collector was
   constructed with, for its whole lifetime; in particular no OFtdc output is
   ever produced (the repaired defect D10 broke exactly this) *)
Theorem C17_flavour : forall k n fs ops, unc_kind k = true -> 1 <= n ->
  let res := run deflate (init_state k n fs) ops in
  cjson (fst (fst res)) = Some (kind_json k) /\
  Forall (fun r => exists ds, wrec_outp r = ODocs (kind_json k) ds) (w_log (snd (fst res))) /\
  Forall (fun b => match b with BResolve (Some o) => exists ds, o = ODocs (kind_json k) ds | _ => True end) (snd res).
Proof. exact (unc_flavour deflate). Qed.

(* C17_batch (bound): every record holds between 1 and n samples, at most n are pending *)
Theorem C17_batch : forall k n fs ops, unc_kind k = true -> 1 <= n ->
  let a := snd (spec_trace deflate (init_state k n fs) aspec0 ops) in
  recs_bounded n a /\ Z.of_nat (length (a_pend a)) <= n.
Proof. exact (unc_batch_bound deflate). Qed.

(* the three outcomes of uncompressedCollector.Add (uc_add_res): "count" iff a
   field count is recorded and the document's differs; else "full" iff the batch
   is full; else accepted *)
Theorem C17_add_res : forall u d,
  (uc_mcount u <> 0 /\ Z.of_nat (length d) <> uc_mcount u /\ uc_add_res u d = RCount) \/
  ((uc_mcount u = 0 \/ Z.of_nat (length d) = uc_mcount u) /\
   ((uc_batch u <= Z.of_nat (length (uc_samples u)) /\ uc_add_res u d = RFull) \/
    (Z.of_nat (length (uc_samples u)) < uc_batch u /\ uc_add_res u d = ROk))).
Proof. exact uc_add_res_cases. Qed.

(* C17_batch / C17_schema, plain kinds: Add never writes; it is refused with
   RCount / RFull as above and then leaves the samples unchanged; every pending
   sample is empty or has the recorded field count *)
Theorem C17_plain : forall k n u w d now, unc_kind k = true -> 1 <= n -> reachable deflate k n (CUnc u, w) ->
  uc_batch u = n /\
  Forall (fun s : doc => s = [] \/ Z.of_nat (length s) = uc_mcount u) (uc_samples u) /\
  exists u', step deflate (CUnc u, w) (OAdd d now) = ((CUnc u', w), BAdd (uc_add_res u d)) /\
    uc_meta u' = uc_meta u /\
    uc_samples u' = uc_samples u ++ (match uc_add_res u d with ROk => [d] | _ => [] end).
Proof. exact (unc_add_plain deflate). Qed.

(* streaming kinds below capacity behave as the plain ones (RFull cannot occur) *)
Theorem C17_stream_room : forall k n s u w d now, unc_kind k = true -> 1 <= n ->
  reachable deflate k n (CStream s, w) -> sc_inner s = IU u ->
  sc_count s = Z.of_nat (length (uc_samples u)) /\ sc_max s = n /\
  Forall (fun x : doc => x = [] \/ Z.of_nat (length x) = uc_mcount u) (uc_samples u) /\
  (Z.of_nat (length (uc_samples u)) < n ->
   exists s' u', step deflate (CStream s, w) (OAdd d now) = ((CStream s', w), BAdd (uc_add_res u d)) /\
     sc_inner s' = IU u' /\ uc_meta u' = uc_meta u /\
     uc_samples u' = uc_samples u ++ (match uc_add_res u d with ROk => [d] | _ => [] end)).
Proof. exact (unc_add_stream_room deflate). Qed.

(* C17_batch, streaming and schema-aware kinds at capacity: flush-before-add.
   Everything pending is handed to the writer; acknowledged => the document is
   accepted into the emptied collector (whatever its field count); otherwise
   nothing changes and the Add fails (RFlush) *)
Theorem C17_full : forall k n c w d now, unc_kind k = true -> 1 <= n -> reachable deflate k n (c, w) ->
  plain_kind k = false -> n <= Z.of_nat (length (pend c)) ->
  let P := ODocs (kind_json k) (mh (cmeta c) ++ pend c) in
  exists w' ok e, w_write w P = (w', ok) /\ log_ev w w' P e /\ (ok = true <-> e = WDone) /\
    if ok then exists c', step deflate (c, w) (OAdd d now) = ((c', w'), BAdd ROk) /\ cmeta c' = cmeta c /\ pend c' = [d]
    else step deflate (c, w) (OAdd d now) = ((c, w'), BAdd RFlush).
Proof. exact (unc_add_full deflate). Qed.

(* C17_schema, schema-aware kinds (acknowledging writer): a new output starts
   exactly at a change of the metric signature (schema_sig: hashed metric keys
   and metric count) or at capacity; a document of the pending samples'
   signature is appended — unless its number of top-level fields differs from
   theirs, in which case the wrapped collector refuses it with RCount (a
   non-metric field was added or removed: the signature does not see it) *)
Theorem C17_schema : forall k n x u w d now, unc_kind k = true -> 1 <= n ->
  reachable deflate k n (CSDyn x, w) -> sc_inner (sd_s x) = IU u -> next_write_ok w ->
  let c := CSDyn x in
  let P := ODocs (kind_json k) (mh (uc_meta u) ++ uc_samples u) in
  (uc_samples u <> [] -> (sd_changed x d = false <-> forall s, In s (uc_samples u) -> schema_sig s = schema_sig d)) /\
  (uc_samples u = [] ->
     exists c', step deflate (c, w) (OAdd d now) = ((c', w), BAdd ROk) /\ cmeta c' = uc_meta u /\ pend c' = [d]) /\
  (uc_samples u <> [] -> sd_changed x d = true \/ n <= Z.of_nat (length (uc_samples u)) ->
     exists c' w', step deflate (c, w) (OAdd d now) = ((c', w'), BAdd ROk) /\
       w_log w' = w_log w ++ [WFull P] /\ cmeta c' = uc_meta u /\ pend c' = [d]) /\
  (uc_samples u <> [] -> sd_changed x d = false -> Z.of_nat (length (uc_samples u)) < n ->
     exists c', step deflate (c, w) (OAdd d now) = ((c', w), BAdd (uc_add_res u d)) /\ cmeta c' = uc_meta u /\
       pend c' = uc_samples u ++ (match uc_add_res u d with ROk => [d] | _ => [] end)).
Proof. exact (unc_add_sdyn deflate). Qed.

(* never mixing: all samples of one output of a schema-aware kind, and the
   pending ones, have one metric signature (no loss: C17_log) *)
Theorem C17_unmixed : forall k n fs ops, unc_kind k = true -> sdyn_kind k = true -> 1 <= n ->
  let a := snd (spec_trace deflate (init_state k n fs) aspec0 ops) in
  recs_unmixed a /\ one_schema (a_pend a).
Proof. exact (unc_unmixed deflate). Qed.

(* C08 for these kinds, whole sequence: for Add d1 .. Add dk; Flush on a
   schema-aware kind (no metadata, acknowledging writer) every document is accepted
   and the outputs are exactly the greedy groups of the input sequence - a new
   output at each change of the metric signature and at capacity, nothing lost,
   nothing mixed - provided documents of one signature have one top-level field
   count and none is empty (otherwise C17_schema's RCount case applies).
   groups_from states the boundaries on the documents themselves; its sizes are
   not formally related to CollectorOk.expected_sizes here. *)
Theorem C17_groups : forall k n docs nows, unc_kind k = true -> sdyn_kind k = true -> 1 <= n ->
  length nows = length docs ->
  Forall (fun s : doc => s <> []) docs ->
  (forall a b, In a docs -> In b docs -> schema_sig a = schema_sig b -> length a = length b) ->
  let res := run deflate (init_state k n []) (add_ops docs nows ++ [OFlush]) in
  snd res = map (fun _ => BAdd ROk) docs ++ [BFlush true] /\
  w_log (snd (fst res)) = map (fun g => WFull (ODocs (kind_json k) g)) (groups_from n [] docs) /\
  concat (groups_from n [] docs) = docs.
Proof. exact (unc_sdyn_groups deflate). Qed.

(* the executable oracle c17_step (Model/UncOk.v: the statement of C17 on the
   observations Add result / writer log / Resolve / Info, which the driver applies
   to the implementation) never fires on the model: for every rendering function
   whose texts contain no newline, every history without SetMetadata(nil) (which
   the library refuses and which hist.go never issues) passes all checks after
   every operation: flavour, no trailing bytes, content = metadata ++ next
   samples, one parseable line per sample, batch bound, no empty output, Resolve
   present iff samples pending, Info, earlier records unchanged *)
Theorem C17_oracle : forall render : doc -> bytes, (forall d, ~ In 10%N (render d)) ->
  forall k n fs ops, unc_kind k = true -> 1 <= n ->
  Forall (fun o => o <> OSetMeta None) ops -> c17_run render deflate k n fs ops = true.
Proof. exact (fun render H => unc_oracle render H deflate). Qed.

(* non-vacuity: a schema-aware BSON collector, batch size 2, with metadata, a
   schema change (flush of [M;A1;A2]), an explicit flush ([M;B]), a Reset that
   discards an accepted sample, a failing Resolve and a further Add *)
Example C17_example :
  let res := run deflate (init_state KSDynUncB 2 []) ex_ops in
  w_log (snd (fst res)) = [WFull (ODocs false [ex_M; ex_A1; ex_A2]); WFull (ODocs false [ex_M; ex_B])] /\
  snd res = [BSetMeta; BAdd ROk; BAdd ROk; BAdd ROk; BFlush true; BAdd ROk; BReset; BResolve None; BAdd ROk] /\
  c_resolve deflate (fst (fst res)) = Some (ODocs false [ex_M; ex_A2]) /\
  a_total (snd (spec_trace deflate (init_state KSDynUncB 2 []) aspec0 ex_ops)) = [ex_A1; ex_A2; ex_B; ex_A2].
Proof. exact (unc_example deflate). Qed.

End C17.

Print Assumptions C17_log.
Print Assumptions C17_total_flush.
Print Assumptions C17_total_op.
Print Assumptions C17_flavour.
Print Assumptions C17_batch.
Print Assumptions C17_add_res.
Print Assumptions C17_plain.
Print Assumptions C17_stream_room.
Print Assumptions C17_full.
Print Assumptions C17_schema.
Print Assumptions C17_unmixed.
Print Assumptions C17_groups.
Print Assumptions C17_oracle.

(* ------------------------------------------------------------------ batch sizes n <= 0 *)
(* The constructors accept any int.  uncompressedCollector.Add refuses with
   "overfull" when len(samples) >= batchSize — always, for batchSize <= 0; the
   streaming wrappers flush when count >= maxSamples (always: count stays 0), but
   FlushCollector returns at once for an empty collector, then the wrapped
   collector refuses.  So the six kinds behave alike (harness: histories "ar",
   "aaf", "maar" with n = 0 and n = -1 for every kind).  Proofs: Proofs/UncNonpos.v.
     np_res mc d   = RCount if a field count mc <> 0 is recorded and d's differs, else RFull
     np_mc mc d    = the field count recorded after Add d (the first one wins; 0 = none)
     np_answers    = np_res along a sequence of documents
     obs_nothing b = b is: an Add answered RFull or RCount / Resolve without data /
                     a successful (empty) flush / Info with SampleCount 0 / Reset / SetMetadata *)
From FV.Proofs Require Import UncNonpos.

Section C17_nonpositive.
Variable deflate : bytes -> bytes.

(* EVERY history (all seven operations, any fault schedule), all six kinds: the
   writer is never called (log empty, fault schedule untouched), no Add is ever
   accepted, nothing is ever pending, every Resolve fails, every flush is the
   empty successful one *)
Theorem C17_nonpositive_batch_run : forall k n fs ops, unc_kind k = true -> n <= 0 ->
  let res := run deflate (init_state k n fs) ops in
  snd (fst res) = mkWriter [] fs false /\
  pend (fst (fst res)) = [] /\ c_resolve deflate (fst (fst res)) = None /\ snd (c_info (fst (fst res))) = 0 /\
  Forall obs_nothing (snd res).
Proof. exact (unc_nonpos_run deflate). Qed.

(* one Add in any reachable state: the answer is the "full" refusal, or the
   "count" refusal when a different field count is on record; it agrees with
   C17_add_res's [uc_add_res]; the writer is untouched, nothing becomes pending,
   the metadata stays; the only effect is that the field count is recorded (as in
   uncompressedCollector.Add, which records it before refusing) *)
Theorem C17_nonpositive_batch_add : forall k n c w d now, unc_kind k = true -> n <= 0 ->
  reachable deflate k n (c, w) ->
  exists u, coll_ucoll c = Some u /\ uc_batch u = n /\ uc_samples u = [] /\
  uc_add_res u d = np_res (uc_mcount u) d /\
  exists c', step deflate (c, w) (OAdd d now) = ((c', w), BAdd (np_res (uc_mcount u) d)) /\
    pend c' = [] /\ cmeta c' = cmeta c /\ cmc c' = np_mc (uc_mcount u) d.
Proof. exact (unc_nonpos_add deflate). Qed.

(* all histories of Adds, closed form: the first document is refused as "full",
   and so is every later one with the recorded number of top-level fields; the
   others are refused as "count" *)
Theorem C17_nonpositive_batch_adds : forall k n fs docs nows, unc_kind k = true -> n <= 0 ->
  length nows = length docs ->
  snd (run deflate (init_state k n fs) (add_ops docs nows)) = map BAdd (np_answers 0 docs).
Proof. exact (unc_nonpos_adds deflate). Qed.

Example C17_nonpositive_example :
  snd (run deflate (init_state KSDynUncJ (-1) [FError]) (add_ops np_ex_docs [0; 0; 0] ++ [OResolve; OFlush; OInfo])) =
    [BAdd RFull; BAdd RCount; BAdd RFull; BResolve None; BFlush true; BInfo 1 0] /\
  np_answers 0 np_ex_docs = [RFull; RCount; RFull].
Proof. exact (unc_nonpos_example deflate). Qed.

End C17_nonpositive.

Print Assumptions C17_nonpositive_batch_run.
Print Assumptions C17_nonpositive_batch_add.
Print Assumptions C17_nonpositive_batch_adds.
