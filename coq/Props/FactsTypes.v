(* Source-facts obligations over Generated/TypeTables.v (DESIGN.md 5b) — belongs to C01 and C02.

   Generated/TypeTables.v is REWRITTEN from /repo's current source on every check run
   (`ftdcverif facts`, harness/facts.go): one table per BSON type switch of
     extractMetricsFromValue (bson_extract.go)   metricForType (bson_metric.go)
     metricKeyHashValue (bson_hash.go)            restoreElement, restoreFlat (bson_restore.go)
     rehydrateMatrix (bson_matrix.go)             Metric.getSeries (iterator_matrix.go)
     Chunk.getRecord (csv.go)
   The theorems below are re-proved over the regenerated tables, so a change of one of these
   switches that breaks the codec's consistency breaks a proof obligation here.

   Vocabulary (Proofs/FactsProofs.v):
     arity_from_table tbl dflt t   metrics a value of BSON type byte t yields by the switch [tbl]
                                   (first matching case, else default); None = the arm recurses
     model_arity t                 the same for the model: length (Metrics.flatten v) for a
                                   representative v of the constructor with tag t; None = container
     arity_rec ar v                the arity computed from a table, recursively over a value
     indexed_ok / per_metric_ok    a consumer switch handles exactly the metric-producing leaf types,
                                   consumes the slots the producers yield and rebuilds the same type *)
From Coq Require Import String ZArith NArith List Bool.
From FV.Model Require Import Bytes Bson Metrics.
From FV.Proofs Require Import FactsProofs.
From FV.Generated Require Import TypeTables.
Import ListNotations.
Local Open Scope nat_scope.

Definition extract_arity := arity_from_table extract_table extract_default.
Definition metric_arity := arity_from_table metric_table metric_default.
Definition hash_arity := arity_from_table hash_table hash_default.

(* 0. the names of the case labels mean the model's constructors: the BSON type bytes of the
      bsontype constants are the [Bson.tag]s of the constructors, in the same order *)
Theorem FactsTypes_bsontype_tags :
  map snd bsontype_tags = map tag all_reps /\
  map fst bsontype_tags =
    ["Double"; "String"; "EmbeddedDocument"; "Array"; "Binary"; "Undefined"; "ObjectID"; "Boolean";
     "DateTime"; "Null"; "Regex"; "DBPointer"; "JavaScript"; "Symbol"; "CodeWithScope"; "Int32";
     "Timestamp"; "Int64"; "Decimal128"; "MaxKey"; "MinKey"]%string /\
  forall v, exists r, rep_value (tag v) = Some r /\ tag r = tag v.
Proof. split; [vm_compute; reflexivity | split; [vm_compute; reflexivity | exact rep_value_tag]]. Qed.
Print Assumptions FactsTypes_bsontype_tags.

(* 1. (a) the three producer switches agree with the model - hence with each other - on every
      type byte: encoder (extract), decoder (metricForType) and schema hash count the same *)
Theorem FactsTypes_producers_agree_with_model : forall t, (t < 256)%N ->
  extract_arity t = model_arity t /\ metric_arity t = model_arity t /\ hash_arity t = model_arity t.
Proof.
  intros t Ht.
  split; [|split]; apply agrees_with_model_spec; try exact Ht; vm_compute; reflexivity.
Qed.
Print Assumptions FactsTypes_producers_agree_with_model.

Theorem FactsTypes_producers_agree : forall t, (t < 256)%N ->
  extract_arity t = metric_arity t /\ extract_arity t = hash_arity t.
Proof.
  intros t Ht. destruct (FactsTypes_producers_agree_with_model t Ht) as [H1 [H2 H3]].
  rewrite H1, H2, H3. split; reflexivity.
Qed.
Print Assumptions FactsTypes_producers_agree.

(* 2. the table obligation is about the model's functions: for EVERY value v (any nesting, any size)
      the number of metrics the model's encoder produces, the number of Metric entries the model's
      decoder produces and the count of the schema hash are the arity computed recursively from the
      SOURCE's tables *)
Theorem FactsTypes_flatten_is_extract_table : forall v,
  length (flatten v) = arity_rec extract_arity v.
Proof. apply flatten_length_table. vm_compute. reflexivity. Qed.
Print Assumptions FactsTypes_flatten_is_extract_table.

Theorem FactsTypes_metrics_of_is_metric_table : forall path key v,
  length (metrics_of path key v) = arity_rec metric_arity v.
Proof. apply metrics_of_length_table. vm_compute. reflexivity. Qed.
Print Assumptions FactsTypes_metrics_of_is_metric_table.

Theorem FactsTypes_hash_count_is_hash_table : forall key v,
  snd (hash_keys key v) = Z.of_nat (arity_rec hash_arity v).
Proof. apply hash_count_table. vm_compute. reflexivity. Qed.
Print Assumptions FactsTypes_hash_count_is_hash_table.

Theorem FactsTypes_document_arity : forall d,
  length (flatten_doc d) = arity_doc extract_arity d.
Proof. apply flatten_doc_length_table. vm_compute. reflexivity. Qed.
Print Assumptions FactsTypes_document_arity.

(* 3. the metric TYPES: every non-recursive arm of the encoder records (metrics.types) and of the
      decoder assigns (originalType) the arm's own case label once per metric it yields - which is
      what the model's flatten does (mtype_tag (fst m) = tag v for every metric m of a leaf v).
      Consumers that switch on originalType therefore see a label of a metric-producing leaf,
      once per slot *)
Theorem FactsTypes_recorded_types :
  types_ok extract_arity extract_types = true /\ types_cover extract_table extract_types = true /\
  types_ok metric_arity metric_types = true /\ types_cover metric_table metric_types = true /\
  forall v, is_container (tag v) = false ->
    map (fun m => mtype_tag (fst m)) (flatten v) = repeat (tag v) (length (flatten v)).
Proof.
  split; [vm_compute; reflexivity|]. split; [vm_compute; reflexivity|].
  split; [vm_compute; reflexivity|]. split; [vm_compute; reflexivity|]. exact flatten_types_own.
Qed.
Print Assumptions FactsTypes_recorded_types.

(* 4. (b) the consumers.
      restoreElement: containers recurse and rebuild the same container type, types without metrics
        are skipped leaving idx alone, every metric-producing leaf type t yielding n metrics consumes
        exactly n slots (returns idx + n), reads exactly metrics[idx] .. metrics[idx+n-1] and
        rebuilds an element of type t.
      rehydrateMatrix (switch on originalType): every metric-producing leaf type advances `sample`
        by the n slots the producers yield and reads metrics[sample .. sample+n-1]; everything
        else is an error.
      restoreFlat / getSeries / getRecord (called once per metric with its originalType): every
        metric-producing leaf type is handled using its one slot; restoreFlat and getSeries rebuild
        the leaf's own type, Int64 for the two slots of a Timestamp; getSeries and getRecord skip
        every other type (restoreFlat's default arm makes an Int64 of anything). *)
Theorem FactsTypes_consumers_agree :
  indexed_ok true restore_table restore_default = true /\
  indexed_ok false matrix_table matrix_default = true /\
  per_metric_ok flat_out false flat_table flat_default = true /\
  per_metric_ok flat_out true series_table series_default = true /\
  per_metric_ok (fun _ => None) true csv_table csv_default = true.
Proof.
  split; [vm_compute; reflexivity|]. split; [vm_compute; reflexivity|].
  split; [vm_compute; reflexivity|]. split; vm_compute; reflexivity.
Qed.
Print Assumptions FactsTypes_consumers_agree.

(* ... in particular the slots consumed per value are the metrics produced per value, on every
   type byte that is not a container (Timestamp 2, Boolean/Double/Int32/Int64/DateTime 1, else 0) *)
Theorem FactsTypes_slots_consumed_are_metrics_produced : forall t, (t < 256)%N -> model_arity t <> None ->
  slots_indexed restore_table restore_default t = extract_arity t /\
  slots_indexed matrix_table matrix_default t = extract_arity t.
Proof.
  intros t Ht Hne. destruct (FactsTypes_consumers_agree) as [Hr [Hm _]].
  destruct (FactsTypes_producers_agree_with_model t Ht) as [He _]. rewrite He.
  split; [exact (indexed_ok_slots _ _ _ Hr t Ht Hne) | exact (indexed_ok_slots _ _ _ Hm t Ht Hne)].
Qed.
Print Assumptions FactsTypes_slots_consumed_are_metrics_produced.

(* 5. restoreFlat's table is the model's restore_flat: for every metric type and value the model
      rebuilds an element of the BSON type the source's arm constructs *)
Theorem FactsTypes_restore_flat_is_flat_table : forall m x,
  Some (tag (restore_flat m x)) = ctor_of (arm_of flat_table flat_default (mtype_tag m)).
Proof.
  intros m x. rewrite restore_flat_tag. symmetry.
  apply (per_metric_ok_ctor flat_out false). vm_compute. reflexivity.
Qed.
Print Assumptions FactsTypes_restore_flat_is_flat_table.

(* the hypotheses are satisfiable by non-trivial instances: a nested document with every kind of
   leaf; 6 metrics (timestamp 2, the string and the ObjectID none) *)
Example FactsTypes_example :
  let v := VDoc [ ([97%N], VArr [VInt32 1%Z; VString []; VTimestamp 5%Z 6%Z]);
                  ([98%N], VDoc [([99%N], VBool true); ([100%N], VObjectID [])]);
                  ([101%N], VDouble 0%Z); ([102%N], VDateTime 7%Z) ] in
  arity_rec extract_arity v = 6 /\ length (flatten v) = 6.
Proof. split; vm_compute; reflexivity. Qed.
