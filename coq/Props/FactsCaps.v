(* Source-facts obligations over Generated/Caps.v (DESIGN.md 5b) — belongs to C06 (and C05),
   C20, C03/C04 (reader limit) and C19 (json pipeline).

   Generated/Caps.v is REWRITTEN from /repo's current source on every check run (`ftdcverif facts`,
   harness/facts.go): the capacity of every channel of the reader pipelines (iterator_chunk.go,
   iterator.go, iterator_sample.go) and of metrics/json.go, and the constants max_samples,
   second_ms (t2.go), maxChunkValues (read.go).  The theorems state that the constants the models
   are built with are the source's; a changed capacity or constant breaks an obligation here. *)
From Coq Require Import ZArith NArith List Bool.
From FV.Model Require Import SysReader Genny Frame.
From FV.Generated Require Import Caps.
Import ListNotations.

(* 1. Model/SysReader.v (C05/C06): the configuration [cfg_of k] the theorems are stated for carries
      the source's capacities - chunk pipe, document pipe of the flattened/structured iterators
      (KDoc) and of the matrix/series iterators (KMatrix), sample stream of both sample iterators *)
Theorem FactsCaps_sysreader_capacities :
  (forall k, c_pcap (cfg_of k) = Caps.chunk_pipe_cap) /\
  c_dcap (cfg_of KDoc) = Caps.read_metrics_pipe_cap /\
  c_dcap (cfg_of KDoc) = Caps.read_structured_pipe_cap /\
  c_dcap (cfg_of KMatrix) = Caps.read_matrix_pipe_cap /\
  c_dcap (cfg_of KMatrix) = Caps.read_series_pipe_cap /\
  (forall k, c_scap (cfg_of k) = Caps.flat_stream_cap) /\
  (forall k, c_scap (cfg_of k) = Caps.structured_stream_cap).
Proof.
  split; [intros []; reflexivity|]. split; [reflexivity|]. split; [reflexivity|].
  split; [reflexivity|]. split; [reflexivity|]. split; intros []; reflexivity.
Qed.
Print Assumptions FactsCaps_sysreader_capacities.

(* 2. channels the models treat as rendezvous: the ipc channel between readDiagnostic and
      readChunks (SysReader: RD_send has no step of its own, the receiver takes the item) and the
      document channel of CollectJSONOptions.getSource (JsonPipe: the goroutine waits until the
      main loop takes the document); and the error channel of getSource, whose capacity 2 is what
      lets JsonPipe treat `errs <- err` as never blocking (at most one error is sent per goroutine
      run, before close).  These models have no capacity parameter; the values they are built
      for are stated here *)
Definition expected_ipc_cap : nat := 0.
Definition expected_json_out_cap : nat := 0.
Definition expected_json_errs_cap : nat := 2.

Theorem FactsCaps_structural_capacities :
  Caps.ipc_cap = expected_ipc_cap /\
  Caps.json_out_cap = expected_json_out_cap /\
  Caps.json_errs_cap = expected_json_errs_cap.
Proof. split; [reflexivity|]. split; reflexivity. Qed.
Print Assumptions FactsCaps_structural_capacities.

(* 3. Model/Genny.v (C20): the chunk size of the translated output and the millisecond factor of
      ceil_sec / stamp_ms are the source's max_samples and second_ms *)
Theorem FactsCaps_genny_constants :
  Genny.max_samples = Caps.max_samples /\
  (forall ts, ceil_sec ts = ((ts + (Caps.second_ms - 1)) / Caps.second_ms)%Z) /\
  (forall t, stamp_ms t = wrap_i64 (t * Caps.second_ms)%Z) /\
  (forall out, output_chunks out = stream_collect Caps.max_samples [] out).
Proof. split; [reflexivity|]. split; [intros; reflexivity|]. split; intros; reflexivity. Qed.
Print Assumptions FactsCaps_genny_constants.

(* 4. Model/Frame.v (C03/C04): the reader's bound on metrics x samples of one chunk *)
Theorem FactsCaps_reader_limit : reader_limit = Caps.max_chunk_values.
Proof. reflexivity. Qed.
Print Assumptions FactsCaps_reader_limit.

(* the statements are about non-trivial values *)
Example FactsCaps_example :
  Caps.chunk_pipe_cap = 2%nat /\ Caps.read_metrics_pipe_cap = 100%nat /\ Caps.read_matrix_pipe_cap = 25%nat /\
  Caps.max_samples = 300%nat /\ Caps.second_ms = 1000%Z /\ Caps.max_chunk_values = (2 ^ 27)%N.
Proof. repeat (split; [reflexivity|]). reflexivity. Qed.
