(* C16 - concurrent recorders neither deadlock nor lose updates.
   Only the property theorems; each is closed by [exact]/[apply] of a lemma from
   Proofs/SysIntervalProofs.v (or by vm_compute over the REGENERATED source table
   Generated/LockPaths.v) and followed by Print Assumptions.

   The transition system (Model/SysInterval.v) has one parameter that depends on the
   code: does the flusher release the mutex when it finds its context cancelled?  Its
   value is not assumed but READ from the lock paths of worker() in /repo:
   [src_flusher_unlocks lock_paths].  All theorems below are stated for the system
   instantiated with that value, for every number of user goroutines, every list of
   programs (unbounded) and every schedule. *)
From Coq Require Import ZArith List Bool.
From FV.Model Require Import SysInterval.
From FV.Generated Require Import LockPaths.
From FV.Proofs Require Import SysIntervalProofs.
Import ListNotations.
Open Scope Z_scope.

(* the system under test: the parameter computed from the source, with or without flusher
   (without = the synchronized wrapper over a recorder that has no goroutine) *)
Definition sut (with_fl : bool) : cfg := mkCfg (src_flusher_unlocks lock_paths) with_fl.

(* ------------------------------------------------------------------ source facts *)

(* 1. every control-flow path of every function of the six files leaves the receiver's mutex
      unlocked, never unlocks an unlocked mutex and never locks a mutex it holds; deferred
      unlocks run at return.  By computation over the table regenerated from /repo. *)
Theorem C16_lock_paths_balanced : forallb (fun p => balanced (snd p)) lock_paths = true.
Proof. vm_compute. reflexivity. Qed.
Print Assumptions C16_lock_paths_balanced.

(* 2. in particular all paths of both flusher functions (and of one loop iteration) do *)
Theorem C16_source_flusher_unlocks : src_flusher_unlocks lock_paths = true.
Proof. vm_compute. reflexivity. Qed.
Print Assumptions C16_source_flusher_unlocks.

(* 3. every public method of the two interval recorders and of the synchronized wrapper
      is, on every path, exactly Lock; body; Unlock - the shape of a call in the model *)
Theorem C16_source_methods_lock_unlock : src_methods_lock_unlock lock_paths = true.
Proof. vm_compute. reflexivity. Qed.
Print Assumptions C16_source_methods_lock_unlock.

(* 4. general lemma, for ALL paths: a goroutine that does not hold the mutex and executes
      a balanced path gets through every event and ends not holding it (deferred calls
      included); any sequence of balanced paths likewise.  And the paths followed by the
      goroutines of the transition system are balanced exactly when the parameter is true -
      which is how 1./2. become the premise of the lock invariant below. *)
Theorem C16_balanced_path_releases :
  (forall p, balanced p = true <-> exec_path Free p = Some Free) /\
  (forall ps, forallb balanced ps = true ->
     fold_left (fun h p => match h with Some h0 => exec_path h0 p | None => None end) ps (Some Free)
     = Some Free) /\
  (forall c, (balanced user_call_path && forallb balanced (flusher_paths c))%bool
             = flusher_unlocks_on_cancel c).
Proof. exact (conj balanced_exec (conj balanced_seq model_paths_balanced)). Qed.
Print Assumptions C16_balanced_path_releases.

(* 4b. general theorem, for ALL balanced paths, any number of goroutines and every schedule:
      goroutines that each execute a sequence of balanced paths over one RWMutex (Lock excludes
      everybody, RLock excludes writers; a goroutine that has to wait has no step) never reach a
      state in which nobody can move while somebody is unfinished, a writer never coexists with
      readers, every holder is a live goroutine, and when all have finished the mutex is free.
      With 1. this covers the synchronized recorder wrapper, both synchronizedCollectors and the
      catcher (their methods are in the table): any concurrent use of their methods is free of
      self-inflicted deadlock. *)
Theorem C16_lock_discipline_system : forall todo sched s,
  (forall ps, In ps todo -> forall p, In p ps -> In p (map snd lock_paths)) ->
  prun (pinit todo) sched = Some s ->
  ((forall w, rw_writer (ps_rw s) = Some w -> rw_readers (ps_rw s) = []) /\
   (forall w, rw_writer (ps_rw s) = Some w -> (w < List.length (ps_g s))%nat) /\
   (forall r, In r (rw_readers (ps_rw s)) -> (r < List.length (ps_g s))%nat)) /\
  ((exists g p, nth_error (ps_g s) g = Some p /\ pg_finished p = false) -> exists g, pstep s g <> None) /\
  ((forall g p, nth_error (ps_g s) g = Some p -> pg_finished p = true) ->
   rw_writer (ps_rw s) = None /\ rw_readers (ps_rw s) = []).
Proof.
  intros todo sched s Hin. apply psys_safe_and_live.
  apply Forall_forall. intros ps Hps. apply forallb_forall. intros p Hp.
  pose proof (Hin ps Hps p Hp) as Hi. apply in_map_iff in Hi. destruct Hi as [[n q] [Hq Hin']].
  cbn in Hq. subst q.
  exact (proj1 (forallb_forall _ _) C16_lock_paths_balanced (n, p) Hin').
Qed.
Print Assumptions C16_lock_discipline_system.

(* ------------------------------------------------------------------ the system *)

(* 5. whenever the mutex is held, its owner is a live goroutine inside a critical section,
      and the owner ALONE reaches Unlock within three of its own steps, whatever the other
      goroutines do; conversely a goroutine inside a critical section is the owner (mutual
      exclusion: all accesses to the recorder's fields happen in such sections). *)
Theorem C16_lock_invariant : forall with_fl s o,
  reachable (sut with_fl) s -> mu s = Some o ->
  match o with
  | OU g => exists u, nth_error (users s) g = Some u /\ u_holds (u_pc u) = true /\ u_prog u <> []
  | OF f => exists fl, nth_error (flushers s) f = Some fl /\ f_holds (f_pc fl) = true
  end /\
  exists n s', (1 <= n <= 3)%nat /\ run (sut with_fl) s (repeat (tid_of o) n) = Some s' /\ mu s' = None.
Proof. intros w. apply top_lock_invariant. exact C16_source_flusher_unlocks. Qed.
Print Assumptions C16_lock_invariant.

Theorem C16_mutual_exclusion : forall with_fl s, reachable (sut with_fl) s ->
  (forall g u, nth_error (users s) g = Some u -> u_holds (u_pc u) = true -> mu s = Some (OU g)) /\
  (forall f fl, nth_error (flushers s) f = Some fl -> f_holds (f_pc fl) = true -> mu s = Some (OF f)).
Proof. intros w. apply top_mutual_exclusion. exact C16_source_flusher_unlocks. Qed.
Print Assumptions C16_mutual_exclusion.

(* 6. no deadlock: unless all user calls have returned, some GOROUTINE (not merely the
      ticker) can move; more precisely a user goroutine can move now, or the mutex is held by
      a flusher that frees it within three own steps after which a user goroutine can move. *)
Theorem C16_no_deadlock : forall with_fl s,
  reachable (sut with_fl) s -> ~ all_user_calls_returned s ->
  (exists t, is_goroutine t = true /\ step (sut with_fl) s t <> None) /\
  ((exists g, step (sut with_fl) s (U g) <> None) \/
   (exists f n s', mu s = Some (OF f) /\ (1 <= n <= 3)%nat /\
        run (sut with_fl) s (repeat (F f) n) = Some s' /\ mu s' = None /\
        exists g, step (sut with_fl) s' (U g) <> None)).
Proof.
  intros w s Hr Hn. split.
  - apply top_no_deadlock; [exact C16_source_flusher_unlocks|exact Hr|exact Hn].
  - apply top_progress; [exact C16_source_flusher_unlocks|exact Hr|exact Hn].
Qed.
Print Assumptions C16_no_deadlock.

(* 6b. no call blocks forever - the decreasing measure: every step of a user goroutine
      consumes one of the 3 * (number of calls) units of work, no other step adds work
      (so along ANY schedule user goroutines take at most that many steps, each critical
      section being two steps), and from every reachable state the remaining calls can be
      completed, each unit within four steps.  Hence a schedule in which user calls remain
      pending forever must from some point on never run an enabled goroutine of 6. -
      i.e. is unfair. *)
Theorem C16_calls_terminate : forall with_fl,
  (forall progs sched s, run (sut with_fl) (init progs) sched = Some s ->
     (user_steps sched + user_work s = 3 * List.length (List.concat progs))%nat) /\
  (forall s, reachable (sut with_fl) s ->
     exists sched s', run (sut with_fl) s sched = Some s' /\ all_user_calls_returned s' /\
                      (List.length sched <= 4 * user_work s)%nat).
Proof.
  intros w. split.
  - apply top_bounded_work.
  - apply top_can_finish. exact C16_source_flusher_unlocks.
Qed.
Print Assumptions C16_calls_terminate.

(* 7. the flusher: at most one flusher with an uncancelled context exists at any time, and it
      is the one whose cancel function the recorder holds; the body of EndTest / Reset leaves
      no uncancelled flusher; a flusher only ever returns after cancellation; a flusher whose
      context is cancelled never persists again - neither in its own next steps, each of which
      (a pending tick included) brings it strictly closer to its return, nor anywhere along
      any continuation of the run. *)
Theorem C16_one_flusher : forall with_fl s, reachable (sut with_fl) s ->
  ((uncancelled s <= 1)%nat /\
   (forall f fl, nth_error (flushers s) f = Some fl -> f_cancelled fl = false -> canceler (rc s) = Some f) /\
   (canceler (rc s) = None -> uncancelled s = O) /\
   (forall f fl, nth_error (flushers s) f = Some fl -> f_pc fl = FDone -> f_cancelled fl = true)) /\
  (forall g cl rest s', nth_error (users s) g = Some (mkU UCrit (cl :: rest)) ->
     cl = EndTest \/ cl = Reset -> step (sut with_fl) s (U g) = Some s' ->
     canceler (rc s') = None /\ uncancelled s' = O /\
     forall f fl, nth_error (flushers s') f = Some fl -> f_cancelled fl = true) /\
  (forall f fl, nth_error (flushers s) f = Some fl -> f_cancelled fl = true ->
     (forall t s', (t = F f \/ t = Tick f) -> step (sut with_fl) s t = Some s' ->
        persisted (rc s') = persisted (rc s) /\
        exists fl', nth_error (flushers s') f = Some fl' /\ (f_rank (f_pc fl') < f_rank (f_pc fl))%nat) /\
     (forall sched s', run (sut with_fl) s sched = Some s' ->
        samples_of f (rc s') = samples_of f (rc s) /\
        exists fl', nth_error (flushers s') f = Some fl' /\ f_cancelled fl' = true)).
Proof.
  intros w s Hr. split; [|split].
  - apply (top_one_flusher (sut w) C16_source_flusher_unlocks s Hr).
  - intros g cl rest s'. apply (top_reset_cancels (sut w) C16_source_flusher_unlocks); exact Hr.
  - intros f fl. apply (top_cancelled_flusher (sut w) C16_source_flusher_unlocks); exact Hr.
Qed.
Print Assumptions C16_one_flusher.

(* 8. the sum.  "Issued": an increment Inc k is issued in the cycle in which its call ACQUIRES
      the mutex; [lock_log] is the history of acquisitions by user goroutines, newest first, so
      at the moment an EndTest executes its body it reads  EndTest :: l  with l the earlier
      acquisitions, [cycle_incs l] the increments since the previous EndTest/Reset acquisition
      and [cycle_stamped l] whether a BeginIteration/EndIteration acquired the mutex in
      between (the only calls of the modelled set that stamp the point; a flusher can stamp only
      after such a Begin).  For every interleaving:
        - if the cycle was stamped, EndTest persists exactly one sample whose counter is the
          wrap-around sum of the increments issued in the cycle;
        - if it was never stamped, EndTest persists NOTHING (and the increments of that cycle are
          dropped by the reset) - this is what the code does (Appendix B: "persist iff stamped");
        - either way the counter restarts at 0.
      ([persisted] is kept newest first, so "x :: persisted" appends sample x.)
      In addition, at every moment the running counter is the sum of the increments of the
      current cycle whose critical section has been executed. *)
Theorem C16_sum : forall with_fl s, reachable (sut with_fl) s ->
  (forall g rest s', nth_error (users s) g = Some (mkU UCrit (EndTest :: rest)) ->
     step (sut with_fl) s (U g) = Some s' ->
     exists l, lock_log s = EndTest :: l /\
       (cycle_stamped l = true ->
          persisted (rc s') =
             mkS (wrap64 (sumZ (cycle_incs l))) (gauge (rc s)) (OU g) :: persisted (rc s)) /\
       (cycle_stamped l = false -> persisted (rc s') = persisted (rc s)) /\
       ops (rc s') = 0) /\
  (ops (rc s) = wrap64 (sumZ (cycle_incs (applied_log s))) /\
   stamped (rc s) = cycle_stamped (applied_log s)).
Proof.
  intros w s Hr. split.
  - intros g rest s'. apply (top_sum (sut w) C16_source_flusher_unlocks); exact Hr.
  - apply (top_counter (sut w) C16_source_flusher_unlocks); exact Hr.
Qed.
Print Assumptions C16_sum.

(* 9. the code before the repair (flusher returns with the mutex held when it finds its
      context cancelled): there EXISTS a reachable state in which a user goroutine waits for
      the mutex, the mutex is owned by a flusher that has already returned, no transition is
      enabled and therefore every non-empty continuation is impossible: the call waits
      forever.  Witness by computation: Begin; tick; EndTest locks, cancels, unlocks; the
      flusher locks, sees the cancellation, returns; the next call (Inc 1) blocks. *)
Theorem C16_old_deadlock_refuted :
  exists sched s, run (mkCfg false true) (init [[Begin; EndTest; Inc 1]]) sched = Some s /\
    ~ all_user_calls_returned s /\
    (exists g cl rest, nth_error (users s) g = Some (mkU UIdle (cl :: rest))) /\
    (exists f, mu s = Some (OF f) /\ nth_error (flushers s) f = Some (mkF FDone true)) /\
    (forall t, step (mkCfg false true) s t = None) /\
    (forall sched', sched' <> [] -> run (mkCfg false true) s sched' = None).
Proof. exact top_old_deadlock. Qed.
Print Assumptions C16_old_deadlock_refuted.

(* ------------------------------------------------------------------ non-vacuity *)

(* the hypotheses are satisfiable by non-trivial instances: a reachable state of the repaired
   system in which the flusher holds the mutex while a user call is pending (theorem 5/6
   apply), and a run with two goroutines in which EndTest persists the sum 5 + 7 *)
Example C16_nontrivial_lock :
  exists s, reachable (sut true) s /\ mu s = Some (OF 0) /\ ~ all_user_calls_returned s.
Proof.
  exists (mkSt [mkU UIdle [Inc 5]] [mkF FLocked false] (Some (OF 0))
               (mkR (Some 0%nat) true true 0 0 []) [Begin]).
  split; [|split].
  - exists [[Begin; Inc 5]], (call_steps 0 ++ [Tick 0; F 0]).
    vm_compute. reflexivity.
  - reflexivity.
  - intros H. inversion H as [|u l Hu Hl]; subst. discriminate.
Qed.

Example C16_nontrivial_sum :
  option_map (fun s => map s_ops (persisted (rc s)))
    (run (sut true) (init [[Begin; Inc 5; EndTest]; [Inc 7]])
         (call_steps 0 ++ [U 1; U 1; U 1] ++ call_steps 0 ++ call_steps 0))
  = Some [12].
Proof. vm_compute. reflexivity. Qed.

(* ------------------------------------------------------------------ oracle soundness *)
(* The run-time check evaluates [c16_ok_sys] / [c16_ok_stress] (Model/SysInterval.v) on what it saw
   of the Go recorders.  They accept the observation of EVERY complete schedule of the model.
   Definitions (Proofs/OracleC16.v):
   [quiescent c s]   no goroutine - user or flusher; the ticker event is not one - has a step in s:
                     the schedule that led to s is complete;
   [closed_log s]    the last call that acquired the mutex was EndTest or Reset;
   [n_flushers l], [n_resets l], [incs_of p]: functions of a call list (flushers started by the
                     serial execution of the lock order l; EndTest/Reset calls; increments);
   [all_counted false false p]: in the order p (oldest first) no increment is dropped: each is followed
                     by an EndTest that finds the point stamped, none by a Reset or by the end;
   [obs_of (Some s)] is Model/SysInterval.v's own reading of a state (its o_late is the constant 0:
                     the second conjuncts below say that in s no flusher event is possible at all);
   [stress_obs_of c s] is the record [model_obs_stress] builds (so_late, so_overlap constant 0).
   The proofs go through "the outcome of any interleaving is the outcome of the serial execution in
   lock order": flushers started, canceler stored, counters persisted by user goroutines are
   functions of [applied_log], and read oldest first the last one is [spec_end_samples]. *)
From FV.Proofs Require Import OracleC16.

(* systematic runs: one user goroutine executing the harness's program; ANY interleaving with the
   flushers and the ticker, up to quiescence.  (The driver passes cycles = 2.) *)
Theorem C16_oracle_sys_sound : forall use_reset a b a2 b2 sched s,
  run (sut true) (init [sys_prog use_reset a b a2 b2]) sched = Some s -> quiescent (sut true) s ->
  c16_ok_sys 2 (sys_prog use_reset a b a2 b2) (obs_of (Some s)) = true /\
  (forall f, step (sut true) s (Tick f) = None /\ step (sut true) s (F f) = None).
Proof. exact (c16_sys_prog_oracle_sound (sut true) C16_source_flusher_unlocks eq_refl). Qed.
Print Assumptions C16_oracle_sys_sound.

(* the same for EVERY program of one user goroutine that ends with EndTest or Reset *)
Theorem C16_oracle_sys_sound_any_program : forall prog sched s,
  run (sut true) (init [prog]) sched = Some s -> quiescent (sut true) s ->
  (exists p cl, prog = p ++ [cl] /\ is_resetb cl = true) ->
  c16_ok_sys (n_flushers (rev prog)) prog (obs_of (Some s)) = true /\
  (forall f, step (sut true) s (Tick f) = None /\ step (sut true) s (F f) = None).
Proof. exact (fun prog sched s => c16_sys_oracle_sound (sut true) C16_source_flusher_unlocks prog sched s eq_refl). Qed.
Print Assumptions C16_oracle_sys_sound_any_program.

(* stress runs, interval recorders: any number of goroutines, any programs, any complete schedule
   whose lock order ends with an EndTest/Reset and drops no increment (the harness arranges both:
   goroutine 0 stamps every cycle itself, and the incrementing goroutines are joined before the
   closing iteration and EndTest).  incs = the increments of all programs, cycles = their
   EndTest/Reset calls, flushers = the flusher goroutines started. *)
Theorem C16_oracle_stress_sound : forall progs sched s,
  run (sut true) (init progs) sched = Some s -> quiescent (sut true) s ->
  closed_log s -> all_counted false false (rev (lock_log s)) = true ->
  c16_ok_stress (incs_of (List.concat progs)) (n_resets (List.concat progs)) (List.length (flushers s))
                (stress_obs_of (sut true) s) = true /\
  (forall f, step (sut true) s (Tick f) = None /\ step (sut true) s (F f) = None).
Proof. exact (fun progs sched s => c16_stress_oracle_sound (sut true) C16_source_flusher_unlocks progs sched s eq_refl). Qed.
Print Assumptions C16_oracle_stress_sound.

(* stress runs, synchronized wrapper over the raw recorder (no flusher): the lock order ends with
   the only EndTest, the point being stamped by then *)
Theorem C16_oracle_stress_sync_sound : forall progs sched s l,
  run (sut false) (init progs) sched = Some s -> quiescent (sut false) s ->
  lock_log s = EndTest :: l -> n_resets l = O -> cycle_stamped l = true ->
  c16_ok_stress (incs_of (List.concat progs)) (n_resets (List.concat progs)) (List.length (flushers s))
                (stress_obs_of (sut false) s) = true.
Proof. exact (fun progs sched s l => c16_stress_sync_oracle_sound (sut false) C16_source_flusher_unlocks progs sched s l eq_refl). Qed.
Print Assumptions C16_oracle_stress_sync_sound.

(* the facts behind them, for every complete schedule of any programs: the lock order is a
   permutation of the programs' calls, all calls have returned, the mutex is free, and - flusher
   variant - flushers started / counters persisted by user goroutines are those of the serial
   execution in lock order *)
Theorem C16_serializable : forall with_fl progs sched s,
  run (sut with_fl) (init progs) sched = Some s -> quiescent (sut with_fl) s ->
  Permutation.Permutation (lock_log s) (List.concat progs) /\ all_returnedb s = true /\ mu s = None /\
  map s_ops (filter by_user (persisted (rc s))) = user_log with_fl (lock_log s) /\
  (with_fl = true -> List.length (flushers s) = n_flushers (lock_log s)) /\
  (forall p, rev (user_log true (rev p)) = spec_end_samples false 0 p).
Proof. exact (fun w => c16_serializable (sut w) C16_source_flusher_unlocks). Qed.
Print Assumptions C16_serializable.

(* non-vacuity of C16_oracle_stress_sound's hypotheses: two goroutines *)
Example C16_oracle_stress_example :
  exists s, run (sut true) (init ex_progs) ex_sched = Some s /\ quiescent (sut true) s /\ closed_log s /\
            all_counted false false (rev (lock_log s)) = true /\
            incs_of (List.concat ex_progs) = [5; 7] /\ map s_ops (persisted (rc s)) = [12; 12] /\
            List.length (flushers s) = 1%nat.
Proof. exact (c16_stress_example (sut true) C16_source_flusher_unlocks eq_refl). Qed.
