(* Source-facts obligations over Generated/HdrArith.v (DESIGN.md 5b) — belongs to C12 and C13.

   Generated/HdrArith.v is REWRITTEN from /repo's hdrhist/hdr.go on every check run of C12 / C13 by the
   Go -> Gallina translator `ftdcverif hdrtrans` (harness/hdrtrans.go; the Go subset it understands and
   its reading of it - integers are Z, conversions are the identity - are stated in that file's header
   and in the header of the generated file).  This file states that every translated function g_<goName>
   is EQUAL to the hand-written definition of Model/Hdr.v the C12 / C13 theorems are about, under range
   hypotheses that exclude int64 overflow and negative shift counts, and restates key C12 / C13 theorems
   over the translated functions.  A changed operator, operand or constant in one of these Go functions
   changes the generated definition and the corresponding obligation no longer checks.

   This file holds only statements; each is closed by [exact] of a lemma from Proofs/HdrTranslated.v
   and followed by Print Assumptions. *)
From Coq Require Import ZArith List Bool Sorting.Permutation Sorting.Sorted.
From FV.Model Require Import Hdr.
From FV.Generated Require Import HdrArith.
From FV.Proofs Require HdrTranslated.
Import ListNotations.
Open Scope Z_scope.

(* ---- range hypotheses ---- *)

(* a non-negative int64 *)
Definition word (v : Z) : Prop := 0 <= v < 2 ^ 63.

(* what the translated arithmetic needs of a configuration: the shift counts unitMagnitude and
   subBucketHalfCountMagnitude are non-negative (uint() is read as the identity), v | subBucketMask
   stays below 2^63 and has at least subBucketHalfCountMagnitude + 1 bits (so that the shift count
   bucketIdx + unitMagnitude is non-negative) *)
Definition cfg_in_range (c : cfg) : Prop :=
  0 <= c_unit c /\ 0 <= c_hm c /\ 2 ^ c_hm c <= c_mask c < 2 ^ 63.

(* every configuration the constructor accepts, in the int64-safe range (as in Props/C12.v, C13.v) *)
Definition valid_config (lo hi s : Z) : Prop :=
  0 <= lo /\ 1 <= hi < 2 ^ 62 /\ 1 <= s <= 5.

(* the float steps of hdrhist.New as Model/Hdr.v reads them; they are inputs of g_New:
   scm = subBucketCountMagnitude, u0 = unitMagnitude before the clamp at 0, sbc = subBucketCount *)
Definition float_steps (lo s scm u0 sbc : Z) : Prop :=
  scm = sub_bucket_count_magnitude s /\
  Z.max u0 0 = unit_magnitude lo /\
  sbc = 2 ^ (Z.max scm 1 - 1 + 1).

(* ---- 1. one equivalence per translated function ---- *)

Theorem FactsHdr_bitLen : forall x, x < 2 ^ 63 -> g_bitLen x = bitlen x.
Proof. exact HdrTranslated.g_bitLen_eq. Qed.
Print Assumptions FactsHdr_bitLen.

Theorem FactsHdr_getBucketIndex : forall c v,
  v < 2 ^ 63 -> c_mask c < 2 ^ 63 -> g_getBucketIndex c v = bucket_index c v.
Proof. exact HdrTranslated.g_getBucketIndex_eq. Qed.
Print Assumptions FactsHdr_getBucketIndex.

Theorem FactsHdr_getSubBucketIdx : forall c v idx,
  g_getSubBucketIdx c v idx = sub_bucket_index c v idx.
Proof. exact HdrTranslated.g_getSubBucketIdx_eq. Qed.
Print Assumptions FactsHdr_getSubBucketIdx.

Theorem FactsHdr_countsIndex : forall c b s,
  0 <= c_hm c -> g_countsIndex c b s = counts_index c b s.
Proof. exact HdrTranslated.g_countsIndex_eq. Qed.
Print Assumptions FactsHdr_countsIndex.

Theorem FactsHdr_countsIndexFor : forall c v,
  0 <= c_hm c -> c_mask c < 2 ^ 63 -> v < 2 ^ 63 ->
  g_countsIndexFor c v = counts_index_for c v.
Proof. exact HdrTranslated.g_countsIndexFor_eq. Qed.
Print Assumptions FactsHdr_countsIndexFor.

Theorem FactsHdr_valueFromIndex : forall c b s,
  0 <= b + c_unit c -> g_valueFromIndex c b s = value_from_index c b s.
Proof. exact HdrTranslated.g_valueFromIndex_eq. Qed.
Print Assumptions FactsHdr_valueFromIndex.

Theorem FactsHdr_sizeOfEquivalentValueRange : forall c v,
  cfg_in_range c -> word v -> g_sizeOfEquivalentValueRange c v = size_of_range c v.
Proof. exact HdrTranslated.g_sizeOfEquivalentValueRange_eq. Qed.
Print Assumptions FactsHdr_sizeOfEquivalentValueRange.

Theorem FactsHdr_lowestEquivalentValue : forall c v,
  cfg_in_range c -> word v -> g_lowestEquivalentValue c v = lowest_equiv c v.
Proof. exact HdrTranslated.g_lowestEquivalentValue_eq. Qed.
Print Assumptions FactsHdr_lowestEquivalentValue.

Theorem FactsHdr_nextNonEquivalentValue : forall c v,
  cfg_in_range c -> word v -> g_nextNonEquivalentValue c v = next_non_equiv c v.
Proof. exact HdrTranslated.g_nextNonEquivalentValue_eq. Qed.
Print Assumptions FactsHdr_nextNonEquivalentValue.

Theorem FactsHdr_highestEquivalentValue : forall c v,
  cfg_in_range c -> word v -> g_highestEquivalentValue c v = highest_equiv c v.
Proof. exact HdrTranslated.g_highestEquivalentValue_eq. Qed.
Print Assumptions FactsHdr_highestEquivalentValue.

Theorem FactsHdr_medianEquivalentValue : forall c v,
  cfg_in_range c -> word v -> g_medianEquivalentValue c v = median_equiv c v.
Proof. exact HdrTranslated.g_medianEquivalentValue_eq. Qed.
Print Assumptions FactsHdr_medianEquivalentValue.

(* the bounds test of RecordValues (`idx < 0 || int(h.countsLen) <= idx`) is the test of the model's
   record_values: the model rejects exactly when the translated guard fires *)
Theorem FactsHdr_RecordValues_guard : forall h v n,
  0 <= c_hm (h_cfg h) -> c_mask (h_cfg h) < 2 ^ 63 -> v < 2 ^ 63 ->
  (record_values h v n = None <-> g_RecordValues_guard (h_cfg h) v n = true).
Proof. exact HdrTranslated.g_RecordValues_guard_rejects. Qed.
Print Assumptions FactsHdr_RecordValues_guard.

(* the integer part of New (clamp and decrement of subBucketHalfCountMagnitude, clamp of unitMagnitude,
   subBucketHalfCount, subBucketMask, the bucketsNeeded loop, countsLen, the field assignment) computes
   the model's config_of from the float steps *)
Theorem FactsHdr_New : forall lo hi s scm u0 sbc,
  float_steps lo s scm u0 sbc -> g_New lo hi s scm u0 sbc = config_of lo hi s.
Proof. exact HdrTranslated.g_New_eq. Qed.
Print Assumptions FactsHdr_New.

(* ---- 2. the range hypotheses hold for the configurations of the C12 / C13 theorems, provided
        subBucketMask did not overflow int64 (valid_config does not bound lo); lo < 2^45 suffices ---- *)

Theorem FactsHdr_config_in_range : forall lo hi s,
  valid_config lo hi s -> c_mask (config_of lo hi s) < 2 ^ 63 -> cfg_in_range (config_of lo hi s).
Proof. exact HdrTranslated.config_in_range. Qed.
Print Assumptions FactsHdr_config_in_range.

Theorem FactsHdr_mask_fits : forall lo hi s,
  valid_config lo hi s -> lo < 2 ^ 45 -> c_mask (config_of lo hi s) < 2 ^ 63.
Proof. exact HdrTranslated.mask_fits. Qed.
Print Assumptions FactsHdr_mask_fits.

(* ---- 3. C12 / C13 theorems restated over the functions regenerated from the source ---- *)

(* C12_accepts: every value 0..hi gets a counts index inside the array, and the bounds test of
   RecordValues does not fire *)
Theorem FactsHdr_C12_accepts : forall lo hi s,
  valid_config lo hi s -> c_mask (config_of lo hi s) < 2 ^ 63 ->
  forall v, 0 <= v <= hi ->
  0 <= g_countsIndexFor (config_of lo hi s) v < c_len (config_of lo hi s) /\
  forall n, g_RecordValues_guard (config_of lo hi s) v n = false.
Proof. exact HdrTranslated.tr_accepts. Qed.
Print Assumptions FactsHdr_C12_accepts.

(* C12_in_range *)
Theorem FactsHdr_C12_in_range : forall lo hi s,
  valid_config lo hi s -> c_mask (config_of lo hi s) < 2 ^ 63 ->
  forall v, 0 <= v <= hi ->
  g_lowestEquivalentValue (config_of lo hi s) v <= v <= g_highestEquivalentValue (config_of lo hi s) v.
Proof. exact HdrTranslated.tr_in_range. Qed.
Print Assumptions FactsHdr_C12_in_range.

(* C12_width *)
Theorem FactsHdr_C12_width : forall lo hi s,
  valid_config lo hi s -> c_mask (config_of lo hi s) < 2 ^ 63 ->
  forall v, 0 <= v <= hi ->
  let c := config_of lo hi s in
  g_highestEquivalentValue c v - g_lowestEquivalentValue c v + 1 = g_sizeOfEquivalentValueRange c v /\
  (g_sizeOfEquivalentValueRange c v = 2 ^ c_unit c \/ g_sizeOfEquivalentValueRange c v * 10 ^ s <= v) /\
  2 ^ c_unit c <= Z.max 1 lo.
Proof. exact HdrTranslated.tr_width. Qed.
Print Assumptions FactsHdr_C12_width.

(* C13_rank *)
Theorem FactsHdr_C13_rank : forall lo hi s,
  valid_config lo hi s -> c_mask (config_of lo hi s) < 2 ^ 63 ->
  forall vs sorted k,
  Forall (fun v => 0 <= v <= hi) vs ->
  Permutation sorted vs -> Sorted Z.le sorted ->
  1 <= k <= Z.of_nat (length vs) ->
  value_at_rank (fst (record_all (new lo hi s) vs)) k =
  g_highestEquivalentValue (config_of lo hi s) (nth (Z.to_nat (k - 1)) sorted 0).
Proof. exact HdrTranslated.tr_rank. Qed.
Print Assumptions FactsHdr_C13_rank.

(* non-vacuity: the configuration of C12_example satisfies the range hypotheses, the translated
   countsIndexFor computes the index 2048 there, and the translated New builds that configuration
   from the float steps 11 = ceil(log2 2000), 0 = floor(log2 1), 2048 = 2^11 *)
Example FactsHdr_example :
  valid_config 1 2048 3 /\ cfg_in_range (config_of 1 2048 3) /\ word 2048 /\
  g_countsIndexFor (config_of 1 2048 3) 2048 = 2048 /\
  g_RecordValues_guard (config_of 1 2048 3) 2048 1 = false /\
  g_highestEquivalentValue (config_of 1 2048 3) 2048 = 2049 /\
  float_steps 1 3 11 0 2048 /\ g_New 1 2048 3 11 0 2048 = config_of 1 2048 3.
Proof.
  unfold valid_config, cfg_in_range, word, float_steps.
  repeat split; vm_compute; (reflexivity || congruence).
Qed.
