(* C09 — streamed output is crash-consistent and survives writer faults.
   Only the property theorems; model: Model/Collector.v (streaming collectors,
   FlushCollector, the writer with a fault schedule), Model/Frame.v (byte-level
   reader); statements Model/FrameOk.v; proofs Proofs/FrameStream.v (on top of
   C07's invariant, Proofs/Collector*.v).

   Histories are arbitrary lists of Add / Add-of-unreadable-input / Resolve /
   Reset / Flush / SetMetadata / Info of any length ([ops_ok] as in C07) on a
   writer whose fault schedule contains successes and errors that consume nothing
   ([no_short]); a Write that consumes part of its argument is the known finding
   D18 (last theorem). *)
From Coq Require Import ZArith NArith List Bool.
From FV.Model Require Import Bytes Bson Metrics Codec Collector Wf RoundTrip CollectorOk Validate Frame Views FrameOk.
From FV.Proofs Require Import FrameStream.
Import ListNotations.
Open Scope Z_scope.

Section C09.
Variable deflate : bytes -> bytes.
Variable inflate : bytes -> option bytes.
Hypothesis inflate_deflate : forall p, inflate (deflate p) = Some p.
Hypothesis deflate_wf : forall p, wf_bytes (deflate p).

(* at every instant (after any history, under any schedule of failing writes) the
   bytes in the writer are the concatenated encodings of the documents handed over
   completely, all representable and with binary subtypes the reader accepts; if
   each stays below BSON's 2 GiB limit, each is framed by the reader (accepted by
   its validator, decoded to itself).  [op_frame_ok]: clock readings are int64
   values, metadata documents are representable (added documents are by [ops_ok];
   representable excludes binary subtypes 0x06..0x7f). *)
Theorem C09_log_wellformed : forall k n fs ops, streaming k = true -> 1 <= n -> ops_ok k ops ->
  Forall op_frame_ok ops -> no_short fs ->
  let w := snd (c09_reach deflate k n fs ops) in
  log_bytes w = enc_stream (emitted w) /\
  Forall (fun d => doc_ok d = true /\ doc_bin_ok d = true) (emitted w) /\
  (Forall (fun d => small (enc_doc d)) (emitted w) -> Forall frame_ok (emitted w)).
Proof. exact (c09_log_wellformed deflate deflate_wf). Qed.

(* every byte offset j of the written stream as a crash point: the reader delivers
   exactly the chunks of the documents wholly inside the first j bytes (they decode
   without error) and reports an error iff j is not a document boundary.
   [ops_fit]: chunk size x metric count stays within the reader's 2^27 limit. *)
Theorem C09_prefix : forall k n fs ops, streaming k = true -> 1 <= n < 2 ^ 31 -> ops_ok k ops ->
  Forall op_frame_ok ops -> ops_fit n ops -> no_short fs ->
  let w := snd (c09_reach deflate k n fs ops) in
  Forall (fun d => small (enc_doc d)) (emitted w) ->
  forall j, (j <= length (log_bytes w))%nat ->
  exists cs,
    read_chunks inflate None (firstn (within j (doc_lens (emitted w))) (emitted w)) = (cs, None) /\
    read_stream inflate reader_limit None (firstn j (log_bytes w)) =
      (cs, negb (at_boundary j (doc_lens (emitted w)))).
Proof. exact (c09_prefix deflate inflate inflate_deflate deflate_wf). Qed.

(* writer faults (every compressing kind, every history, every schedule of
   successes and errors): c09_run = true says that after EVERY operation
     decoded(writer) ++ decoded(Resolve) = the accepted, not discarded samples, once
       each, in order — a failing Add or flush adds and discards nothing;
     an operation during which a Write failed returned an error;
     after a successful flush everything accepted is in the writer;
     the writer's bytes are exactly the encodings of the emitted documents. *)
Theorem C09_faults_error : forall k n fs ops, compressing k = true -> 1 <= n < 2 ^ 31 -> ops_ok k ops ->
  no_short fs -> c09_run deflate inflate k n fs ops = true.
Proof. exact (c09_faults deflate inflate inflate_deflate). Qed.

(* and the failing operation leaves the collector literally unchanged *)
Theorem C09_failed_write : forall k n fs ops o, streaming k = true -> 1 <= n -> ops_ok k (ops ++ [o]) ->
  Forall op_frame_ok ops -> no_short fs ->
  let st := c09_reach deflate k n fs ops in
  let r := step deflate st o in
  w_log (snd (fst r)) = w_log (snd st) -> w_faults (snd (fst r)) <> w_faults (snd st) ->
  failed_obs (snd r) = true /\ fst (fst r) = fst st /\ log_bytes (snd (fst r)) = log_bytes (snd st).
Proof. exact (c09_failed_write deflate deflate_wf). Qed.

(* durability: k samples of one schema (same skeleton, same signature) through a
   streaming collector with chunk size n on a fault-free writer are all accepted,
   and at least n * floor((k-1)/n) of them are already in the writer (counted by
   reading the writer's documents back) *)
Theorem C09_durability : forall docs k n nows,
  Forall doc_wf docs -> same_schema docs ->
  (forall a b, In a docs -> In b docs -> schema_sig a = schema_sig b) ->
  streaming k = true -> 1 <= n < 2 ^ 31 -> length nows = length docs ->
  let res := run deflate (new_coll k n, mkWriter [] [] false) (add_ops docs nows) in
  snd res = map (fun _ => BAdd ROk) docs /\
  exists m, samples_in inflate (snd (fst res)) = Some m /\
            n * ((Z.of_nat (length docs) - 1) / n) <= Z.of_nat m.
Proof. intros docs k n nows H1 H2 H3. exact (c09_durability deflate inflate inflate_deflate docs H1 H2 H3 k n nows). Qed.

End C09.

(* the known finding D18 as a theorem about the faithful model: a Write that
   consumes three bytes and fails, followed by a successful retry and flush, leaves
   bytes that are no stream any more (the executable statement is false, the reader
   delivers nothing and reports an error); with an error that consumes nothing in
   place of the short write the same history is fine *)
Theorem C09_short_write_refuted :
  (forall p, sw_inflate (sw_deflate p) = Some p) /\ ops_ok KStream sw_ops /\ Forall op_frame_ok sw_ops /\
  ops_fit 1 sw_ops /\
  let fs := [FShort 3] in
  let res := run sw_deflate (new_coll KStream 1, mkWriter [] fs false) sw_ops in
  snd res = [BAdd ROk; BAdd RFlush; BAdd ROk; BFlush true] /\
  read_stream sw_inflate reader_limit None (log_bytes (snd (fst res))) = ([], true) /\
  c09_run sw_deflate sw_inflate KStream 1 fs sw_ops = false /\
  c09_run sw_deflate sw_inflate KStream 1 [FError] sw_ops = true /\
  fst (read_stream sw_inflate reader_limit None
         (log_bytes (snd (c09_reach sw_deflate KStream 1 [FError] sw_ops)))) <> [].
Proof. exact c09_short_write_refuted. Qed.

Print Assumptions C09_log_wellformed.
Print Assumptions C09_prefix.
Print Assumptions C09_faults_error.
Print Assumptions C09_failed_write.
Print Assumptions C09_durability.
Print Assumptions C09_short_write_refuted.

(* non-vacuity: a history through the streaming dynamic collector with metadata,
   a non-metric binary leaf of subtype 0x80, a schema change, and the schedule
   error / success / error satisfies every hypothesis; two operations fail and
   report it, the executable statement holds, four documents reach the writer *)
Example C09_example :
  ops_ok KSDyn ex_ops /\ Forall op_frame_ok ex_ops /\ ops_fit 2 ex_ops /\ no_short [FError; FNone; FError] /\
  snd (run sw_deflate (new_coll KSDyn 2, mkWriter [] [FError; FNone; FError] false) ex_ops) =
    [BSetMeta; BAdd ROk; BAdd ROk; BAdd RFlush; BAdd ROk; BAdd RFlush; BFlush true] /\
  c09_run sw_deflate sw_inflate KSDyn 2 [FError; FNone; FError] ex_ops = true /\
  Forall (fun d => small (enc_doc d)) (emitted (snd (c09_reach sw_deflate KSDyn 2 [FError; FNone; FError] ex_ops))) /\
  length (emitted (snd (c09_reach sw_deflate KSDyn 2 [FError; FNone; FError] ex_ops))) = 4%nat.
Proof. exact c09_example. Qed.

(* ------------------------------------------------------------------ retry after a refused write *)
(* harness/c09.go (`retry`) re-issues an Add whose flush met a writer that refused
   the call outright (FError: nothing consumed, an error returned).  Caller model,
   Proofs/RetryProofs.v: [add_retry fuel st d now] = Add d; while the answer is
   RFlush and fuel is left, Add d again.  [adds_with_retry] gives each document the
   fuel "number of FError entries left in the schedule" (so: retry until the answer
   is no longer RFlush or no refusal is left); [adds_with_retry_once] gives fuel 1
   (what the harness does).  [add_ops_of ds] = the plain history Add d1 .. Add dk.
   The GENERAL discipline is proved (and the retry-once discipline for schedules
   without two refusals in a row); both hold for EVERY kind of collector (the
   streaming kinds, their uncompressed variants; trivially the kinds that never
   write), every batch size n (also n <= 0) and arbitrary documents. *)
From FV.Proofs Require Import RetryProofs.

Section C09_retry.
Variable deflate : bytes -> bytes.

(* a refused write is a no-op: after ANY history (all seven operations, any fault
   schedule, any kind, any n), an Add that finds a refusing writer either does not
   call the writer at all (writer literally unchanged), or consumes exactly that
   refusal, leaves the writer's log and the collector literally unchanged and
   answers RFlush.  This is FlushCollector's "reset only after a complete write"
   plus "the streaming dynamic collector records the new schema only after the
   flush succeeded" (C09_failed_write is the same fact for the compressing
   streaming kinds under ops_ok, stated on the log; this one has no hypothesis). *)
Theorem C09_refused_write_is_noop : forall k n fs ops d now r,
  let st := c09_reach deflate k n fs ops in
  w_faults (snd st) = FError :: r ->
  let res := step deflate st (OAdd d now) in
  snd (fst res) = snd st \/
  (snd (fst res) = mkWriter (w_log (snd st)) r (w_closed (snd st)) /\ fst (fst res) = fst st /\ snd res = BAdd RFlush).
Proof. exact (refused_write_noop deflate). Qed.

(* the retrying run ends in the collector state of the run on a writer that never
   fails, with the same complete records in the writer's log, and every document's
   final answer is its fault-free answer *)
Theorem C09_retry_equals_fault_free : forall k n fs ds, no_short fs ->
  let r1 := adds_with_retry deflate (new_coll k n, mkWriter [] fs false) ds in
  let r2 := run deflate (new_coll k n, mkWriter [] [] false) (add_ops_of ds) in
  fst (fst r1) = fst (fst r2) /\ w_log (snd (fst r1)) = w_log (snd (fst r2)) /\ snd r1 = snd r2.
Proof. exact (retry_equals_fault_free deflate). Qed.

(* the harness's discipline: the same document once more; sufficient when the
   schedule never refuses twice in a row *)
Theorem C09_retry_once_equals_fault_free : forall k n fs ds, no_short fs -> no_adj_err fs = true ->
  let r1 := adds_with_retry_once deflate (new_coll k n, mkWriter [] fs false) ds in
  let r2 := run deflate (new_coll k n, mkWriter [] [] false) (add_ops_of ds) in
  fst (fst r1) = fst (fst r2) /\ w_log (snd (fst r1)) = w_log (snd (fst r2)) /\ snd r1 = snd r2.
Proof. exact (retry_once_equals_fault_free deflate). Qed.

End C09_retry.

Print Assumptions C09_refused_write_is_noop.
Print Assumptions C09_retry_equals_fault_free.
Print Assumptions C09_retry_once_equals_fault_free.

(* non-vacuity: three one-metric documents, n = 1, schedule refuse / accept / refuse /
   accept; the second and third Add are each issued twice, both refusals are
   consumed, two records reach the writer; without the retry the second document
   is lost *)
Example C09_retry_example :
  no_short rt_faults /\ no_adj_err rt_faults = true /\
  let r1 := adds_with_retry sw_deflate (new_coll KStream 1, mkWriter [] rt_faults false) rt_docs in
  let r1' := adds_with_retry_once sw_deflate (new_coll KStream 1, mkWriter [] rt_faults false) rt_docs in
  let r2 := run sw_deflate (new_coll KStream 1, mkWriter [] [] false) (add_ops_of rt_docs) in
  snd r1 = [BAdd ROk; BAdd ROk; BAdd ROk] /\ r1' = r1 /\
  w_faults (snd (fst r1)) = [] /\ length (w_log (snd (fst r1))) = 2%nat /\
  fst (fst r1) = fst (fst r2) /\ w_log (snd (fst r1)) = w_log (snd (fst r2)) /\
  snd (run sw_deflate (new_coll KStream 1, mkWriter [] rt_faults false) (add_ops_of rt_docs)) =
    [BAdd ROk; BAdd RFlush; BAdd ROk].
Proof. exact retry_example. Qed.
