(* C06 -- Close or cancellation stops every reader goroutine.
   Model: Model/SysReader.v with the channel capacities as parameters (the code's values are
   cfg_of k: chunk pipe 2, document pipe 100 / 25, sample channel 100, ipc unbuffered =
   rendezvous). Reader kinds: KChunk (ReadChunks: Close cancels ctxC), KDoc (ReadMetrics /
   ReadStructuredMetrics: Close cancels iterctx, the current sample iterator's context and ctxC),
   KMatrix (ReadMatrix / ReadSeries: Close cancels iterctx -- repair d877df8 -- and ctxC). The
   per-chunk sample iterator (Chunk.Iterator) is the streamer S of KDoc with its own cancel flag.
   `cancelled c s` = every context the reader's goroutines select on is done; it holds after a
   Close step and after a Cancel step (construction context), see C06_close_cancels.
   All theorems are for every configuration with the repaired order c_abc c = true, i.e. for ALL
   capacities. Blocking inside a caller-supplied io.Reader.Read is outside the model. *)
From Coq Require Import List Arith Bool Lia.
From FV.Model Require Import SysReader.
From FV.Proofs Require Import SysReaderProofs.
Import ListNotations.

(* after Close (repaired code) or after cancelling the construction context, every context is done,
   and stays done (flags are monotone) *)
Theorem C06_close_cancels : forall (c : cfg) (s s1 : state) (sched : list tid) (s' : state),
  c_mclose c = true ->
  (step c s T_Close = Some s1 \/ step c s T_Cancel = Some s1) ->
  run c s1 sched = Some s' -> cancelled c s'.
Proof. exact close_cancels_lemma. Qed.
Print Assumptions C06_close_cancels.

(* the system is never stuck after cancellation: as long as a goroutine is left, one can move *)
Theorem C06_no_deadlock : forall (c : cfg) (s : state),
  c_abc c = true -> reachable c s -> cancelled c s -> ~ all_done s ->
  exists g, goroutine g = true /\ step c s g <> None.
Proof. intros c s ABC R. apply no_deadlock_inv; auto. apply Inv6_reachable; auto. Qed.
Print Assumptions C06_no_deadlock.

(* bounded work: along ANY schedule from ANY state (cancelled or not, any configuration) the number of
   goroutine steps is at most measure s, a natural number linear in the unread input:
   measure = sum over unread documents (3*samples+7 per chunk, 3 otherwise) + pipe contents + pc ranks *)
Theorem C06_bounded : forall (c : cfg) (sched : list tid) (s s' : state),
  run c s sched = Some s' -> length (filter goroutine sched) + measure c s' <= measure c s.
Proof. exact run_measure. Qed.
Print Assumptions C06_bounded.

(* hence: after cancellation every maximal run ends with all goroutines gone -- a state in which no
   goroutine can move (which is reached after at most measure s goroutine steps by C06_bounded) is all_done *)
Theorem C06_terminates : forall (c : cfg) (s : state) (sched : list tid) (s' : state),
  c_abc c = true -> reachable c s -> cancelled c s -> run c s sched = Some s' ->
  (forall g, goroutine g = true -> step c s' g = None) -> all_done s'.
Proof. exact quiescent_is_done. Qed.
Print Assumptions C06_terminates.

(* Next after the goroutines are gone: at most `buffered` <= capacity further Next calls return true
   (2 chunks for ReadChunks, 100 documents for ReadMetrics/ReadStructuredMetrics, 25 for
   ReadMatrix/ReadSeries), and no Next call blocks: it is enabled until it has returned false.
   (While goroutines are still running, a `select` whose send arm and ctx arm are both ready may
   still take the send arm -- Go chooses at random --, so before quiescence the only bound is
   C06_bounded's.) *)
Theorem C06_next_after_close : forall (c : cfg) (s : state) (sched : list tid) (s' : state),
  c_abc c = true -> reachable c s -> all_done s -> run c s sched = Some s' ->
  got s' - got s <= buffered c s /\ buffered c s <= cap c /\
  (cn s' = CN_run -> step c s' T_CN <> None).
Proof.
  intros c s sched s' ABC R D RUN.
  pose proof (Inv6_reachable c s ABC R) as I.
  destruct (next_after_done c sched s s' D RUN) as [D' Q].
  repeat split.
  - lia.
  - apply buffered_le_cap; auto.
  - intros N. apply next_never_blocks; auto. eapply Inv6_run; eauto.
Qed.
Print Assumptions C06_next_after_close.

(* a second Close (or a second cancel) leaves the state unchanged *)
Theorem C06_close_idempotent : forall (c : cfg) (s s1 : state) (t : tid),
  t = T_Close \/ t = T_Cancel -> step c s t = Some s1 -> step c s1 t = Some s1.
Proof. exact close_idem. Qed.
Print Assumptions C06_close_idempotent.

(* What repair d877df8 fixed: with the pre-repair matrixIterator.Close (which cancelled only the chunk
   iterator) and the code's capacities, after Close the state "worker at its send, document pipe
   full" is reachable, no goroutine can move and the worker is still there. *)
Theorem C06_matrix_old_refuted :
  exists s, run cfg_old_matrix_close (init cfg_old_matrix_close in_26_chunks) sched_matrix_stuck = Some s /\
            closed s = true /\ done_C s = true /\ w s = W_msend /\ dq s = c_dcap cfg_old_matrix_close /\
            ~ all_done s /\
            forall g, goroutine g = true -> step cfg_old_matrix_close s g = None.
Proof. exact matrix_old_stuck. Qed.
Print Assumptions C06_matrix_old_refuted.

(* non-trivial instance: ReadMetrics on 3 chunks of 2 samples, Close after one document, a schedule that
   ends with every goroutine gone and one document still buffered *)
Example C06_nontrivial :
  let c := cfg_of KDoc in
  let i := {| i_docs := [GoodChunk 2; GoodChunk 2; GoodChunk 2]; i_fin := CleanEOF |} in
  let sched := [T_RD; T_RC; T_RC; T_W; T_S; T_S; T_W; T_W; T_W; T_W; T_CN; T_RD; T_RC; T_Close;
                T_RCc; T_RC; T_RC; T_RD; T_RDc; T_RD; T_RD; T_S; T_W; T_W; T_W; T_W; T_W] in
  exists s, run c (init c i) sched = Some s /\ cancelled c s /\ all_done s /\ buffered c s = 1 /\ got s = 1.
Proof. eexists. split; [vm_compute; reflexivity|]. unfold cancelled, all_done. vm_compute. repeat split; auto. Qed.

(* ------------------------------------------------------------------ oracle soundness *)
(* The run-time check evaluates [c06_ok leaked further bound watchdog] (Model/SysReader.v) on what
   it saw of the Go reader after Close/cancel: the goroutines left once the system is quiet, the
   number of further Next() = true counted from then on, the capacity [cap (cfg_of kind)] as
   bound, and whether a call ran into the watchdog.  The model's observation
   (Proofs/OracleC05C06.v): [leaked s1] = the goroutines that have not returned in the quiescent
   state s1; [got s2 - got s1] for any later state s2; [next_blocked c s2] = Next has not
   returned false and has no step.

   For every configuration with the repaired order (all capacities), every reachable state s in
   which every context is done (after Close or cancel: C06_close_cancels), every schedule from
   there to a state s1 in which no goroutine can move, and every continuation to s2: *)
From FV.Proofs Require Import OracleC05C06.

Theorem C06_oracle_sound : forall c s sched1 s1 sched2 s2,
  c_abc c = true -> reachable c s -> cancelled c s ->
  run c s sched1 = Some s1 -> (forall g, goroutine g = true -> step c s1 g = None) ->
  run c s1 sched2 = Some s2 ->
  c06_ok (leaked s1) (got s2 - got s1) (cap c) (next_blocked c s2) = true.
Proof. exact c06_oracle_sound. Qed.
Print Assumptions C06_oracle_sound.

(* the bound the driver passes: the code's capacities *)
Theorem C06_oracle_bound : forall k,
  cap (cfg_of k) = match k with KChunk => 2 | KDoc => 100 | KMatrix => 25 end.
Proof. exact cap_cfg_of. Qed.
Print Assumptions C06_oracle_bound.

(* entries "sample"/"ssample" of the check (a per-chunk sample iterator, bound = capacity of the
   sample channel, 100): in the model that iterator is the streamer S.  Its channel never holds
   more than c_scap samples, and once S is gone the channel is closed, so a receiver gets at most
   [oq s] <= c_scap further samples and does not block. *)
Theorem C06_oracle_sound_sample : forall c s further,
  c_abc c = true -> reachable c s -> sp s = S_none -> further <= oq s ->
  c06_ok (match sp s with S_none => 0 | _ => 1 end) further (c_scap c)
         (negb (out_cl s) && (oq s =? 0)) = true.
Proof. exact c06_sample_oracle_sound. Qed.
Print Assumptions C06_oracle_sound_sample.
