(* C12 — HDR histogram honours its precision and counting contract.
   This file holds only the property theorems; each is closed by [exact] of a
   lemma from Proofs/HdrProofs.v and followed by Print Assumptions. *)
From Coq Require Import ZArith List.
From FV.Model Require Import Hdr.
From FV.Proofs Require Import HdrProofs.
Import ListNotations.
Open Scope Z_scope.

(* every configuration the constructor accepts, in the int64-safe range *)
Definition valid_config (lo hi s : Z) : Prop :=
  0 <= lo /\ 1 <= hi < 2 ^ 62 /\ 1 <= s <= 5.

Definition sum_counts (h : hist) : Z := fold_right Z.add 0 (counts_list h).
Definition sum_bars (l : list bar) : Z := fold_right Z.add 0 (map b_count l).

(* 1. every value 0..hi is accepted: its counts index is inside the array *)
Theorem C12_accepts : forall lo hi s v,
  valid_config lo hi s -> 0 <= v <= hi ->
  0 <= counts_index_for (config_of lo hi s) v < c_len (config_of lo hi s).
Proof. exact hdr_accepts. Qed.
Print Assumptions C12_accepts.

(* 2. v lies inside the equivalence range reported for it *)
Theorem C12_in_range : forall lo hi s v,
  valid_config lo hi s -> 0 <= v <= hi ->
  lowest_equiv (config_of lo hi s) v <= v <= highest_equiv (config_of lo hi s) v.
Proof. exact hdr_in_range. Qed.
Print Assumptions C12_in_range.

(* 3. the range is no wider than max(unit, v * 10^-s); the unit is a power of
      two not exceeding max(1, lo) *)
Theorem C12_width : forall lo hi s v,
  valid_config lo hi s -> 0 <= v <= hi ->
  let c := config_of lo hi s in
  highest_equiv c v - lowest_equiv c v + 1 = size_of_range c v /\
  (size_of_range c v = 2 ^ c_unit c \/ size_of_range c v * 10 ^ s <= v) /\
  2 ^ c_unit c <= Z.max 1 lo.
Proof. exact hdr_width. Qed.
Print Assumptions C12_width.

(* 4. the reported range really is the set of values counted together *)
Theorem C12_range_is_class : forall lo hi s v w,
  valid_config lo hi s -> 0 <= v <= hi ->
  let c := config_of lo hi s in
  lowest_equiv c v <= w <= highest_equiv c v ->
  counts_index_for c w = counts_index_for c v.
Proof. exact hdr_range_is_class. Qed.
Print Assumptions C12_range_is_class.

(* 5. the iterator's cells enumerate the counts array exactly once, in order,
      and value_from_index is a right inverse of the index computation *)
Theorem C12_cells_cover : forall lo hi s,
  valid_config lo hi s ->
  let c := config_of lo hi s in
  map (fun bs => counts_index c (fst bs) (snd bs)) (cells c) = zrange 0 (c_len c) /\
  forall b sb, In (b, sb) (cells c) ->
     counts_index_for c (value_from_index c b sb) = counts_index c b sb.
Proof. exact hdr_cells_cover. Qed.
Print Assumptions C12_cells_cover.

(* 6. counting contract over every record sequence (values may be out of range
      or negative: those are rejected and change nothing): total = number of
      successful records = sum of counts = sum of the distribution's bars *)
Theorem C12_count_invariant : forall lo hi s vs,
  valid_config lo hi s ->
  let '(h, k) := record_all (new lo hi s) vs in
  h_total h = k /\ sum_counts h = k /\ sum_bars (distribution h) = k /\
  (Forall (fun v => 0 <= v <= hi) vs -> k = Z.of_nat (length vs)).
Proof. exact hdr_count_invariant. Qed.
Print Assumptions C12_count_invariant.

(* 7. single recorded value: Min, Max and the top quantile are the ends of its
      range, hence within the width bound of theorem 3 of the true value *)
Theorem C12_single_value : forall lo hi s v h,
  valid_config lo hi s -> 0 <= v <= hi ->
  record_value (new lo hi s) v = Some h ->
  let c := config_of lo hi s in
  hmin h = lowest_equiv c v /\ hmax h = highest_equiv c v /\
  value_at_rank h 1 = highest_equiv c v /\
  exists pre, distribution h = pre ++ [mkBar (lowest_equiv c v) (highest_equiv c v) 1] /\
              Forall (fun b => b_count b = 0) pre.
Proof. exact hdr_single_value. Qed.
Print Assumptions C12_single_value.

(* non-vacuity: a configuration whose highest value sits exactly on a bucket
   boundary (the shape that the pinned tree rejected) *)
Example C12_example : valid_config 1 2048 3 /\
  counts_index_for (config_of 1 2048 3) 2048 = 2048 /\ c_len (config_of 1 2048 3) = 3072.
Proof. unfold valid_config. repeat split; try reflexivity; vm_compute; congruence. Qed.

(* ---- oracle = theorem: the executable oracles of Model/HdrOk.v, which the
   correspondence check evaluates on the implementation's observations, accept the
   model's own observation for EVERY input (proofs in Proofs/HdrOracleProofs.v) ---- *)
From FV.Model Require Import HdrOk.
From FV.Proofs Require HdrOracleProofs.

(* 8. one recorded value, any v (negative or above hi included): c12_ok_v is the
      reflected form of theorems 1-3 and 7 *)
Theorem C12_oracle_sound : forall lo hi s v,
  valid_config lo hi s ->
  c12_ok_v lo hi s v (model_obs_v lo hi s v) = true.
Proof. exact HdrOracleProofs.c12_oracle_sound. Qed.
Print Assumptions C12_oracle_sound.

(* 9. any record sequence: c12_ok_seq is the reflected form of theorem 6 *)
Theorem C12_oracle_seq_sound : forall lo hi s vs,
  valid_config lo hi s ->
  let '(nrej, total, bars) := model_obs_seq lo hi s vs in
  c12_ok_seq (Z.of_nat (length vs)) nrej total bars = true.
Proof. exact HdrOracleProofs.c12_oracle_seq_sound. Qed.
Print Assumptions C12_oracle_seq_sound.

(* 10. RecordValues(v, k) is k times RecordValue(v): same acceptance, same total, the same counts everywhere
       (the harness records runs of equal neighbours either way) *)
From FV.Proofs Require HdrRuns.
Theorem C12_record_values_is_repeated_record_value : forall h v k,
  (HdrRuns.in_range h v = true ->
     exists hv hk, record_values h v (Z.of_nat k) = Some hv /\ HdrRuns.record_times h v k = Some hk /\
       h_cfg hk = h_cfg hv /\ h_total hk = h_total hv /\ forall j, h_counts hk j = h_counts hv j) /\
  (HdrRuns.in_range h v = false ->
     record_values h v (Z.of_nat (S k)) = None /\ HdrRuns.record_times h v (S k) = None).
Proof. exact HdrRuns.record_values_is_repeated. Qed.
Print Assumptions C12_record_values_is_repeated_record_value.

(* 11. RecordCorrectedValue(v, e): the values one call stands for are v and, when 0 < e < v, every v - k e that is at
       least e (closed form, no bound on v / e); the state it reaches is the state of a plain record sequence over a
       prefix of them (all of them unless one was refused), so theorems 6-9 apply to it; a call with 0 <= v <= hi is
       accepted and adds exactly that many to the total; a call whose v is refused leaves the histogram unchanged *)
From FV.Proofs Require HdrCorrected.
From FV.Model Require Import HdrOk.
Theorem C12_corrected_values_closed_form : forall v e, 0 < e -> e < v ->
  corrected_values v e = map (fun k => v - k * e) (zrange 0 (v / e)).
Proof. exact HdrCorrected.corrected_values_closed. Qed.
Theorem C12_corrected_is_a_record_sequence : forall h v e h' ok, record_corrected h v e = (h', ok) ->
  exists j, (j <= length (corrected_values v e))%nat /\ (ok = true -> j = length (corrected_values v e)) /\
            record_all h (firstn j (corrected_values v e)) = (h', Z.of_nat j).
Proof. intros h v e. exact (HdrCorrected.record_until_fail_prefix (corrected_values v e) h). Qed.
Theorem C12_corrected_counts : forall lo hi s ops,
  valid_config lo hi s -> Forall (fun p => fst p <= hi) ops ->
  let '(oks, total, bars) := model_obs_corr lo hi s ops in
  c12_ok_corr ops oks total bars = true.
Proof. exact HdrCorrected.c12_oracle_corr_sound. Qed.
Theorem C12_corrected_refused_unchanged : forall lo hi s h v e h' ok,
  valid_config lo hi s -> hinv (config_of lo hi s) h -> record_corrected h v e = (h', ok) ->
  (record_value h v = None -> h' = h /\ ok = false) /\ (0 <= v <= hi -> ok = true).
Proof.
  intros lo hi s h v e h' ok Hc Hinv H. destruct (config_geom lo hi s Hc) as [G _].
  exact (proj2 (proj2 (HdrCorrected.record_corrected_spec _ hi G h v e h' ok Hinv H))).
Qed.
(* non-vacuity: 1000 corrected by 250 stands for 1000, 750, 500, 250 *)
Example C12_corrected_example : corrected_values 1000 250 = [1000; 750; 500; 250].
Proof. reflexivity. Qed.
Print Assumptions C12_corrected_values_closed_form.
Print Assumptions C12_corrected_is_a_record_sequence.
Print Assumptions C12_corrected_counts.
Print Assumptions C12_corrected_refused_unchanged.
