(* C05 -- a decoding error is never lost, whatever the schedule.
   Model: Model/SysReader.v (goroutines RD, RC, worker W with streamer S, consumer CN);
   "every interleaving" is "forall sched : list tid". The theorems hold for every configuration
   with the repaired order (c_abc c = true), i.e. for every reader kind (chunk, document,
   matrix/series) and for ALL channel capacities (over-approximation of the code's 2/100/25/100). *)
From Coq Require Import List Arith Bool Lia.
From FV.Model Require Import SysReader.
From FV.Proofs Require Import SysReaderProofs.
Import ListNotations.

(* Whenever the input contains an undecodable chunk or ends in a read error, then under every
   schedule without cancellation, once the consumer has seen Next() = false the catcher that
   its Err() resolves holds at least one error. For the layered kinds errors_registered is the
   layered iterator's own catcher (the worker consumes the chunk iterator inside the same LTS). *)
Theorem C05_error_visible : forall (c : cfg) (input : input) (sched : list tid) (s : state),
  c_abc c = true ->
  run c (init c input) sched = Some s ->
  nocancel s -> consumer_saw_end s -> has_failure input ->
  errors_registered c s >= 1.
Proof. exact C05_error_visible_lemma. Qed.
Print Assumptions C05_error_visible.

(* ... and stays there: the catcher only grows along any continuation (any configuration). *)
Theorem C05_err_stays : forall (c : cfg) (s : state) (sched : list tid) (s' : state),
  run c s sched = Some s' -> errors_registered c s <= errors_registered c s'.
Proof. exact C05_err_stays_lemma. Qed.
Print Assumptions C05_err_stays.

(* Every non-nil Add executed by any goroutine is retained: catcher length = number of non-nil
   Add calls executed (ghost counters addsC/addsW). MODELLING ASSUMPTION: catcher.Add is one atomic
   step (it appends under the catcher's mutex); the real catcher is exercised concurrently by the
   harness (c05 "CATCHER" lines). *)
Theorem C05_all_errors_kept : forall (c : cfg) (input : input) (sched : list tid) (s : state),
  run c (init c input) sched = Some s ->
  length (catC s) = addsC s /\ length (catW s) = addsW s.
Proof. exact C05_all_errors_kept_lemma. Qed.
Print Assumptions C05_all_errors_kept.

(* The per-goroutine automata used for local-trace conformance (accepts_local, evaluated on every logged
   goroutine trace of every run) are abstractions of step: the labels that goroutine r logs along ANY run of
   the LTS form a word of r's automaton. *)
Theorem C05_local_traces : forall (c : cfg) (r : role) (input : input) (sched : list tid) (s : state),
  c_abc c = true ->
  (r = R_RD \/ r = R_RC \/ (r = R_CW /\ c_kind c = KDoc) \/ (r = R_MW /\ c_kind c = KMatrix)) ->
  run c (init c input) sched = Some s ->
  accepts_local r (ltrace c r (init c input) sched) = true.
Proof. exact local_traces_accepted. Qed.
Print Assumptions C05_local_traces.

(* What repair 360cf42 fixed: with the OLD order (close the channel, then Add) there is an input
   and a schedule after which the consumer has seen the end and no error is registered -- for the
   chunk iterator and for the matrix/series iterator. *)
Theorem C05_order_matters :
  (exists s, run (cfg_old_order KChunk) (init (cfg_old_order KChunk) in_readerr) sched_lost_chunk = Some s /\
             nocancel s /\ consumer_saw_end s /\ has_failure in_readerr /\
             errors_registered (cfg_old_order KChunk) s = 0) /\
  (exists s, run (cfg_old_order KMatrix) (init (cfg_old_order KMatrix) in_readerr) sched_lost_matrix = Some s /\
             nocancel s /\ consumer_saw_end s /\ has_failure in_readerr /\
             errors_registered (cfg_old_order KMatrix) s = 0).
Proof. split; [exact order_matters_chunk | exact order_matters_matrix]. Qed.
Print Assumptions C05_order_matters.

(* the hypotheses of C05_error_visible are satisfiable by a non-trivial instance: a document
   reader on [metadata; good chunk of 2 samples; bad chunk; good chunk] ++ read error, fair
   schedule computed by the round-robin executor's order *)
Example C05_nontrivial :
  let c := cfg_of KDoc in
  let i := {| i_docs := [Meta; GoodChunk 2; BadChunk; GoodChunk 1]; i_fin := ReadError |} in
  let sched := [T_RD; T_RC; T_RD; T_RC; T_RC; T_RD; T_RC; T_RC; T_RC; T_W; T_S; T_S; T_S; T_W; T_W; T_W; T_W; T_W;
                T_W; T_W; T_W; T_W; T_CN; T_CN; T_CN] in
  exists s, run c (init c i) sched = Some s /\ nocancel s /\ consumer_saw_end s /\ has_failure i /\
            errors_registered c s = 1 /\ got s = 2.
Proof. eexists. split; [vm_compute; reflexivity|]. unfold nocancel, consumer_saw_end, has_failure. simpl. auto 10. Qed.
