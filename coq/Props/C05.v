(* C05 -- a decoding error is never lost, whatever the schedule.
   Model: Model/SysReader.v (goroutines RD, RC, worker W with streamer S, consumer CN);
   "every interleaving" is "forall sched : list tid". The theorems hold for every configuration
   with the repaired order (c_abc c = true), i.e. for every reader kind (chunk, document,
   matrix/series) and for ALL channel capacities (over-approximation of the code's 2/100/25/100). *)
From Coq Require Import List Arith Bool Lia.
From FV.Model Require Import SysReader.
From FV.Proofs Require Import SysReaderProofs.
Import ListNotations.

(* Whenever the input contains an undecodable chunk or ends in a read error, then under every
   schedule without cancellation, once the consumer has seen Next() = false the catcher that
   its Err() resolves holds at least one error. For the layered kinds errors_registered is the
   layered iterator's own catcher (the worker consumes the chunk iterator inside the same LTS). *)
Theorem C05_error_visible : forall (c : cfg) (input : input) (sched : list tid) (s : state),
  c_abc c = true ->
  run c (init c input) sched = Some s ->
  nocancel s -> consumer_saw_end s -> has_failure input ->
  errors_registered c s >= 1.
Proof. exact C05_error_visible_lemma. Qed.
Print Assumptions C05_error_visible.

(* ... and stays there: the catcher only grows along any continuation (any configuration). *)
Theorem C05_err_stays : forall (c : cfg) (s : state) (sched : list tid) (s' : state),
  run c s sched = Some s' -> errors_registered c s <= errors_registered c s'.
Proof. exact C05_err_stays_lemma. Qed.
Print Assumptions C05_err_stays.

(* Every non-nil Add executed by any goroutine is retained: catcher length = number of non-nil
   Add calls executed (ghost counters addsC/addsW). MODELLING ASSUMPTION: catcher.Add is one atomic
   step (it appends under the catcher's mutex); the real catcher is exercised concurrently by the
   harness (c05 "CATCHER" lines). *)
Theorem C05_all_errors_kept : forall (c : cfg) (input : input) (sched : list tid) (s : state),
  run c (init c input) sched = Some s ->
  length (catC s) = addsC s /\ length (catW s) = addsW s.
Proof. exact C05_all_errors_kept_lemma. Qed.
Print Assumptions C05_all_errors_kept.

(* The per-goroutine automata used for local-trace conformance (accepts_local, evaluated on every logged
   goroutine trace of every run) are abstractions of step: the labels that goroutine r logs along ANY run of
   the LTS form a word of r's automaton. *)
Theorem C05_local_traces : forall (c : cfg) (r : role) (input : input) (sched : list tid) (s : state),
  c_abc c = true ->
  (r = R_RD \/ r = R_RC \/ (r = R_CW /\ c_kind c = KDoc) \/ (r = R_MW /\ c_kind c = KMatrix)) ->
  run c (init c input) sched = Some s ->
  accepts_local r (ltrace c r (init c input) sched) = true.
Proof. exact local_traces_accepted. Qed.
Print Assumptions C05_local_traces.

(* What repair 360cf42 fixed: with the OLD order (close the channel, then Add) there is an input
   and a schedule after which the consumer has seen the end and no error is registered -- for the
   chunk iterator and for the matrix/series iterator. *)
Theorem C05_order_matters :
  (exists s, run (cfg_old_order KChunk) (init (cfg_old_order KChunk) in_readerr) sched_lost_chunk = Some s /\
             nocancel s /\ consumer_saw_end s /\ has_failure in_readerr /\
             errors_registered (cfg_old_order KChunk) s = 0) /\
  (exists s, run (cfg_old_order KMatrix) (init (cfg_old_order KMatrix) in_readerr) sched_lost_matrix = Some s /\
             nocancel s /\ consumer_saw_end s /\ has_failure in_readerr /\
             errors_registered (cfg_old_order KMatrix) s = 0).
Proof. split; [exact order_matters_chunk | exact order_matters_matrix]. Qed.
Print Assumptions C05_order_matters.

(* the hypotheses of C05_error_visible are satisfiable by a non-trivial instance: a document
   reader on [metadata; good chunk of 2 samples; bad chunk; good chunk] ++ read error, fair
   schedule computed by the round-robin executor's order *)
Example C05_nontrivial :
  let c := cfg_of KDoc in
  let i := {| i_docs := [Meta; GoodChunk 2; BadChunk; GoodChunk 1]; i_fin := ReadError |} in
  let sched := [T_RD; T_RC; T_RD; T_RC; T_RC; T_RD; T_RC; T_RC; T_RC; T_W; T_S; T_S; T_S; T_W; T_W; T_W; T_W; T_W;
                T_W; T_W; T_W; T_W; T_CN; T_CN; T_CN] in
  exists s, run c (init c i) sched = Some s /\ nocancel s /\ consumer_saw_end s /\ has_failure i /\
            errors_registered c s = 1 /\ got s = 2.
Proof. eexists. split; [vm_compute; reflexivity|]. unfold nocancel, consumer_saw_end, has_failure. simpl. auto 10. Qed.

(* ------------------------------------------------------------------ oracle soundness *)
(* The run-time check evaluates [c05_ok must obs] (Model/SysReader.v) on what it saw of the Go
   reader: must = [has_failureb input]; obs = up to three observations "Err() is non-nil", each
   made after the consumer had seen Next() = false and before Close/cancel (the first only when
   the stall point was reached).  The model's observation in a state s is
   [err_obs c s] = (0 <? errors_registered c s)   (Proofs/OracleC05C06.v).

   The oracle demands MORE than C05_error_visible: also that no error shows up when the input has
   no failure.  That direction holds in the model too, at every moment of every run nobody
   cancelled, for every configuration: *)
From FV.Proofs Require Import OracleC05C06.

Theorem C05_no_spurious_error : forall (c : cfg) (input : input) (sched : list tid) (s : state),
  run c (init c input) sched = Some s -> nocancel s -> ~ has_failure input ->
  errors_registered c s = 0.
Proof. exact no_spurious_error. Qed.
Print Assumptions C05_no_spurious_error.

Theorem C05_has_failureb : forall i, has_failureb i = true <-> has_failure i.
Proof. exact has_failureb_iff. Qed.
Print Assumptions C05_has_failureb.

(* For every input, every schedule sched1 after which the consumer has seen the end (state s1), every
   continuation to s2 and every further continuation to s3, no context cancelled up to s3: the
   three observations (the first possibly missing) satisfy the oracle. *)
Theorem C05_oracle_sound : forall c i sched1 sched2 sched3 s1 s2 s3 o1,
  c_abc c = true ->
  run c (init c i) sched1 = Some s1 -> run c s1 sched2 = Some s2 -> run c s2 sched3 = Some s3 ->
  consumer_saw_end s1 -> nocancel s3 ->
  o1 = None \/ o1 = Some (err_obs c s1) ->
  c05_ok (has_failureb i) [o1; Some (err_obs c s2); Some (err_obs c s3)] = true.
Proof. exact c05_oracle_sound. Qed.
Print Assumptions C05_oracle_sound.

(* [c05_catcher_ok] is evaluated on a stand-alone catcher to which g goroutines add m errors each
   (the "CATCHER" lines): Len(), the number of errors Resolve() lists, HasErrors(), Resolve() <> nil,
   Len() never decreasing.  The model has no such scenario of its own; its catcher is the list with
   Add = one atomic cons ([addC]/[addW], the modelling assumption stated at C05_all_errors_kept).
   For that catcher ([cat_adds]: the Adds in the order in which they were executed, whatever the
   interleaving) the oracle holds whenever g*m Adds were executed, g, m >= 1. *)
Theorem C05_catcher_oracle_sound : forall g m adds,
  1 <= g -> 1 <= m -> length adds = g * m ->
  let cat := cat_adds adds in
  c05_catcher_ok g m (length cat) (length cat) (0 <? length cat) (0 <? length cat)
                 (nondecreasing (lens_from [] adds)) = true.
Proof. exact c05_catcher_oracle_sound. Qed.
Print Assumptions C05_catcher_oracle_sound.
