(* C10 — thread-safe wrappers lose nothing.
   Model: Model/SysBuffered.v (an LTS of client goroutines, the synchronized collector's
   RWMutex, the inner collector as a log, the buffered collector's pipe and drainer, the
   cancel event; and a second small LTS for util/catcher.go).
   Every theorem quantifies over ALL programs (any number of goroutines, any length),
   ALL schedules (lists of tids), every buffer size and every inner acceptance function.
   Each is closed by [exact] of a lemma from Proofs/SysBufferedProofs.v. *)
From Coq Require Import List Arith Bool PeanoNat.
From FV.Model Require Import SysBuffered.
From FV.Proofs Require Import SysBufferedProofs.
Import ListNotations.

(* 1. Linearizability of the synchronized collector (also with a buffered collector on top).
      (a) the inner log is the sequential application of the Adds in lock-acquisition order
          ([pending] = the Add of the current lock holder whose inner call is still to come);
      (b) the lock acquisitions of every client are its operations in program order
          ([hist_of g] = its completed operations, [cur_held] = the one in its critical section);
      (c) exactly once: the client-applied part of the log is the list of direct Adds that
          returned nil ([inflight] = the one applied whose Unlock/return is still to come);
      (d) per producer: the acknowledged Adds of g inside that list are g's own, in program order. *)
Theorem C10_linearizable : forall accepts size progs sched s,
  run accepts size (init progs) sched = Some s ->
  sapp accepts [] (adds_of (acq s)) = sapp accepts (olog s) (pending s) /\
  (forall g, map eo (hist_of g (ghist s)) ++ prog s g = nth g progs [] /\
             acq_of g (acq s) = lock_ops (hist_of g (ghist s)) ++ cur_held s g) /\
  map snd (filter is_client (olog s)) = acked (ghist s) ++ inflight s /\
  (forall g, filter (fun x => fst x =? g) (acked (ghist s)) = acked (hist_of g (ghist s))).
Proof. exact linearizable. Qed.
Print Assumptions C10_linearizable.

(* 1'. the same without side terms, in every reachable state in which nobody holds the write lock *)
Theorem C10_sync_exactly_once_in_order : forall accepts size progs sched s,
  run accepts size (init progs) sched = Some s -> wr s = None ->
  olog s = sapp accepts [] (adds_of (acq s)) /\
  map snd (filter is_client (olog s)) = acked (ghist s) /\
  (forall g, filter (fun x => fst x =? g) (map snd (filter is_client (olog s))) = acked (hist_of g (ghist s))) /\
  (forall g, map eo (hist_of g (ghist s)) ++ prog s g = nth g progs []).
Proof. exact linearizable_lock_free. Qed.
Print Assumptions C10_sync_exactly_once_in_order.

(* 1''. every Resolve that has returned, returned a prefix of the inner log as it is now (and so
        of the final output): observers never see a sample that is later missing or reordered *)
Theorem C10_snapshots_prefix : forall accepts size progs sched s,
  run accepts size (init progs) sched = Some s ->
  forall e l, In e (ghist s) -> er e = RSnap l -> exists suf, log s = l ++ suf.
Proof. exact snapshots_prefix. Qed.
Print Assumptions C10_snapshots_prefix.

(* 2. Buffered collector, conservation: the buffered Adds that returned nil, in the order of
      their sends, are exactly  finished-by-the-drainer ++ in-the-drainer's-hand ++ in-the-pipe
      (equal LISTS: nothing lost, nothing duplicated, global FIFO); what the drainer applied
      successfully is in the inner log in that order, what the inner collector refused is in the
      catcher; and the acknowledged Adds of one producer are its own in program order. *)
Theorem C10_buffered_conservation : forall accepts size progs sched s,
  run accepts size (init progs) sched = Some s ->
  length (pipe s) <= size /\
  backed (ghist s) = map fst (drained s) ++ hand s ++ pipe s /\
  map snd (filter is_drainer (olog s)) = oks (drained s) ++ hand_ok s /\
  catcher s = rejs (drained s) /\
  (forall g, filter (fun x => fst x =? g) (backed (ghist s)) = backed (hist_of g (ghist s))).
Proof. exact conservation. Qed.
Print Assumptions C10_buffered_conservation.

(* 3. Delivery without further prompting: s1 is any reachable state, the cancel event happens
      there, s is any state reachable afterwards in which no goroutine (client, drainer) can
      move.  Then every buffered Add that had returned nil when the context was cancelled
      ([backed (ghist s1)]) has been handed to the inner collector by the drainer, in order:
      it is in the inner log, or the inner collector refused it and the error is in the catcher. *)
Theorem C10_buffered_delivery : forall accepts size progs sched1 s1 s2 sched2 s,
  run accepts size (init progs) sched1 = Some s1 ->
  step accepts size s1 Cancel = Some s2 ->
  run accepts size s2 sched2 = Some s ->
  quiescent accepts size s ->
  (exists rest, map fst (drained s) = backed (ghist s1) ++ rest) /\
  (forall x, In x (backed (ghist s1)) -> In (Drainer, x) (olog s) \/ In x (catcher s)).
Proof. exact delivery. Qed.
Print Assumptions C10_buffered_delivery.

(* 3'. with an inner collector that accepts everything (dynamic/batch collectors on
       same-typed documents) the samples are in the inner log *)
Theorem C10_buffered_delivery_no_reject : forall accepts size,
  (forall l x, accepts l x = true) ->
  forall progs sched1 s1 s2 sched2 s,
  run accepts size (init progs) sched1 = Some s1 ->
  step accepts size s1 Cancel = Some s2 ->
  run accepts size s2 sched2 = Some s ->
  quiescent accepts size s ->
  forall x, In x (backed (ghist s1)) -> In (Drainer, x) (olog s).
Proof. exact delivery_no_reject. Qed.
Print Assumptions C10_buffered_delivery_no_reject.

(* 4. The catcher: when all goroutines have finished, the retained errors of goroutine g are
      exactly its non-nil errors in program order (nil errors add nothing), and the total count
      is the number of non-nil Adds. *)
Theorem C10_catcher : forall progs sched s,
  krun (kinit progs) sched = Some s -> (forall g, kprog s g = []) ->
  (forall g, filter (fun x => fst x =? g) (kerrs s) = nonnil g (nth g progs [])) /\
  length (kerrs s) = sumto (length progs) (fun g => length (nonnil g (nth g progs []))).
Proof. exact catcher_final. Qed.
Print Assumptions C10_catcher.

(* 4'. at any time: the error list is the completed non-nil Adds plus the one in flight *)
Theorem C10_catcher_any_time : forall progs sched s,
  krun (kinit progs) sched = Some s ->
  kerrs s = kadded (kdone s) ++ kinflight s /\
  (forall g, map ko (khist g (kdone s)) ++ kprog s g = nth g progs []).
Proof. exact catcher_any_time. Qed.
Print Assumptions C10_catcher_any_time.

(* 5. Progress: while some client still has an operation to run some goroutine can move (no
      deadlock); whoever holds the write lock is never blocked and releases it within two of
      its own steps (Lock is followed by Unlock on every path); likewise every reader. *)
Theorem C10_progress : forall accepts size progs sched s,
  run accepts size (init progs) sched = Some s ->
  ((exists g, prog s g <> []) -> exists t s', step accepts size s t = Some s') /\
  (forall w, wr s = Some w ->
     exists s1, step accepts size s (tid_of w) = Some s1 /\
       (wr s1 = None \/ exists s2, step accepts size s1 (tid_of w) = Some s2 /\ wr s2 = None)) /\
  (forall g, In g (rdrs s) ->
     exists s1, step accepts size s (P g) = Some s1 /\
       (~ In g (rdrs s1) \/ exists s2, step accepts size s1 (P g) = Some s2 /\ ~ In g (rdrs s2))).
Proof. exact progress. Qed.
Print Assumptions C10_progress.

(* 6. The label sequence the drainer goroutine logs at its vpoint hooks is a path of the local
      automaton the harness checks ((bd.recv catcher.add)* [bd.cancel catcher.add*]). *)
Theorem C10_drainer_trace : forall accepts size progs sched s,
  run accepts size (init progs) sched = Some s ->
  drainer_accepts (trace accepts size (init progs) sched) = true.
Proof. exact trace_accepted. Qed.
Print Assumptions C10_drainer_trace.

(* ------------------------------------------------------------------ the hypotheses are satisfiable
   Two producers, buffer size 1.  Producer 0 gets two samples acknowledged before the cancel
   event (one in the drainer's hand, one in the pipe); producer 1 is blocked and gets ctx.Err().
   The drainer finishes the one in its hand, takes the ctx.Done arm with one item left in the
   pipe, drains it and then blocks for ever on the open, empty channel: the state is quiescent,
   both acknowledged samples are in the inner log in order — and the drainer goroutine is still
   there (pc DRange), which is the leak noted in DESIGN.md (outside the wording of C10). *)
Definition ex_accepts : list tsample -> tsample -> bool := fun _ _ => true.
Definition ex_progs : list (list op) := [[OBAdd 0; OBAdd 1]; [OBAdd 0]].
Definition ex_sched1 : list tid := [P 0; D; P 0].
Definition ex_sched2 : list tid := [Pc 1; D; D; D; D; Dc; D; D; D; D; D; D].

Example C10_delivery_nonvacuous :
  exists s1 s2 s,
    run ex_accepts 1 (init ex_progs) ex_sched1 = Some s1 /\
    step ex_accepts 1 s1 Cancel = Some s2 /\
    run ex_accepts 1 s2 ex_sched2 = Some s /\
    quiescent ex_accepts 1 s /\
    backed (ghist s1) = [(0, 0); (0, 1)] /\
    log s = [(0, 0); (0, 1)] /\
    map er (hist_of 1 (ghist s)) = [RCtx] /\
    dp s = DRange.
Proof.
  destruct (run ex_accepts 1 (init ex_progs) ex_sched1) as [s1|] eqn:E1; [|vm_compute in E1; discriminate].
  destruct (step ex_accepts 1 s1 Cancel) as [s2|] eqn:E2;
    [|vm_compute in E1; inversion E1; subst; vm_compute in E2; discriminate].
  destruct (run ex_accepts 1 s2 ex_sched2) as [s|] eqn:E3;
    [|vm_compute in E1; inversion E1; subst; vm_compute in E2; inversion E2; subst; vm_compute in E3; discriminate].
  exists s1, s2, s. split; [reflexivity|]. split; [exact E2|]. split; [exact E3|].
  assert (R : run ex_accepts 1 (init ex_progs) (ex_sched1 ++ Cancel :: ex_sched2) = Some s).
  { vm_compute in E1; inversion E1; subst; vm_compute in E2; inversion E2; subst; vm_compute in E3.
    inversion E3; subst. vm_compute. reflexivity. }
  split.
  - apply (quiescent_upto_sound ex_accepts 1 2).
    + intros g L. apply (beyond_programs ex_accepts 1 _ _ _ R g). exact L.
    + vm_compute in E1; inversion E1; subst; vm_compute in E2; inversion E2; subst; vm_compute in E3.
      inversion E3; subst. vm_compute. reflexivity.
  - vm_compute in E1; inversion E1; subst; vm_compute in E2; inversion E2; subst; vm_compute in E3.
    inversion E3; subst. vm_compute. repeat split; reflexivity.
Qed.

(* three goroutines adding to the catcher concurrently, one nil error among five Adds *)
Example C10_catcher_nonvacuous :
  exists s, krun (kinit [[KAdd (Some 7); KAdd None]; [KAdd (Some 8); KLen]; [KAdd (Some 9)]])
                 [0; 0; 0; 1; 0; 1; 1; 2; 2; 2; 1; 1; 1] = Some s /\
            map snd (kerrs s) = [7; 8; 9] /\ kprog s 0 = [] /\ kprog s 1 = [] /\ kprog s 2 = [].
Proof. eexists. split; [vm_compute; reflexivity|]. vm_compute. repeat split; reflexivity. Qed.

(* ------------------------------------------------------------------ oracle soundness *)
(* The run-time check evaluates [c10_ok_sync] / [c10_ok_buffered] / [c10_ok_catcher]
   (Model/SysBuffered.v) on what the Go wrappers did.  They accept the observation the MODEL
   yields under every schedule.  Observations are built as ocaml/c10_run.ml builds them from the
   harness's line (definitions in Proofs/OracleC10.v):
   [obs_adds pre h]    one record per Add among the completed operations h: producer, sequence
                       number, "returned nil", "is among pre" (pre = the buffered Adds that had
                       returned nil at the cancel event);
   [log s]             the decoded output; the number of panics is 0 (the model has none);
   [cat_expected progs] the non-nil errors handed to catcher.Add; Errors() = [kerrs s].
   The harness's producers issue only Adds, producer g the samples (g,0), (g,1), ... :
   [sync_progs] / [buf_progs] = every program is  map OAdd vs / map OBAdd vs  with vs strictly
   increasing.  (The oracles' order clause and "exactly once" clauses speak about such runs.)
   The witness schedule the driver additionally searches for is correspondence, not oracle. *)
From FV.Proofs Require Import OracleC10.

(* synchronized collector: any inner acceptance function (also a full base collector), any number
   of producers, every schedule after which all Adds have returned *)
Theorem C10_oracle_sync_sound : forall accepts size progs sched s pre,
  sync_progs progs ->
  run accepts size (init progs) sched = Some s -> (forall g, prog s g = []) ->
  c10_ok_sync (obs_adds pre (ghist s)) (log s) 0 = true.
Proof. exact c10_sync_oracle_sound. Qed.
Print Assumptions C10_oracle_sync_sound.

(* buffered collector over an inner collector that refuses nothing (the check runs it over the
   dynamic collector; with a refusing inner collector a sample acknowledged before the cancel
   event may end in the catcher instead of the output - C10_buffered_delivery - and the oracle's
   third clause would not follow): every schedule up to s1, the cancel event, every schedule
   from there to a quiescent state *)
Theorem C10_oracle_buffered_sound : forall accepts size, (forall l x, accepts l x = true) ->
  forall progs sched1 s1 s2 sched2 s,
  buf_progs progs ->
  run accepts size (init progs) sched1 = Some s1 ->
  step accepts size s1 Cancel = Some s2 ->
  run accepts size s2 sched2 = Some s ->
  quiescent accepts size s ->
  c10_ok_buffered (obs_adds (backed (ghist s1)) (ghist s)) (log s) 0 = true.
Proof. exact c10_buffered_oracle_sound. Qed.
Print Assumptions C10_oracle_buffered_sound.

(* catcher: every schedule after which all goroutines have finished *)
Theorem C10_oracle_catcher_sound : forall progs sched s,
  krun (kinit progs) sched = Some s -> (forall g, kprog s g = []) ->
  c10_ok_catcher (cat_expected progs) (kerrs s) (length (kerrs s))
                 (negb (length (kerrs s) =? 0)) (negb (length (kerrs s) =? 0)) = true.
Proof. exact c10_catcher_oracle_sound. Qed.
Print Assumptions C10_oracle_catcher_sound.

(* the programs of C10_delivery_nonvacuous have the harness's shape *)
Example C10_oracle_nonvacuous : buf_progs ex_progs /\ sync_progs [[OAdd 0; OAdd 1; OAdd 2]; [OAdd 0]].
Proof.
  split; intros g.
  - destruct g as [|[|g]].
    + exists [0; 1]. split; [reflexivity|]. repeat constructor.
    + exists [0]. split; [reflexivity|]. repeat constructor.
    + exists []. split; [destruct g; reflexivity | constructor].
  - destruct g as [|[|g]].
    + exists [0; 1; 2]. split; [reflexivity|]. repeat constructor.
    + exists [0]. split; [reflexivity|]. repeat constructor.
    + exists []. split; [destruct g; reflexivity | constructor].
Qed.
