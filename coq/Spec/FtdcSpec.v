(* The FTDC wire format, written from the description of the format and NOT from the
   library's code.  It shares only bytes / little-endian words / unsigned varints
   (Model/Bytes.v) and the BSON value type with its encoder and decoder
   (Model/Bson.v) with the model of the implementation; it does not see the model's
   metric extraction, codec or collectors.

   Layout.  A stream is a concatenation of BSON documents
       { _id : date, type : <number>, doc | data : ... }.
   type = 0 : metadata document ("doc" holds it).   type = 1 : metric chunk.
   Any other document is skipped.  The type may be an int32, int64 or double.
   data  = binary (subtype 0) of  [uint32 LE: length of payload] [zlib (payload)]
   payload = [BSON reference document] [uint32 LE metric count] [uint32 LE delta count]
             [deltas]
   metrics of a document = its numeric leaves in document order, recursing into
   embedded documents and arrays: double (its IEEE-754 bit pattern as int64), int32,
   int64, bool (0/1), date (milliseconds), timestamp (two metrics: seconds, then
   increment); leaves of every other type carry no metric.
   deltas  = for each metric, for each of the (samples - 1) steps, the difference
   to the previous sample as an uint64 in two's complement, written as an unsigned
   LEB128 varint; a varint 0 is followed by a varint n and stands for n+1 zeros; the
   zeros of one pair may extend over the end of a metric into the next one, and a
   stretch of zeros may be written as several pairs.
   Definitions only. *)
From Coq Require Import ZArith NArith List Bool.
From FV.Model Require Import Bytes Bson.
Import ListNotations.
Open Scope Z_scope.

(* ------------------------------------------------------------------ field names *)
Definition f_id   : bytes := [95; 105; 100]%N.            (* "_id"  *)
Definition f_type : bytes := [116; 121; 112; 101]%N.      (* "type" *)
Definition f_data : bytes := [100; 97; 116; 97]%N.        (* "data" *)
Definition f_doc  : bytes := [100; 111; 99]%N.            (* "doc"  *)

(* ------------------------------------------------------------------ metrics of a document *)
(* a sample is the vector of its metric values, each an int64 *)
Fixpoint spec_metrics (v : value) : list Z :=
  match v with
  | VDouble bits => [bits]
  | VInt32 i => [i]
  | VInt64 i => [i]
  | VBool b => [if b then 1 else 0]
  | VDateTime ms => [ms]
  | VTimestamp t i => [t; i]
  | VDoc d => (fix go (l : list (bytes * value)) : list Z :=
                 match l with [] => [] | (_, x) :: r => spec_metrics x ++ go r end) d
  | VArr a => (fix go (l : list value) : list Z :=
                 match l with [] => [] | x :: r => spec_metrics x ++ go r end) a
  | _ => []
  end.

Fixpoint spec_metrics_doc (d : doc) : list Z :=
  match d with [] => [] | (_, x) :: r => spec_metrics x ++ spec_metrics_doc r end.

(* a sample as a document: the reference document with its metric leaves replaced
   by the values of the sample and every other leaf removed *)
Fixpoint spec_fill (v : value) (vals : list Z) : option value * list Z :=
  match v with
  | VDouble _ => match vals with x :: r => (Some (VDouble x), r) | [] => (Some v, []) end
  | VInt32 _ => match vals with x :: r => (Some (VInt32 x), r) | [] => (Some v, []) end
  | VInt64 _ => match vals with x :: r => (Some (VInt64 x), r) | [] => (Some v, []) end
  | VBool _ => match vals with x :: r => (Some (VBool (negb (x =? 0))), r) | [] => (Some v, []) end
  | VDateTime _ => match vals with x :: r => (Some (VDateTime x), r) | [] => (Some v, []) end
  | VTimestamp _ _ => match vals with x :: y :: r => (Some (VTimestamp x y), r) | _ => (Some v, []) end
  | VDoc d =>
      let '(items, rest) :=
        (fix go (l : list (bytes * value)) (vs : list Z) : list (bytes * value) * list Z :=
           match l with
           | [] => ([], vs)
           | (k, x) :: r => let '(ox, vs1) := spec_fill x vs in
                            let '(rs, vs2) := go r vs1 in
                            (match ox with Some y => (k, y) :: rs | None => rs end, vs2)
           end) d vals in
      (Some (VDoc items), rest)
  | VArr a =>
      let '(items, rest) :=
        (fix go (l : list value) (vs : list Z) : list value * list Z :=
           match l with
           | [] => ([], vs)
           | x :: r => let '(ox, vs1) := spec_fill x vs in
                       let '(rs, vs2) := go r vs1 in
                       (match ox with Some y => y :: rs | None => rs end, vs2)
           end) a vals in
      (Some (VArr items), rest)
  | _ => (None, vals)
  end.

Definition spec_fill_doc (ref : doc) (vals : list Z) : doc :=
  match fst (spec_fill (VDoc ref) vals) with Some (VDoc d) => d | _ => [] end.

(* does the document hold a timestamp leaf with non-zero seconds *)
Fixpoint spec_has_ts_seconds (v : value) : bool :=
  match v with
  | VTimestamp t _ => negb (t =? 0)
  | VDoc d => (fix go (l : list (bytes * value)) : bool :=
                 match l with [] => false | (_, x) :: r => spec_has_ts_seconds x || go r end) d
  | VArr a => (fix go (l : list value) : bool :=
                 match l with [] => false | x :: r => spec_has_ts_seconds x || go r end) a
  | _ => false
  end.
Definition spec_doc_has_ts_seconds (d : doc) : bool := spec_has_ts_seconds (VDoc d).

(* ------------------------------------------------------------------ the delta section: decoding *)
(* [remaining] values are still to be produced from [bs]; a zero pair stands for
   n+1 zeros and may not exceed what remains; nothing may follow the last value.
   Whether the zeros of a pair end at the end of a metric plays no role.  Every
   step consumes a byte, so the length of the input bounds the recursion. *)
Fixpoint spec_expand (fuel : nat) (remaining : N) (bs : bytes) : option (list N) :=
  match fuel with
  | O => None
  | S f =>
      if (remaining =? 0)%N then (match bs with [] => Some [] | _ => None end)
      else
        match uvarint_dec bs with
        | VOk d r =>
            if (d =? 0)%N then
              match uvarint_dec r with
              | VOk n r' =>
                  if (n + 1 <=? remaining)%N then
                    match spec_expand f (remaining - (n + 1))%N r' with
                    | Some ds => Some (repeat 0%N (N.to_nat (n + 1)) ++ ds)
                    | None => None
                    end
                  else None
              | _ => None
              end
            else
              match spec_expand f (remaining - 1)%N r with
              | Some ds => Some (d :: ds)
              | None => None
              end
        | _ => None
        end
  end.

(* the values of one metric: the reference value, then every delta added in 64-bit
   two's complement arithmetic *)
Fixpoint spec_sums (v : Z) (ds : list N) : list Z :=
  v :: match ds with [] => [] | d :: r => spec_sums (wrap64 (v + Z.of_N d)) r end.

(* k consecutive slices of n elements *)
Fixpoint spec_slices (n k : nat) (l : list N) : list (list N) :=
  match k with
  | O => []
  | S k' => firstn n l :: spec_slices n k' (skipn n l)
  end.

(* from one list per metric to one vector per sample *)
Definition spec_rows (npoints : nat) (cols : list (list Z)) : list (list Z) :=
  map (fun j => map (fun col => nth j col 0) cols) (seq 0 npoints).

(* a decoded chunk: its samples (the first one is the reference document's) and the
   reference document *)
Definition table := (list (list Z) * doc)%type.

Definition spec_decode_payload (p : bytes) : option table :=
  match dec_doc p with
  | Some (ref, r1) =>
      match read_le 4 r1 with
      | Some (nm, r2) =>
          match read_le 4 r2 with
          | Some (nd, r3) =>
              let start := spec_metrics_doc ref in
              if negb (nm =? N.of_nat (length start))%N then None
              else
                match spec_expand (S (length r3)) (nm * nd)%N r3 with
                | Some ds =>
                    let cols := spec_slices (N.to_nat nd) (length start) ds in
                    Some (spec_rows (S (N.to_nat nd))
                                    (map (fun sc => spec_sums (fst sc) (snd sc)) (combine start cols)), ref)
                | None => None
                end
          | None => None
          end
      | None => None
      end
  | None => None
  end.

(* is the value the number n (n = 0 or 1), as an int32, an int64 or a double
   (IEEE-754: 0.0 = 0x0000000000000000, -0.0 = 0x8000000000000000, 1.0 = 0x3FF0000000000000) *)
Definition spec_num_is (n : Z) (v : value) : bool :=
  match v with
  | VInt32 i => i =? n
  | VInt64 i => i =? n
  | VDouble bits => if n =? 0 then (bits =? 0) || (bits =? - 2 ^ 63)
                    else if n =? 1 then bits =? 4607182418800017408
                    else false
  | _ => false
  end.

Inductive doc_class := SMeta | SChunk | SSkip.

Definition spec_class (d : doc) : doc_class :=
  match lookup f_type d with
  | Some v => if spec_num_is 0 v then SMeta else if spec_num_is 1 v then SChunk else SSkip
  | None => SSkip
  end.

Section Zlib.
Variable deflate : bytes -> bytes.
Variable inflate : bytes -> option bytes.

(* a chunk document: _id a date, data a binary of subtype 0 whose length prefix is
   the length of the inflated payload *)
Definition spec_decode_chunk (d : doc) : option table :=
  match lookup f_id d, lookup f_data d with
  | Some (VDateTime _), Some (VBinary st b) =>
      if negb (st =? 0)%N then None
      else
        match read_le 4 b with
        | Some (len, z) =>
            match inflate z with
            | Some p => if (len =? N.of_nat (length p))%N then spec_decode_payload p else None
            | None => None
            end
        | None => None
        end
  | _, _ => None
  end.

(* the chunks of a sequence of outer documents, in order *)
Fixpoint spec_decode_stream (ds : list doc) : option (list table) :=
  match ds with
  | [] => Some []
  | d :: r =>
      match spec_class d with
      | SChunk =>
          match spec_decode_chunk d, spec_decode_stream r with
          | Some t, Some ts => Some (t :: ts)
          | _, _ => None
          end
      | _ => spec_decode_stream r
      end
  end.

(* a byte stream: a concatenation of BSON documents with nothing left over *)
Definition spec_decode_bytes (bs : bytes) : option (list table) :=
  match dec_docs bs with
  | Some ds => spec_decode_stream ds
  | None => None
  end.

(* "ds is a conformant stream holding exactly these chunks" *)
Definition spec_stream (ds : list doc) (t : list table) : Prop := spec_decode_stream ds = Some t.

(* ------------------------------------------------------------------ the delta section: encoding *)
Definition spec_column (i : nat) (samples : list (list Z)) : list Z := map (fun s => nth i s 0) samples.

Fixpoint spec_diffs (prev : Z) (vals : list Z) : list N :=
  match vals with [] => [] | v :: r => u64 (v - prev) :: spec_diffs v r end.

(* metric-major: all steps of metric 0, then all steps of metric 1, ... *)
Definition spec_deltas (nm : nat) (samples : list (list Z)) : list N :=
  flat_map (fun i => match spec_column i samples with [] => [] | v0 :: r => spec_diffs v0 r end) (seq 0 nm).

Inductive tok := TVal (d : N) | TRun (n : N).     (* TRun n: n+1 zeros *)

Fixpoint count_zeros (ds : list N) : nat :=
  match ds with d :: r => if (d =? 0)%N then S (count_zeros r) else O | [] => O end.

(* The encoder is free in how it cuts a stretch of L zeros into pairs.  Each time
   it stands before a zero it consults the next element c of [choice]: the pair
   covers 1 + (c mod L) zeros; when the list is used up the pair covers all L. *)
Fixpoint spec_tokens (fuel : nat) (choice : list N) (ds : list N) : list tok :=
  match fuel with
  | O => []
  | S f =>
      match ds with
      | [] => []
      | d :: r =>
          if (d =? 0)%N then
            let L := count_zeros ds in
            let piece := match choice with
                         | [] => L
                         | c :: _ => S (N.to_nat (c mod N.of_nat L))
                         end in
            TRun (N.of_nat (piece - 1)) :: spec_tokens f (tl choice) (skipn piece ds)
          else TVal d :: spec_tokens f choice r
      end
  end.

Definition enc_tok (t : tok) : bytes :=
  match t with
  | TVal d => uvarint_enc d
  | TRun n => uvarint_enc 0 ++ uvarint_enc n
  end.

Definition spec_encode_deltas (choice : list N) (ds : list N) : bytes :=
  concat (map enc_tok (spec_tokens (length ds) choice ds)).

(* no two zero pairs in a row: every stretch of zeros is one pair *)
Fixpoint maximal_runs (ts : list tok) : bool :=
  match ts with
  | TRun _ :: ((TRun _ :: _) as r) => false
  | _ :: r => maximal_runs r
  | [] => true
  end.

(* ------------------------------------------------------------------ chunks and streams: encoding *)
(* a chunk is given by its reference document (the first sample, verbatim) and the
   metric vectors of the samples that follow *)
Definition spec_payload (choice : list N) (ref : doc) (rest : list (list Z)) : bytes :=
  let start := spec_metrics_doc ref in
  enc_doc ref ++ le_enc 4 (N.of_nat (length start)) ++ le_enc 4 (N.of_nat (length rest))
  ++ spec_encode_deltas choice (spec_deltas (length start) (start :: rest)).

Definition spec_data (p : bytes) : bytes := le_enc 4 (N.of_nat (length p)) ++ deflate p.

Definition spec_chunk_doc (id : Z) (ty : value) (choice : list N) (ref : doc) (rest : list (list Z)) : doc :=
  [(f_id, VDateTime id); (f_type, ty); (f_data, VBinary 0%N (spec_data (spec_payload choice ref rest)))].

Definition spec_meta_doc (id : Z) (ty : value) (m : doc) : doc :=
  [(f_id, VDateTime id); (f_type, ty); (f_doc, VDoc m)].

Inductive item :=
| IMeta (id : Z) (ty : value) (m : doc)
| IChunk (id : Z) (ty : value) (choice : list N) (ref : doc) (rest : list (list Z))
| IOther (d : doc).

Definition spec_encode_item (it : item) : doc :=
  match it with
  | IMeta id ty m => spec_meta_doc id ty m
  | IChunk id ty choice ref rest => spec_chunk_doc id ty choice ref rest
  | IOther d => d
  end.

Definition spec_encode (items : list item) : list doc := map spec_encode_item items.

(* what a stream built from [items] holds *)
Fixpoint item_tables (items : list item) : list table :=
  match items with
  | [] => []
  | IChunk _ _ _ ref rest :: r => (spec_metrics_doc ref :: rest, ref) :: item_tables r
  | _ :: r => item_tables r
  end.

(* the canonical form: type as int32, every stretch of zeros one pair *)
Definition canonical_payload (ref : doc) (rest : list (list Z)) : bytes := spec_payload [] ref rest.
Definition canonical_chunk (id : Z) (ref : doc) (rest : list (list Z)) : doc :=
  spec_chunk_doc id (VInt32 1) [] ref rest.
Definition canonical_meta (id : Z) (m : doc) : doc := spec_meta_doc id (VInt32 0) m.

End Zlib.

(* ------------------------------------------------------------------ well-formedness of what is encoded *)
(* the reference document is representable, every later sample has one value per
   metric, each an int64, both counts fit their uint32 fields and so does the
   length of the payload *)
Definition chunk_wf (choice : list N) (ref : doc) (rest : list (list Z)) : Prop :=
  doc_ok ref = true /\ (N.of_nat (length (enc_doc ref)) < 2 ^ 31)%N /\
  Forall (fun s => length s = length (spec_metrics_doc ref) /\ Forall (fun x => in_i64 x = true) s) rest /\
  (N.of_nat (length (spec_metrics_doc ref)) < 2 ^ 32)%N /\ (N.of_nat (length rest) < 2 ^ 32)%N /\
  (N.of_nat (length (spec_payload choice ref rest)) < 2 ^ 32)%N.

Definition item_wf (it : item) : Prop :=
  match it with
  | IMeta _ ty _ => spec_num_is 0 ty = true
  | IChunk _ ty choice ref rest => spec_num_is 0 ty = false /\ spec_num_is 1 ty = true /\ chunk_wf choice ref rest
  | IOther d => spec_class d = SSkip
  end.

(* ------------------------------------------------------------------ executable instance and oracle *)
(* zlib replaced by the trivial codec the harness normalises streams into:
   a flag byte 1 followed by the payload *)
Definition triv_deflate (p : bytes) : bytes := 1%N :: p.
Definition triv_inflate (z : bytes) : option bytes :=
  match z with b :: p => if (b =? 1)%N then Some p else None | [] => None end.

Definition x_spec_decode_stream := spec_decode_stream triv_inflate.
Definition x_spec_decode_bytes := spec_decode_bytes triv_inflate.
Definition x_spec_encode := spec_encode triv_deflate.
Definition x_canonical_chunk := canonical_chunk triv_deflate.

Definition zlist_eqb (a b : list Z) : bool := if list_eq_dec Z.eq_dec a b then true else false.
Definition zrows_eqb (a b : list (list Z)) : bool := if list_eq_dec (list_eq_dec Z.eq_dec) a b then true else false.
Definition spec_bytes_eqb (a b : bytes) : bool := if list_eq_dec N.eq_dec a b then true else false.

(* header of a chunk / metadata document exactly as described: three fields in
   this order, _id a date, type the int32 1 / 0, data a binary of subtype 0 / doc a document *)
Definition header_exact (d : doc) : bool :=
  match d with
  | [(k1, VDateTime _); (k2, VInt32 t); (k3, VBinary st _)] =>
      spec_bytes_eqb k1 f_id && spec_bytes_eqb k2 f_type && spec_bytes_eqb k3 f_data && (t =? 1) && (st =? 0)%N
  | [(k1, VDateTime _); (k2, VInt32 t); (k3, VDoc _)] =>
      spec_bytes_eqb k1 f_id && spec_bytes_eqb k2 f_type && spec_bytes_eqb k3 f_doc && (t =? 0)
  | _ => false
  end.

Definition chunk_id (d : doc) : Z := match lookup f_id d with Some (VDateTime t) => t | _ => 0 end.

(* the chunk documents of a stream, in order *)
Definition chunk_docs (ds : list doc) : list doc :=
  filter (fun d => match spec_class d with SChunk => true | _ => false end) ds.

(* every chunk document is byte-identical to the canonical encoding of what it holds *)
Fixpoint all_canonical (cds : list doc) (ts : list table) : bool :=
  match cds, ts with
  | [], [] => true
  | d :: r, (samples, ref) :: tr =>
      spec_bytes_eqb (enc_doc d) (enc_doc (x_canonical_chunk (chunk_id d) ref (tl samples))) && all_canonical r tr
  | _, _ => false
  end.

(* the reference document of every chunk is the input document at its position, verbatim *)
Fixpoint refs_verbatim (inputs : list doc) (ts : list table) : bool :=
  match ts with
  | [] => true
  | (samples, ref) :: tr =>
      match inputs with
      | d :: _ => spec_bytes_eqb (enc_doc d) (enc_doc ref) && refs_verbatim (skipn (length samples) inputs) tr
      | [] => false
      end
  end.

Inductive c03_verdict := COk | CUndecodable | CHeader | CSamples | CReference | CNotCanonical.

(* the C03 oracle, encode direction, on the outer documents the implementation
   emitted for the inputs: an independent decoding recovers exactly the metric
   vectors of the inputs, every header field is exact, the reference sample is
   verbatim and the payload (with its length prefix) is the canonical one *)
Definition c03_encode_verdict (inputs : list doc) (ds : list doc) : c03_verdict :=
  match x_spec_decode_stream ds with
  | None => CUndecodable
  | Some ts =>
      if negb (forallb header_exact ds) then CHeader
      else if negb (zrows_eqb (concat (map fst ts)) (map spec_metrics_doc inputs)) then CSamples
      else if negb (refs_verbatim inputs ts) then CReference
      else if negb (all_canonical (chunk_docs ds) ts) then CNotCanonical
      else COk
  end.

Definition c03_encode_ok (inputs : list doc) (ds : list doc) : bool :=
  match c03_encode_verdict inputs ds with COk => true | _ => false end.

(* decode direction: what the readers must deliver for a conformant stream: per
   chunk and metric the column of values, and the samples as documents *)
Definition table_columns (t : table) : list (list Z) :=
  map (fun i => spec_column i (fst t)) (seq 0 (length (spec_metrics_doc (snd t)))).
Definition table_docs (t : table) : list doc := map (spec_fill_doc (snd t)) (fst t).

(* encode direction, samples as documents.  c03_encode_verdict compares metric VECTORS and the
   first sample of each chunk only; a sample filed under a chunk whose reference document has
   other key names and the same number of metrics passes it.  This check closes the gap:
   the samples read back as documents (reference document of their chunk filled with their values, every other leaf
   removed) are the inputs with every non-metric leaf removed *)
Definition self_fill (d : doc) : doc := spec_fill_doc d (spec_metrics_doc d).
Definition c03_encode_docs_ok (inputs : list doc) (ds : list doc) : bool :=
  match x_spec_decode_stream ds with
  | None => false
  | Some ts => spec_bytes_eqb (concat (map enc_doc (concat (map table_docs ts)))) (concat (map enc_doc (map self_fill inputs)))
  end.
