(* Equivalence of Generated/HdrArith.v (regenerated from hdrhist/hdr.go on every check run by
   `ftdcverif hdrtrans`, harness/hdrtrans.go) with the hand-written definitions of Model/Hdr.v that the
   C12 / C13 theorems are about.

   The proofs never mention a local name of the generated text (only the generated function names):
   a renamed local or a reformatting of the Go source leaves them intact, a changed operator, constant
   or operand does not. *)
From Coq Require Import ZArith List Bool Lia ZifyBool Sorting.Permutation.
From FV.Model Require Import Hdr.
From FV.Generated Require Import HdrArith.
From Coq Require Import Sorting.Sorted.
From FV.Proofs Require Import HdrProofs HdrQuantProofs.
Import ListNotations.
Open Scope Z_scope.

(* ------------------------------------------------------------------ *)
(* range hypotheses                                                    *)
(* ------------------------------------------------------------------ *)

(* a non-negative int64 *)
Definition word (v : Z) : Prop := 0 <= v < 2 ^ 63.

(* what the translated arithmetic needs of a configuration: shift counts are non-negative (the
   translation reads uint() as the identity), and v | subBucketMask stays below 2^63 and has at
   least subBucketHalfCountMagnitude + 1 bits *)
Definition cfg_in_range (c : cfg) : Prop :=
  0 <= c_unit c /\ 0 <= c_hm c /\ 2 ^ c_hm c <= c_mask c < 2 ^ 63.

(* the float steps of hdrhist.New, as Model/Hdr.v reads them: inputs of g_New *)
Definition float_steps (lo s scm u0 sbc : Z) : Prop :=
  scm = sub_bucket_count_magnitude s /\
  Z.max u0 0 = unit_magnitude lo /\
  sbc = 2 ^ (Z.max scm 1 - 1 + 1).

(* ------------------------------------------------------------------ *)
(* bitLen                                                              *)
(* ------------------------------------------------------------------ *)

Lemma bitlen_shift s k x : 0 < s -> k = 2 ^ (s - 1) -> k <= x ->
  bitlen x = bitlen (Z.shiftr x s) + s.
Proof.
  intros Hs -> Hx.
  assert (P1 : 0 < 2 ^ (s - 1)) by (apply Z.pow_pos_nonneg; lia).
  assert (P2 : 2 ^ s = 2 * 2 ^ (s - 1)).
  { replace s with (Z.succ (s - 1)) at 1 by lia. apply Z.pow_succ_r. lia. }
  unfold bitlen.
  destruct (x <=? 0) eqn:E1; [lia|].
  destruct (Z_lt_le_dec x (2 ^ s)) as [Hlt|Hge].
  - rewrite Z.shiftr_div_pow2 by lia. rewrite Z.div_small by lia.
    assert (L : Z.log2 x = s - 1).
    { apply Z.log2_unique; [lia|]. replace (Z.succ (s - 1)) with s by lia. lia. }
    change (0 <=? 0) with true. cbv iota. lia.
  - assert (D : 1 <= Z.shiftr x s).
    { rewrite Z.shiftr_div_pow2 by lia. apply Z.div_le_lower_bound; lia. }
    destruct (Z.shiftr x s <=? 0) eqn:E2; [lia|].
    rewrite Z.log2_shiftr by lia.
    assert (s <= Z.log2 x) by (apply Z.log2_le_pow2; lia).
    lia.
Qed.

Lemma shiftr_lt x s k B : 0 <= s -> 0 < k -> (B <=? k * 2 ^ s) = true -> x < B -> Z.shiftr x s < k.
Proof.
  intros Hs Hk HB Hx. apply Z.leb_le in HB.
  assert (0 < 2 ^ s) by (apply Z.pow_pos_nonneg; lia).
  rewrite Z.shiftr_div_pow2 by lia. apply Z.div_lt_upper_bound; lia.
Qed.

(* the loop: with enough fuel for the argument, it leaves x below 2^15 and keeps n + bitlen x *)
Lemma g_bitLen_loop_spec fuel : forall x n,
  x < 2 ^ (16 * Z.of_nat fuel + 15) ->
  fst (g_bitLen_loop fuel x n) < 2 ^ 15 /\
  snd (g_bitLen_loop fuel x n) + bitlen (fst (g_bitLen_loop fuel x n)) = n + bitlen x.
Proof.
  induction fuel as [|f IH]; intros x n Hx.
  - cbn [g_bitLen_loop fst snd]. change (16 * Z.of_nat 0 + 15) with 15 in Hx. lia.
  - cbn [g_bitLen_loop]. cbv zeta.
    match goal with |- context [if ?b then _ else _] => destruct b eqn:E end.
    + apply Z.geb_le in E.
      assert (Hs : Z.shiftr x 16 < 2 ^ (16 * Z.of_nat f + 15)).
      { assert (0 < 2 ^ (16 * Z.of_nat f + 15)) by (apply Z.pow_pos_nonneg; lia).
        rewrite Z.shiftr_div_pow2 by lia. apply Z.div_lt_upper_bound; [reflexivity|].
        replace (16 * Z.of_nat (S f) + 15) with (16 + (16 * Z.of_nat f + 15)) in Hx by lia.
        rewrite Z.pow_add_r in Hx by lia. exact Hx. }
      destruct (IH _ (n + 16) Hs) as [I1 I2]. split; [exact I1|].
      rewrite I2. rewrite (bitlen_shift 16 _ x ltac:(lia) eq_refl E). lia.
    + cbn [fst snd]. split; [|reflexivity].
      change (2 ^ 15) with 32768. lia.
Qed.

(* one `if x >= k { x >>= s; n += s }` of the binary search: both branches continue with x < k and
   the invariant n + bitlen x = bitlen (argument) *)
Ltac bl_if s :=
  lazymatch goal with
  | Hb : ?xc < ?B, Hi : ?nc + bitlen ?xc = _ |- context [if ?xc >=? ?k then _ else _] =>
      let E := fresh "E" in
      destruct (xc >=? k) eqn:E; cbv beta iota zeta;
      [ apply Z.geb_le in E;
        let H1 := fresh "Hb" in let H2 := fresh "Hi" in
        assert (H1 : Z.shiftr xc s < k)
          by (apply (shiftr_lt xc s k B ltac:(lia) ltac:(lia) eq_refl Hb));
        assert (H2 : nc + s + bitlen (Z.shiftr xc s) = nc + bitlen xc)
          by (rewrite (bitlen_shift s k xc ltac:(lia) eq_refl E); lia);
        rewrite Hi in H2; clear Hi Hb E;
        generalize dependent (Z.shiftr xc s); generalize dependent (nc + s); intros
      | let H1 := fresh "Hb" in
        assert (H1 : xc < k) by lia; clear Hb E ]
  end.

Lemma g_bitLen_eq x : x < 2 ^ 63 -> g_bitLen x = bitlen x.
Proof.
  intros Hx. unfold g_bitLen. cbv zeta.
  destruct (g_bitLen_loop_spec 4 x 0) as [Hb Hi].
  { change (16 * Z.of_nat 4 + 15) with 79. assert (2 ^ 63 < 2 ^ 79) by reflexivity. lia. }
  destruct (g_bitLen_loop 4 x 0) as [x1 n1]. cbn [fst snd] in Hb, Hi.
  rewrite Z.add_0_l in Hi. cbv beta iota zeta.
  bl_if 8; bl_if 4; bl_if 2.
  all: match goal with
       | Hb : ?xc < 2, Hi : ?nc + bitlen ?xc = _ |- (if ?xc >=? ?k then _ else _) = _ =>
           rewrite <- Hi; unfold bitlen; destruct (xc >=? k) eqn:E; destruct (xc <=? 0) eqn:E0; try lia;
           assert (xc = 1) as -> by lia; change (Z.log2 1) with 0; lia
       end.
Qed.

(* ------------------------------------------------------------------ *)
(* index arithmetic                                                    *)
(* ------------------------------------------------------------------ *)

Lemma lor_lt_pow2 a b k : a < 2 ^ k -> b < 2 ^ k -> Z.lor a b < 2 ^ k.
Proof.
  intros Ha Hb.
  assert (P : 0 <= 2 ^ k) by (apply Z.pow_nonneg; lia).
  destruct (Z_lt_le_dec a 0) as [Na|Pa].
  { assert (Z.lor a b < 0) by (apply Z.lor_neg; left; exact Na). lia. }
  destruct (Z_lt_le_dec b 0) as [Nb|Pb].
  { assert (Z.lor a b < 0) by (apply Z.lor_neg; right; exact Nb). lia. }
  destruct (Z.eq_dec a 0) as [->|Za]; [rewrite Z.lor_0_l; exact Hb|].
  destruct (Z.eq_dec b 0) as [->|Zb]; [rewrite Z.lor_0_r; exact Ha|].
  assert (Hl : 0 <= Z.lor a b) by (apply Z.lor_nonneg; split; assumption).
  assert (Hnz : Z.lor a b <> 0) by (intros H0; apply Z.lor_eq_0_iff in H0; lia).
  apply Z.log2_lt_pow2; [lia|].
  rewrite Z.log2_lor by assumption.
  apply Z.log2_lt_pow2 in Ha; [|lia]. apply Z.log2_lt_pow2 in Hb; [|lia]. lia.
Qed.

Lemma g_getBucketIndex_eq c v : v < 2 ^ 63 -> c_mask c < 2 ^ 63 ->
  g_getBucketIndex c v = bucket_index c v.
Proof.
  intros Hv Hm. unfold g_getBucketIndex, bucket_index. cbv zeta.
  rewrite g_bitLen_eq by (apply lor_lt_pow2; assumption). reflexivity.
Qed.

Lemma g_getSubBucketIdx_eq c v idx : g_getSubBucketIdx c v idx = sub_bucket_index c v idx.
Proof. reflexivity. Qed.

Lemma g_countsIndex_eq c b s : 0 <= c_hm c -> g_countsIndex c b s = counts_index c b s.
Proof.
  intros Hm. unfold g_countsIndex, counts_index. cbv zeta.
  rewrite Z.shiftl_mul_pow2 by exact Hm. reflexivity.
Qed.

Lemma g_valueFromIndex_eq c b s : 0 <= b + c_unit c ->
  g_valueFromIndex c b s = value_from_index c b s.
Proof.
  intros H. unfold g_valueFromIndex, value_from_index.
  rewrite Z.shiftl_mul_pow2 by exact H. reflexivity.
Qed.

Lemma g_countsIndexFor_eq c v : 0 <= c_hm c -> c_mask c < 2 ^ 63 -> v < 2 ^ 63 ->
  g_countsIndexFor c v = counts_index_for c v.
Proof.
  intros Hm Hk Hv. unfold g_countsIndexFor, counts_index_for. cbv zeta.
  rewrite (g_getBucketIndex_eq c v Hv Hk), g_getSubBucketIdx_eq.
  apply g_countsIndex_eq; exact Hm.
Qed.

(* v | mask has at least hm + 1 bits: every shift count of the value functions is non-negative *)
Lemma bucket_shift_nonneg c v : cfg_in_range c -> 0 <= v -> 0 <= bucket_index c v + c_unit c.
Proof.
  intros [Hu [Hm [Hlo Hhi]]] Hv.
  assert (P : 0 < 2 ^ c_hm c) by (apply Z.pow_pos_nonneg; lia).
  assert (Hl : 0 <= Z.lor v (c_mask c)) by (apply Z.lor_nonneg; lia).
  assert (Hnz : Z.lor v (c_mask c) <> 0) by (intros H0; apply Z.lor_eq_0_iff in H0; lia).
  assert (L : c_hm c <= Z.log2 (Z.lor v (c_mask c))).
  { rewrite Z.log2_lor by lia.
    assert (c_hm c <= Z.log2 (c_mask c)) by (apply Z.log2_le_pow2; lia). lia. }
  unfold bucket_index, bitlen.
  destruct (Z.lor v (c_mask c) <=? 0) eqn:E; lia.
Qed.

Lemma g_lowestEquivalentValue_eq c v : cfg_in_range c -> word v ->
  g_lowestEquivalentValue c v = lowest_equiv c v.
Proof.
  intros Hc [Hv0 Hv1]. pose proof (bucket_shift_nonneg c v Hc Hv0) as Hs.
  destruct Hc as [Hu [Hm [Hlo Hhi]]].
  unfold g_lowestEquivalentValue, lowest_equiv. cbv zeta.
  rewrite (g_getBucketIndex_eq c v Hv1 Hhi), g_getSubBucketIdx_eq.
  apply g_valueFromIndex_eq; exact Hs.
Qed.

Lemma g_sizeOfEquivalentValueRange_eq c v : cfg_in_range c -> word v ->
  g_sizeOfEquivalentValueRange c v = size_of_range c v.
Proof.
  intros Hc [Hv0 Hv1]. pose proof (bucket_shift_nonneg c v Hc Hv0) as Hs.
  destruct Hc as [Hu [Hm [Hlo Hhi]]].
  unfold g_sizeOfEquivalentValueRange, size_of_range. cbv zeta.
  rewrite (g_getBucketIndex_eq c v Hv1 Hhi), g_getSubBucketIdx_eq.
  rewrite Z.geb_leb.
  destruct (c_sbc c <=? sub_bucket_index c v (bucket_index c v));
    (rewrite Z.shiftl_mul_pow2 by lia); apply Z.mul_1_l.
Qed.

Lemma g_nextNonEquivalentValue_eq c v : cfg_in_range c -> word v ->
  g_nextNonEquivalentValue c v = next_non_equiv c v.
Proof.
  intros Hc Hv. unfold g_nextNonEquivalentValue, next_non_equiv.
  rewrite (g_lowestEquivalentValue_eq c v Hc Hv), (g_sizeOfEquivalentValueRange_eq c v Hc Hv).
  reflexivity.
Qed.

Lemma g_highestEquivalentValue_eq c v : cfg_in_range c -> word v ->
  g_highestEquivalentValue c v = highest_equiv c v.
Proof.
  intros Hc Hv. unfold g_highestEquivalentValue, highest_equiv.
  rewrite (g_nextNonEquivalentValue_eq c v Hc Hv). reflexivity.
Qed.

Lemma g_medianEquivalentValue_eq c v : cfg_in_range c -> word v ->
  g_medianEquivalentValue c v = median_equiv c v.
Proof.
  intros Hc Hv. unfold g_medianEquivalentValue, median_equiv.
  rewrite (g_lowestEquivalentValue_eq c v Hc Hv), (g_sizeOfEquivalentValueRange_eq c v Hc Hv).
  rewrite Z.shiftr_div_pow2 by lia. reflexivity.
Qed.

(* ------------------------------------------------------------------ *)
(* the bounds test of RecordValues                                     *)
(* ------------------------------------------------------------------ *)

Lemma g_RecordValues_guard_eq c v n : 0 <= c_hm c -> c_mask c < 2 ^ 63 -> v < 2 ^ 63 ->
  g_RecordValues_guard c v n =
  (counts_index_for c v <? 0) || (c_len c <=? counts_index_for c v).
Proof.
  intros Hm Hk Hv. unfold g_RecordValues_guard. cbv zeta.
  rewrite (g_countsIndexFor_eq c v Hm Hk Hv). reflexivity.
Qed.

(* the model's record_values rejects exactly when the translated guard fires *)
Lemma g_RecordValues_guard_rejects h v n :
  0 <= c_hm (h_cfg h) -> c_mask (h_cfg h) < 2 ^ 63 -> v < 2 ^ 63 ->
  (record_values h v n = None <-> g_RecordValues_guard (h_cfg h) v n = true).
Proof.
  intros Hm Hk Hv. rewrite (g_RecordValues_guard_eq _ v n Hm Hk Hv).
  unfold record_values. cbv zeta.
  destruct ((counts_index_for (h_cfg h) v <? 0) || (c_len (h_cfg h) <=? counts_index_for (h_cfg h) v));
    split; intros H; try reflexivity; discriminate H.
Qed.

(* ------------------------------------------------------------------ *)
(* the integer part of New                                             *)
(* ------------------------------------------------------------------ *)

Lemma g_New_loop_eq fuel : forall hi sm n,
  snd (g_New_loop fuel hi sm n) = buckets_loop fuel sm hi n.
Proof.
  induction fuel as [|f IH]; intros hi sm n; cbn [g_New_loop buckets_loop]; [reflexivity|].
  cbv zeta. destruct (sm <=? hi); [|reflexivity].
  rewrite IH. rewrite Z.shiftl_mul_pow2 by lia. change (2 ^ 1) with 2.
  rewrite (Z.mul_comm sm 2). reflexivity.
Qed.

Lemma g_New_eq lo hi s scm u0 sbc : float_steps lo s scm u0 sbc ->
  g_New lo hi s scm u0 sbc = config_of lo hi s.
Proof.
  intros [-> [Hu ->]].
  pose proof (unit_magnitude_spec lo) as [Hu0 _].
  unfold g_New, config_of. cbv zeta.
  set (scm := sub_bucket_count_magnitude s) in *.
  set (u := unit_magnitude lo) in *.
  assert (E1 : (if u0 <? 0 then 0 else u0) = u) by (destruct (u0 <? 0) eqn:E; lia).
  assert (E2 : (if scm <? 1 then 1 else scm) - 1 = Z.max scm 1 - 1) by (destruct (scm <? 1) eqn:E; lia).
  rewrite E1, E2.
  set (hm := Z.max scm 1 - 1) in *.
  assert (P : 0 <= 2 ^ (hm + 1)) by (apply Z.pow_nonneg; lia).
  rewrite !Z.shiftl_mul_pow2 by exact Hu0.
  rewrite !Z.quot_div_nonneg by lia.
  pose proof (g_New_loop_eq 64 hi (2 ^ (hm + 1) * 2 ^ u) 1) as L.
  destruct (g_New_loop 64 hi (2 ^ (hm + 1) * 2 ^ u) 1) as [sm bn]. cbn [snd] in L.
  rewrite L. reflexivity.
Qed.

(* ------------------------------------------------------------------ *)
(* the configurations of the C12 / C13 theorems are in range           *)
(* ------------------------------------------------------------------ *)

Lemma config_in_range lo hi s :
  (0 <= lo /\ 1 <= hi < 2 ^ 62 /\ 1 <= s <= 5) -> c_mask (config_of lo hi s) < 2 ^ 63 ->
  cfg_in_range (config_of lo hi s).
Proof.
  intros Hc Hm. destruct (config_geom lo hi s Hc) as [[Gu Ghm Gsbc Ghc Gmask Gbc Ghi Glen] _].
  unfold cfg_in_range. split; [exact Gu|]. split; [lia|]. split; [|exact Hm].
  rewrite Gmask, Gsbc.
  pose proof (pow2_pos (c_hm (config_of lo hi s)) ltac:(lia)).
  pose proof (pow2_pos (c_unit (config_of lo hi s)) Gu). nia.
Qed.

(* subBucketMask fits in an int64 whenever lowestTrackableValue is below 2^45 *)
Lemma mask_fits lo hi s :
  (0 <= lo /\ 1 <= hi < 2 ^ 62 /\ 1 <= s <= 5) -> lo < 2 ^ 45 ->
  c_mask (config_of lo hi s) < 2 ^ 63.
Proof.
  intros Hc Hlo. destruct (config_geom lo hi s Hc) as [[Gu Ghm Gsbc Ghc Gmask Gbc Ghi Glen] _].
  destruct Hc as [Hlo0 [Hhi Hs]].
  assert (Hhm : c_hm (config_of lo hi s) <= 17).
  { rewrite cfg_hm. assert (s = 1 \/ s = 2 \/ s = 3 \/ s = 4 \/ s = 5) as D by lia.
    destruct D as [->|[->|[->|[->| ->]]]]; vm_compute; intro; discriminate. }
  assert (Hun : c_unit (config_of lo hi s) <= 44).
  { rewrite cfg_unit. unfold unit_magnitude. destruct (lo <? 1) eqn:E; [lia|].
    assert (Z.log2 lo < 45) by (apply Z.log2_lt_pow2; lia). lia. }
  rewrite Gmask, Gsbc.
  set (a := c_hm (config_of lo hi s)) in *. set (u := c_unit (config_of lo hi s)) in *.
  assert (A : 2 ^ a <= 2 ^ 17) by (apply Z.pow_le_mono_r; lia).
  assert (U : 2 ^ u <= 2 ^ 44) by (apply Z.pow_le_mono_r; lia).
  pose proof (pow2_pos a ltac:(lia)). pose proof (pow2_pos u Gu).
  change (2 ^ 17) with 131072 in A. change (2 ^ 44) with 17592186044416 in U.
  change (2 ^ 63) with 9223372036854775808. nia.
Qed.

(* ------------------------------------------------------------------ *)
(* C12 / C13 statements over the translated functions                  *)
(* ------------------------------------------------------------------ *)

Section Corollaries.
  Variables lo hi s : Z.
  Hypothesis Hc : 0 <= lo /\ 1 <= hi < 2 ^ 62 /\ 1 <= s <= 5.
  Hypothesis Hm : c_mask (config_of lo hi s) < 2 ^ 63.

  Let word_of v : 0 <= v <= hi -> word v.
  Proof. unfold word. intros Hv. assert (2 ^ 62 < 2 ^ 63) by reflexivity. lia. Qed.

  Lemma tr_accepts v : 0 <= v <= hi ->
    0 <= g_countsIndexFor (config_of lo hi s) v < c_len (config_of lo hi s) /\
    forall n, g_RecordValues_guard (config_of lo hi s) v n = false.
  Proof.
    intros Hv. pose proof (config_in_range lo hi s Hc Hm) as [Hu [Hhm [_ Hk]]].
    destruct (word_of v Hv) as [_ Hv1].
    pose proof (hdr_accepts lo hi s v Hc Hv) as A.
    split.
    - rewrite (g_countsIndexFor_eq _ v Hhm Hk Hv1). exact A.
    - intros n. rewrite (g_RecordValues_guard_eq _ v n Hhm Hk Hv1). lia.
  Qed.

  Lemma tr_in_range v : 0 <= v <= hi ->
    g_lowestEquivalentValue (config_of lo hi s) v <= v <= g_highestEquivalentValue (config_of lo hi s) v.
  Proof.
    intros Hv. pose proof (config_in_range lo hi s Hc Hm) as R.
    rewrite (g_lowestEquivalentValue_eq _ v R (word_of v Hv)),
            (g_highestEquivalentValue_eq _ v R (word_of v Hv)).
    exact (hdr_in_range lo hi s v Hc Hv).
  Qed.

  Lemma tr_width v : 0 <= v <= hi ->
    let c := config_of lo hi s in
    g_highestEquivalentValue c v - g_lowestEquivalentValue c v + 1 = g_sizeOfEquivalentValueRange c v /\
    (g_sizeOfEquivalentValueRange c v = 2 ^ c_unit c \/ g_sizeOfEquivalentValueRange c v * 10 ^ s <= v) /\
    2 ^ c_unit c <= Z.max 1 lo.
  Proof.
    intros Hv. cbv zeta. pose proof (config_in_range lo hi s Hc Hm) as R.
    rewrite (g_lowestEquivalentValue_eq _ v R (word_of v Hv)),
            (g_highestEquivalentValue_eq _ v R (word_of v Hv)),
            (g_sizeOfEquivalentValueRange_eq _ v R (word_of v Hv)).
    exact (hdr_width lo hi s v Hc Hv).
  Qed.

  (* C13: the value at rank k is the translated highestEquivalentValue of the exact k-th order statistic *)
  Lemma tr_rank vs sorted k :
    Forall (fun v => 0 <= v <= hi) vs ->
    Permutation sorted vs -> Sorted Z.le sorted ->
    1 <= k <= Z.of_nat (length vs) ->
    value_at_rank (fst (record_all (new lo hi s) vs)) k =
    g_highestEquivalentValue (config_of lo hi s) (nth (Z.to_nat (k - 1)) sorted 0).
  Proof.
    intros HF P S Hk. pose proof (config_in_range lo hi s Hc Hm) as R.
    assert (Hn : 0 <= nth (Z.to_nat (k - 1)) sorted 0 <= hi).
    { assert (HF' : Forall (fun v => 0 <= v <= hi) sorted)
        by (apply (Permutation_Forall (Permutation_sym P)); exact HF).
      rewrite Forall_forall in HF'. apply HF'. apply nth_In.
      rewrite (Permutation_length P). lia. }
    rewrite (g_highestEquivalentValue_eq _ _ R (word_of _ Hn)).
    exact (hdrq_rank lo hi s vs sorted k Hc HF P S Hk).
  Qed.
End Corollaries.

