(* C07, Reset: a collector that was reset behaves, for every further history, like
   a freshly constructed one carrying the metadata that survives Reset.  The only
   difference between the two states is the stale startedAt of a reset base
   collector, which is overwritten by the next first Add before anything reads it. *)
From Coq Require Import ZArith NArith List Bool Lia Arith.
From FV.Model Require Import Bytes Bson Metrics Codec Collector Wf RoundTrip CollectorOk.
From FV.Proofs Require Import CodecChunk CodecProofs CollectorBase CollectorKinds CollectorInv CollectorLog.
Import ListNotations.
Open Scope Z_scope.

Definition bsim (a b : bcoll) : Prop :=
  bc_meta a = bc_meta b /\ bc_ref a = bc_ref b /\ bc_last a = bc_last b /\ bc_rows a = bc_rows b /\
  bc_max a = bc_max b /\ (bc_ref a <> None -> bc_started a = bc_started b).

Lemma bsim_refl : forall a, bsim a a.
Proof. intros a. repeat split. Qed.

Lemma bsim_add : forall a b d now, bsim a b ->
  bsim (fst (bc_add a d now)) (fst (bc_add b d now)) /\ snd (bc_add a d now) = snd (bc_add b d now).
Proof.
  intros a b d now H. pose proof H as (Hm & Hr & Hl & Hw & Hx & Hs). unfold bc_add.
  rewrite <- Hr, <- Hx, <- Hw, <- Hl, <- Hm. destruct (bc_ref a) as [r|] eqn:Era.
  - destruct (bc_max a <=? Z.of_nat (length (bc_rows a))); [split; [exact H|reflexivity]|].
    destruct (negb (Nat.eqb (length (flatten_doc d)) (length (bc_last a)))); [split; [exact H|reflexivity]|].
    destruct (negb (types_agree (flatten_doc d) (bc_last a))); [split; [exact H|reflexivity]|].
    cbn [fst snd]. split; [|reflexivity]. unfold bsim. cbn [bc_meta bc_ref bc_last bc_rows bc_max bc_started].
    repeat split. intros _. apply Hs. discriminate.
  - cbn [fst snd]. split; [|reflexivity]. unfold bsim. cbn [bc_meta bc_ref bc_last bc_rows bc_max bc_started].
    repeat split.
Qed.

Lemma bsim_reset : forall a b, bsim a b -> bsim (bc_reset a) (bc_reset b).
Proof.
  intros a b (Hm & Hr & Hl & Hw & Hx & Hs). unfold bsim, bc_reset. cbn [bc_meta bc_ref bc_last bc_rows bc_max bc_started].
  repeat split; try assumption. intros E. congruence.
Qed.

Lemma bsim_set_meta : forall a b m, bsim a b -> bsim (bc_set_meta a m) (bc_set_meta b m).
Proof.
  intros a b m (Hm & Hr & Hl & Hw & Hx & Hs). unfold bsim, bc_set_meta.
  cbn [bc_meta bc_ref bc_last bc_rows bc_max bc_started]. repeat split; assumption.
Qed.

Lemma bsim_info : forall a b, bsim a b -> bc_info a = bc_info b.
Proof. intros a b (Hm & Hr & Hl & Hw & Hx & Hs). unfold bc_info. rewrite Hr, Hl, Hw. reflexivity. Qed.

Definition isim (i j : inner) : Prop :=
  match i, j with
  | IB a, IB b => bsim a b
  | IU u, IU v => u = v
  | _, _ => False
  end.

Definition ssim (s t : scoll) : Prop :=
  sc_max s = sc_max t /\ sc_count s = sc_count t /\ isim (sc_inner s) (sc_inner t).

Definition dsim (c e : sdcoll) : Prop :=
  sd_hash c = sd_hash e /\ sd_mcount c = sd_mcount e /\ ssim (sd_s c) (sd_s e).

Definition csim (c e : coll) : Prop :=
  match c, e with
  | CBase a, CBase b => bsim a b
  | CStream s, CStream t => ssim s t
  | CSDyn x, CSDyn y => dsim x y
  | _, _ => c = e
  end.

Lemma isim_refl : forall i, isim i i.
Proof. intros [b|u]; [apply bsim_refl|reflexivity]. Qed.
Lemma ssim_refl : forall s, ssim s s.
Proof. intros s. repeat split. apply isim_refl. Qed.
Lemma csim_refl : forall c, csim c c.
Proof. intros [b|b|x|s|s|u]; cbn [csim]; try reflexivity; [apply bsim_refl|apply ssim_refl|repeat split; apply isim_refl]. Qed.

Lemma isim_add : forall i j d now, isim i j ->
  isim (fst (in_add i d now)) (fst (in_add j d now)) /\ snd (in_add i d now) = snd (in_add j d now).
Proof.
  intros [a|u] [b|v] d now H; cbn [isim] in H; try contradiction; cbn [in_add].
  - destruct (bsim_add a b d now H) as [H1 H2].
    destruct (bc_add a d now) as [a' r1]. destruct (bc_add b d now) as [b' r2]. cbn [fst snd] in *.
    split; [exact H1|congruence].
  - subst v. destruct (uc_add u d) as [u' r]. split; reflexivity.
Qed.

Lemma isim_reset : forall i j, isim i j -> isim (in_reset i) (in_reset j).
Proof.
  intros [a|u] [b|v] H; cbn [isim] in H; try contradiction; cbn [in_reset isim];
    [apply bsim_reset; exact H|congruence].
Qed.

Lemma isim_set_meta : forall i j m, isim i j -> isim (in_set_meta i m) (in_set_meta j m).
Proof.
  intros [a|u] [b|v] m H; cbn [isim] in H; try contradiction; cbn [in_set_meta isim];
    [apply bsim_set_meta; exact H|congruence].
Qed.

Lemma isim_info : forall i j, isim i j -> in_info i = in_info j.
Proof.
  intros [a|u] [b|v] H; cbn [isim] in H; try contradiction; cbn [in_info]; [apply bsim_info; exact H|congruence].
Qed.

Section Fresh.
Variable deflate : bytes -> bytes.

Lemma bsim_resolve : forall a b, bsim a b -> bc_resolve deflate a = bc_resolve deflate b.
Proof.
  intros a b (Hm & Hr & Hl & Hw & Hx & Hs). unfold bc_resolve. rewrite <- Hr, <- Hm, <- Hl, <- Hw.
  destruct (bc_ref a) as [r|]; [|reflexivity]. rewrite <- Hs by discriminate. reflexivity.
Qed.

Lemma isim_resolve : forall i j, isim i j -> in_resolve deflate i = in_resolve deflate j.
Proof.
  intros [a|u] [b|v] H; cbn [isim] in H; try contradiction; cbn [in_resolve];
    [rewrite (bsim_resolve a b H); reflexivity|congruence].
Qed.

(* results of an operation that may write: related state, same writer, same outcome *)
Definition rel3 {A B : Type} (R : A -> A -> Prop) (x y : A * writer * B) : Prop :=
  R (fst (fst x)) (fst (fst y)) /\ snd (fst x) = snd (fst y) /\ snd x = snd y.

Lemma flush_with_sim : forall (A : Type) (R : A -> A -> Prop) info resolve rst (c e : A) w,
  R c e -> info c = info e -> resolve c = resolve e -> R (rst c) (rst e) ->
  rel3 R (flush_with info resolve rst c w) (flush_with info resolve rst e w).
Proof.
  intros A R info resolve rst c e w HR Hi Hres Hrst. unfold flush_with. rewrite <- Hi, <- Hres.
  destruct (snd (info c) =? 0); [repeat split; exact HR|].
  destruct (resolve c) as [p|]; [|repeat split; exact HR].
  destruct (w_write w p) as [w' ok]. destruct ok; repeat split; assumption.
Qed.

Lemma ssim_reset : forall s t, ssim s t -> ssim (sc_reset s) (sc_reset t).
Proof.
  intros s t (Hm & Hc & Hi). unfold sc_reset. split; [exact Hm|]. split; [reflexivity|].
  cbn [sc_inner]. apply isim_reset. exact Hi.
Qed.

Lemma ssim_flush : forall s t w, ssim s t -> rel3 ssim (sc_flush deflate s w) (sc_flush deflate t w).
Proof.
  intros s t w H. pose proof H as (Hm & Hc & Hi). unfold sc_flush.
  apply (flush_with_sim scoll ssim); [exact H| | |apply ssim_reset; exact H].
  - apply isim_info. exact Hi.
  - apply isim_resolve. exact Hi.
Qed.

Lemma ssim_cap_flush : forall s t w, ssim s t ->
  rel3 ssim (if sc_max s <=? sc_count s then sc_flush deflate s w else (s, w, true))
            (if sc_max t <=? sc_count t then sc_flush deflate t w else (t, w, true)).
Proof.
  intros s t w H. pose proof H as (Hm & Hc & Hi). rewrite <- Hm, <- Hc.
  destruct (sc_max s <=? sc_count s); [apply ssim_flush; exact H|repeat split; assumption].
Qed.

Lemma ssim_add : forall s t w d now, ssim s t -> rel3 ssim (sc_add deflate s w d now) (sc_add deflate t w d now).
Proof.
  intros s t w d now H. rewrite !sc_add_eq.
  destruct (ssim_cap_flush s t w H) as (H1 & H2 & H3).
  destruct (if sc_max s <=? sc_count s then sc_flush deflate s w else (s, w, true)) as [[s1 w1] ok1].
  destruct (if sc_max t <=? sc_count t then sc_flush deflate t w else (t, w, true)) as [[t1 w2] ok2].
  cbn [fst snd] in *. subst w2 ok2. destruct ok1; cbn [negb]; [|split; [exact H1|split; reflexivity]].
  destruct H1 as (Hm & Hc & Hi). unfold sc_add_tail.
  destruct (isim_add (sc_inner s1) (sc_inner t1) d now Hi) as [Hi' Hr].
  destruct (in_add (sc_inner s1) d now) as [i1 r1]. destruct (in_add (sc_inner t1) d now) as [i2 r2].
  cbn [fst snd] in *. subst r2. rewrite <- Hm, <- Hc.
  destruct r1; repeat split; cbn [fst snd sc_max sc_count sc_inner]; try assumption; try reflexivity.
Qed.

Lemma dsim_reset : forall c e, dsim c e -> dsim (sd_reset c) (sd_reset e).
Proof.
  intros c e (Hh & Hm & Hs). unfold sd_reset. split; [reflexivity|]. split; [reflexivity|].
  cbn [sd_s]. apply ssim_reset. exact Hs.
Qed.

Lemma dsim_flush : forall c e w, dsim c e -> rel3 dsim (sd_flush deflate c w) (sd_flush deflate e w).
Proof.
  intros c e w H. pose proof H as (Hh & Hm & (Hx & Hc & Hi)). unfold sd_flush.
  apply (flush_with_sim sdcoll dsim); [exact H| | |apply dsim_reset; exact H].
  - apply isim_info. exact Hi.
  - apply isim_resolve. exact Hi.
Qed.

Lemma dsim_add : forall c e w d now, dsim c e -> rel3 dsim (sd_add deflate c w d now) (sd_add deflate e w d now).
Proof.
  intros c e w d now H. pose proof H as (Hh & Hm & Hs). rewrite !sd_add_eq.
  assert (Hch : sd_changed c d = sd_changed e d) by (unfold sd_changed; rewrite Hh, Hm; reflexivity).
  rewrite <- Hch.
  assert (Htail : forall c1 e1 w1, dsim c1 e1 ->
    rel3 dsim (let '(s', w2, r) := sc_add deflate (sd_s c1) w1 d now in (mkSdcoll (sd_hash c1) (sd_mcount c1) s', w2, r))
              (let '(s', w2, r) := sc_add deflate (sd_s e1) w1 d now in (mkSdcoll (sd_hash e1) (sd_mcount e1) s', w2, r))).
  { intros c1 e1 w1 (Hh1 & Hm1 & Hs1). destruct (ssim_add (sd_s c1) (sd_s e1) w1 d now Hs1) as (Ha & Hb & Hc).
    destruct (sc_add deflate (sd_s c1) w1 d now) as [[s1 w2] r1].
    destruct (sc_add deflate (sd_s e1) w1 d now) as [[s2 w3] r2]. cbn [fst snd] in *.
    split; [split; [exact Hh1|split; [exact Hm1|exact Ha]]|split; assumption]. }
  destruct (sd_changed c d).
  - assert (Hcnt : sc_count (sd_s c) = sc_count (sd_s e)) by apply Hs. rewrite <- Hcnt.
    destruct (0 <? sc_count (sd_s c)).
    + destruct (dsim_flush c e w H) as (H1 & H2 & H3).
      destruct (sd_flush deflate c w) as [[c' w'] ok1]. destruct (sd_flush deflate e w) as [[e' w''] ok2].
      cbn [fst snd] in *. subst w'' ok2. destruct ok1; cbn [negb]; [|split; [exact H1|split; reflexivity]].
      apply Htail. destruct H1 as (_ & _ & Hs'). repeat split; cbn [sd_hash sd_mcount sd_s]; apply Hs'.
    + cbn [negb]. apply Htail. repeat split; cbn [sd_hash sd_mcount sd_s]; apply Hs.
  - cbn [negb]. apply Htail. exact H.
Qed.

(* ---- all kinds ---- *)
Lemma csim_info : forall c e, csim c e -> c_info c = c_info e.
Proof.
  intros [a|a|a|a|a|a] [b|b|b|b|b|b] H; cbn [csim] in H; try (rewrite H; reflexivity); cbn [c_info].
  - apply bsim_info. exact H.
  - apply isim_info. apply H.
  - apply isim_info. apply H.
Qed.

Lemma csim_resolve : forall c e, csim c e -> c_resolve deflate c = c_resolve deflate e.
Proof.
  intros [a|a|a|a|a|a] [b|b|b|b|b|b] H; cbn [csim] in H; try (rewrite H; reflexivity); cbn [c_resolve].
  - rewrite (bsim_resolve a b H). reflexivity.
  - apply isim_resolve. apply H.
  - apply isim_resolve. apply H.
Qed.

Lemma csim_reset : forall c e, csim c e -> csim (c_reset c) (c_reset e).
Proof.
  intros [a|a|a|a|a|a] [b|b|b|b|b|b] H; cbn [csim] in H; try (rewrite H; apply csim_refl); cbn [c_reset csim].
  - apply bsim_reset. exact H.
  - apply ssim_reset. exact H.
  - apply dsim_reset. exact H.
Qed.

Lemma csim_set_meta : forall c e m, csim c e -> csim (c_set_meta c m) (c_set_meta e m).
Proof.
  intros [a|a|a|a|a|a] [b|b|b|b|b|b] m H; cbn [csim] in H; try (rewrite H; apply csim_refl); cbn [c_set_meta csim].
  - apply bsim_set_meta. exact H.
  - destruct H as (Hm & Hc & Hi). repeat split; cbn [sc_max sc_count sc_inner]; try assumption.
    apply isim_set_meta. exact Hi.
  - destruct H as (Hh & Hmc & (Hm & Hc & Hi)). repeat split; cbn [sd_hash sd_mcount sd_s sc_max sc_count sc_inner]; try assumption.
    apply isim_set_meta. exact Hi.
Qed.

Lemma rel3_refl : forall (B : Type) (x : coll * writer * B), rel3 csim x x.
Proof. intros B x. split; [apply csim_refl|split; reflexivity]. Qed.

Lemma csim_add : forall c e w d now, csim c e -> rel3 csim (c_add deflate c w d now) (c_add deflate e w d now).
Proof.
  intros [a|a|a|a|a|a] [b|b|b|b|b|b] w d now H; cbn [csim] in H; try (rewrite H; apply rel3_refl); cbn [c_add].
  - destruct (bsim_add a b d now H) as [H1 H2].
    destruct (bc_add a d now) as [a' r1]. destruct (bc_add b d now) as [b' r2]. cbn [fst snd] in *. subst r2.
    split; [exact H1|split; reflexivity].
  - destruct (ssim_add a b w d now H) as (H1 & H2 & H3).
    destruct (sc_add deflate a w d now) as [[s1 w1] r1]. destruct (sc_add deflate b w d now) as [[s2 w2] r2].
    cbn [fst snd] in *. split; [exact H1|split; assumption].
  - destruct (dsim_add a b w d now H) as (H1 & H2 & H3).
    destruct (sd_add deflate a w d now) as [[s1 w1] r1]. destruct (sd_add deflate b w d now) as [[s2 w2] r2].
    cbn [fst snd] in *. split; [exact H1|split; assumption].
Qed.

Lemma csim_add_bad : forall c e w, csim c e -> rel3 csim (c_add_bad deflate c w) (c_add_bad deflate e w).
Proof.
  intros [a|a|a|a|a|a] [b|b|b|b|b|b] w H; cbn [csim] in H; try (rewrite H; apply rel3_refl); cbn [c_add_bad].
  - split; [exact H|split; reflexivity].
  - destruct (ssim_cap_flush a b w H) as (H1 & H2 & H3).
    destruct (if sc_max a <=? sc_count a then sc_flush deflate a w else (a, w, true)) as [[s1 w1] ok1].
    destruct (if sc_max b <=? sc_count b then sc_flush deflate b w else (b, w, true)) as [[t1 w2] ok2].
    cbn [fst snd] in *. subst w2 ok2. split; [exact H1|split; reflexivity].
  - split; [exact H|split; reflexivity].
Qed.

Lemma csim_flush : forall c e w, csim c e -> rel3 csim (c_flush deflate c w) (c_flush deflate e w).
Proof.
  intros c e w H. rewrite !c_flush_eq.
  apply (flush_with_sim coll csim); [exact H|apply csim_info; exact H|apply csim_resolve; exact H|apply csim_reset; exact H].
Qed.

Definition strel (x y : (coll * writer) * obs) : Prop :=
  csim (fst (fst x)) (fst (fst y)) /\ snd (fst x) = snd (fst y) /\ snd x = snd y.

Lemma csim_step : forall c e w o, csim c e -> strel (step deflate (c, w) o) (step deflate (e, w) o).
Proof.
  intros c e w o H. destruct o as [d now| | | | |m|]; cbn [step].
  - destruct (csim_add c e w d now H) as (H1 & H2 & H3).
    destruct (c_add deflate c w d now) as [[c' w1] r1]. destruct (c_add deflate e w d now) as [[e' w2] r2].
    cbn [fst snd] in *. subst w2 r2. split; [exact H1|split; reflexivity].
  - destruct (csim_add_bad c e w H) as (H1 & H2 & H3).
    destruct (c_add_bad deflate c w) as [[c' w1] r1]. destruct (c_add_bad deflate e w) as [[e' w2] r2].
    cbn [fst snd] in *. subst w2 r2. split; [exact H1|split; reflexivity].
  - rewrite (csim_resolve c e H). split; [exact H|split; reflexivity].
  - split; [apply csim_reset; exact H|split; reflexivity].
  - destruct (csim_flush c e w H) as (H1 & H2 & H3).
    destruct (c_flush deflate c w) as [[c' w1] r1]. destruct (c_flush deflate e w) as [[e' w2] r2].
    cbn [fst snd] in *. subst w2 r2. split; [exact H1|split; reflexivity].
  - split; [apply csim_set_meta; exact H|split; reflexivity].
  - rewrite (csim_info c e H). destruct (c_info e) as [mi si]. split; [exact H|split; reflexivity].
Qed.

Lemma csim_run : forall ops c e w, csim c e ->
  snd (run deflate (c, w) ops) = snd (run deflate (e, w) ops) /\
  snd (fst (run deflate (c, w) ops)) = snd (fst (run deflate (e, w) ops)).
Proof.
  induction ops as [|o ops IH]; intros c e w H; [split; reflexivity|].
  cbn [run]. destruct (csim_step c e w o H) as (H1 & H2 & H3).
  destruct (step deflate (c, w) o) as [[c1 w1] b1]. destruct (step deflate (e, w) o) as [[e1 w2] b2].
  cbn [fst snd] in *. subst w2 b2. destruct (IH c1 e1 w1 H1) as [Ha Hb].
  destruct (run deflate (c1, w1) ops) as [st1 bs1]. destruct (run deflate (e1, w1) ops) as [st2 bs2].
  cbn [fst snd] in *. split; [congruence|exact Hb].
Qed.

Lemma reset_csim_fresh : forall D k n c gsp, compressing k = true -> holds D k n c gsp ->
  csim (c_reset c) (fresh_like k n c).
Proof.
  intros D k n c gsp Hk H. destruct k; try discriminate Hk; destruct c as [b|b|x|s|s|u]; cbn [holds] in H; try contradiction;
    cbn [c_reset fresh_like new_coll c_set_meta meta_kept csim].
  - destruct H as (g & (Hmax & _) & _). unfold bsim, bc_reset. cbn [bc_meta bc_ref bc_last bc_rows bc_max bc_started bc_set_meta bc_new].
    repeat split; try assumption. intros E. congruence.
  - destruct H as [Hmax _]. rewrite Hmax. reflexivity.
  - destruct H as (bss & [Hmax _] & _). rewrite Hmax. reflexivity.
  - destruct H as (g & (b & Hin & Hmax & _ & (Hbmax & _) & _) & _). rewrite Hin.
    unfold ssim, sc_reset. rewrite Hin. cbn [sc_max sc_count sc_inner in_reset in_set_meta isim].
    split; [exact Hmax|]. split; [reflexivity|].
    unfold bsim, bc_reset. cbn [bc_meta bc_ref bc_last bc_rows bc_max bc_started bc_set_meta bc_new].
    repeat split; try assumption. intros E. congruence.
  - destruct H as (g & ((b & Hin & Hmax & _ & (Hbmax & _) & _) & _) & _). rewrite Hin.
    unfold dsim, sd_reset, ssim, sc_reset. rewrite Hin.
    cbn [sd_hash sd_mcount sd_s sc_max sc_count sc_inner in_reset in_set_meta isim].
    split; [reflexivity|]. split; [reflexivity|]. split; [exact Hmax|]. split; [reflexivity|].
    unfold bsim, bc_reset. cbn [bc_meta bc_ref bc_last bc_rows bc_max bc_started bc_set_meta bc_new].
    repeat split; try assumption. intros E. congruence.
Qed.

Theorem c07_reset_fresh : forall k n ops ops', compressing k = true -> 1 <= n -> ops_ok k ops ->
  let c := fst (c07_reach deflate k n ops) in
  let w := snd (c07_reach deflate k n ops) in
  let r1 := run deflate (c_reset c, w) ops' in
  let r2 := run deflate (fresh_like k n c, w) ops' in
  snd r1 = snd r2 /\ snd (fst r1) = snd (fst r2).
Proof.
  intros k n ops ops' Hk Hn Hok c w r1 r2. subst r1 r2.
  destruct (reach_inv deflate k n ops ops Hk Hn Hok (fun o H => H)) as (gsw & gsp & (_ & _ & Hc)).
  apply csim_run. apply (reset_csim_fresh (ops_added ops) k n c gsp Hk Hc).
Qed.

End Fresh.
