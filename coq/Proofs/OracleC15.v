(* Oracle soundness for C15: the executable oracle [c15_ok_w] (Model/RecorderOk.v), which
   the run-time check applies to what the Go recorders handed to their collector, accepts
   the model's own observation [model_obs] of every (wrapped) history, when the readings
   "before" and "after" each call are the model's clock input. *)
From Coq Require Import ZArith List Bool Lia.
From FV.Model Require Import Hdr Recorder RecorderOk.
From FV.Proofs Require Import RecorderProofs.
Import ListNotations.
Open Scope Z_scope.

(* ---------------------------------------------------------------- reflexivity of the comparisons *)
Lemma combine_self_forallb {A} (f : A * A -> bool) (l : list A) :
  (forall x, f (x, x) = true) -> forallb f (combine l l) = true.
Proof.
  intros Hf. induction l as [|x l IH]; cbn [combine forallb]; [reflexivity|].
  rewrite Hf, IH. reflexivity.
Qed.

Lemma pairs_eqb_refl l : pairs_eqb l l = true.
Proof.
  unfold pairs_eqb. rewrite Nat.eqb_refl. cbn [andb].
  apply combine_self_forallb. intros x. cbn [fst snd]. rewrite !Z.eqb_refl. reflexivity.
Qed.

Lemma gauges_eqb_refl g : gauges_eqb g g = true.
Proof. unfold gauges_eqb. rewrite !Z.eqb_refl, Bool.eqb_reflx. reflexivity. Qed.

Lemma err_eqb_refl e : err_eqb e e = true.
Proof. destruct e; cbn [err_eqb]; apply Z.eqb_refl. Qed.

Lemma errs_eqb_refl l : errs_eqb l l = true.
Proof.
  unfold errs_eqb. rewrite Nat.eqb_refl. cbn [andb].
  apply combine_self_forallb. intros x. cbn [fst snd]. apply err_eqb_refl.
Qed.

Lemma ret_eqb_refl r : ret_eqb r r = true.
Proof. destruct r as [l|]; cbn [ret_eqb]; [apply errs_eqb_refl | reflexivity]. Qed.

Lemma le_pointwise_refl l : le_pointwise l l = true.
Proof.
  unfold le_pointwise. rewrite Nat.eqb_refl. cbn [andb].
  apply combine_self_forallb. intros x. cbn [fst snd]. apply Z.leb_refl.
Qed.

Lemma point_exact_refl p : point_exact p p = true.
Proof.
  unfold point_exact. rewrite !Z.eqb_refl, !pairs_eqb_refl, gauges_eqb_refl. reflexivity.
Qed.

Lemma point_ok_refl p : point_ok p p p p p = true.
Proof.
  unfold point_ok. rewrite point_exact_refl, !Z.leb_refl, !le_pointwise_refl, Z.sub_diag, wrap64_0.
  reflexivity.
Qed.

Lemma timers_eqb_refl t : timers_eqb t t = true.
Proof. unfold timers_eqb. rewrite !Z.eqb_refl. reflexivity. Qed.

(* ---------------------------------------------------------------- the policy's outputs *)
Lemma sp_out_shape K iv last0 fails h o :
  o_persisted (sp_out K iv last0 fails h o) = [] \/
  exists p, o_persisted (sp_out K iv last0 fails h o) = [p].
Proof.
  unfold sp_out. cbn [o_persisted].
  destruct (persists K iv (pctx K iv last0 h) o); [right; eexists; reflexivity | left; reflexivity].
Qed.

Lemma spec_outs_from_shape K iv last0 fails rest : forall pre s,
  In s (spec_outs_from K iv last0 fails pre rest) ->
  o_persisted s = [] \/ exists p, o_persisted s = [p].
Proof.
  induction rest as [|o r IH]; intros pre s Hin; cbn [spec_outs_from] in Hin.
  - destruct Hin.
  - destruct Hin as [<-|Hin]; [apply sp_out_shape | exact (IH _ _ Hin)].
Qed.

Lemma out_ok_refl s :
  (o_persisted s = [] \/ exists p, o_persisted s = [p]) ->
  out_ok s s s s (observe_out s) = true.
Proof.
  intros Hs. unfold out_ok, observe_out. cbn [oo_ret oo_persisted].
  rewrite ret_eqb_refl. cbn [andb].
  destruct Hs as [-> | [p ->]]; cbn [map]; [reflexivity | apply point_ok_refl].
Qed.

Lemma map2_self {A} (f : A -> A -> A) (l : list A) :
  (forall x, f x x = x) -> map2 f l l = l.
Proof.
  intros Hf. unfold map2. induction l as [|x l IH]; cbn [combine map]; [reflexivity|].
  cbn [fst snd]. rewrite Hf, IH. reflexivity.
Qed.

Lemma mix_lo_self o : mix_lo o o = o.
Proof. destruct o; reflexivity. Qed.
Lemma mix_hi_self o : mix_hi o o = o.
Proof. destruct o; reflexivity. Qed.

Lemma nth_map_dflt {A B} (f : A -> B) (l : list A) (d : A) (d' : B) i :
  (i < length l)%nat -> nth i (map f l) d' = f (nth i l d).
Proof.
  intros Hi. rewrite (nth_indep _ d' (f d)); [apply map_nth | rewrite map_length; exact Hi].
Qed.

(* ---------------------------------------------------------------- the oracle on the policy's own outputs *)
Lemma c15_ok_policy K iv last0 fl h :
  c15_ok K iv last0 fl h h (map observe_out (spec_outs K iv last0 (fails_of fl) h)) = true.
Proof.
  unfold c15_ok.
  rewrite (map2_self mix_lo h mix_lo_self), (map2_self mix_hi h mix_hi_self).
  rewrite map_length. unfold spec_outs at 1. rewrite spec_outs_from_length.
  rewrite !Nat.eqb_refl. cbn [andb].
  apply forallb_forall. intros i Hi. apply in_seq in Hi.
  assert (Hlen : (i < length (spec_outs K iv last0 (fails_of fl) h))%nat).
  { unfold spec_outs. rewrite spec_outs_from_length. lia. }
  rewrite (nth_map_dflt observe_out _ dflt_out dflt_oout i Hlen).
  apply out_ok_refl.
  apply (spec_outs_from_shape K iv last0 (fails_of fl) h []).
  apply nth_In. exact Hlen.
Qed.

(* the run-time oracle accepts what the model predicts, for every wrapper, recorder kind,
   interval, construction time, failure schedule and (well-formed) call history *)
Lemma c15_oracle_sound : forall W K iv last0 fl h, wellformed W h = true ->
  c15_ok_w W K iv last0 fl h h (fst (model_obs W K iv last0 fl h)) (snd (model_obs W K iv last0 fl h)) = true.
Proof.
  intros W K iv last0 fl h Hwf. unfold c15_ok_w, model_obs. cbn [fst snd].
  destruct (wrappers_transparent W K iv last0 (fails_of fl) h Hwf) as (Houts & _ & Htm).
  rewrite Houts, Htm, run_spec. cbn [snd].
  rewrite Hwf, c15_ok_policy, timers_eqb_refl. reflexivity.
Qed.

(* without wrapper *)
Lemma c15_oracle_sound_plain : forall K iv last0 fl h,
  c15_ok K iv last0 fl h h (map observe_out (snd (run K iv last0 (fails_of fl) h))) = true.
Proof. intros. rewrite run_spec. cbn [snd]. apply c15_ok_policy. Qed.
