(* SysBufferedProofs.v — invariants of the LTS in Model/SysBuffered.v and the lemmas
   behind the C10 theorems. *)
From Coq Require Import List Arith Bool PeanoNat Lia.
From FV.Model Require Import SysBuffered.
Import ListNotations.

(* ------------------------------------------------------------------ generic tactics *)
Lemma lock_free_true : forall s, lock_free s = true -> wr s = None /\ rdrs s = [].
Proof. intros s. unfold lock_free. destruct (wr s); destruct (rdrs s); intuition congruence. Qed.

Lemma lock_free_intro : forall s, wr s = None -> rdrs s = [] -> lock_free s = true.
Proof. intros s A B. unfold lock_free. rewrite A, B. reflexivity. Qed.

Lemma in_remove_iff : forall (l : list nat) g j, In j (remove Nat.eq_dec g l) <-> In j l /\ j <> g.
Proof. intros. split. apply in_remove. intros [A B]. apply in_in_remove; auto. Qed.

Ltac upd_cases :=
  repeat match goal with
  | |- context [upd _ ?g _ ?j] => unfold upd; destruct (Nat.eqb_spec j g); subst
  | H : context [upd _ ?g _ ?j] |- _ => unfold upd in H; destruct (Nat.eqb_spec j g); subst
  end.

Ltac destr_match H :=
  repeat match type of H with
  | match ?x with _ => _ end = Some _ => destruct x eqn:? in *
  | (if ?x then _ else _) = Some _ => destruct x eqn:? in *
  | None = Some _ => discriminate H
  end.

Ltac lf := repeat match goal with
  | H : lock_free _ = true |- _ => apply lock_free_true in H; destruct H
  end.

Ltac step_inv H :=
  destr_match H; try discriminate H; inversion H; subst; clear H;
  unfold complete, acquire, racquire; lf;
  try match goal with Hh : _ && waiting (dp ?s) = true |- _ =>
    apply andb_prop in Hh; destruct Hh; destruct (dp s) eqn:? in *; try discriminate end.

Ltac unfold_step H :=
  match type of H with
  | step _ _ _ ?t = Some _ =>
      destruct t; simpl in H;
      [ unfold step_client in H | unfold step_ctx in H | unfold step_drainer in H
      | unfold step_dcancel in H | unfold step_cancel in H ]
  end.

Ltac fin := simpl in *; subst; repeat match goal with H : prog _ _ = _ |- _ => rewrite H in * end; simpl in *;
  intuition (try congruence; try discriminate).

Lemma hist_of_app : forall g a b, hist_of g (a ++ b) = hist_of g a ++ hist_of g b.
Proof. intros. unfold hist_of. apply filter_app. Qed.
Lemma acked_app : forall a b, acked (a ++ b) = acked a ++ acked b.
Proof. intros. unfold acked. apply flat_map_app. Qed.
Lemma backed_app : forall a b, backed (a ++ b) = backed a ++ backed b.
Proof. intros. unfold backed. apply flat_map_app. Qed.
Lemma lock_ops_app : forall a b, lock_ops (a ++ b) = lock_ops a ++ lock_ops b.
Proof. intros. unfold lock_ops. apply flat_map_app. Qed.
Lemma acq_of_app : forall g a b, acq_of g (a ++ b) = acq_of g a ++ acq_of g b.
Proof. intros. unfold acq_of. apply flat_map_app. Qed.



Ltac rwpc := unfold log in *; repeat match goal with
  | Hq : pc _ _ = _ |- _ => rewrite Hq in *
  | Hq : prog _ _ = _ |- _ => rewrite Hq in *
  | Hq : dp _ = _ |- _ => rewrite Hq in *
  | Hq : pipe _ = _ |- _ => rewrite Hq in *
  end.

Ltac eqbs :=
  rewrite ?Nat.eqb_refl in *;
  repeat match goal with
  | Hn : ?a <> ?b |- _ =>
      first [ rewrite (proj2 (Nat.eqb_neq a b) Hn) in *
            | rewrite (proj2 (Nat.eqb_neq b a) (not_eq_sym Hn)) in * ]
  end.

Ltac fin2 := simpl in *; rewrite ?app_nil_r in *; fin.

Ltac lists :=
  rewrite ?hist_of_app, ?acked_app, ?backed_app, ?lock_ops_app, ?acq_of_app, ?filter_app, ?map_app;
  simpl; eqbs; simpl; rewrite <- ?app_assoc, ?app_nil_r; simpl.

Section Proofs.
Variable accepts : list tsample -> tsample -> bool.
Variable size : nat.
Notation step := (step accepts size).
Notation run := (run accepts size).

(* ------------------------------------------------------------------ lock invariant *)
Definition holdsW (c : cpc) : bool := match c with CLocked | CApplied _ => true | _ => false end.
Definition holdsR (c : cpc) : bool := match c with CRLocked | CRApplied _ => true | _ => false end.
Definition dholds (d : dpc) : bool := match d with DLocked _ | DApplied _ _ => true | _ => false end.
Definition dcan (d : dpc) : bool := match d with DCancelled | DRange | DDone => true | _ => false end.
Definition wlockable (o : op) : bool :=
  match o with OAdd _ | OResolve | OSetMeta _ | OBResolve => true | _ => false end.

(* what the program counter of a client says about its current operation *)
Definition pc_ok (c : cpc) (l : list op) : Prop :=
  match c, l with
  | CIdle, _ => True
  | _, [] => False
  | CChecked, o :: _ => o = OBResolve
  | CLocked, o :: _ => wlockable o = true
  | CApplied r, o :: _ => wlockable o = true /\ r <> RCatch /\ r <> RCtx
  | (CRLocked | CRApplied _), o :: _ => o = OInfo
  end.

Record InvL (s : state) : Prop := {
  L1 : forall g, wr s = Some (Client g) <-> holdsW (pc s g) = true;
  L2 : wr s = Some Drainer <-> dholds (dp s) = true;
  L3 : forall g, In g (rdrs s) <-> holdsR (pc s g) = true;
  L4 : wr s <> None -> rdrs s = [];
  L5 : forall g, pc_ok (pc s g) (prog s g);
  L6 : dcan (dp s) = true \/ draining s = true -> cancelled s = true
}.

Lemma InvL_step : forall s t s', InvL s -> step s t = Some s' -> InvL s'.
Proof.
  intros s t s' [l1 l2 l3 l4 l5 l6] H. unfold_step H.
  - pose proof (l5 g) as l5g. pose proof (l1 g) as l1g. pose proof (l3 g) as l3g.
    step_inv H; (constructor; simpl;
    [ intros j; pose proof (l1 j); upd_cases; fin
    | fin
    | intros j; pose proof (l3 j); try rewrite in_remove_iff; upd_cases; fin
    | try (intros Hn; rewrite l4 by assumption; reflexivity); fin
    | intros j; pose proof (l5 j); upd_cases; fin
    | fin ]).
  - pose proof (l5 g) as l5g. pose proof (l1 g) as l1g. pose proof (l3 g) as l3g.
    step_inv H; (constructor; simpl;
    [ intros j; pose proof (l1 j); upd_cases; fin
    | fin
    | intros j; pose proof (l3 j); upd_cases; fin
    | fin
    | intros j; pose proof (l5 j); upd_cases; fin
    | fin ]).
  - step_inv H; destruct (draining s) eqn:Hdr in *; (constructor; simpl;
    [ intros j; pose proof (l1 j); fin
    | fin
    | intros j; pose proof (l3 j); fin
    | fin
    | intros j; pose proof (l5 j); fin
    | fin ]).
  - step_inv H; (constructor; simpl;
    [ intros j; pose proof (l1 j); fin | fin | intros j; pose proof (l3 j); fin | fin
    | intros j; pose proof (l5 j); fin | fin ]).
  - step_inv H; (constructor; simpl;
    [ intros j; pose proof (l1 j); fin | fin | intros j; pose proof (l3 j); fin | fin
    | intros j; pose proof (l5 j); fin | fin ]).
Qed.

Lemma InvL_init : forall progs, InvL (init progs).
Proof. intros. constructor; simpl; intuition (try congruence; try discriminate). Qed.



(* ------------------------------------------------------------------ linearization *)
Lemma sapp_app : forall c a b, sapp accepts c (a ++ b) = sapp accepts (sapp accepts c a) b.
Proof. intros. unfold sapp. apply fold_left_app. Qed.
Lemma adds_of_app : forall a b, adds_of (a ++ b) = adds_of a ++ adds_of b.
Proof. intros. unfold adds_of. apply flat_map_app. Qed.

Definition InvLin (s : state) : Prop :=
  sapp accepts [] (adds_of (acq s)) = sapp accepts (olog s) (pending s).

Ltac rwacc := rwpc; simpl in *; repeat match goal with Hb : accepts _ _ = _ |- _ => rewrite Hb in * end.

Lemma InvLin_step : forall s t s', InvL s -> InvLin s -> step s t = Some s' -> InvLin s'.
Proof.
  intros s t s' IL Hlin H. pose proof IL as [l1 l2 l3 l4 l5 l6].
  unfold InvLin, pending, log in *. unfold_step H.
  - pose proof (l1 g) as l1g; pose proof (l5 g) as l5g.
    step_inv H; simpl; rewrite ?adds_of_app, ?sapp_app; simpl;
    destruct (wr s) as [[h|]|] eqn:Hw in *; try (pose proof (l1 h); destruct (Nat.eq_dec h g); [subst h|]); upd_cases;
    unfold sapp, sapp1 in *; simpl in *; rwacc; try rewrite Hlin; fin.
  - pose proof (l1 g) as l1g; pose proof (l5 g) as l5g.
    step_inv H; simpl;
    destruct (wr s) as [[h|]|] eqn:Hw in *; try (pose proof (l1 h); destruct (Nat.eq_dec h g); [subst h|]); upd_cases;
    unfold sapp, sapp1 in *; simpl in *; fin.
  - step_inv H; simpl; rewrite ?adds_of_app, ?sapp_app; simpl;
    destruct (wr s) as [[h|]|] eqn:Hw in *;
    unfold sapp, sapp1 in *; simpl in *; rwacc; try rewrite Hlin; fin.
  - step_inv H; simpl; destruct (wr s) as [[h|]|] eqn:Hw in *; fin.
  - step_inv H; simpl; destruct (wr s) as [[h|]|] eqn:Hw in *; fin.
Qed.


(* ------------------------------------------------------------------ program order *)
Section Prog0.
Variable prog0 : nat -> list op.

Record InvP (s : state) : Prop := {
  P1 : forall g, map eo (hist_of g (ghist s)) ++ prog s g = prog0 g;
  P2 : forall g, acq_of g (acq s) = lock_ops (hist_of g (ghist s)) ++ cur_held s g
}.

Lemma InvP_step : forall s t s', InvL s -> InvP s -> step s t = Some s' -> InvP s'.
Proof.
  intros s t s' IL [p1 p2] H. pose proof IL as [l1 l2 l3 l4 l5 l6]. unfold cur_held in *. unfold_step H.
  - pose proof (l5 g) as l5g. pose proof (p1 g) as p1g. pose proof (p2 g) as p2g.
    step_inv H; (constructor; simpl; intros j; unfold cur_held in *; simpl;
    [ pose proof (p1 j); upd_cases; lists; rwpc; fin2
    | pose proof (p2 j); upd_cases; lists; rwpc; simpl in *;
      try (destruct o; simpl in *; try discriminate); try (destruct r; simpl in *); fin2 ]).
  - pose proof (l5 g) as l5g. pose proof (p1 g) as p1g. pose proof (p2 g) as p2g.
    step_inv H; (constructor; simpl; intros j; unfold cur_held in *; simpl;
    [ pose proof (p1 j); upd_cases; lists; rwpc; fin2
    | pose proof (p2 j); upd_cases; lists; rwpc; fin2 ]).
  - step_inv H; (constructor; simpl; intros j; unfold cur_held in *; simpl;
    [ pose proof (p1 j); lists; fin2 | pose proof (p2 j); lists; fin2 ]).
  - step_inv H; (constructor; simpl; intros j; unfold cur_held in *; simpl; [ pose proof (p1 j); fin2 | pose proof (p2 j); fin2 ]).
  - step_inv H; (constructor; simpl; intros j; unfold cur_held in *; simpl; [ pose proof (p1 j); fin2 | pose proof (p2 j); fin2 ]).
Qed.
End Prog0.


(* ------------------------------------------------------------------ direct Adds: exactly once *)
Definition InvD (s : state) : Prop :=
  map snd (filter is_client (olog s)) = acked (ghist s) ++ inflight s.

Lemma InvD_step : forall s t s', InvL s -> InvD s -> step s t = Some s' -> InvD s'.
Proof.
  intros s t s' IL Hd H. pose proof IL as [l1 l2 l3 l4 l5 l6].
  unfold InvD, inflight in *. unfold_step H.
  - pose proof (l1 g) as l1g; pose proof (l5 g) as l5g.
    step_inv H; simpl; lists;
    destruct (wr s) as [[h|]|] eqn:Hw in *; try (pose proof (l1 h); destruct (Nat.eq_dec h g); [subst h|]); upd_cases;
    rwpc; simpl in *; try rewrite Hd; try (destruct o; simpl in *; try discriminate); try (destruct r; simpl in *); lists; fin2.
  - pose proof (l1 g) as l1g; pose proof (l5 g) as l5g.
    step_inv H; simpl; lists;
    destruct (wr s) as [[h|]|] eqn:Hw in *; try (pose proof (l1 h); destruct (Nat.eq_dec h g); [subst h|]); upd_cases;
    rwpc; fin2.
  - step_inv H; simpl; lists; destruct (wr s) as [[h|]|] eqn:Hw in *; fin2.
  - step_inv H; simpl; destruct (wr s) as [[h|]|] eqn:Hw in *; fin2.
  - step_inv H; simpl; destruct (wr s) as [[h|]|] eqn:Hw in *; fin2.
Qed.

(* ------------------------------------------------------------------ buffered collector: conservation *)
Record InvB (s : state) : Prop := {
  B0 : length (pipe s) <= size;
  B1 : backed (ghist s) = map fst (drained s) ++ hand s ++ pipe s;
  B2 : map snd (filter is_drainer (olog s)) = oks (drained s) ++ hand_ok s;
  B3 : catcher s = rejs (drained s)
}.

Lemma InvB_step : forall s t s', InvL s -> InvB s -> step s t = Some s' -> InvB s'.
Proof.
  intros s t s' IL [b0 b1 b2 b3] H. pose proof IL as [l1 l2 l3 l4 l5 l6].
  unfold hand, hand_ok, oks, rejs in *. unfold_step H.
  - pose proof (l5 g) as l5g. step_inv H;
    try match goal with Hz : (size =? 0) = true |- _ =>
      apply Nat.eqb_eq in Hz;
      assert (Hpe : pipe s = []) by (destruct (pipe s); simpl in *; [reflexivity | lia]);
      rewrite Hpe in * end;
    try (destruct o; simpl in *; try discriminate);
    (constructor; unfold hand, hand_ok, oks, rejs; simpl; lists; rwpc; simpl in *;
    [ try (apply Nat.ltb_lt in Heqb); try rewrite app_length; simpl; try lia; fin2
    | try rewrite b1; lists; fin2 | try rewrite b2; fin2 | fin2 ]).
  - step_inv H; (constructor; unfold hand, hand_ok, oks, rejs; simpl; lists; rwpc; simpl in *;
    [ fin2 | fin2 | fin2 | fin2 ]).
  - step_inv H; destruct (draining s) eqn:Hdr in *; repeat match goal with b : bool |- _ => destruct b end;
    (constructor; unfold hand, hand_ok, oks, rejs; simpl; lists; rwpc; simpl in *;
    [ try lia; fin2 | try rewrite b1; lists; fin2 | try rewrite b2; lists; fin2 | try rewrite b3; fin2 ]).
  - step_inv H; (constructor; unfold hand, hand_ok, oks, rejs; simpl; rwpc; simpl in *; fin2).
  - step_inv H; (constructor; unfold hand, hand_ok, oks, rejs; simpl; rwpc; simpl in *; fin2).
Qed.
End Proofs.

Section Proofs2.
Variable accepts : list tsample -> tsample -> bool.
Variable size : nat.
Notation step := (step accepts size).
Notation run := (run accepts size).

(* ------------------------------------------------------------------ delivery after cancellation *)
Record InvQ (s : state) : Prop := {
  Q1 : cancelled s = true -> exists suf, backed (ghist s) = pre s ++ suf;
  Q2 : dp s = DDone -> length (pre s) <= length (drained s)
}.

Lemma InvQ_step : forall s t s', InvL s -> InvB size s -> InvQ s -> step s t = Some s' -> InvQ s'.
Proof.
  intros s t s' IL [b0 b1 b2 b3] [q1 q2] H. pose proof IL as [l1 l2 l3 l4 l5 l6].
  unfold hand in *. unfold_step H.
  - step_inv H; (constructor; simpl;
    [ intros Hc; destruct q1 as [suf Hs]; [first [assumption|reflexivity|congruence]|]; eexists; rewrite ?backed_app; rewrite ?Hs; rewrite <- ?app_assoc; reflexivity
    | fin2 ]).
  - step_inv H; (constructor; simpl;
    [ intros Hc; destruct q1 as [suf Hs]; [first [assumption|reflexivity|congruence]|]; eexists; rewrite ?backed_app; rewrite ?Hs; rewrite <- ?app_assoc; reflexivity
    | fin2 ]).
  - step_inv H; destruct (draining s) eqn:Hdr in *; (constructor; simpl;
    [ intros Hc; destruct q1 as [suf Hs]; [first [assumption|reflexivity|congruence]|]; eexists; rewrite ?backed_app; rewrite ?Hs; rewrite <- ?app_assoc; reflexivity
    | try (intros _; assert (Hc : cancelled s = true) by (apply l6; simpl; auto);
           destruct (q1 Hc) as [suf Hs]; simpl in b1; rewrite ?app_nil_r in b1;
           apply (f_equal (@length _)) in Hs; rewrite b1, app_length, map_length in Hs; lia);
      fin2 ]).
  - step_inv H; (constructor; simpl; [ intros Hc; apply q1; first [assumption|reflexivity] | fin2 ]).
  - step_inv H; (constructor; simpl;
    [ intros _; exists []; rewrite app_nil_r; reflexivity
    | intros Hd; assert (false = true) by (apply l6; rewrite Hd; simpl; auto); discriminate ]).
Qed.

(* ------------------------------------------------------------------ all invariants together *)
Record Inv (prog0 : nat -> list op) (s : state) : Prop := {
  IL : InvL s;
  ILin : InvLin accepts s;
  IP : InvP prog0 s;
  ID : InvD s;
  IB : InvB size s;
  IQ : InvQ s
}.

Lemma Inv_step : forall p0 s t s', Inv p0 s -> step s t = Some s' -> Inv p0 s'.
Proof.
  intros p0 s t s' [il ilin ip id ib iq] H. constructor.
  - eapply InvL_step; eauto.
  - eapply InvLin_step; eauto.
  - eapply InvP_step; eauto.
  - eapply InvD_step; eauto.
  - eapply InvB_step; eauto.
  - eapply InvQ_step; eauto.
Qed.

Lemma Inv_init : forall progs, Inv (fun g => nth g progs []) (init progs).
Proof.
  intros. constructor.
  - apply InvL_init.
  - reflexivity.
  - constructor; reflexivity.
  - reflexivity.
  - constructor; simpl; auto; lia.
  - constructor; simpl; intros; discriminate.
Qed.

Lemma Inv_run : forall p0 sched s s', Inv p0 s -> run s sched = Some s' -> Inv p0 s'.
Proof.
  intros p0 sched. induction sched as [|t r IH]; intros s s' I H; simpl in H.
  - inversion H; subst; auto.
  - destruct (step s t) eqn:E; [|discriminate]. eapply IH; [|exact H]. eapply Inv_step; eauto.
Qed.

Lemma Inv_reach : forall progs sched s, run (init progs) sched = Some s -> Inv (fun g => nth g progs []) s.
Proof. intros. eapply Inv_run; [apply Inv_init | eauto]. Qed.

End Proofs2.

Section Proofs3.
Variable accepts : list tsample -> tsample -> bool.
Variable size : nat.
Notation step := (step accepts size).
Notation run := (run accepts size).
Notation quiescent := (quiescent accepts size).

(* ------------------------------------------------------------------ progress: lock discipline *)
Definition tid_of (w : who) : tid := match w with Client g => P g | Drainer => D end.

(* a goroutine inside a critical section is never blocked *)
Lemma writer_can_step : forall s g, InvL s -> holdsW (pc s g) = true -> exists s', step s (P g) = Some s'.
Proof.
  intros s g [l1 l2 l3 l4 l5 l6] Hh. pose proof (l5 g) as l5g. simpl. unfold step_client.
  destruct (pc s g); simpl in *; try discriminate; destruct (prog s g) as [|o rest]; simpl in *; try contradiction.
  - destruct o; simpl in *; try discriminate; eauto. destruct (accepts (log s) (g, v)); eauto.
  - eauto.
Qed.

Lemma reader_can_step : forall s g, InvL s -> holdsR (pc s g) = true -> exists s', step s (P g) = Some s'.
Proof.
  intros s g [l1 l2 l3 l4 l5 l6] Hh. pose proof (l5 g) as l5g. simpl. unfold step_client.
  destruct (pc s g); simpl in *; try discriminate; destruct (prog s g) as [|o rest]; simpl in *; try contradiction; eauto.
Qed.

Lemma drainer_can_step : forall s, dholds (dp s) = true -> exists s', step s D = Some s'.
Proof.
  intros s Hh. simpl. unfold step_drainer. destruct (dp s); simpl in *; try discriminate; eauto.
  destruct (accepts (log s) x); eauto.
Qed.

(* whenever the lock is not free, one of its holders can move *)
Lemma lock_busy_moves : forall s, InvL s -> lock_free s = false -> exists t s', step s t = Some s'.
Proof.
  intros s IL Hf. pose proof IL as [l1 l2 l3 l4 l5 l6]. unfold lock_free in Hf.
  destruct (wr s) as [[h|]|] eqn:Hw.
  - destruct (writer_can_step s h IL) as [s' E]. apply l1; auto. eauto.
  - destruct (drainer_can_step s) as [s' E]. apply l2; auto. eauto.
  - destruct (rdrs s) as [|r rs] eqn:Hr; [discriminate|].
    destruct (reader_can_step s r IL) as [s' E]. apply l3. try rewrite Hr. left; auto. eauto.
Qed.

Lemma lock_released_within_two : forall s, InvL s ->
  (forall w, wr s = Some w ->
     exists s1, step s (tid_of w) = Some s1 /\
       (wr s1 = None \/ exists s2, step s1 (tid_of w) = Some s2 /\ wr s2 = None)) /\
  (forall g, In g (rdrs s) ->
     exists s1, step s (P g) = Some s1 /\
       (~ In g (rdrs s1) \/ exists s2, step s1 (P g) = Some s2 /\ ~ In g (rdrs s2))).
Proof.
  intros s IL. pose proof IL as [l1 l2 l3 l4 l5 l6]. split.
  - intros [h|] Hw; simpl.
    + apply l1 in Hw. pose proof (l5 h) as l5h. unfold step_client.
      destruct (pc s h) eqn:Hpc; simpl in *; try discriminate;
      destruct (prog s h) as [|o rest] eqn:Hp; simpl in *; try contradiction.
      * assert (Hx : exists r s1, step_client accepts size s h = Some s1 /\ s1 = set_pc (match o with OAdd v => if accepts (log s) (h, v) then set_olog s (olog s ++ [(Client h, (h, v))]) else s | OSetMeta m => set_meta s (Some m) | _ => s end) (upd (pc s) h (CApplied r))).
        { unfold step_client. rewrite Hp, Hpc. destruct o; simpl in *; try discriminate; eauto.
          destruct (accepts (log s) (h, v)); eauto. }
        destruct Hx as [r [s1 [E1 E2]]]. unfold step_client in E1. rewrite Hp, Hpc in E1. rewrite E1.
        eexists; split; [reflexivity|]. right.
        assert (Hp1 : prog s1 h = o :: rest) by (subst s1; destruct o; simpl; auto; destruct (accepts (log s) (h, v)); auto).
        assert (Hpc1 : pc s1 h = CApplied r) by (subst s1; simpl; unfold upd; rewrite Nat.eqb_refl; auto).
        unfold step_client. rewrite Hp1, Hpc1. eexists; split; [reflexivity|]. reflexivity.
      * eexists; split; [reflexivity|]. left. reflexivity.
    + apply l2 in Hw. unfold step_drainer. destruct (dp s) eqn:Hd; simpl in *; try discriminate.
      * destruct (accepts (log s) x); (eexists; split; [reflexivity|]; right; unfold step_drainer; simpl;
        eexists; split; [reflexivity|]; reflexivity).
      * eexists; split; [reflexivity|]. left; reflexivity.
  - intros g Hin. apply l3 in Hin. pose proof (l5 g) as l5g. simpl. unfold step_client.
    destruct (pc s g) eqn:Hpc; simpl in *; try discriminate;
    destruct (prog s g) as [|o rest] eqn:Hp; simpl in *; try contradiction.
    + eexists; split; [reflexivity|]. right. unfold step_client; simpl. unfold upd at 1. 
      rewrite Hp. unfold upd. rewrite Nat.eqb_refl. eexists; split; [reflexivity|]. simpl.
      rewrite in_remove_iff. intuition.
    + eexists; split; [reflexivity|]. left. simpl. rewrite in_remove_iff. intuition.
Qed.

(* no deadlock: while some client still has an operation to run, some goroutine can move *)
Lemma no_deadlock : forall s g, InvL s -> prog s g <> [] -> exists t s', step s t = Some s'.
Proof.
  intros s g IL Hp. pose proof IL as [l1 l2 l3 l4 l5 l6]. pose proof (l5 g) as l5g.
  destruct (prog s g) as [|o rest] eqn:Hpg; [congruence|]. clear Hp.
  destruct (holdsW (pc s g)) eqn:HW.
  { destruct (writer_can_step s g IL HW) as [s' E]. eauto. }
  destruct (holdsR (pc s g)) eqn:HR.
  { destruct (reader_can_step s g IL HR) as [s' E]. eauto. }
  destruct (lock_free s) eqn:Hf; [|apply lock_busy_moves; auto].
  (* lock free *)
  destruct (pc s g) eqn:Hpc; simpl in *; try discriminate.
  - (* CIdle *)
    destruct o.
    + exists (P g). simpl. unfold step_client. rewrite Hpg, Hpc, Hf. eauto.
    + exists (P g). simpl. unfold step_client. rewrite Hpg, Hpc. apply lock_free_true in Hf. destruct Hf as [Hw _]. rewrite Hw. eauto.
    + exists (P g). simpl. unfold step_client. rewrite Hpg, Hpc, Hf. eauto.
    + exists (P g). simpl. unfold step_client. rewrite Hpg, Hpc, Hf. eauto.
    + (* buffered Add *)
      destruct (length (pipe s) <? size) eqn:Hroom.
      { exists (P g). simpl. unfold step_client. rewrite Hpg, Hpc, Hroom. eauto. }
      destruct (cancelled s) eqn:Hc.
      { exists (Pc g). simpl. unfold step_ctx. rewrite Hpg, Hpc, Hc. eauto. }
      (* not cancelled: the drainer is alive *)
      destruct (dp s) eqn:Hd.
      * (* DSelect *) destruct (pipe s) as [|x rest'] eqn:Hpipe.
        -- simpl in Hroom. destruct size as [|n] eqn:Hs; [|discriminate].
           exists (P g). simpl. unfold step_client. rewrite Hpg, Hpc, Hpipe, Hd. simpl. eauto.
        -- exists D. simpl. unfold step_drainer. rewrite Hd, Hpipe. eauto.
      * exists D. simpl. unfold step_drainer. rewrite Hd, Hf. eauto.
      * exists D. apply drainer_can_step. rewrite Hd. reflexivity.
      * exists D. apply drainer_can_step. rewrite Hd. reflexivity.
      * exists D. simpl. unfold step_drainer. rewrite Hd. eauto.
      * assert (false = true) by (apply l6; simpl; auto). discriminate.
      * assert (false = true) by (apply l6; simpl; auto). discriminate.
      * assert (false = true) by (apply l6; simpl; auto). discriminate.
    + exists (P g). simpl. unfold step_client. rewrite Hpg, Hpc. destruct (catcher s); eauto.
  - (* CChecked *) exists (P g). simpl. unfold step_client. rewrite Hpg, Hpc, Hf. eauto.
Qed.

End Proofs3.

Lemma prefix_of_both : forall (A : Type) (a b c d : list A),
  a ++ b = c ++ d -> length a <= length c -> exists r, c = a ++ r.
Proof.
  induction a as [|x a IH]; simpl; intros b c d H L.
  - exists c; auto.
  - destruct c as [|y c]; simpl in *; [lia|]. injection H as -> H.
    destruct (IH _ _ _ H) as [r Hr]; [lia|]. exists r. rewrite Hr. reflexivity.
Qed.

Lemma acked_hist_of : forall g h, filter (fun x => fst x =? g) (acked h) = acked (hist_of g h).
Proof.
  induction h as [|[eg0 eo0 er0] h IH]; simpl; auto.
  rewrite filter_app, IH. destruct (eg0 =? g) eqn:E; simpl.
  - destruct eo0; simpl; auto; destruct er0; simpl; rewrite ?E; auto.
  - destruct eo0; simpl; auto; destruct er0; simpl; rewrite ?E; auto.
Qed.

Lemma backed_hist_of : forall g h, filter (fun x => fst x =? g) (backed h) = backed (hist_of g h).
Proof.
  induction h as [|[eg0 eo0 er0] h IH]; simpl; auto.
  rewrite filter_app, IH. destruct (eg0 =? g) eqn:E; simpl.
  - destruct eo0; simpl; auto; destruct er0; simpl; rewrite ?E; auto.
  - destruct eo0; simpl; auto; destruct er0; simpl; rewrite ?E; auto.
Qed.

Section Proofs4.
Variable accepts : list tsample -> tsample -> bool.
Variable size : nat.
Notation step := (step accepts size).
Notation run := (run accepts size).
Notation quiescent := (quiescent accepts size).
Notation Inv := (Inv accepts size).

(* ------------------------------------------------------------------ the cancel event *)
Lemma cancelled_stable : forall s t s', step s t = Some s' -> cancelled s = true ->
  cancelled s' = true /\ pre s' = pre s.
Proof.
  intros s t s' H Hc. unfold_step H; step_inv H; simpl; auto; congruence.
Qed.

Lemma cancelled_stable_run : forall sched s s', run s sched = Some s' -> cancelled s = true ->
  cancelled s' = true /\ pre s' = pre s.
Proof.
  induction sched as [|t r IH]; intros s s' H Hc; simpl in H.
  - inversion H; subst; auto.
  - destruct (step s t) eqn:E; [|discriminate].
    destruct (cancelled_stable _ _ _ E Hc) as [A B]. destruct (IH _ _ H A) as [C Dd]. split; congruence.
Qed.

Lemma cancel_event : forall s s2, step s Cancel = Some s2 ->
  cancelled s2 = true /\ pre s2 = backed (ghist s).
Proof.
  intros s s2 H. simpl in H. unfold step_cancel in H. destruct (cancelled s); [discriminate|].
  inversion H; subst; simpl; auto.
Qed.

(* ------------------------------------------------------------------ delivery *)
Lemma quiescent_delivered : forall p0 s, Inv p0 s -> cancelled s = true -> quiescent s ->
  exists rest, map fst (drained s) = pre s ++ rest.
Proof.
  intros p0 s [il ilin ip id ib iq] Hc Hq.
  pose proof il as [l1 l2 l3 l4 l5 l6]. destruct ib as [b0 b1 b2 b3]. destruct iq as [q1 q2].
  destruct (q1 Hc) as [suf Hs].
  pose proof (Hq D) as HD. pose proof (Hq Dc) as HDc. simpl in HD, HDc.
  unfold step_drainer, step_dcancel in *. unfold hand in b1.
  destruct (dp s) eqn:Hd.
  - rewrite Hc in HDc. discriminate.
  - destruct (lock_free s) eqn:Hf; [discriminate|].
    destruct (lock_busy_moves accepts size s il Hf) as [t [s' E]]. rewrite (Hq t) in E. discriminate.
  - destruct (accepts (log s) x); discriminate.
  - discriminate.
  - discriminate.
  - destruct (pipe s); discriminate.
  - destruct (pipe s) eqn:Hp; [|discriminate]. simpl in b1. rewrite app_nil_r in b1.
    exists suf. rewrite <- b1. exact Hs.
  - specialize (q2 eq_refl). rewrite b1 in Hs. simpl in Hs. symmetry in Hs.
    eapply prefix_of_both; [exact Hs|]. rewrite map_length. exact q2.
Qed.

Lemma drained_in_log : forall s x, InvB size s -> In x (map fst (drained s)) ->
  In (Drainer, x) (olog s) \/ In x (catcher s).
Proof.
  intros s x [b0 b1 b2 b3] Hin. apply in_map_iff in Hin. destruct Hin as [[y b] [E Hin]]. simpl in E. subst y.
  destruct b.
  - left. assert (Hx : In x (map snd (filter is_drainer (olog s)))).
    { rewrite b2. apply in_or_app. left. unfold oks. apply in_map_iff. exists (x, true). split; auto.
      apply filter_In. split; auto. }
    apply in_map_iff in Hx. destruct Hx as [[w y] [E Hf]]. simpl in E. subst y.
    apply filter_In in Hf. destruct Hf as [Hi Hdn]. destruct w; simpl in Hdn; [discriminate|]. exact Hi.
  - right. rewrite b3. unfold rejs. apply in_map_iff. exists (x, false). split; auto.
    apply filter_In. split; auto.
Qed.

(* the statement with the cancel event made explicit *)
Lemma delivery : forall progs sched1 s1 s2 sched2 s,
  run (init progs) sched1 = Some s1 -> step s1 Cancel = Some s2 -> run s2 sched2 = Some s ->
  quiescent s ->
  (exists rest, map fst (drained s) = backed (ghist s1) ++ rest) /\
  (forall x, In x (backed (ghist s1)) -> In (Drainer, x) (olog s) \/ In x (catcher s)).
Proof.
  intros progs sched1 s1 s2 sched2 s R1 C R2 Hq.
  pose proof (Inv_reach accepts size _ _ _ R1) as I1.
  pose proof (Inv_step accepts size _ _ _ _ I1 C) as I2.
  pose proof (Inv_run accepts size _ _ _ _ I2 R2) as I3.
  destruct (cancel_event _ _ C) as [Hc2 Hp2].
  destruct (cancelled_stable_run _ _ _ R2 Hc2) as [Hc Hp].
  destruct (quiescent_delivered _ _ I3 Hc Hq) as [rest Hr].
  rewrite Hp, Hp2 in Hr. split.
  - exists rest. exact Hr.
  - intros x Hin. apply drained_in_log. apply (IB _ _ _ _ I3). rewrite Hr. apply in_or_app. left. exact Hin.
Qed.

(* ------------------------------------------------------------------ statements about reachable states *)
Lemma linearizable : forall progs sched s,
  run (init progs) sched = Some s ->
  sapp accepts [] (adds_of (acq s)) = sapp accepts (olog s) (pending s) /\
  (forall g, map eo (hist_of g (ghist s)) ++ prog s g = nth g progs [] /\
             acq_of g (acq s) = lock_ops (hist_of g (ghist s)) ++ cur_held s g) /\
  map snd (filter is_client (olog s)) = acked (ghist s) ++ inflight s /\
  (forall g, filter (fun x => fst x =? g) (acked (ghist s)) = acked (hist_of g (ghist s))).
Proof.
  intros progs sched s R. pose proof (Inv_reach accepts size _ _ _ R) as [il ilin [p1 p2] id ib iq].
  split; [exact ilin|]. split; [intros g; split; [apply p1 | apply p2]|]. split; [exact id|].
  intros g. apply acked_hist_of.
Qed.

(* when the lock is free the statement has no side terms *)
Lemma linearizable_lock_free : forall progs sched s,
  run (init progs) sched = Some s -> wr s = None ->
  olog s = sapp accepts [] (adds_of (acq s)) /\
  map snd (filter is_client (olog s)) = acked (ghist s) /\
  (forall g, filter (fun x => fst x =? g) (map snd (filter is_client (olog s))) = acked (hist_of g (ghist s))) /\
  (forall g, map eo (hist_of g (ghist s)) ++ prog s g = nth g progs []).
Proof.
  intros progs sched s R Hw. destruct (linearizable _ _ _ R) as [A [B [C Dd]]].
  unfold pending in A. unfold inflight in C. rewrite Hw in A, C. simpl in A. rewrite app_nil_r in C.
  split; [symmetry; exact A|]. split; [exact C|]. split.
  - intros g. rewrite C. apply Dd.
  - intros g. apply B.
Qed.

Lemma conservation : forall progs sched s,
  run (init progs) sched = Some s ->
  length (pipe s) <= size /\
  backed (ghist s) = map fst (drained s) ++ hand s ++ pipe s /\
  map snd (filter is_drainer (olog s)) = oks (drained s) ++ hand_ok s /\
  catcher s = rejs (drained s) /\
  (forall g, filter (fun x => fst x =? g) (backed (ghist s)) = backed (hist_of g (ghist s))).
Proof.
  intros progs sched s R. pose proof (Inv_reach accepts size _ _ _ R) as [il ilin ip id [b0 b1 b2 b3] iq].
  repeat split; auto. intros g. apply backed_hist_of.
Qed.

Lemma progress : forall progs sched s,
  run (init progs) sched = Some s ->
  ((exists g, prog s g <> []) -> exists t s', step s t = Some s') /\
  (forall w, wr s = Some w ->
     exists s1, step s (tid_of w) = Some s1 /\
       (wr s1 = None \/ exists s2, step s1 (tid_of w) = Some s2 /\ wr s2 = None)) /\
  (forall g, In g (rdrs s) ->
     exists s1, step s (P g) = Some s1 /\
       (~ In g (rdrs s1) \/ exists s2, step s1 (P g) = Some s2 /\ ~ In g (rdrs s2))).
Proof.
  intros progs sched s R. pose proof (Inv_reach accepts size _ _ _ R) as [il _ _ _ _ _].
  split.
  - intros [g Hg]. eapply no_deadlock; eauto.
  - apply lock_released_within_two. exact il.
Qed.

End Proofs4.

(* ------------------------------------------------------------------ the catcher *)
Definition kholdsW (c : kpc) : bool := match c with KLocked | KApplied => true | _ => false end.
Definition kadded (l : list kev) : list (nat * nat) :=
  flat_map (fun e => match ko e with KAdd (Some x) => [(kg e, x)] | _ => [] end) l.
Definition khist (g : nat) (l : list kev) : list kev := filter (fun e => kg e =? g) l.
Definition kinflight (s : kstate) : list (nat * nat) :=
  match kwr s with
  | Some g => match kpcs s g, kprog s g with
              | KApplied, KAdd (Some e) :: _ => [(g, e)]
              | _, _ => []
              end
  | None => []
  end.

Lemma kadded_app : forall a b, kadded (a ++ b) = kadded a ++ kadded b.
Proof. intros. unfold kadded. apply flat_map_app. Qed.
Lemma khist_app : forall g a b, khist g (a ++ b) = khist g a ++ khist g b.
Proof. intros. unfold khist. apply filter_app. Qed.

Definition kpc_ok (c : kpc) (l : list kop) : Prop :=
  match c, l with
  | KIdle, _ => True
  | (KLocked | KApplied), KAdd (Some _) :: _ => True
  | (KRLocked | KRRead _), KLen :: _ => True
  | _, _ => False
  end.

Record KInv (prog0 : nat -> list kop) (s : kstate) : Prop := {
  K1 : forall g, kwr s = Some g <-> kholdsW (kpcs s g) = true;
  K3 : forall g, kpc_ok (kpcs s g) (kprog s g);
  K4 : kerrs s = kadded (kdone s) ++ kinflight s;
  K5 : forall g, map ko (khist g (kdone s)) ++ kprog s g = prog0 g
}.

Ltac kdestr H :=
  repeat match type of H with
  | match ?x with _ => _ end = Some _ => destruct x eqn:? in *
  | None = Some _ => discriminate H
  end.

Ltac rwk := repeat match goal with
  | Hq : kpcs _ _ = _ |- _ => rewrite Hq in *
  | Hq : kprog _ _ = _ |- _ => rewrite Hq in *
  end.

Lemma KInv_step : forall p0 s g s', KInv p0 s -> kstep s g = Some s' -> KInv p0 s'.
Proof.
  intros p0 s g s' [k1 k3 k4 k5] H. unfold kstep in H.
  pose proof (k1 g) as k1g. pose proof (k3 g) as k3g. pose proof (k5 g) as k5g.
  kdestr H; try discriminate H; inversion H; subst; clear H; unfold kcomplete; simpl in k3g; try contradiction;
  try match goal with k : kop |- _ => destruct k; try contradiction end;
  (constructor; simpl;
  [ intros j; pose proof (k1 j); upd_cases; simpl in *; intuition (try congruence; try discriminate)
  | intros j; pose proof (k3 j); upd_cases; simpl in *; rwk; intuition (try congruence; try discriminate)
  | unfold kinflight in *; simpl in *; rewrite ?kadded_app; simpl;
    try (destruct (kwr s) as [h|] eqn:Hw in *; try (pose proof (k1 h); destruct (Nat.eq_dec h g); [subst h|]));
    upd_cases; rwk; simpl in *; rewrite ?app_nil_r in *; try rewrite k4; rewrite <- ?app_assoc; simpl;
    rewrite ?app_nil_r;
    try match goal with o : option nat |- _ => destruct o end;
    intuition (try congruence; try discriminate)
  | intros j; pose proof (k5 j); rewrite ?khist_app; simpl; upd_cases; eqbs; simpl;
    rewrite ?map_app, <- ?app_assoc, ?app_nil_r; simpl; rwk; intuition (try congruence; try discriminate) ]).
Qed.

Lemma KInv_init : forall progs, KInv (fun g => nth g progs []) (kinit progs).
Proof. intros. constructor; simpl; intuition (try congruence; try discriminate). Qed.

Lemma KInv_run : forall p0 sched s s', KInv p0 s -> krun s sched = Some s' -> KInv p0 s'.
Proof.
  intros p0 sched. induction sched as [|t r IH]; intros s s' I H; simpl in H.
  - inversion H; subst; auto.
  - destruct (kstep s t) eqn:E; [|discriminate]. eapply IH; [|exact H]. eapply KInv_step; eauto.
Qed.

Lemma kadded_khist : forall g l, filter (fun x => fst x =? g) (kadded l) = kadded (khist g l).
Proof.
  induction l as [|[g0 o0 r0] l IH]; simpl; auto.
  rewrite filter_app, IH. destruct (g0 =? g) eqn:E; simpl.
  - destruct o0 as [[e|]|]; simpl; rewrite ?E; auto.
  - destruct o0 as [[e|]|]; simpl; rewrite ?E; auto.
Qed.

Lemma kadded_nonnil : forall g l, kadded (khist g l) = nonnil g (map ko (khist g l)).
Proof.
  induction l as [|[g0 o0 r0] l IH]; simpl; auto.
  destruct (g0 =? g) eqn:E; simpl; auto. apply Nat.eqb_eq in E. subst g0.
  rewrite IH. reflexivity.
Qed.

(* sums over goroutine ids *)
Lemma sumto_ext : forall G f h, (forall g, g < G -> f g = h g) -> sumto G f = sumto G h.
Proof. induction G; simpl; intros; auto. rewrite (IHG f h), H; auto. Qed.
Lemma sumto_add : forall G f h, sumto G (fun g => f g + h g) = sumto G f + sumto G h.
Proof. induction G; simpl; intros; auto. rewrite IHG. lia. Qed.
Lemma sumto_zero : forall G, sumto G (fun _ => 0) = 0.
Proof. induction G; simpl; auto. rewrite IHG. reflexivity. Qed.
Lemma sumto_ind1 : forall G a, a < G -> sumto G (fun g => if a =? g then 1 else 0) = 1.
Proof.
  induction G; intros a Ha; [lia|]. simpl. destruct (Nat.eqb_spec a G) as [E|E].
  - subst. rewrite (sumto_ext G _ (fun _ => 0)); [rewrite sumto_zero; reflexivity|].
    intros g Hg. destruct (Nat.eqb_spec G g); auto. lia.
  - rewrite IHG; lia.
Qed.

Lemma length_by_owner : forall G (l : list (nat * nat)), (forall x, In x l -> fst x < G) ->
  length l = sumto G (fun g => length (filter (fun x => fst x =? g) l)).
Proof.
  induction l as [|x l IH]; intros Hb.
  - simpl. rewrite sumto_zero. reflexivity.
  - rewrite (sumto_ext G _ (fun g => (if fst x =? g then 1 else 0) + length (filter (fun y => fst y =? g) l))).
    + rewrite sumto_add, sumto_ind1, <- IH; simpl; auto.
      * intros; apply Hb; right; auto.
      * apply Hb; left; auto.
    + intros g _. simpl. destruct (fst x =? g); reflexivity.
Qed.

Lemma catcher_any_time : forall progs sched s, krun (kinit progs) sched = Some s ->
  kerrs s = kadded (kdone s) ++ kinflight s /\
  (forall g, map ko (khist g (kdone s)) ++ kprog s g = nth g progs []).
Proof.
  intros progs sched s R. pose proof (KInv_run _ _ _ _ (KInv_init progs) R) as [k1 k3 k4 k5]. auto.
Qed.

Lemma catcher_final : forall progs sched s,
  krun (kinit progs) sched = Some s -> (forall g, kprog s g = []) ->
  (forall g, filter (fun x => fst x =? g) (kerrs s) = nonnil g (nth g progs [])) /\
  length (kerrs s) = sumto (length progs) (fun g => length (nonnil g (nth g progs []))).
Proof.
  intros progs sched s R Hfin. pose proof (KInv_run _ _ _ _ (KInv_init progs) R) as [k1 k3 k4 k5].
  assert (Hidle : forall g, kpcs s g = KIdle).
  { intros g. pose proof (k3 g) as A. rewrite Hfin in A. destruct (kpcs s g); simpl in A; auto; contradiction. }
  assert (Hw : kwr s = None).
  { destruct (kwr s) as [h|] eqn:E; auto. pose proof (proj1 (k1 h) eq_refl) as A. rewrite Hidle in A. discriminate. }
  unfold kinflight in k4. rewrite Hw, app_nil_r in k4.
  assert (Hg : forall g, filter (fun x => fst x =? g) (kerrs s) = nonnil g (nth g progs [])).
  { intros g. rewrite k4, kadded_khist, kadded_nonnil. pose proof (k5 g) as A. rewrite Hfin, app_nil_r in A.
    rewrite A. reflexivity. }
  split; [exact Hg|].
  rewrite (length_by_owner (length progs)).
  - apply sumto_ext. intros g _. rewrite Hg. reflexivity.
  - intros x Hin. destruct (Nat.lt_ge_cases (fst x) (length progs)) as [L|L]; auto.
    assert (Hx : In x (filter (fun y => fst y =? fst x) (kerrs s))).
    { apply filter_In. split; auto. apply Nat.eqb_refl. }
    rewrite Hg, (nth_overflow progs [] L) in Hx. simpl in Hx. contradiction.
Qed.

Section Proofs6.
Variable accepts : list tsample -> tsample -> bool.
Variable size : nat.
Notation step := (step accepts size).
Notation run := (run accepts size).

(* ------------------------------------------------------------------ the drainer's label sequence *)
Definition qstate (s : state) : nat :=
  match dp s with
  | DSelect => 0
  | DGot _ | DLocked _ | DApplied _ _ | DCatch _ _ => if draining s then 2 else 1
  | DCancelled | DRange | DDone => 2
  end.

Record InvT (s : state) : Prop := {
  T1 : draining s = true -> dp s <> DSelect;
  T2 : dp s = DRange -> draining s = true
}.

Lemma InvT_step : forall s t s', InvT s -> step s t = Some s' -> InvT s'.
Proof.
  intros s t s' [t1 t2] H. unfold_step H.
  - step_inv H; (constructor; simpl; rwpc; fin2).
  - step_inv H; (constructor; simpl; rwpc; fin2).
  - step_inv H; destruct (draining s) eqn:Hdr in *; (constructor; simpl; rwpc; fin2).
  - step_inv H; (constructor; simpl; rwpc; fin2).
  - step_inv H; (constructor; simpl; rwpc; fin2).
Qed.

Lemma trace_step : forall s t s' l, InvT s -> step s t = Some s' ->
  drainer_accepts_from (qstate s) (emits size s t ++ l) = drainer_accepts_from (qstate s') l.
Proof.
  intros s t s' l [t1 t2] H. unfold qstate, emits. unfold_step H.
  - step_inv H; simpl; rwpc; simpl; 
    try match goal with Hb : (_ <? _) = _ |- _ => rewrite Hb end;
    try match goal with Hb : (size =? 0) = _ |- _ => rewrite Hb end;
    destruct (draining s) eqn:Hdr in *; destruct (dp s) eqn:Hdp in *; simpl; fin2.
  - step_inv H; simpl; rwpc; simpl; destruct (dp s) eqn:Hdp in *; simpl; fin2.
  - step_inv H; simpl; rwpc; simpl; destruct (draining s) eqn:Hdr in *; simpl; fin2.
  - step_inv H; simpl; rwpc; simpl; rewrite ?Heqb; destruct (draining s) eqn:Hdr in *; simpl; fin2.
  - step_inv H; simpl; rwpc; simpl; fin2.
Qed.

Lemma trace_accepted_from : forall sched s s', InvT s -> run s sched = Some s' ->
  drainer_accepts_from (qstate s) (trace accepts size s sched) = true.
Proof.
  induction sched as [|t r IH]; intros s s' I H; simpl in *.
  - reflexivity.
  - destruct (step s t) eqn:E; [|discriminate].
    rewrite (trace_step _ _ _ _ I E). eapply IH; [eapply InvT_step; eauto | eauto].
Qed.

Lemma trace_accepted : forall progs sched s, run (init progs) sched = Some s ->
  drainer_accepts (trace accepts size (init progs) sched) = true.
Proof.
  intros. unfold drainer_accepts. change 0 with (qstate (init progs)).
  eapply trace_accepted_from; eauto. constructor; simpl; intros; congruence.
Qed.
End Proofs6.

Section Proofs7.
Variable accepts : list tsample -> tsample -> bool.
Variable size : nat.
Notation step := (step accepts size).
Notation run := (run accepts size).
Hypothesis always : forall l x, accepts l x = true.

(* an inner collector that never rejects: the buffered collector's catcher stays empty *)
Record InvA (s : state) : Prop := {
  A1 : catcher s = [];
  A2 : forall x, dp s <> DApplied x false /\ dp s <> DCatch x false
}.

Lemma InvA_step : forall s t s', InvA s -> step s t = Some s' -> InvA s'.
Proof.
  intros s t s' [a1 a2] H. unfold_step H.
  - step_inv H; (constructor; simpl; [fin2 | intros y; pose proof (a2 y); rwpc; fin2]).
  - step_inv H; (constructor; simpl; [fin2 | intros y; pose proof (a2 y); rwpc; fin2]).
  - step_inv H; try (rewrite always in *; discriminate); destruct (draining s) eqn:Hdr in *;
    (constructor; simpl; [ try (pose proof (a2 x)); try (destruct ok); fin2 | intros y; pose proof (a2 y); fin2]).
  - step_inv H; (constructor; simpl; [fin2 | intros y; pose proof (a2 y); fin2]).
  - step_inv H; (constructor; simpl; [fin2 | intros y; pose proof (a2 y); fin2]).
Qed.

Lemma no_reject_catcher_empty : forall progs sched s, run (init progs) sched = Some s -> catcher s = [].
Proof.
  intros progs sched. 
  assert (G : forall sched s s', InvA s -> run s sched = Some s' -> InvA s').
  { induction sched0 as [|t r IH]; intros s s' I H; simpl in H.
    - inversion H; subst; auto.
    - destruct (step s t) eqn:E; [|discriminate]. eapply IH; [|exact H]. eapply InvA_step; eauto. }
  intros s R. apply (G sched (init progs) s); auto.
  constructor; simpl; auto. intros; split; congruence.
Qed.
End Proofs7.

Section Proofs8.
Variable accepts : list tsample -> tsample -> bool.
Variable size : nat.
Notation step := (step accepts size).
Notation run := (run accepts size).
Notation quiescent := (quiescent accepts size).

(* with an inner collector that never rejects, everything acknowledged before the cancel event
   is in the inner log of every later quiescent state *)
Lemma delivery_no_reject : (forall l x, accepts l x = true) ->
  forall progs sched1 s1 s2 sched2 s,
  run (init progs) sched1 = Some s1 -> step s1 Cancel = Some s2 -> run s2 sched2 = Some s ->
  quiescent s ->
  forall x, In x (backed (ghist s1)) -> In (Drainer, x) (olog s).
Proof.
  intros always progs sched1 s1 s2 sched2 s R1 C R2 Hq x Hin.
  destruct (delivery accepts size _ _ _ _ _ _ R1 C R2 Hq) as [_ Hd].
  destruct (Hd x Hin) as [A|A]; auto.
  assert (R : run (init progs) (sched1 ++ Cancel :: sched2) = Some s).
  { clear - R1 C R2. revert R1. generalize (init progs). induction sched1 as [|t r IH]; intros s0 R1; simpl in *.
    - inversion R1; subst. simpl in C. rewrite C. exact R2.
    - destruct (SysBuffered.step accepts size s0 t); [|discriminate]. apply IH; auto. }
  rewrite (no_reject_catcher_empty accepts size always _ _ _ R) in A. contradiction.
Qed.

(* clients beyond the given programs never do anything *)
Lemma beyond_programs : forall progs sched s, run (init progs) sched = Some s ->
  forall g, length progs <= g -> prog s g = [].
Proof.
  intros progs sched s R g L. destruct (linearizable accepts size _ _ _ R) as [_ [B _]].
  destruct (B g) as [B1 _]. rewrite (nth_overflow progs [] L) in B1.
  apply app_eq_nil in B1. tauto.
Qed.

Lemma quiescent_upto_sound : forall G s, (forall g, G <= g -> prog s g = []) ->
  quiescent_upto accepts size G s = true -> quiescent s.
Proof.
  intros G s Hb Hq. unfold quiescent_upto in Hq.
  repeat (apply andb_prop in Hq; destruct Hq as [Hq ?]).
  rewrite forallb_forall in Hq. unfold enabledb in *.
  intros t. destruct t as [g|g| | |].
  - destruct (Nat.lt_ge_cases g G) as [L|L].
    + assert (Hin : In g (seq 0 G)) by (apply in_seq; lia). apply Hq in Hin.
      apply andb_prop in Hin. destruct Hin as [A _]. destruct (step s (P g)); [discriminate|reflexivity].
    + simpl. unfold step_client. rewrite (Hb g L). reflexivity.
  - destruct (Nat.lt_ge_cases g G) as [L|L].
    + assert (Hin : In g (seq 0 G)) by (apply in_seq; lia). apply Hq in Hin.
      apply andb_prop in Hin. destruct Hin as [_ A]. destruct (step s (Pc g)); [discriminate|reflexivity].
    + simpl. unfold step_ctx. rewrite (Hb g L). destruct (pc s g); reflexivity.
  - destruct (step s D); [discriminate|reflexivity].
  - destruct (step s Dc); [discriminate|reflexivity].
  - destruct (step s Cancel); [discriminate|reflexivity].
Qed.
End Proofs8.

Section Proofs9.
Variable accepts : list tsample -> tsample -> bool.
Variable size : nat.
Notation step := (step accepts size).
Notation run := (run accepts size).

(* ------------------------------------------------------------------ Resolve snapshots are prefixes *)
Definition snap_ok (r : result) (lg : list tsample) : Prop :=
  match r with RSnap l => exists suf, lg = l ++ suf | _ => True end.

Lemma snap_ok_app : forall r lg x, snap_ok r lg -> snap_ok r (lg ++ x).
Proof.
  intros r lg x H. destruct r; simpl in *; auto. destruct H as [suf H]. exists (suf ++ x).
  rewrite H, app_assoc. reflexivity.
Qed.

Lemma snap_ok_self : forall lg, snap_ok (RSnap lg) lg.
Proof. intros. exists []. rewrite app_nil_r. reflexivity. Qed.

Record InvS (s : state) : Prop := {
  S1 : forall e, In e (ghist s) -> snap_ok (er e) (log s);
  S2 : forall g r, pc s g = CApplied r \/ pc s g = CRApplied r -> snap_ok r (log s)
}.

Lemma log_app : forall s x, map snd (olog s ++ [x]) = log s ++ [snd x].
Proof. intros. unfold log. rewrite map_app. reflexivity. Qed.

Ltac s1tac s1 s2 :=
  let e := fresh "e" in let Hin := fresh "Hin" in
  intros e Hin; try (apply in_app_or in Hin; destruct Hin as [Hin|[Hin|[]]]);
  [ try apply snap_ok_app; apply s1; exact Hin
  | try (subst e; simpl; try exact I; try apply snap_ok_app; eapply s2; eauto) .. ].

Lemma InvS_step : forall s t s', InvS s -> step s t = Some s' -> InvS s'.
Proof.
  intros s t s' [s1 s2] H. unfold_step H.
  - step_inv H; (constructor; simpl; unfold log in *; simpl; rewrite ?map_app; simpl;
    [ s1tac s1 s2
    | intros j rr Hj; upd_cases;
      [ try (destruct Hj as [Hj|Hj]; try discriminate Hj; inversion Hj; subst; simpl; try exact I;
             try (exists []; rewrite app_nil_r; reflexivity))
      | try apply snap_ok_app; eapply s2; eauto ] .. ]).
  - step_inv H; (constructor; simpl;
    [ s1tac s1 s2 | intros j rr Hj; upd_cases; [ destruct Hj; discriminate | eapply s2; eauto ] ]).
  - step_inv H; (constructor; simpl; unfold log in *; simpl; rewrite ?map_app; simpl;
    [ s1tac s1 s2 | intros j rr Hj; try apply snap_ok_app; eapply s2; eauto ]).
  - step_inv H; (constructor; simpl; [ s1tac s1 s2 | intros j rr Hj; eapply s2; eauto ]).
  - step_inv H; (constructor; simpl; [ s1tac s1 s2 | intros j rr Hj; eapply s2; eauto ]).
Qed.

(* every completed Resolve returned a prefix of the (current, hence also the final) inner log *)
Lemma snapshots_prefix : forall progs sched s, run (init progs) sched = Some s ->
  forall e l, In e (ghist s) -> er e = RSnap l -> exists suf, log s = l ++ suf.
Proof.
  intros progs sched.
  assert (G : forall sched s s', InvS s -> run s sched = Some s' -> InvS s').
  { induction sched0 as [|t r IH]; intros s s' I H; simpl in H.
    - inversion H; subst; auto.
    - destruct (step s t) eqn:E; [|discriminate]. eapply IH; [|exact H]. eapply InvS_step; eauto. }
  intros s R e l Hin He.
  assert (I : InvS s).
  { apply (G sched (init progs) s); auto. constructor; simpl.
    - intros ? [].
    - intros g r [A|A]; discriminate. }
  pose proof (S1 _ I e Hin) as A. rewrite He in A. exact A.
Qed.
End Proofs9.
