(* The structural validator of Model/Validate.v: unfolding lemmas, and: the
   validator accepts every canonical encoding of a representable document
   whose binary subtypes the reader tolerates. *)
From Coq Require Import ZArith NArith List Bool Lia Arith.
From FV.Model Require Import Bytes Bson Metrics Codec Wf Validate Frame FrameOk.
From FV.Proofs Require Import BytesProofs BsonProofs.
Import ListNotations.
Open Scope N_scope.

Section V.
Variable f : nat.
Definition v_embedded (l : bytes) : option bytes :=
  match read_i32 l with
  | Some (n, _) =>
      if (n <? 5)%Z then None
      else match take_n l (Z.to_N n) with
           | Some (d, rest) => if validate_doc f d then Some rest else None
           | None => None
           end
  | None => None
  end.

Definition v_value (t : N) (l : bytes) : option bytes :=
  match t with
  | 1 | 9 | 17 | 18 => drop_n l 8
  | 2 | 13 | 14 => skip_str l
  | 3 | 4 => v_embedded l
  | 5 => match read_i32 l with
         | Some (n, r) =>
             if (n <? 0)%Z then None
             else match r with
                  | st :: _ => if (5 <? st) && (st <? 128) then None
                               else drop_n r (1 + Z.to_N n)
                  | [] => None
                  end
         | None => None
         end
  | 6 | 10 | 255 | 127 => Some l
  | 7 => drop_n l 12
  | 8 => match l with x :: r => if x <=? 1 then Some r else None | [] => None end
  | 11 => match skip_cstr l with Some r => skip_cstr r | None => None end
  | 12 => match skip_str l with Some r => drop_n r 12 | None => None end
  | 15 => match read_i32 l with
          | Some (total, r) =>
              match skip_str r with
              | Some r1 =>
                  match v_embedded r1 with
                  | Some r2 =>
                      if (total =? 4 + Z.of_nat (length r) - Z.of_nat (length r2))%Z then Some r2 else None
                  | None => None
                  end
              | None => None
              end
          | None => None
          end
  | 16 => drop_n l 4
  | 19 => drop_n l 16
  | _ => None
  end.

Fixpoint v_elems (fuel' : nat) (body : bytes) {struct fuel'} : bool :=
  match fuel' with
  | O => false
  | S f' =>
      match body with
      | [] => true
      | t :: r =>
          match skip_cstr r with
          | Some r1 => match v_value t r1 with
                       | Some r2 => v_elems f' r2
                       | None => false
                       end
          | None => false
          end
      end
  end.
End V.

Lemma validate_doc_S : forall f b,
  validate_doc (S f) b =
  match read_i32 b with
  | Some (n, r) =>
      (5 <=? n)%Z && (n =? Z.of_nat (length b))%Z && (last b 1 =? 0)
      && v_elems f (S (length b)) (removelast r)
  | None => false
  end.
Proof. reflexivity. Qed.

(* ------------------------------------------------------------------ helpers *)
Lemma fv_take_n_app : forall (a rest : bytes) n, N.of_nat (length a) = n ->
  take_n (a ++ rest) n = Some (a, rest).
Proof.
  induction a as [|x a IH]; intros rest n Hn.
  - cbn [length] in Hn. subst n. destruct rest; reflexivity.
  - cbn [length] in Hn. cbn [app take_n].
    replace (n =? 0) with false by (symmetry; apply N.eqb_neq; lia).
    rewrite (IH rest (n - 1)) by lia. reflexivity.
Qed.

Lemma fv_drop_n_app : forall (a rest : bytes) n, N.of_nat (length a) = n ->
  drop_n (a ++ rest) n = Some rest.
Proof. intros. unfold drop_n. rewrite fv_take_n_app by assumption. reflexivity. Qed.

Lemma fv_take_n_length : forall l n a rest, take_n l n = Some (a, rest) ->
  l = a ++ rest /\ N.of_nat (length a) = n.
Proof.
  induction l as [|x l IH]; intros n a rest H.
  - cbn [take_n] in H. destruct (n =? 0) eqn:E; [|discriminate H].
    injection H as <- <-. apply N.eqb_eq in E. split; [reflexivity|]. cbn. lia.
  - cbn [take_n] in H. destruct (n =? 0) eqn:E.
    + injection H as <- <-. apply N.eqb_eq in E. split; [reflexivity|]. cbn. lia.
    + destruct (take_n l (n - 1)) as [[a' r']|] eqn:E'; [|discriminate H].
      injection H as <- <-. apply N.eqb_neq in E.
      destruct (IH _ _ _ E') as [-> Hl]. split; [reflexivity|]. cbn [length]. lia.
Qed.

Lemma fv_s32_small : forall x, (x < 2 ^ 31)%N -> s32 x = Z.of_N x.
Proof.
  intros x H. unfold s32, wrap32.
  assert (0 <= Z.of_N x < 2 ^ 31)%Z by (split; [lia|]; change (2 ^ 31)%Z with (Z.of_N (2 ^ 31)); lia).
  rewrite Z.mod_small by lia. lia.
Qed.

Lemma fv_read_i32_enc : forall x rest, (x < 2 ^ 31)%N ->
  read_i32 (le_enc 4 x ++ rest) = Some (Z.of_N x, rest).
Proof.
  intros x rest H.
  assert (E : read_i32 (le_enc 4 x ++ rest) = Some (s32 (le_dec (le_enc 4 x)), rest)) by reflexivity.
  rewrite E, bs_le_dec_enc by (rewrite bs_pow4; lia). rewrite fv_s32_small by assumption. reflexivity.
Qed.

Lemma fv_last_snoc : forall (l : bytes) x d, last (l ++ [x]) d = x.
Proof. intros. apply last_last. Qed.

Lemma fv_skip_str : forall s rest, small (bstring s) ->
  skip_str (bstring s ++ rest) = Some rest.
Proof.
  intros s rest Hs. unfold small in Hs. rewrite bs_bstring_length in Hs.
  unfold skip_str, bstring. rewrite <- app_assoc, fv_read_i32_enc by lia.
  replace (Z.of_N (N.of_nat (length s + 1)) <? 1)%Z with false by (symmetry; apply Z.ltb_ge; lia).
  rewrite N2Z.id.
  rewrite fv_take_n_app by (rewrite app_length; cbn [length]; lia).
  rewrite fv_last_snoc. reflexivity.
Qed.

Lemma fv_skip_cstr : forall k rest, key_ok k = true -> skip_cstr (cstring k ++ rest) = Some rest.
Proof. intros. unfold skip_cstr. rewrite bs_split_cstring by assumption. reflexivity. Qed.

Fixpoint arr_bin_ok (a : list value) : bool :=
  match a with [] => true | x :: r => bin_ok x && arr_bin_ok r end.
Lemma fv_bin_VDoc : forall d, bin_ok (VDoc d) = doc_bin_ok d.
Proof. reflexivity. Qed.
Lemma fv_bin_VArr : forall a, bin_ok (VArr a) = arr_bin_ok a.
Proof. reflexivity. Qed.
Lemma fv_bin_VCws : forall c s, bin_ok (VCodeWithScope c s) = doc_bin_ok s.
Proof. reflexivity. Qed.
Lemma fv_bin_arr_keys : forall a i, arr_bin_ok a = true -> doc_bin_ok (arr_keys i a) = true.
Proof.
  induction a; intros i H; cbn [arr_keys doc_bin_ok]; [reflexivity|].
  cbn [arr_bin_ok] in H. apply andb_true_iff in H. destruct H as [H1 H2].
  rewrite H1, IHa by assumption. reflexivity.
Qed.

(* a representable value carries only binary subtypes the validator accepts
   (value_ok refuses 0x06..0x7f), so doc_bin_ok follows from doc_ok *)
Lemma fv_doc_ok_bin_F : forall l,
  Forall (fun kv : bytes * value => value_ok (snd kv) = true -> bin_ok (snd kv) = true) l ->
  doc_ok l = true -> doc_bin_ok l = true.
Proof.
  induction 1 as [|[k x] r Hx _ IH]; intros Hok; [reflexivity|].
  apply bs_doc_ok_cons in Hok. destruct Hok as (_ & Hvx & Hr).
  cbn [doc_bin_ok]. cbn [snd] in Hx. rewrite (Hx Hvx), (IH Hr). reflexivity.
Qed.

Lemma fv_arr_ok_bin_F : forall a,
  Forall (fun x => value_ok x = true -> bin_ok x = true) a ->
  arr_ok a = true -> arr_bin_ok a = true.
Proof.
  induction 1 as [|x r Hx _ IH]; intros Hok; [reflexivity|].
  cbn [arr_ok] in Hok. apply andb_true_iff in Hok. destruct Hok as [Hvx Hr].
  cbn [arr_bin_ok]. rewrite (Hx Hvx), (IH Hr). reflexivity.
Qed.

Lemma value_ok_bin_ok : forall v, value_ok v = true -> bin_ok v = true.
Proof.
  induction v using value_ind'; intros Hok; try reflexivity.
  - rewrite bs_ok_VDoc in Hok. rewrite fv_bin_VDoc. apply fv_doc_ok_bin_F; assumption.
  - rewrite bs_ok_VArr in Hok. rewrite fv_bin_VArr. apply fv_arr_ok_bin_F; assumption.
  - cbn [value_ok] in Hok. cbn [bin_ok]. unfold subtype_ok.
    apply andb_true_iff in Hok. destruct Hok as [Hst _].
    apply orb_true_iff in Hst. apply negb_true_iff. apply andb_false_iff.
    destruct Hst as [Hst|Hst].
    + left. apply N.ltb_ge. apply N.leb_le in Hst. exact Hst.
    + right. apply andb_true_iff in Hst. destruct Hst as [Hst _].
      apply N.ltb_ge. apply N.leb_le in Hst. exact Hst.
  - rewrite bs_ok_VCws in Hok. apply andb_true_iff in Hok. destruct Hok as [_ Hs].
    rewrite fv_bin_VCws. apply fv_doc_ok_bin_F; assumption.
Qed.

Theorem doc_ok_bin_ok : forall d, doc_ok d = true -> doc_bin_ok d = true.
Proof. intros d H. rewrite <- fv_bin_VDoc. apply value_ok_bin_ok. rewrite bs_ok_VDoc. exact H. Qed.

(* the frame of a document: header, terminator *)
Lemma fv_read_i32_frame : forall body rest, small (frame body) ->
  read_i32 (frame body ++ rest) = Some (Z.of_nat (length body + 5), (body ++ [0]) ++ rest).
Proof.
  intros body rest Hs. unfold small in Hs. rewrite bs_frame_length in Hs.
  unfold frame. rewrite <- app_assoc, fv_read_i32_enc by exact Hs. rewrite nat_N_Z. reflexivity.
Qed.

Lemma fv_validate_frame : forall f body,
  small (frame body) ->
  v_elems f (S (length (frame body))) body = true ->
  validate_doc (S f) (frame body) = true.
Proof.
  intros f body Hs Hel. rewrite validate_doc_S.
  pose proof (fv_read_i32_frame body [] Hs) as Hr. rewrite !app_nil_r in Hr. rewrite Hr.
  rewrite removelast_last, Hel.
  assert (Hlast : last (frame body) 1 = 0).
  { unfold frame. rewrite app_assoc. apply fv_last_snoc. }
  rewrite Hlast, bs_frame_length.
  replace (5 <=? Z.of_nat (length body + 5))%Z with true by (symmetry; apply Z.leb_le; lia).
  rewrite Z.eqb_refl. reflexivity.
Qed.

(* ------------------------------------------------------------------ the validator accepts what the encoder writes *)
Definition venc_P (f : nat) : Prop :=
  forall x rest, value_ok x = true -> small (enc_value x) -> bin_ok x = true ->
                 (length (enc_value x) < f)%nat ->
                 v_value f (tag x) (enc_value x ++ rest) = Some rest.

Lemma fv_elems_enc : forall f, venc_P f ->
  forall l fuel',
    doc_ok l = true -> small (enc_elems l) -> doc_bin_ok l = true ->
    (length (enc_elems l) < f)%nat -> (length (enc_elems l) < fuel')%nat ->
    v_elems f fuel' (enc_elems l) = true.
Proof.
  intros f Hv. induction l as [|[k x] r IH]; intros fuel' Hok Hs Hb Hf Hfu.
  - destruct fuel' as [|f']; [cbn [enc_elems length] in Hfu; lia|]. reflexivity.
  - destruct fuel' as [|f']; [lia|].
    apply bs_doc_ok_cons in Hok. destruct Hok as (Hk & Hx & Hr).
    cbn [doc_bin_ok] in Hb. apply andb_true_iff in Hb. destruct Hb as [Hbx Hbr].
    unfold small in Hs. rewrite bs_enc_elems_cons_length in Hs, Hf, Hfu.
    rewrite bs_enc_elems_cons. cbn [v_elems].
    rewrite fv_skip_cstr by assumption.
    rewrite Hv by (try assumption; unfold small; lia).
    apply IH; try assumption; unfold small; lia.
Qed.

Lemma fv_embedded_frame : forall f body rest,
  small (frame body) -> validate_doc f (frame body) = true ->
  v_embedded f (frame body ++ rest) = Some rest.
Proof.
  intros f body rest Hs Hv. unfold v_embedded. rewrite fv_read_i32_frame by assumption.
  replace (Z.of_nat (length body + 5) <? 5)%Z with false by (symmetry; apply Z.ltb_ge; lia).
  rewrite <- (bs_frame_length body).
  rewrite fv_take_n_app by lia.
  rewrite Hv. reflexivity.
Qed.

Lemma fv_validate_elems : forall f l, venc_P f ->
  doc_ok l = true -> small (frame (enc_elems l)) -> doc_bin_ok l = true ->
  (length (frame (enc_elems l)) < S f)%nat ->
  validate_doc (S f) (frame (enc_elems l)) = true.
Proof.
  intros f l Hv Hok Hs Hb Hf. apply fv_validate_frame; [exact Hs|].
  unfold small in Hs. rewrite bs_frame_length in *.
  apply fv_elems_enc; try assumption; unfold small; lia.
Qed.

Lemma fv_enc_value_fuel : forall f, venc_P f.
Proof.
  induction f as [|f IHf]; intros v rest Hok Hs Hb Hf; [lia|].
  assert (Hdoc : forall l rest', doc_ok l = true -> small (frame (enc_elems l)) -> doc_bin_ok l = true ->
            (length (frame (enc_elems l)) < S f)%nat ->
            v_embedded (S f) (frame (enc_elems l) ++ rest') = Some rest').
  { intros l rest' Hl Hsl Hbl Hfl. apply fv_embedded_frame; [exact Hsl|].
    apply fv_validate_elems; assumption. }
  destruct v as [bits|s|d|a|st b| |b|bb|ms| |p o|ns oid|s|s|code scope|i|t i|i|b| | ];
    cbn [tag].
  - (* VDouble *) cbn [enc_value]. apply fv_drop_n_app. rewrite bs_le_enc_length. reflexivity.
  - (* VString *) cbn [enc_value] in *. apply fv_skip_str. exact Hs.
  - (* VDoc *) rewrite bs_enc_VDoc in *. rewrite bs_ok_VDoc in Hok. rewrite fv_bin_VDoc in Hb.
    apply Hdoc; assumption.
  - (* VArr *) rewrite bs_enc_VArr in *. rewrite bs_ok_VArr in Hok. rewrite fv_bin_VArr in Hb.
    apply Hdoc; try assumption; [apply bs_doc_ok_arr_keys; assumption|apply fv_bin_arr_keys; assumption].
  - (* VBinary *)
    cbn [enc_value value_ok bin_ok] in *. unfold small in Hs.
    rewrite app_length, bs_le_enc_length in Hs. cbn [length] in Hs.
    cbn [v_value]. rewrite <- app_assoc, fv_read_i32_enc by lia.
    replace (Z.of_N (N.of_nat (length b)) <? 0)%Z with false by (symmetry; apply Z.ltb_ge; lia).
    cbn [app]. unfold subtype_ok in Hb. apply negb_true_iff in Hb. rewrite Hb.
    change (st :: b ++ rest) with ((st :: b) ++ rest). apply fv_drop_n_app. cbn [length]. lia.
  - (* VUndefined *) reflexivity.
  - (* VObjectID *)
    cbn [enc_value value_ok] in *. apply andb_true_iff in Hok. destruct Hok as [_ Hl].
    apply Nat.eqb_eq in Hl. apply fv_drop_n_app. rewrite Hl. reflexivity.
  - (* VBool *) destruct bb; reflexivity.
  - (* VDateTime *) cbn [enc_value]. apply fv_drop_n_app. rewrite bs_le_enc_length. reflexivity.
  - (* VNull *) reflexivity.
  - (* VRegex *)
    cbn [enc_value value_ok] in *. apply andb_true_iff in Hok. destruct Hok as [Hp Ho].
    cbn [v_value]. rewrite <- app_assoc, fv_skip_cstr by assumption. apply fv_skip_cstr. assumption.
  - (* VDBPointer *)
    cbn [enc_value value_ok] in *. apply andb_true_iff in Hok. destruct Hok as [Hok Hl].
    apply Nat.eqb_eq in Hl. unfold small in Hs. rewrite app_length in Hs.
    cbn [v_value]. rewrite <- app_assoc, fv_skip_str by (unfold small; lia).
    apply fv_drop_n_app. rewrite Hl. reflexivity.
  - (* VJavaScript *) cbn [enc_value] in *. apply fv_skip_str. exact Hs.
  - (* VSymbol *) cbn [enc_value] in *. apply fv_skip_str. exact Hs.
  - (* VCodeWithScope *)
    rewrite bs_enc_VCws in *. rewrite bs_ok_VCws in Hok. rewrite fv_bin_VCws in Hb.
    apply andb_true_iff in Hok. destruct Hok as [Hc Hsc].
    unfold small in Hs. rewrite !app_length, bs_le_enc_length in Hs, Hf.
    cbn [v_value].
    rewrite <- (app_assoc (le_enc 4 _)).
    rewrite fv_read_i32_enc by (rewrite !app_length; lia).
    rewrite <- (app_assoc (bstring code)).
    rewrite fv_skip_str by (unfold small; lia).
    rewrite Hdoc by (try assumption; unfold small; lia).
    replace (_ =? _)%Z with true; [reflexivity|].
    symmetry. apply Z.eqb_eq. rewrite !app_length. lia.
  - (* VInt32 *) cbn [enc_value]. apply fv_drop_n_app. rewrite bs_le_enc_length. reflexivity.
  - (* VTimestamp *) cbn [enc_value]. rewrite <- app_assoc.
    rewrite app_assoc. apply fv_drop_n_app. rewrite app_length, !bs_le_enc_length. reflexivity.
  - (* VInt64 *) cbn [enc_value]. apply fv_drop_n_app. rewrite bs_le_enc_length. reflexivity.
  - (* VDecimal128 *)
    cbn [enc_value value_ok] in *. apply andb_true_iff in Hok. destruct Hok as [_ Hl].
    apply Nat.eqb_eq in Hl. apply fv_drop_n_app. rewrite Hl. reflexivity.
  - (* VMinKey *) reflexivity.
  - (* VMaxKey *) reflexivity.
Qed.

Theorem validate_enc_doc : forall d,
  doc_ok d = true -> small (enc_doc d) -> validate (enc_doc d) = true.
Proof.
  intros d Hok Hs. pose proof (doc_ok_bin_ok d Hok) as Hb. unfold validate, enc_doc in *.
  apply fv_validate_elems; try assumption; [apply fv_enc_value_fuel|lia].
Qed.

Theorem frame_ok_enc : forall d,
  doc_ok d = true -> small (enc_doc d) -> frame_ok d.
Proof.
  intros d Hok Hs. split; [apply validate_enc_doc; assumption|].
  pose proof (dec_enc_doc d [] Hok Hs) as H. rewrite app_nil_r in H. exact H.
Qed.
