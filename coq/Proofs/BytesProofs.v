(* Round-trip facts about the byte-level model (Model/Bytes.v) and the delta /
   zero-run-length / metric-major parts of the codec model (Model/Codec.v).
   Interface file: other proof files are written against these names. *)
From Coq Require Import ZArith NArith List Bool Lia Arith.
From Coq Require Import ZifyN ZifyNat ZifyBool.
From FV.Model Require Import Bytes Bson Metrics Codec.
Import ListNotations.

(* lia extended with the equations of / and mod; a local tactic rather than a
   redefinition of Zify.zify_post_hook, which would leak into every file that
   requires this one *)
Ltac dlia := zify; Z.div_mod_to_equations; lia.

(* ---------------------------------------------------------------- little endian, two's complement *)
Lemma le_enc_length : forall n x, length (le_enc n x) = n.
Proof. induction n as [|n IH]; intros x; cbn [le_enc length]; [reflexivity| now rewrite IH]. Qed.

Lemma le_enc_wf : forall n x, wf_bytes (le_enc n x).
Proof.
  unfold wf_bytes. induction n as [|n IH]; intros x; cbn [le_enc]; constructor.
  - apply N.mod_lt. discriminate.
  - apply IH.
Qed.

Lemma le_dec_enc : forall n x, (x < 256 ^ N.of_nat n)%N -> le_dec (le_enc n x) = x.
Proof.
  induction n as [|n IH]; intros x Hx.
  - cbn [le_enc le_dec]. change (256 ^ N.of_nat 0)%N with 1%N in Hx. dlia.
  - cbn [le_enc le_dec]. rewrite IH.
    + dlia.
    + rewrite Nat2N.inj_succ, N.pow_succ_r' in Hx.
      apply N.div_lt_upper_bound; [discriminate| exact Hx].
Qed.

Lemma firstn_app_exact : forall (A : Type) (l1 l2 : list A) k, length l1 = k -> firstn k (l1 ++ l2) = l1.
Proof.
  intros A l1 l2 k Hk. subst k. rewrite firstn_app, Nat.sub_diag, firstn_all. cbn [firstn]. apply app_nil_r.
Qed.
Lemma skipn_app_exact : forall (A : Type) (l1 l2 : list A) k, length l1 = k -> skipn k (l1 ++ l2) = l2.
Proof.
  intros A l1 l2 k Hk. subst k. rewrite skipn_app, Nat.sub_diag, skipn_all. reflexivity.
Qed.

Lemma le_dec_enc_app_firstn : forall n x rest, firstn n (le_enc n x ++ rest) = le_enc n x /\ skipn n (le_enc n x ++ rest) = rest.
Proof.
  intros n x rest. split; [apply firstn_app_exact | apply skipn_app_exact]; apply le_enc_length.
Qed.

Lemma in_i64_iff : forall z, in_i64 z = true <-> (- 2 ^ 63 <= z < 2 ^ 63)%Z.
Proof. intros z. unfold in_i64. rewrite andb_true_iff, Z.leb_le, Z.ltb_lt. tauto. Qed.
Lemma in_i32_iff : forall z, in_i32 z = true <-> (- 2 ^ 31 <= z < 2 ^ 31)%Z.
Proof. intros z. unfold in_i32. rewrite andb_true_iff, Z.leb_le, Z.ltb_lt. tauto. Qed.
Lemma in_u32_iff : forall z, in_u32 z = true <-> (0 <= z < 2 ^ 32)%Z.
Proof. intros z. unfold in_u32. rewrite andb_true_iff, Z.leb_le, Z.ltb_lt. tauto. Qed.

Lemma wrap64_range : forall z, in_i64 (wrap64 z) = true.
Proof. intros z. apply in_i64_iff. unfold wrap64. dlia. Qed.
Lemma wrap64_id : forall z, in_i64 z = true -> wrap64 z = z.
Proof. intros z Hz. apply in_i64_iff in Hz. unfold wrap64. dlia. Qed.
Lemma wrap64_add_sub : forall a b, in_i64 b = true -> wrap64 (a + wrap64 (b - a)) = b.
Proof. intros a b Hb. apply in_i64_iff in Hb. unfold wrap64. dlia. Qed.
Lemma wrap32_id : forall z, in_i32 z = true -> wrap32 z = z.
Proof. intros z Hz. apply in_i32_iff in Hz. unfold wrap32. dlia. Qed.
Lemma u64_lt : forall z, (u64 z < 2 ^ 64)%N.
Proof. intros z. unfold u64. dlia. Qed.
Lemma s64_u64 : forall z, in_i64 z = true -> s64 (u64 z) = z.
Proof. intros z Hz. apply in_i64_iff in Hz. unfold s64, u64, wrap64. dlia. Qed.
Lemma u64_zero_iff : forall z, in_i64 z = true -> (u64 z = 0%N <-> z = 0%Z).
Proof. intros z Hz. apply in_i64_iff in Hz. unfold u64. dlia. Qed.
Lemma u32_lt : forall z, (u32 z < 2 ^ 32)%N.
Proof. intros z. unfold u32. dlia. Qed.
Lemma s32_u32 : forall z, in_i32 z = true -> s32 (u32 z) = z.
Proof. intros z Hz. apply in_i32_iff in Hz. unfold s32, u32, wrap32. dlia. Qed.
Lemma u32_id : forall z, in_u32 z = true -> Z.of_N (u32 z) = z.
Proof. intros z Hz. apply in_u32_iff in Hz. unfold u32. dlia. Qed.

(* ---------------------------------------------------------------- unsigned varints *)
Lemma uvarint_enc_fuel_nonempty : forall f x, uvarint_enc_fuel f x <> [].
Proof. intros [|f] x; cbn [uvarint_enc_fuel]; [|destruct (x <? 128)%N]; discriminate. Qed.
Lemma uvarint_enc_nonempty : forall x, uvarint_enc x <> [].
Proof. intros x. apply uvarint_enc_fuel_nonempty. Qed.

Lemma uvarint_enc_fuel_wf : forall f x, wf_bytes (uvarint_enc_fuel f x).
Proof.
  unfold wf_bytes. induction f as [|f IH]; intros x; cbn [uvarint_enc_fuel].
  - constructor; [dlia | constructor].
  - destruct (x <? 128)%N eqn:Hlt.
    + constructor; [dlia | constructor].
    + constructor; [dlia | apply IH].
Qed.
Lemma uvarint_enc_wf : forall x, wf_bytes (uvarint_enc x).
Proof. intros x. apply uvarint_enc_fuel_wf. Qed.

Lemma uvarint_dec_aux_cons : forall f i acc sh b r,
  uvarint_dec_aux (S f) i acc sh (b :: r) =
  if (b <? 128)%N then
    if Nat.eqb i 9 && (1 <? b)%N then VOverflow else VOk ((acc + b * sh) mod 2 ^ 64)%N r
  else uvarint_dec_aux f (S i) (acc + (b - 128) * sh)%N (sh * 128)%N r.
Proof. reflexivity. Qed.

Lemma uvarint_dec_aux_enc : forall f i acc sh x rest,
  (i + f = 9)%nat -> sh = (128 ^ N.of_nat i)%N -> (acc + x * sh < 2 ^ 64)%N ->
  uvarint_dec_aux (S f) i acc sh (uvarint_enc_fuel f x ++ rest) = VOk (acc + x * sh)%N rest.
Proof.
  induction f as [|f IH]; intros i acc sh x rest Hi Hsh Hinv.
  - assert (i = 9)%nat by dlia. subst i.
    change (128 ^ N.of_nat 9)%N with 9223372036854775808%N in Hsh.
    change (2 ^ 64)%N with 18446744073709551616%N in Hinv.
    assert (Hx : (x < 2)%N) by nia.
    cbn [uvarint_enc_fuel app]. rewrite uvarint_dec_aux_cons.
    assert (Hm : (x mod 128 = x)%N) by (apply N.mod_small; dlia). rewrite Hm.
    replace (x <? 128)%N with true by dlia.
    replace (1 <? x)%N with false by dlia.
    rewrite andb_false_r.
    rewrite N.mod_small; [reflexivity|].
    change (2 ^ 64)%N with 18446744073709551616%N. exact Hinv.
  - cbn [uvarint_enc_fuel].
    destruct (x <? 128)%N eqn:Hlt.
    + cbn [app]. rewrite uvarint_dec_aux_cons. rewrite Hlt.
      replace (Nat.eqb i 9) with false by (symmetry; apply Nat.eqb_neq; dlia).
      cbn [andb]. rewrite N.mod_small by exact Hinv. reflexivity.
    + cbn [app]. rewrite uvarint_dec_aux_cons.
      replace (x mod 128 + 128 <? 128)%N with false by dlia.
      rewrite N.add_sub.
      assert (Heq : (acc + x mod 128 * sh + x / 128 * (sh * 128) = acc + x * sh)%N).
      { pose proof (N.div_mod x 128 ltac:(discriminate)) as Hdm.
        remember (x / 128)%N as q. remember (x mod 128)%N as r.
        rewrite Hdm. ring. }
      rewrite IH.
      * rewrite Heq. reflexivity.
      * dlia.
      * subst sh. rewrite Nat2N.inj_succ, N.pow_succ_r'. ring.
      * rewrite Heq. exact Hinv.
Qed.

Lemma uvarint_dec_enc : forall x rest, (x < 2 ^ 64)%N -> uvarint_dec (uvarint_enc x ++ rest) = VOk x rest.
Proof.
  intros x rest Hx. unfold uvarint_dec, uvarint_enc.
  rewrite uvarint_dec_aux_enc.
  - f_equal. change (0 + x * 1 = x)%N. rewrite N.mul_1_r. reflexivity.
  - reflexivity.
  - reflexivity.
  - rewrite N.mul_1_r. exact Hx.
Qed.

(* ---------------------------------------------------------------- deltas, zero-run coding, metric-major order *)
Fixpoint deltas_of (start : Z) (vals : list Z) : list Z :=
  match vals with [] => [] | v :: r => wrap64 (v - start) :: deltas_of v r end.

Lemma undelta_deltas_of : forall vals start, Forall (fun v => in_i64 v = true) vals ->
  undelta start (deltas_of start vals) = start :: vals.
Proof.
  induction vals as [|v r IH]; intros start Hall.
  - reflexivity.
  - inversion Hall as [|v' r' Hv Hr]; subst.
    cbn [deltas_of undelta]. rewrite wrap64_add_sub by exact Hv.
    rewrite IH by exact Hr. reflexivity.
Qed.

Lemma undelta_length : forall start ds, length (undelta start ds) = S (length ds).
Proof.
  intros start ds. revert start. induction ds as [|d r IH]; intros start.
  - reflexivity.
  - cbn [undelta length]. rewrite IH. reflexivity.
Qed.

(* ---- RLE ---- *)
Definition prefix_zeros (n : nat) (o : option (list Z * bytes)) : option (list Z * bytes) :=
  match o with Some (ds, r) => Some (repeat 0%Z n ++ ds, r) | None => None end.

Lemma read_deltas_S : forall c nz l,
  read_deltas (S c) nz l =
  if (nz =? 0)%N then
    match uvarint_dec l with
    | VOk d r =>
        if (d =? 0)%N then
          match uvarint_dec r with
          | VOk z r' => match read_deltas c z r' with
                        | Some (ds, r'') => Some (0%Z :: ds, r'') | None => None end
          | _ => None
          end
        else match read_deltas c 0%N r with
             | Some (ds, r') => Some (s64 d :: ds, r') | None => None end
    | _ => None
    end
  else match read_deltas c (nz - 1)%N l with
       | Some (ds, r) => Some (0%Z :: ds, r) | None => None end.
Proof. reflexivity. Qed.

Lemma repeat_snoc_app : forall (A : Type) (a : A) n l, repeat a (S n) ++ l = repeat a n ++ a :: l.
Proof.
  intros A a n l. induction n as [|n IH].
  - reflexivity.
  - cbn [repeat app] in *. rewrite IH. reflexivity.
Qed.

Lemma read_deltas_pending : forall n nz tail l, N.of_nat n = nz ->
  read_deltas (n + tail) nz l = prefix_zeros n (read_deltas tail 0%N l).
Proof.
  induction n as [|n IH]; intros nz tail l Hn.
  - cbn [Nat.add]. subst nz. change (N.of_nat 0) with 0%N.
    unfold prefix_zeros. cbn [repeat app].
    destruct (read_deltas tail 0%N l) as [[ds r]|]; reflexivity.
  - cbn [Nat.add]. rewrite read_deltas_S.
    replace (nz =? 0)%N with false by dlia.
    rewrite (IH (nz - 1)%N tail l) by dlia.
    unfold prefix_zeros.
    destruct (read_deltas tail 0%N l) as [[ds r]|]; reflexivity.
Qed.

Lemma read_deltas_flush : forall zc tail l, (zc < 2 ^ 64)%N ->
  read_deltas (N.to_nat zc + tail) 0%N (flush_zeros zc ++ l)
  = prefix_zeros (N.to_nat zc) (read_deltas tail 0%N l).
Proof.
  intros zc tail l Hzc. unfold flush_zeros.
  destruct (zc =? 0)%N eqn:Hz.
  - assert (zc = 0%N) by dlia. subst zc. change (N.to_nat 0) with 0%nat.
    cbn [Nat.add app]. unfold prefix_zeros. cbn [repeat app].
    destruct (read_deltas tail 0%N l) as [[ds r]|]; reflexivity.
  - assert (Hs : N.to_nat zc = S (N.to_nat (zc - 1))) by dlia.
    rewrite Hs. cbn [Nat.add]. rewrite read_deltas_S.
    change (0 =? 0)%N with true. cbn iota.
    repeat rewrite <- app_assoc.
    rewrite uvarint_dec_enc by dlia.
    change (0 =? 0)%N with true. cbn iota.
    rewrite uvarint_dec_enc by dlia.
    rewrite read_deltas_pending by dlia.
    unfold prefix_zeros.
    destruct (read_deltas tail 0%N l) as [[ds r]|]; reflexivity.
Qed.

Lemma rle_read_deltas_gen : forall ds zc rest,
  Forall (fun d => in_i64 d = true) ds ->
  (zc + N.of_nat (length ds) < 2 ^ 64)%N ->
  read_deltas (N.to_nat zc + length ds) 0%N (rle zc ds ++ rest)
  = Some (repeat 0%Z (N.to_nat zc) ++ ds, rest).
Proof.
  induction ds as [|d r IH]; intros zc rest Hall Hlen.
  - cbn [rle length] in *. rewrite read_deltas_flush by dlia.
    cbn [read_deltas prefix_zeros]. reflexivity.
  - inversion Hall as [|d' r' Hd Hr]; subst.
    cbn [rle length] in *.
    destruct (d =? 0)%Z eqn:Hd0.
    + assert (d = 0%Z) by dlia. subst d.
      replace (N.to_nat zc + S (length r))%nat with (N.to_nat (zc + 1) + length r)%nat by dlia.
      rewrite IH by (try exact Hr; dlia).
      replace (N.to_nat (zc + 1)) with (S (N.to_nat zc)) by dlia.
      rewrite repeat_snoc_app. reflexivity.
    + assert (Hne : d <> 0%Z) by dlia.
      repeat rewrite <- app_assoc.
      rewrite read_deltas_flush by dlia.
      rewrite read_deltas_S.
      change (0 =? 0)%N with true. cbn iota.
      rewrite uvarint_dec_enc by apply u64_lt.
      assert (Hu : u64 d <> 0%N) by (rewrite u64_zero_iff by exact Hd; exact Hne).
      replace (u64 d =? 0)%N with false by dlia.
      pose proof (IH 0%N rest Hr ltac:(dlia)) as IH0.
      change (N.to_nat 0) with 0%nat in IH0. cbn [Nat.add repeat app] in IH0.
      rewrite IH0. rewrite s64_u64 by exact Hd.
      unfold prefix_zeros. reflexivity.
Qed.

Lemma rle_read_deltas : forall ds rest,
  Forall (fun d => in_i64 d = true) ds -> (N.of_nat (length ds) < 2 ^ 64)%N ->
  read_deltas (length ds) 0%N (rle 0%N ds ++ rest) = Some (ds, rest).
Proof.
  intros ds rest Hall Hlen.
  pose proof (rle_read_deltas_gen ds 0%N rest Hall ltac:(dlia)) as H.
  change (N.to_nat 0) with 0%nat in H. cbn [Nat.add repeat app] in H. exact H.
Qed.

(* ---- metric major ---- *)
Lemma column_length : forall i rows, length (column i rows) = length rows.
Proof. intros i rows. unfold column. apply map_length. Qed.

Lemma flat_map_column_length : forall rows n a,
  length (flat_map (fun i => column i rows) (seq a n)) = (n * length rows)%nat.
Proof.
  intros rows. induction n as [|n IH]; intros a.
  - reflexivity.
  - cbn [seq flat_map]. rewrite app_length, column_length, IH. reflexivity.
Qed.

Lemma metric_major_length : forall n rows, Forall (fun r => length r = n) rows ->
  length (metric_major n rows) = (n * length rows)%nat.
Proof. intros n rows _. unfold metric_major. apply flat_map_column_length. Qed.

Lemma split_every_flat_map_column : forall rows n a,
  split_every (length rows) n (flat_map (fun i => column i rows) (seq a n))
  = map (fun i => column i rows) (seq a n).
Proof.
  intros rows. induction n as [|n IH]; intros a.
  - reflexivity.
  - cbn [seq flat_map split_every map].
    rewrite firstn_app_exact by apply column_length.
    rewrite skipn_app_exact by apply column_length.
    rewrite IH. reflexivity.
Qed.

Lemma split_every_metric_major : forall n rows, Forall (fun r => length r = n) rows ->
  split_every (length rows) n (metric_major n rows) = map (fun i => column i rows) (seq 0 n).
Proof. intros n rows _. unfold metric_major. apply split_every_flat_map_column. Qed.

Print Assumptions uvarint_dec_enc.
Print Assumptions rle_read_deltas.
Print Assumptions split_every_metric_major.
Print Assumptions wrap64_add_sub.
