(* The validator of Model/Validate.v: its fuel suffices, and it accepts only what
   the strict decoder decodes. *)
From Coq Require Import ZArith NArith List Bool Lia Arith.
From FV.Model Require Import Bytes Bson Metrics Codec Wf Validate Frame FrameOk.
From FV.Proofs Require Import BytesProofs BsonProofs FrameValidate.
Import ListNotations.
Open Scope N_scope.

(* case analysis on the element type byte: every branch of v_value *)
Ltac destruct_tag t H :=
  destruct t as [|t]; [try discriminate H|];
  repeat (match type of H with context [match ?p with xI _ => _ | xO _ => _ | xH => _ end] =>
            is_var p; destruct p as [p|p|] end);
  try discriminate H.

Lemma fs_drop_n_len : forall l n r, drop_n l n = Some r -> (length r <= length l)%nat.
Proof.
  intros l n r H. unfold drop_n in H. destruct (take_n l n) as [[a rest]|] eqn:E; [|discriminate H].
  injection H as <-. destruct (fv_take_n_length _ _ _ _ E) as [-> _]. rewrite app_length. lia.
Qed.

Lemma fs_split_cstring_len : forall l k r, split_cstring l = Some (k, r) -> length l = (length k + 1 + length r)%nat.
Proof.
  induction l as [|b l IH]; intros k r H; [discriminate H|]. cbn [split_cstring] in H.
  destruct (b =? 0).
  - injection H as <- <-. cbn. lia.
  - destruct (split_cstring l) as [[k' r']|] eqn:E; [|discriminate H]. injection H as <- <-.
    cbn [length]. rewrite (IH _ _ eq_refl). lia.
Qed.

Lemma fs_skip_cstr_len : forall l r, skip_cstr l = Some r -> (length r < length l)%nat.
Proof.
  intros l r H. unfold skip_cstr in H. destruct (split_cstring l) as [[k r']|] eqn:E; [|discriminate H].
  injection H as <-. rewrite (fs_split_cstring_len _ _ _ E). lia.
Qed.

Lemma fs_read_i32_len : forall l n r, read_i32 l = Some (n, r) -> length l = (4 + length r)%nat.
Proof.
  intros l n r H. destruct l as [|b0 [|b1 [|b2 [|b3 t]]]]; try discriminate H.
  cbn [read_i32] in H. injection H as _ <-. reflexivity.
Qed.

Lemma fs_skip_str_len : forall l r, skip_str l = Some r -> (length r <= length l)%nat.
Proof.
  intros l r H. unfold skip_str in H. destruct (read_i32 l) as [[n r0]|] eqn:E; [|discriminate H].
  destruct (n <? 1)%Z; [discriminate H|].
  destruct (take_n r0 (Z.to_N n)) as [[s rest]|] eqn:E2; [|discriminate H].
  destruct (last s 1 =? 0); [|discriminate H]. injection H as <-.
  destruct (fv_take_n_length _ _ _ _ E2) as [-> _]. rewrite (fs_read_i32_len _ _ _ E), app_length. lia.
Qed.

Lemma fs_embedded_len : forall f l r, v_embedded f l = Some r -> (length r <= length l)%nat.
Proof.
  intros f l r H. unfold v_embedded in H. destruct (read_i32 l) as [[n r0]|]; [|discriminate H].
  destruct (n <? 5)%Z; [discriminate H|].
  destruct (take_n l (Z.to_N n)) as [[d rest]|] eqn:E; [|discriminate H].
  destruct (validate_doc f d); [|discriminate H]. injection H as <-.
  destruct (fv_take_n_length _ _ _ _ E) as [-> _]. rewrite app_length. lia.
Qed.

Lemma fs_value_len : forall f t l r, v_value f t l = Some r -> (length r <= length l)%nat.
Proof.
  intros f t l r H. unfold v_value in H. destruct_tag t H;
    try (injection H as <-; apply le_n);
    try (apply fs_drop_n_len in H; exact H);
    try (apply fs_skip_str_len in H; exact H);
    try (apply fs_embedded_len in H; exact H).
  all: first
    [ solve [ (* code with scope *)
        destruct (read_i32 l) as [[total r0]|] eqn:E; [|discriminate H];
        destruct (skip_str r0) as [r1|] eqn:E1; [|discriminate H];
        destruct (v_embedded f r1) as [r2|] eqn:E2; [|discriminate H];
        destruct (_ =? _)%Z; [|discriminate H]; injection H as <-;
        apply fs_skip_str_len in E1; apply fs_embedded_len in E2; rewrite (fs_read_i32_len _ _ _ E); lia ]
    | solve [ (* binary *)
        destruct (read_i32 l) as [[n r0]|] eqn:E; [|discriminate H];
        destruct (n <? 0)%Z; [discriminate H|]; destruct r0 as [|st r1]; [discriminate H|];
        destruct ((5 <? st) && (st <? 128)); [discriminate H|]; apply fs_drop_n_len in H;
        rewrite (fs_read_i32_len _ _ _ E); lia ]
    | solve [ (* db pointer *)
        destruct (skip_str l) as [r1|] eqn:E1; [|discriminate H]; apply fs_skip_str_len in E1; apply fs_drop_n_len in H; lia ]
    | solve [ (* regex *)
        destruct (skip_cstr l) as [r1|] eqn:E1; [|discriminate H]; apply fs_skip_cstr_len in E1, H; lia ]
    | solve [ (* bool *)
        destruct l as [|x l0]; [discriminate H|]; destruct (x <=? 1); [|discriminate H]; injection H as <-; cbn [length]; lia ] ].
Qed.

(* ------------------------------------------------------------------ the fuel suffices *)
Lemma fs_embedded_ext : forall f1 f2 l,
  (forall d, (length d <= length l)%nat -> validate_doc f1 d = validate_doc f2 d) ->
  v_embedded f1 l = v_embedded f2 l.
Proof.
  intros f1 f2 l H. unfold v_embedded. destruct (read_i32 l) as [[n r0]|]; [|reflexivity].
  destruct (n <? 5)%Z; [reflexivity|].
  destruct (take_n l (Z.to_N n)) as [[d rest]|] eqn:E; [|reflexivity].
  rewrite (H d); [reflexivity|]. destruct (fv_take_n_length _ _ _ _ E) as [-> _]. rewrite app_length. lia.
Qed.

Lemma fs_value_ext : forall f1 f2 t l,
  (forall d, (length d <= length l)%nat -> validate_doc f1 d = validate_doc f2 d) ->
  v_value f1 t l = v_value f2 t l.
Proof.
  intros f1 f2 t l H. unfold v_value.
  destruct t as [|p]; [reflexivity|].
  assert (He : v_embedded f1 l = v_embedded f2 l) by (apply fs_embedded_ext; exact H).
  assert (H15 : forall r0 r1, (length r0 <= length l)%nat -> skip_str r0 = Some r1 -> v_embedded f1 r1 = v_embedded f2 r1).
  { intros r0 r1 Hl Hs. apply fs_embedded_ext. intros d Hd. apply H. apply fs_skip_str_len in Hs. lia. }
  repeat (match goal with |- context [match ?p with xI _ => _ | xO _ => _ | xH => _ end] =>
            is_var p; destruct p as [p|p|] end); try reflexivity; try exact He.
  destruct (read_i32 l) as [[total r0]|] eqn:E; [|reflexivity].
  destruct (skip_str r0) as [r1|] eqn:E1; [|reflexivity].
  rewrite (H15 r0 r1); [reflexivity| |exact E1]. rewrite (fs_read_i32_len _ _ _ E). lia.
Qed.

Lemma fs_elems_ext : forall f1 f2 F body,
  (forall d, (length d <= length body)%nat -> validate_doc f1 d = validate_doc f2 d) ->
  v_elems f1 F body = v_elems f2 F body.
Proof.
  intros f1 f2. induction F as [|F IH]; intros body H; [reflexivity|]. cbn [v_elems].
  destruct body as [|t r]; [reflexivity|].
  destruct (skip_cstr r) as [r1|] eqn:E1; [|reflexivity].
  pose proof (fs_skip_cstr_len _ _ E1) as L1.
  rewrite (fs_value_ext f1 f2 t r1) by (intros d Hd; apply H; cbn [length]; lia).
  destruct (v_value f2 t r1) as [r2|] eqn:E2; [|reflexivity].
  apply IH. intros d Hd. apply H. apply fs_value_len in E2. cbn [length]. lia.
Qed.

(* the inner loop: every iteration consumes at least two bytes *)
Lemma fs_elems_fuel : forall f n F1 F2 body, (length body <= n)%nat -> (length body < F1)%nat -> (length body < F2)%nat ->
  v_elems f F1 body = v_elems f F2 body.
Proof.
  intros f. induction n as [|n IH]; intros F1 F2 body Hn H1 H2.
  - destruct body; [|cbn [length] in Hn; lia]. destruct F1, F2; try lia. reflexivity.
  - destruct F1 as [|F1]; [lia|]. destruct F2 as [|F2]; [lia|]. cbn [v_elems].
    destruct body as [|t r]; [reflexivity|].
    destruct (skip_cstr r) as [r1|] eqn:E1; [|reflexivity].
    destruct (v_value f t r1) as [r2|] eqn:E2; [|reflexivity].
    apply fs_skip_cstr_len in E1. apply fs_value_len in E2. cbn [length] in *. apply IH; lia.
Qed.

Lemma fs_removelast_len : forall (l : bytes), (length (removelast l) <= length l)%nat.
Proof. induction l as [|a [|b l] IH]; cbn [removelast length] in *; lia. Qed.

Lemma fs_validate_fuel_any : forall n f1 f2 b, (length b <= n)%nat -> (length b < f1)%nat -> (length b < f2)%nat ->
  validate_doc f1 b = validate_doc f2 b.
Proof.
  induction n as [|n IH]; intros f1 f2 b Hn H1 H2.
  - destruct b; [|cbn [length] in Hn; lia]. destruct f1, f2; try lia. reflexivity.
  - destruct f1 as [|g1]; [lia|]. destruct f2 as [|g2]; [lia|]. rewrite !validate_doc_S.
    destruct (read_i32 b) as [[sz r]|] eqn:E; [|reflexivity].
    pose proof (fs_read_i32_len _ _ _ E) as L. pose proof (fs_removelast_len r) as L2.
    rewrite (fs_elems_ext g1 g2 (S (length b)) (removelast r)); [reflexivity|].
    intros d Hd. apply IH; lia.
Qed.

Theorem validate_fuel_enough : forall b k, validate_doc (S (length b) + k) b = validate b.
Proof. intros b k. unfold validate. apply (fs_validate_fuel_any (length b)); lia. Qed.

Theorem validate_inner_fuel_enough : forall f body k,
  v_elems f (S (length body) + k) body = v_elems f (S (length body)) body.
Proof. intros f body k. apply (fs_elems_fuel f (length body)); lia. Qed.

(* ------------------------------------------------------------------ the validator accepts only what the decoder decodes *)
Lemma fs_wf_app : forall a b, wf_bytes (a ++ b) -> wf_bytes a /\ wf_bytes b.
Proof. intros a b H. apply Forall_app in H. exact H. Qed.

Lemma fs_le_dec4_lt : forall b0 b1 b2 b3, wf_bytes [b0; b1; b2; b3] -> le_dec [b0; b1; b2; b3] < 2 ^ 32.
Proof.
  intros b0 b1 b2 b3 H. inversion H as [|x0 l0 H0 H']; subst. inversion H' as [|x1 l1 H1 H'']; subst.
  inversion H'' as [|x2 l2 H2 H''']; subst. inversion H''' as [|x3 l3 H3 _]; subst.
  cbn [le_dec]. change (2 ^ 32) with 4294967296. lia.
Qed.

Lemma fs_s32_nonneg : forall x, x < 2 ^ 32 -> (0 <= s32 x)%Z -> s32 x = Z.of_N x.
Proof.
  intros x Hx Hs. unfold s32, wrap32 in *.
  assert (Hb : (0 <= Z.of_N x < 2 ^ 32)%Z) by (split; [lia|]; change (2 ^ 32)%Z with (Z.of_N (2 ^ 32)); lia).
  destruct (Z_lt_le_dec (Z.of_N x) (2 ^ 31)) as [Hl|Hg].
  - rewrite Z.mod_small by lia. lia.
  - exfalso. replace (Z.of_N x + 2 ^ 31)%Z with ((Z.of_N x - 2 ^ 31) + 1 * 2 ^ 32)%Z in Hs by lia.
    rewrite Z.mod_add in Hs by lia. rewrite Z.mod_small in Hs by lia. lia.
Qed.

Lemma fs_read_i32_le_app : forall l n r rest, read_i32 l = Some (n, r) -> wf_bytes l -> (0 <= n)%Z ->
  read_le 4 (l ++ rest) = Some (Z.to_N n, r ++ rest).
Proof.
  intros l n r rest H Hwf Hn. destruct l as [|b0 [|b1 [|b2 [|b3 t]]]]; try discriminate H.
  assert (Hn' : s32 (le_dec [b0; b1; b2; b3]) = n) by (unfold read_i32 in H; congruence).
  assert (Hr : t = r) by (unfold read_i32 in H; congruence). subst r. clear H.
  assert (Hw4 : wf_bytes [b0; b1; b2; b3]).
  { change (b0 :: b1 :: b2 :: b3 :: t) with ([b0; b1; b2; b3] ++ t) in Hwf. apply (fs_wf_app _ _ Hwf). }
  pose proof (fs_le_dec4_lt _ _ _ _ Hw4) as Hlt.
  rewrite <- Hn' in Hn. rewrite (fs_s32_nonneg _ Hlt Hn) in Hn'. subst n. rewrite N2Z.id.
  change ((b0 :: b1 :: b2 :: b3 :: t) ++ rest) with ([b0; b1; b2; b3] ++ (t ++ rest)).
  unfold read_le. rewrite bs_take_exact_app by reflexivity. reflexivity.
Qed.

Lemma fs_read_i32_le : forall l n r, read_i32 l = Some (n, r) -> wf_bytes l -> (0 <= n)%Z ->
  read_le 4 l = Some (Z.to_N n, r).
Proof.
  intros l n r H Hwf Hn. pose proof (fs_read_i32_le_app l n r [] H Hwf Hn) as H'. rewrite !app_nil_r in H'. exact H'.
Qed.

Lemma fs_take_n_exact : forall l n a rest, take_n l n = Some (a, rest) ->
  take_exact (N.to_nat n) l = Some (a, rest) /\ l = a ++ rest /\ length a = N.to_nat n.
Proof.
  intros l n a rest H. destruct (fv_take_n_length _ _ _ _ H) as [-> Hl].
  assert (Hn : N.to_nat n = length a) by lia. split; [|split; [reflexivity|lia]].
  rewrite Hn. apply bs_take_exact_app. reflexivity.
Qed.

Lemma fs_drop_n_exact : forall l n r, drop_n l n = Some r ->
  exists a, take_exact (N.to_nat n) l = Some (a, r) /\ l = a ++ r /\ length a = N.to_nat n.
Proof.
  intros l n r H. unfold drop_n in H. destruct (take_n l n) as [[a rest]|] eqn:E; [|discriminate H].
  injection H as <-. exists a. apply fs_take_n_exact. exact E.
Qed.

Lemma fs_last_split : forall (s : bytes) x, s <> [] -> last s 1 = x -> s = removelast s ++ [x].
Proof. intros s x Hne <-. apply app_removelast_last. exact Hne. Qed.

Lemma fs_skip_str_read : forall l r, skip_str l = Some r -> wf_bytes l -> exists s, read_bstring l = Some (s, r).
Proof.
  intros l r H Hwf. unfold skip_str in H. destruct (read_i32 l) as [[n r0]|] eqn:E; [|discriminate H].
  destruct (n <? 1)%Z eqn:E1; [discriminate H|]. apply Z.ltb_ge in E1.
  destruct (take_n r0 (Z.to_N n)) as [[s' rest]|] eqn:E2; [|discriminate H].
  destruct (last s' 1 =? 0) eqn:E3; [|discriminate H]. injection H as <-. apply N.eqb_eq in E3.
  destruct (fs_take_n_exact _ _ _ _ E2) as (_ & -> & Hl).
  assert (Hne : s' <> []) by (intros ->; cbn [length] in Hl; lia).
  rewrite (fs_last_split s' 0 Hne E3) in *. set (s := removelast s') in *.
  exists s. unfold read_bstring. rewrite (fs_read_i32_le _ _ _ E Hwf ltac:(lia)).
  replace (Z.to_N n <? 1) with false by (symmetry; apply N.ltb_ge; lia).
  rewrite app_length in Hl. cbn [length] in Hl.
  rewrite <- app_assoc. rewrite bs_take_exact_app by lia. cbn [app]. reflexivity.
Qed.

Lemma fs_skip_cstr_split : forall l r, skip_cstr l = Some r -> exists k, split_cstring l = Some (k, r).
Proof.
  intros l r H. unfold skip_cstr in H. destruct (split_cstring l) as [[k r']|]; [|discriminate H].
  injection H as <-. exists k. reflexivity.
Qed.

Lemma fs_read_le_drop : forall l n r, drop_n l (N.of_nat n) = Some r -> exists x, read_le n l = Some (x, r).
Proof.
  intros l n r H. destruct (fs_drop_n_exact _ _ _ H) as (a & Ht & _). rewrite Nat2N.id in Ht.
  unfold read_le. rewrite Ht. eexists. reflexivity.
Qed.

Lemma fs_wf_skipn : forall l a r, l = a ++ r -> wf_bytes l -> wf_bytes r.
Proof. intros l a r -> H. apply (fs_wf_app _ _ H). Qed.


(* what a validator step returns is a suffix of its input *)
Definition suffix (r l : bytes) : Prop := exists a, l = a ++ r.
Lemma suffix_refl : forall l, suffix l l.
Proof. intros l. exists []. reflexivity. Qed.
Lemma suffix_trans : forall a b c, suffix a b -> suffix b c -> suffix a c.
Proof. intros a b c [x ->] [y ->]. exists (y ++ x). rewrite app_assoc. reflexivity. Qed.
Lemma suffix_cons : forall x l, suffix l (x :: l).
Proof. intros x l. exists [x]. reflexivity. Qed.
Lemma suffix_wf : forall r l, suffix r l -> wf_bytes l -> wf_bytes r.
Proof. intros r l [a ->] H. apply (fs_wf_app _ _ H). Qed.

Lemma fs_drop_n_suffix : forall l n r, drop_n l n = Some r -> suffix r l.
Proof. intros l n r H. destruct (fs_drop_n_exact _ _ _ H) as (a & _ & -> & _). exists a. reflexivity. Qed.

Lemma fs_split_cstring_suffix : forall l k r, split_cstring l = Some (k, r) -> suffix r l.
Proof.
  induction l as [|b l IH]; intros k r H; [discriminate H|]. cbn [split_cstring] in H.
  destruct (b =? 0). { injection H as _ <-. apply suffix_cons. }
  destruct (split_cstring l) as [[k' r']|] eqn:E; [|discriminate H]. injection H as _ <-.
  apply (suffix_trans _ l); [apply (IH _ _ eq_refl)|apply suffix_cons].
Qed.

Lemma fs_skip_cstr_suffix : forall l r, skip_cstr l = Some r -> suffix r l.
Proof.
  intros l r H. destruct (fs_skip_cstr_split _ _ H) as [k Hk]. apply (fs_split_cstring_suffix _ _ _ Hk).
Qed.

Lemma fs_read_i32_suffix : forall l n r, read_i32 l = Some (n, r) -> suffix r l.
Proof.
  intros l n r H. destruct l as [|b0 [|b1 [|b2 [|b3 t]]]]; try discriminate H.
  assert (Hr : t = r) by (unfold read_i32 in H; congruence). subst r. exists [b0; b1; b2; b3]. reflexivity.
Qed.

Lemma fs_skip_str_suffix : forall l r, skip_str l = Some r -> suffix r l.
Proof.
  intros l r H. unfold skip_str in H. destruct (read_i32 l) as [[n r0]|] eqn:E; [|discriminate H].
  destruct (n <? 1)%Z; [discriminate H|].
  destruct (take_n r0 (Z.to_N n)) as [[s rest]|] eqn:E2; [|discriminate H].
  destruct (last s 1 =? 0); [|discriminate H]. injection H as <-.
  apply (suffix_trans _ r0); [|apply (fs_read_i32_suffix _ _ _ E)].
  destruct (fs_take_n_exact _ _ _ _ E2) as (_ & -> & _). exists s. reflexivity.
Qed.

Lemma fs_embedded_suffix : forall f l r, v_embedded f l = Some r -> suffix r l.
Proof.
  intros f l r H. unfold v_embedded in H. destruct (read_i32 l) as [[n r0]|]; [|discriminate H].
  destruct (n <? 5)%Z; [discriminate H|].
  destruct (take_n l (Z.to_N n)) as [[d rest]|] eqn:E; [|discriminate H].
  destruct (validate_doc f d); [|discriminate H]. injection H as <-.
  destruct (fs_take_n_exact _ _ _ _ E) as (_ & -> & _). exists d. reflexivity.
Qed.

Lemma fs_value_suffix : forall f t l r, v_value f t l = Some r -> suffix r l.
Proof.
  intros f t l r H. unfold v_value in H. destruct_tag t H;
    try (injection H as <-; apply suffix_refl);
    try (apply fs_drop_n_suffix in H; exact H);
    try (apply fs_skip_str_suffix in H; exact H);
    try (apply fs_embedded_suffix in H; exact H).
  all: first
    [ solve [ destruct (read_i32 l) as [[total r0]|] eqn:E; [|discriminate H];
              destruct (skip_str r0) as [r1|] eqn:E1; [|discriminate H];
              destruct (v_embedded f r1) as [r2|] eqn:E2; [|discriminate H];
              destruct (_ =? _)%Z; [|discriminate H]; injection H as <-;
              apply (suffix_trans _ r1); [apply (fs_embedded_suffix _ _ _ E2)|];
              apply (suffix_trans _ r0); [apply (fs_skip_str_suffix _ _ E1)|apply (fs_read_i32_suffix _ _ _ E)] ]
    | solve [ destruct (read_i32 l) as [[n r0]|] eqn:E; [|discriminate H];
              destruct (n <? 0)%Z; [discriminate H|]; destruct r0 as [|st r1]; [discriminate H|];
              destruct ((5 <? st) && (st <? 128)); [discriminate H|]; apply fs_drop_n_suffix in H;
              apply (suffix_trans _ (st :: r1)); [exact H|apply (fs_read_i32_suffix _ _ _ E)] ]
    | solve [ destruct (skip_str l) as [r1|] eqn:E1; [|discriminate H]; apply fs_drop_n_suffix in H;
              apply (suffix_trans _ r1); [exact H|apply (fs_skip_str_suffix _ _ E1)] ]
    | solve [ destruct (skip_cstr l) as [r1|] eqn:E1; [|discriminate H]; apply fs_skip_cstr_suffix in H;
              apply (suffix_trans _ r1); [exact H|apply (fs_skip_cstr_suffix _ _ E1)] ]
    | solve [ destruct l as [|x l0]; [discriminate H|]; destruct (x <=? 1); [|discriminate H]; injection H as <-; apply suffix_cons ] ].
Qed.

Definition sound_P (f : nat) : Prop :=
  forall t l r, v_value f t l = Some r -> wf_bytes l ->
  forall g, (length l < g)%nat -> exists v, dec_value g t l = Some (v, r).

Lemma fs_elems_sound : forall f, sound_P f ->
  forall F body, v_elems f F body = true -> wf_bytes body ->
  forall g G, (length body < g)%nat -> (length body < G)%nat -> exists es, dec_elems_go g G body = Some es.
Proof.
  intros f HP. induction F as [|F IH]; intros body H Hwf g G Hg HG; [discriminate H|].
  destruct G as [|G]; [lia|]. cbn [v_elems] in H. destruct body as [|t r]; [exists []; reflexivity|].
  destruct (skip_cstr r) as [r1|] eqn:E1; [|discriminate H].
  destruct (v_value f t r1) as [r2|] eqn:E2; [|discriminate H].
  destruct (fs_skip_cstr_split _ _ E1) as [k Hk]. pose proof (fs_skip_cstr_len _ _ E1) as L1.
  pose proof (fs_value_len _ _ _ _ E2) as L2. cbn [length] in Hg, HG.
  assert (Hwr : wf_bytes r) by (inversion Hwf; assumption).
  assert (Hw1 : wf_bytes r1) by (apply (suffix_wf _ r (fs_skip_cstr_suffix _ _ E1) Hwr)).
  destruct (HP t r1 r2 E2 Hw1 g ltac:(lia)) as [v Hv].
  assert (Hw2 : wf_bytes r2) by (apply (suffix_wf _ r1 (fs_value_suffix _ _ _ _ E2) Hw1)).
  destruct (IH r2 H Hw2 g G ltac:(lia) ltac:(lia)) as [es Hes].
  exists ((k, v) :: es). rewrite bs_go_cons, Hk, Hv, Hes. reflexivity.
Qed.

Lemma fs_last_app : forall (a rr : bytes) d, rr <> [] -> last (a ++ rr) d = last rr d.
Proof.
  induction a as [|x a IH]; intros rr d H; [reflexivity|]. cbn [app]. 
  destruct (a ++ rr) eqn:E; [destruct a; [cbn in E; congruence|discriminate E]|]. rewrite <- E. cbn [last].
  rewrite E. rewrite <- E. apply IH. exact H.
Qed.

(* a validated document is a frame whose body the element loop decodes *)
Lemma fs_doc_sound : forall f d, validate_doc (S f) d = true -> wf_bytes d -> sound_P f ->
  forall r g, (length d < g + 5)%nat ->
  exists body es, read_frame (d ++ r) = Some (body, r) /\ length d = (length body + 5)%nat /\
                  dec_elems_go g (S (length body)) body = Some es.
Proof.
  intros f d Hv Hwf HP r g Hg. rewrite validate_doc_S in Hv.
  destruct (read_i32 d) as [[n rr]|] eqn:E; [|discriminate Hv].
  apply andb_true_iff in Hv. destruct Hv as [Hv Hel].
  apply andb_true_iff in Hv. destruct Hv as [Hv Hlast].
  apply andb_true_iff in Hv. destruct Hv as [H5 Hn].
  apply Z.leb_le in H5. apply Z.eqb_eq in Hn. apply N.eqb_eq in Hlast.
  pose proof (fs_read_i32_len _ _ _ E) as L.
  assert (Hrr : rr <> []) by (intros ->; cbn [length] in L; lia).
  destruct (fs_read_i32_suffix _ _ _ E) as [a Hd].
  assert (Hlr : last rr 1 = 0). { rewrite Hd in Hlast. rewrite fs_last_app in Hlast by exact Hrr. exact Hlast. }
  set (body := removelast rr) in *.
  assert (Erb : rr = body ++ [0]) by (apply fs_last_split; assumption).
  assert (Lb : length rr = (length body + 1)%nat) by (rewrite Erb, app_length; cbn [length]; lia).
  assert (Hwb : wf_bytes body).
  { assert (Hwr : wf_bytes rr) by (apply (suffix_wf _ d (fs_read_i32_suffix _ _ _ E) Hwf)).
    rewrite Erb in Hwr. apply (fs_wf_app _ _ Hwr). }
  destruct (fs_elems_sound f HP (S (length d)) body Hel Hwb g (S (length body)) ltac:(lia) ltac:(lia)) as [es Hes].
  exists body, es. split; [|split; [lia|exact Hes]].
  unfold read_frame. rewrite (fs_read_i32_le_app d n rr r E Hwf ltac:(lia)).
  replace (Z.to_N n <? 5) with false by (symmetry; apply N.ltb_ge; lia).
  rewrite Erb, <- app_assoc. rewrite bs_take_exact_app by lia. cbn [app]. reflexivity.
Qed.

Lemma fs_embedded_sound : forall f l r, (forall f', f = S f' -> sound_P f') ->
  v_embedded f l = Some r -> wf_bytes l -> forall g, (length l < S g)%nat ->
  exists body es, read_frame l = Some (body, r) /\ dec_elems_go g (S (length body)) body = Some es.
Proof.
  intros f l r HP H Hwf g Hg. unfold v_embedded in H.
  destruct (read_i32 l) as [[n r0]|]; [|discriminate H].
  destruct (n <? 5)%Z; [discriminate H|].
  destruct (take_n l (Z.to_N n)) as [[d rest]|] eqn:E; [|discriminate H].
  destruct (validate_doc f d) eqn:Hv; [|discriminate H]. injection H as <-.
  destruct (fs_take_n_exact _ _ _ _ E) as (_ & -> & _).
  destruct f as [|f']; [discriminate Hv|].
  destruct (fs_doc_sound f' d Hv (proj1 (fs_wf_app _ _ Hwf)) (HP f' eq_refl) rest g) as (body & es & Hrf & _ & Hes).
  { rewrite app_length in Hg. lia. }
  exists body, es. split; assumption.
Qed.

Lemma fs_drop_1 : forall x l n, drop_n (x :: l) (1 + n) = drop_n l n.
Proof.
  intros x l n. unfold drop_n. cbn [take_n].
  replace (1 + n =? 0) with false by (symmetry; apply N.eqb_neq; lia).
  replace (1 + n - 1) with n by lia. destruct (take_n l n) as [[a r]|]; reflexivity.
Qed.

Lemma fs_sound_step : forall f, (forall f', f = S f' -> sound_P f') -> sound_P f.
Proof.
  intros f HP t l r H Hwf g Hg. destruct g as [|g]; [lia|].
  unfold v_value in H. destruct_tag t H.
  all: first
    [ solve [ rewrite ?bs_dec_6, ?bs_dec_10, ?bs_dec_255, ?bs_dec_127; injection H as <-; eexists; reflexivity ]
    | solve [ (* 8-byte values *)
        change 8 with (N.of_nat 8) in H; destruct (fs_read_le_drop _ _ _ H) as [x Hx];
        rewrite ?bs_dec_1, ?bs_dec_9, ?bs_dec_18, Hx; eexists; reflexivity ]
    | solve [ (* int32 *)
        change 4 with (N.of_nat 4) in H; destruct (fs_read_le_drop _ _ _ H) as [x Hx];
        rewrite bs_dec_16, Hx; eexists; reflexivity ]
    | solve [ (* strings *)
        destruct (fs_skip_str_read _ _ H Hwf) as [s Hs];
        rewrite ?bs_dec_2, ?bs_dec_13, ?bs_dec_14, Hs; eexists; reflexivity ]
    | solve [ (* document *)
        destruct (fs_embedded_sound f l r HP H Hwf g Hg) as (body & es & Hrf & Hes);
        rewrite bs_dec_3, Hrf, Hes; eexists; reflexivity ]
    | solve [ (* array *)
        destruct (fs_embedded_sound f l r HP H Hwf g Hg) as (body & es & Hrf & Hes);
        rewrite bs_dec_4, Hrf, Hes; eexists; reflexivity ]
    | solve [ (* object id *)
        destruct (fs_drop_n_exact _ _ _ H) as (a & Ht & _); change (N.to_nat 12) with 12%nat in Ht;
        rewrite bs_dec_7, Ht; eexists; reflexivity ]
    | solve [ (* decimal128 *)
        destruct (fs_drop_n_exact _ _ _ H) as (a & Ht & _); change (N.to_nat 16) with 16%nat in Ht;
        rewrite bs_dec_19, Ht; eexists; reflexivity ]
    | solve [ (* timestamp *)
        destruct (fs_drop_n_exact _ _ _ H) as (a & _ & -> & Ha); change (N.to_nat 8) with 8%nat in Ha;
        destruct a as [|a0 [|a1 [|a2 [|a3 [|a4 [|a5 [|a6 [|a7 [|a8 a']]]]]]]]]; try discriminate Ha;
        rewrite bs_dec_17; eexists; reflexivity ]
    | solve [ (* bool *)
        destruct l as [|x l0]; [discriminate H|]; rewrite bs_dec_8;
        destruct x as [|[p|p|]]; try discriminate H; injection H as <-; eexists; reflexivity ]
    | solve [ (* regex *)
        destruct (skip_cstr l) as [r1|] eqn:E1; [|discriminate H];
        destruct (fs_skip_cstr_split _ _ E1) as [p Hp]; destruct (fs_skip_cstr_split _ _ H) as [o Ho];
        rewrite bs_dec_11, Hp, Ho; eexists; reflexivity ]
    | solve [ (* db pointer *)
        destruct (skip_str l) as [r1|] eqn:E1; [|discriminate H];
        destruct (fs_skip_str_read _ _ E1 Hwf) as [ns Hns];
        destruct (fs_drop_n_exact _ _ _ H) as (a & Ht & _); change (N.to_nat 12) with 12%nat in Ht;
        rewrite bs_dec_12, Hns, Ht; eexists; reflexivity ]
    | solve [ (* binary *)
        destruct (read_i32 l) as [[n r0]|] eqn:E; [|discriminate H];
        destruct (n <? 0)%Z eqn:En; [discriminate H|]; apply Z.ltb_ge in En;
        destruct r0 as [|st r1]; [discriminate H|];
        destruct ((5 <? st) && (st <? 128)); [discriminate H|];
        rewrite fs_drop_1 in H; destruct (fs_drop_n_exact _ _ _ H) as (a & Ht & _);
        rewrite bs_dec_5, (fs_read_i32_le _ _ _ E Hwf En), Ht; eexists; reflexivity ]
    | solve [ (* code with scope *)
        destruct (read_i32 l) as [[total r0]|] eqn:E; [|discriminate H];
        destruct (skip_str r0) as [r1|] eqn:E1; [|discriminate H];
        destruct (v_embedded f r1) as [r2|] eqn:E2; [|discriminate H];
        destruct (total =? 4 + Z.of_nat (length r0) - Z.of_nat (length r2))%Z eqn:Et; [|discriminate H];
        injection H as <-; apply Z.eqb_eq in Et;
        pose proof (fs_read_i32_len _ _ _ E) as L0; pose proof (fs_skip_str_len _ _ E1) as L1;
        pose proof (fs_embedded_len _ _ _ E2) as L2;
        assert (Hw0 : wf_bytes r0) by (apply (suffix_wf _ l (fs_read_i32_suffix _ _ _ E) Hwf));
        assert (Hw1 : wf_bytes r1) by (apply (suffix_wf _ r0 (fs_skip_str_suffix _ _ E1) Hw0));
        destruct (fs_skip_str_read _ _ E1 Hw0) as [code Hcode];
        destruct (fs_embedded_sound f r1 r2 HP E2 Hw1 g ltac:(lia)) as (body & es & Hrf & Hes);
        rewrite bs_dec_15, (fs_read_i32_le _ _ _ E Hwf ltac:(lia)), Hcode, Hrf, Hes;
        replace (N.to_nat (Z.to_N total) =? 4 + (length r0 - length r2))%nat with true
          by (symmetry; apply Nat.eqb_eq; lia);
        eexists; reflexivity ] ].
Qed.

Theorem validator_sound_all : forall f, sound_P f.
Proof.
  induction f as [|f IH]; apply fs_sound_step.
  - intros f' H. discriminate H.
  - intros f' H. injection H as <-. exact IH.
Qed.

Theorem validate_sound : forall b, validate b = true -> wf_bytes b -> exists d, dec_doc b = Some (d, []).
Proof.
  intros b Hv Hwf. unfold validate in Hv.
  destruct (fs_doc_sound (length b) b Hv Hwf (validator_sound_all _) [] (length b) ltac:(lia)) as (body & es & Hrf & Hl & Hes).
  rewrite app_nil_r in Hrf. exists es. unfold dec_doc. rewrite bs_dec_3, Hrf, Hes. reflexivity.
Qed.

(* ------------------------------------------------------------------ conversely: the validator accepts what the decoder decodes *)
Definition dv_body (f : nat) (t : N) (l : bytes) : option (value * bytes) :=
  match t with
  | 1 => match read_le 8 l with Some (x, r) => Some (VDouble (s64 x), r) | None => None end
  | 2 => match read_bstring l with Some (s, r) => Some (VString s, r) | None => None end
  | 3 => match read_frame l with
         | Some (body, r) => match dec_elems_go f (S (length body)) body with
                             | Some es => Some (VDoc es, r) | None => None end
         | None => None end
  | 4 => match read_frame l with
         | Some (body, r) => match dec_elems_go f (S (length body)) body with
                             | Some es => Some (VArr (map snd es), r) | None => None end
         | None => None end
  | 5 => match read_le 4 l with
         | Some (n, r) => match r with
                          | st :: r1 => match take_exact (N.to_nat n) r1 with
                                        | Some (b, r2) => Some (VBinary st b, r2) | None => None end
                          | [] => None end
         | None => None end
  | 6 => Some (VUndefined, l)
  | 7 => match take_exact 12 l with Some (b, r) => Some (VObjectID b, r) | None => None end
  | 8 => match l with
         | b :: r => if (b =? 0) then Some (VBool false, r)
                     else if (b =? 1) then Some (VBool true, r) else None
         | [] => None end
  | 9 => match read_le 8 l with Some (x, r) => Some (VDateTime (s64 x), r) | None => None end
  | 10 => Some (VNull, l)
  | 11 => match split_cstring l with
          | Some (p, r) => match split_cstring r with
                           | Some (o, r') => Some (VRegex p o, r') | None => None end
          | None => None end
  | 12 => match read_bstring l with
          | Some (ns, r) => match take_exact 12 r with
                            | Some (oid, r') => Some (VDBPointer ns oid, r') | None => None end
          | None => None end
  | 13 => match read_bstring l with Some (s, r) => Some (VJavaScript s, r) | None => None end
  | 14 => match read_bstring l with Some (s, r) => Some (VSymbol s, r) | None => None end
  | 15 => match read_le 4 l with
          | Some (n, r) =>
              match read_bstring r with
              | Some (code, r1) =>
                  match read_frame r1 with
                  | Some (body, r2) =>
                      match dec_elems_go f (S (length body)) body with
                      | Some es =>
                          if (N.to_nat n =? 4 + (length r - length r2))%nat
                          then Some (VCodeWithScope code es, r2) else None
                      | None => None end
                  | None => None end
              | None => None end
          | None => None end
  | 16 => match read_le 4 l with Some (x, r) => Some (VInt32 (s32 x), r) | None => None end
  | 17 => match read_le 4 l with
          | Some (i, r) => match read_le 4 r with
                           | Some (t', r') => Some (VTimestamp (Z.of_N t') (Z.of_N i), r')
                           | None => None end
          | None => None end
  | 18 => match read_le 8 l with Some (x, r) => Some (VInt64 (s64 x), r) | None => None end
  | 19 => match take_exact 16 l with Some (b, r) => Some (VDecimal128 b, r) | None => None end
  | 255 => Some (VMinKey, l)
  | 127 => Some (VMaxKey, l)
  | _ => None
  end.

Lemma dv_S : forall f t l, dec_value (S f) t l = dv_body f t l.
Proof. reflexivity. Qed.

Lemma fc_take_exact : forall n l a r, take_exact n l = Some (a, r) ->
  take_n l (N.of_nat n) = Some (a, r) /\ l = a ++ r /\ length a = n.
Proof.
  intros n l a r H. unfold take_exact in H. destruct (Nat.leb n (length l)) eqn:E; [|discriminate H].
  injection H as <- <-. apply Nat.leb_le in E.
  assert (Hl : length (firstn n l) = n) by (rewrite firstn_length; lia).
  split; [|split; [symmetry; apply firstn_skipn|exact Hl]].
  rewrite <- (firstn_skipn n l) at 1. apply fv_take_n_app. rewrite Hl. reflexivity.
Qed.

Lemma fc_drop_exact : forall n l a r, take_exact n l = Some (a, r) -> drop_n l (N.of_nat n) = Some r.
Proof. intros n l a r H. unfold drop_n. rewrite (proj1 (fc_take_exact _ _ _ _ H)). reflexivity. Qed.

Lemma fc_read_le_drop : forall n l x r, read_le n l = Some (x, r) -> drop_n l (N.of_nat n) = Some r.
Proof.
  intros n l x r H. unfold read_le in H. destruct (take_exact n l) as [[w r']|] eqn:E; [|discriminate H].
  injection H as _ <-. apply (fc_drop_exact _ _ _ _ E).
Qed.

Lemma fc_read_le_i32 : forall l x r, read_le 4 l = Some (x, r) -> x < 2 ^ 31 -> read_i32 l = Some (Z.of_N x, r).
Proof.
  intros l x r H Hx. unfold read_le in H. destruct (take_exact 4 l) as [[w r']|] eqn:E; [|discriminate H].
  injection H as <- <-. destruct (fc_take_exact _ _ _ _ E) as (_ & -> & Hl).
  destruct w as [|b0 [|b1 [|b2 [|b3 [|b4 w']]]]]; try discriminate Hl.
  cbn [app]. unfold read_i32. rewrite fv_s32_small by exact Hx. reflexivity.
Qed.

Lemma fc_read_le_len : forall n l x r, read_le n l = Some (x, r) -> length l = (n + length r)%nat.
Proof.
  intros n l x r H. unfold read_le in H. destruct (take_exact n l) as [[w r']|] eqn:E; [|discriminate H].
  injection H as _ <-. destruct (fc_take_exact _ _ _ _ E) as (_ & -> & Hl). rewrite app_length. lia.
Qed.

Lemma fc_bstring_skip : forall l s r, read_bstring l = Some (s, r) -> small l -> skip_str l = Some r.
Proof.
  intros l s r H Hs. unfold small in Hs. unfold read_bstring in H.
  destruct (read_le 4 l) as [[n r0]|] eqn:E; [|discriminate H].
  destruct (n <? 1) eqn:E1; [discriminate H|]. apply N.ltb_ge in E1.
  destruct (take_exact (N.to_nat n - 1) r0) as [[s' r']|] eqn:E2; [|discriminate H].
  destruct r' as [|z r'']; [discriminate H|]. destruct (z =? 0) eqn:Ez; [|discriminate H].
  injection H as <- <-. apply N.eqb_eq in Ez. subst z.
  destruct (fc_take_exact _ _ _ _ E2) as (_ & -> & Hl). pose proof (fc_read_le_len _ _ _ _ E) as L.
  rewrite app_length in L. cbn [length] in L.
  unfold skip_str. rewrite (fc_read_le_i32 _ _ _ E) by lia.
  replace (Z.of_N n <? 1)%Z with false by (symmetry; apply Z.ltb_ge; lia). rewrite N2Z.id.
  change (s' ++ 0 :: r'') with (s' ++ [0] ++ r''). rewrite app_assoc.
  rewrite fv_take_n_app by (rewrite app_length; cbn [length]; lia).
  rewrite fv_last_snoc. reflexivity.
Qed.

(* a frame the decoder reads: the validator's view of it *)
Lemma fc_frame : forall l body r, read_frame l = Some (body, r) -> small l ->
  exists d rr, l = d ++ r /\ length d = (length body + 5)%nat /\
               read_i32 d = Some (Z.of_nat (length d), rr) /\ removelast rr = body /\ last d 1 = 0 /\
               read_i32 l = Some (Z.of_nat (length d), rr ++ r).
Proof.
  intros l body r H Hs. unfold small in Hs. unfold read_frame in H.
  destruct (read_le 4 l) as [[n r0]|] eqn:E; [|discriminate H].
  destruct (n <? 5) eqn:E1; [discriminate H|]. apply N.ltb_ge in E1.
  destruct (take_exact (N.to_nat n - 5) r0) as [[b' r']|] eqn:E2; [|discriminate H].
  destruct r' as [|z r'']; [discriminate H|]. destruct (z =? 0) eqn:Ez; [|discriminate H].
  injection H as <- <-. apply N.eqb_eq in Ez. subst z.
  destruct (fc_take_exact _ _ _ _ E2) as (_ & -> & Hl). pose proof (fc_read_le_len _ _ _ _ E) as L.
  rewrite app_length in L. cbn [length] in L.
  pose proof (fc_read_le_i32 _ _ _ E ltac:(lia)) as Hi.
  unfold read_le in E. destruct (take_exact 4 l) as [[w rx]|] eqn:E4; [|discriminate E].
  injection E as En Er. destruct (fc_take_exact _ _ _ _ E4) as (_ & Hlw & Hw). subst rx.
  exists (w ++ b' ++ [0]), (b' ++ [0]).
  assert (Hd : length (w ++ b' ++ [0]) = (length b' + 5)%nat) by (rewrite !app_length; cbn [length]; lia).
  split; [rewrite Hlw, <- !app_assoc; reflexivity|]. split; [exact Hd|].
  assert (Hn : Z.of_N n = Z.of_nat (length (w ++ b' ++ [0]))) by lia.
  split; [|split; [apply removelast_last|split]].
  - rewrite <- Hn. destruct w as [|b0 [|b1 [|b2 [|b3 [|b4 w']]]]]; try discriminate Hw. cbn [app]. unfold read_i32.
    rewrite fv_s32_small by (rewrite En; lia). rewrite En. reflexivity.
  - rewrite app_assoc. apply fv_last_snoc.
  - rewrite <- Hn, <- app_assoc. exact Hi.
Qed.

Lemma fc_arr_bin : forall es, arr_bin_ok (map snd es) = doc_bin_ok es.
Proof. induction es as [|[k x] r IH]; [reflexivity|]. cbn [map snd arr_bin_ok doc_bin_ok]. rewrite IH. reflexivity. Qed.

Definition comp_P (g : nat) : Prop :=
  forall t l v r, dec_value g t l = Some (v, r) -> small l -> bin_ok v = true ->
  forall f, (length l < f)%nat -> v_value f t l = Some r.

Lemma fc_elems : forall g, comp_P g ->
  forall G body es, dec_elems_go g G body = Some es -> small body -> doc_bin_ok es = true ->
  forall f F, (length body < f)%nat -> (length body < F)%nat -> v_elems f F body = true.
Proof.
  intros g HP. induction G as [|G IH]; intros body es H Hs Hb f F Hf HF; [discriminate H|].
  destruct F as [|F]; [lia|]. destruct body as [|tg r]; [reflexivity|].
  rewrite bs_go_cons in H. destruct (split_cstring r) as [[k r1]|] eqn:E1; [|discriminate H].
  destruct (dec_value g tg r1) as [[v r2]|] eqn:E2; [|discriminate H].
  destruct (dec_elems_go g G r2) as [es'|] eqn:E3; [|discriminate H]. injection H as <-.
  cbn [doc_bin_ok] in Hb. apply andb_true_iff in Hb. destruct Hb as [Hbv Hbe].
  pose proof (fs_split_cstring_len _ _ _ E1) as L1. unfold small in *. cbn [length] in *.
  assert (Hv : v_value f tg r1 = Some r2) by (apply (HP tg r1 v r2 E2); [unfold small; lia|exact Hbv|lia]).
  pose proof (fs_value_len _ _ _ _ Hv) as L2.
  cbn [v_elems]. unfold skip_cstr. rewrite E1, Hv. apply (IH r2 es' E3); [unfold small; lia|exact Hbe|lia|lia].
Qed.

Lemma fc_embedded : forall g f l body r es, comp_P g ->
  read_frame l = Some (body, r) -> dec_elems_go g (S (length body)) body = Some es -> small l ->
  doc_bin_ok es = true -> (length l < f)%nat -> v_embedded f l = Some r.
Proof.
  intros g f l body r es HP Hrf Hes Hs Hb Hf.
  destruct (fc_frame l body r Hrf Hs) as (d & rr & -> & Hd & Hid & Hrl & Hlast & Hil).
  unfold small in Hs. rewrite app_length in Hs, Hf.
  destruct f as [|f']; [lia|].
  unfold v_embedded. rewrite Hil.
  replace (Z.of_nat (length d) <? 5)%Z with false by (symmetry; apply Z.ltb_ge; lia).
  rewrite fv_take_n_app by lia.
  assert (Hv : validate_doc (S f') d = true).
  { rewrite validate_doc_S, Hid, Hrl, Hlast.
    rewrite (fc_elems g HP (S (length body)) body es Hes ltac:(unfold small; lia) Hb f' (S (length d)) ltac:(lia) ltac:(lia)).
    replace (5 <=? Z.of_nat (length d))%Z with true by (symmetry; apply Z.leb_le; lia).
    rewrite Z.eqb_refl. reflexivity. }
  rewrite Hv. reflexivity.
Qed.

Lemma fc_step : forall g, comp_P g -> comp_P (S g).
Proof.
  intros g HP t l v r H Hs Hb f Hf. rewrite dv_S in H. unfold dv_body in H. unfold v_value.
  pose proof Hs as Hs'. unfold small in Hs'.
  destruct_tag t H.
  all: first
    [ solve [ injection H as <- <-; reflexivity ]
    | solve [ (* fixed width via read_le *)
        match type of H with context [read_le ?n ?ll] =>
          destruct (read_le n ll) as [[x r0]|] eqn:E; [|discriminate H]; injection H as _ <-;
          apply (fc_read_le_drop _ _ _ _ E) end ]
    | solve [ (* strings *)
        destruct (read_bstring l) as [[s r0]|] eqn:E; [|discriminate H]; injection H as _ <-;
        apply (fc_bstring_skip _ _ _ E Hs) ]
    | solve [ (* document *)
        destruct (read_frame l) as [[body r0]|] eqn:E; [|discriminate H];
        destruct (dec_elems_go g (S (length body)) body) as [es|] eqn:E2; [|discriminate H];
        injection H as <- <-; rewrite fv_bin_VDoc in Hb;
        apply (fc_embedded g f l body r0 es HP E E2 Hs Hb Hf) ]
    | solve [ (* array *)
        destruct (read_frame l) as [[body r0]|] eqn:E; [|discriminate H];
        destruct (dec_elems_go g (S (length body)) body) as [es|] eqn:E2; [|discriminate H];
        injection H as <- <-; rewrite fv_bin_VArr, fc_arr_bin in Hb;
        apply (fc_embedded g f l body r0 es HP E E2 Hs Hb Hf) ]
    | solve [ (* object id, decimal128 *)
        match type of H with context [take_exact ?n ?ll] =>
          destruct (take_exact n ll) as [[a r0]|] eqn:E; [|discriminate H]; injection H as _ <-;
          apply (fc_drop_exact _ _ _ _ E) end ]
    | solve [ (* timestamp *)
        destruct (read_le 4 l) as [[i r0]|] eqn:E; [|discriminate H];
        destruct (read_le 4 r0) as [[t' r1]|] eqn:E1; [|discriminate H]; injection H as _ <-;
        unfold read_le in E, E1;
        destruct (take_exact 4 l) as [[w1 rx]|] eqn:T1; [|discriminate E]; injection E as _ ->;
        destruct (take_exact 4 r0) as [[w2 ry]|] eqn:T2; [|discriminate E1]; injection E1 as _ ->;
        destruct (fc_take_exact _ _ _ _ T1) as (_ & -> & L1); destruct (fc_take_exact _ _ _ _ T2) as (_ & -> & L2);
        rewrite app_assoc; apply fv_drop_n_app; rewrite app_length, L1, L2; reflexivity ]
    | solve [ (* bool *)
        destruct l as [|x l0]; [discriminate H|];
        destruct (x =? 0) eqn:E0; [apply N.eqb_eq in E0; subst x; injection H as _ <-; reflexivity|];
        destruct (x =? 1) eqn:E1; [apply N.eqb_eq in E1; subst x; injection H as _ <-; reflexivity|discriminate H] ]
    | solve [ (* regex *)
        destruct (split_cstring l) as [[p r0]|] eqn:E; [|discriminate H];
        destruct (split_cstring r0) as [[o r1]|] eqn:E1; [|discriminate H]; injection H as _ <-;
        unfold skip_cstr; rewrite E, E1; reflexivity ]
    | solve [ (* db pointer *)
        destruct (read_bstring l) as [[ns r0]|] eqn:E; [|discriminate H];
        destruct (take_exact 12 r0) as [[oid r1]|] eqn:E1; [|discriminate H]; injection H as _ <-;
        rewrite (fc_bstring_skip _ _ _ E Hs); apply (fc_drop_exact _ _ _ _ E1) ]
    | solve [ (* binary *)
        destruct (read_le 4 l) as [[n r0]|] eqn:E; [|discriminate H];
        destruct r0 as [|st r1]; [discriminate H|];
        destruct (take_exact (N.to_nat n) r1) as [[b r2]|] eqn:E1; [|discriminate H]; injection H as <- <-;
        pose proof (fc_read_le_len _ _ _ _ E) as L; destruct (fc_take_exact _ _ _ _ E1) as (_ & Hr1 & Lb);
        assert (L1 : length r1 = (length b + length r2)%nat) by (rewrite Hr1, app_length; reflexivity);
        cbn [length] in L;
        rewrite (fc_read_le_i32 _ _ _ E) by lia;
        replace (Z.of_N n <? 0)%Z with false by (symmetry; apply Z.ltb_ge; lia);
        cbn [bin_ok] in Hb; unfold subtype_ok in Hb; apply negb_true_iff in Hb; rewrite Hb;
        rewrite N2Z.id, fs_drop_1; rewrite <- (N2Nat.id n); apply (fc_drop_exact _ _ _ _ E1) ]
    | solve [ (* code with scope *)
        destruct (read_le 4 l) as [[n r0]|] eqn:E; [|discriminate H];
        destruct (read_bstring r0) as [[code r1]|] eqn:E1; [|discriminate H];
        destruct (read_frame r1) as [[body r2]|] eqn:E2; [|discriminate H];
        destruct (dec_elems_go g (S (length body)) body) as [es|] eqn:E3; [|discriminate H];
        destruct (N.to_nat n =? 4 + (length r0 - length r2))%nat eqn:En; [|discriminate H];
        injection H as <- <-; apply Nat.eqb_eq in En; rewrite fv_bin_VCws in Hb;
        pose proof (fc_read_le_len _ _ _ _ E) as L;
        assert (Hs0 : small r0) by (unfold small; lia);
        pose proof (fc_bstring_skip _ _ _ E1 Hs0) as Hk; pose proof (fs_skip_str_len _ _ Hk) as L1;
        assert (Hs1 : small r1) by (unfold small; lia);
        pose proof (fc_embedded g f r1 body r2 es HP E2 E3 Hs1 Hb ltac:(lia)) as He;
        pose proof (fs_embedded_len _ _ _ He) as L2;
        rewrite (fc_read_le_i32 _ _ _ E) by lia; rewrite Hk, He;
        replace (Z.of_N n =? 4 + Z.of_nat (length r0) - Z.of_nat (length r2))%Z with true by (symmetry; apply Z.eqb_eq; lia);
        reflexivity ] ].
Qed.

Theorem validator_complete_all : forall g, comp_P g.
Proof.
  induction g as [|g IH]; [intros t l v r H; discriminate H|apply fc_step; exact IH].
Qed.

Theorem validate_complete : forall b d, dec_doc b = Some (d, []) -> small b -> doc_bin_ok d = true -> validate b = true.
Proof.
  intros b d H Hs Hb. unfold dec_doc in H. rewrite bs_dec_3 in H.
  destruct (read_frame b) as [[body r]|] eqn:E; [|discriminate H].
  destruct (dec_elems_go (length b) (S (length body)) body) as [es|] eqn:E2; [|discriminate H].
  injection H as <- ->.
  destruct (fc_frame b body [] E Hs) as (d0 & rr & Hbd & Hd & Hid & Hrl & Hlast & _). rewrite app_nil_r in Hbd. subst d0.
  unfold validate. rewrite validate_doc_S, Hid, Hrl, Hlast.
  rewrite (fc_elems (length b) (validator_complete_all _) (S (length body)) body es E2 ltac:(unfold small in *; lia) Hb
             (length b) (S (length b)) ltac:(lia) ltac:(lia)).
  replace (5 <=? Z.of_nat (length b))%Z with true by (symmetry; apply Z.leb_le; lia).
  rewrite Z.eqb_refl. reflexivity.
Qed.
