(* C20 o streaming collector (C01/C07 side): TranslateGenny's output documents
   through the REAL streaming collector model (Model/Collector.v KStream, chunk
   size 300) and the FTDC reader.  Model/Genny.v carries the output as
   [out_sample]s and mirrors the collector only by count ([stream_collect],
   [output_chunks]); here
     A. the streaming collector of Model/Collector.v is shown to cut ANY same-schema
        document sequence exactly as [stream_collect] does,
     B. the reader returns, chunk by chunk, the sample count and the documents of
        each group,
     C. [genny_doc] builds the BSON document {cedar: {start: Date, <actor>: {n, ops,
        ...}}} of t2.go from an out_sample and is shown to meet every hypothesis of
        the structured round trip,
     D. for actor streams that are performance-event streams (every sample carries
        the eight selected keys, in the order of createZeroedMetrics) all output
        documents share one schema, which gives the end-to-end theorem. *)
From Coq Require Import String ZArith NArith List Bool Lia Arith.
From FV.Model Require Import Genny.
From FV.Model Require Import Bytes Bson Metrics Codec Collector Wf RoundTrip.
From FV.Proofs Require Import BytesProofs BsonProofs MetricsProofs CodecChunk CodecProofs.
From FV.Proofs Require GennyProofs EventsProofs.
Import ListNotations.
Open Scope Z_scope.

(* Genny and Codec/Collector both define chunk / run: the unqualified names are
   Codec's and Collector's here, Genny's are written Genny.x *)

(* ================================================================== A. the streaming collector's groups *)
Section Stream.
Variable deflate : bytes -> bytes.

(* streaming collector s with writer w: the chunk documents of [groups] were
   written, the documents g (at most n) are pending in the wrapped collector *)
Definition stream_at (n : Z) (sk : doc) (s : scoll) (w : writer) (groups : list (list doc)) (g : list doc) : Prop :=
  exists b, sc_inner s = IB b /\ sc_max s = n /\ sc_count s = Z.of_nat (length g) /\
    bc_holds n sk b g /\ Z.of_nat (length g) <= n /\ emits deflate n w groups.

Lemma stream_at_flush : forall n sk s w groups g, stream_at n sk s w groups g -> g <> [] ->
  exists cd, sc_flush deflate s w = (sc_reset s, w_push w [cd], true) /\
             stream_at n sk (sc_reset s) (w_push w [cd]) (groups ++ [g]) [].
Proof.
  intros n sk s w groups g (b & Hin & Hmax & Hcnt & Hb & Hlen & Hem) Hne.
  destruct g as [|d0 ds]; [congruence|].
  destruct (bc_resolve_holds deflate n sk b d0 ds Hb) as [cd [Hres Hck]]; [cbn [length] in Hlen; lia|].
  exists cd. split.
  - unfold sc_flush. apply (flush_with_ok scoll (fun s => in_info (sc_inner s))).
    + rewrite Hin. cbn [in_info]. rewrite (bc_info_holds _ _ _ _ Hb). cbn [length]. lia.
    + rewrite Hin. cbn [in_resolve]. rewrite Hres. reflexivity.
    + apply Hem.
  - exists (bc_reset b). unfold sc_reset. rewrite Hin. cbn [sc_inner sc_max sc_count in_reset length].
    split; [reflexivity|]. split; [exact Hmax|]. split; [reflexivity|].
    split; [apply (bc_reset_holds n sk b _ Hb)|]. split; [lia|].
    apply (emits_push deflate n w groups cd _ Hem Hck).
Qed.

Lemma stream_at_tail : forall n sk s w groups g d now,
  stream_at n sk s w groups g -> sc_count s < n -> dcol sk d -> in_i64 now = true ->
  exists s', sc_add_tail s w d now = (s', w, ROk) /\ stream_at n sk s' w groups (g ++ [d]).
Proof.
  intros n sk s w groups g d now (b & Hin & Hmax & Hcnt & Hb & Hlen & Hem) Hlt Hd Hnow.
  destruct (bc_add_holds n sk b g d now Hb Hd Hnow Hlen) as [b' [Hadd Hb']].
  unfold sc_add_tail. rewrite Hin. cbn [in_add]. rewrite Hadd. cbn [of_add_res].
  eexists. split; [reflexivity|].
  exists b'. cbn [sc_inner sc_max sc_count]. rewrite app_length. cbn [length].
  split; [reflexivity|]. split; [exact Hmax|]. split; [lia|].
  split; [exact Hb'|]. split; [lia|exact Hem].
Qed.

Lemma stream_at_add : forall n sk s w groups g d now, 1 <= n ->
  stream_at n sk s w groups g -> dcol sk d -> in_i64 now = true ->
  exists s' w', sc_add deflate s w d now = (s', w', ROk) /\
    (if n <=? Z.of_nat (length g) then stream_at n sk s' w' (groups ++ [g]) [d]
     else stream_at n sk s' w' groups (g ++ [d])).
Proof.
  intros n sk s w groups g d now Hn Hinv Hd Hnow. rewrite sc_add_eq.
  pose proof Hinv as (b & _ & Hmax & Hcnt & _).
  rewrite Hmax, Hcnt. destruct (n <=? Z.of_nat (length g)) eqn:E.
  - apply Z.leb_le in E.
    assert (Hne : g <> []) by (intros ->; cbn [length] in E; lia).
    destruct (stream_at_flush n sk s w groups g Hinv Hne) as [cd [Hfl Hinv']].
    rewrite Hfl. cbn [negb].
    destruct (stream_at_tail n sk (sc_reset s) (w_push w [cd]) (groups ++ [g]) [] d now Hinv') as [s' [Hs' Hat]];
      try assumption.
    { unfold sc_reset. cbn [sc_count]. lia. }
    exists s', (w_push w [cd]). split; [exact Hs'|exact Hat].
  - apply Z.leb_gt in E. cbn [negb].
    destruct (stream_at_tail n sk s w groups g d now Hinv) as [s' [Hs' Hat]]; try assumption; [lia|].
    exists s', w. split; [exact Hs'|exact Hat].
Qed.

Definition pending (g : list doc) : list (list doc) := match g with [] => [] | _ :: _ => [g] end.

Lemma run_stream : forall n sk rest nows s w groups g, 1 <= n ->
  length nows = length rest -> Forall (fun t => in_i64 t = true) nows -> Forall (dcol sk) rest ->
  stream_at n sk s w groups g ->
  exists s' w' groups' g',
    run deflate (CStream s, w) (add_ops rest nows) = ((CStream s', w'), map (fun _ => BAdd ROk) rest) /\
    stream_at n sk s' w' groups' g' /\
    groups' ++ pending g' = groups ++ stream_collect (Z.to_nat n) g rest /\
    (rest <> [] \/ g <> [] -> g' <> []).
Proof.
  intros n sk rest. induction rest as [|d rest IH]; intros nows s w groups g Hn Hlen Hnows Hrest Hinv.
  - destruct nows; [|discriminate Hlen]. exists s, w, groups, g.
    split; [reflexivity|]. split; [exact Hinv|]. split.
    + cbn [stream_collect]. destruct g; reflexivity.
    + intros [H|H]; [congruence|exact H].
  - destruct nows as [|now nows]; [discriminate Hlen|]. cbn [length] in Hlen. injection Hlen as Hlen.
    inversion Hnows as [|x y Hnow Hnows']; subst. inversion Hrest as [|x y Hd Hrest']; subst.
    destruct (stream_at_add n sk s w groups g d now Hn Hinv Hd Hnow) as [s1 [w1 [Hadd Hinv1]]].
    assert (Hcadd : c_add deflate (CStream s) w d now = (CStream s1, w1, ROk)).
    { cbn [c_add]. rewrite Hadd. reflexivity. }
    unfold add_ops. cbn [combine map fst snd]. fold (add_ops rest nows).
    rewrite (run_cons_add deflate _ _ _ _ _ _ _ _ Hcadd).
    cbn [stream_collect].
    destruct (n <=? Z.of_nat (length g)) eqn:E.
    + apply Z.leb_le in E.
      replace (Z.to_nat n <=? length g)%nat with true by (symmetry; apply Nat.leb_le; lia).
      destruct g as [|g0 gr]; [cbn [length] in E; lia|].
      destruct (IH nows s1 w1 (groups ++ [g0 :: gr]) [d] Hn Hlen Hnows' Hrest' Hinv1)
        as (s' & w' & groups' & g' & Hrun & Hat & Hgr & Hne).
      exists s', w', groups', g'. rewrite Hrun. cbn [map].
      split; [reflexivity|]. split; [exact Hat|]. split.
      * rewrite Hgr, <- app_assoc. reflexivity.
      * intros _. apply Hne. right. discriminate.
    + apply Z.leb_gt in E.
      replace (Z.to_nat n <=? length g)%nat with false by (symmetry; apply Nat.leb_gt; lia).
      destruct (IH nows s1 w1 groups (g ++ [d]) Hn Hlen Hnows' Hrest' Hinv1)
        as (s' & w' & groups' & g' & Hrun & Hat & Hgr & Hne).
      exists s', w', groups', g'. rewrite Hrun. cbn [map].
      split; [reflexivity|]. split; [exact Hat|]. split; [exact Hgr|].
      intros _. apply Hne. right. destruct g; discriminate.
Qed.

(* NewStreamingCollector(n), Add of every document, FlushCollector: everything
   succeeds and the chunk documents written are those of the groups
   [stream_collect n [] docs], in order *)
Theorem stream_emit_groups : forall n sk docs nows,
  1 <= n -> docs <> [] -> length nows = length docs ->
  Forall (fun t => in_i64 t = true) nows -> Forall (dcol sk) docs ->
  exists c w, emit deflate KStream n docs nows = ((c, w), map (fun _ => BAdd ROk) docs ++ [BFlush true]) /\
    emits deflate n w (stream_collect (Z.to_nat n) [] docs).
Proof.
  intros n sk docs nows Hn Hne Hlen Hnows Hdocs.
  assert (H0 : stream_at n sk (mkScoll n 0 (IB (bc_new n))) w0 [] []).
  { exists (bc_new n). cbn [sc_inner sc_max sc_count length].
    split; [reflexivity|]. split; [reflexivity|]. split; [reflexivity|].
    split; [apply bc_new_holds|]. split; [lia|apply emits_w0]. }
  destruct (run_stream n sk docs nows _ _ _ _ Hn Hlen Hnows Hdocs H0)
    as (s' & w' & groups' & g' & Hrun & Hat & Hgr & Hg').
  cbn [app] in Hgr.
  assert (Hne' : g' <> []) by (apply Hg'; left; exact Hne).
  destruct (stream_at_flush n sk s' w' groups' g' Hat Hne') as [cd [Hfl Hat']].
  exists (CStream (sc_reset s')), (w_push w' [cd]). split.
  - unfold emit. fold w0. cbn [new_coll]. rewrite (CodecProofs.run_app deflate), Hrun.
    cbn [run step c_flush]. rewrite Hfl. reflexivity.
  - destruct Hat' as (b & _ & _ & _ & _ & _ & Hem). rewrite <- Hgr.
    destruct g' as [|a r]; [congruence|]. exact Hem.
Qed.

End Stream.

(* stream_collect commutes with map *)
Lemma stream_collect_map : forall (A B : Type) (f : A -> B) n l buf,
  stream_collect n (map f buf) (map f l) = map (map f) (stream_collect n buf l).
Proof.
  intros A B f n l. induction l as [|x r IH]; intros buf.
  - cbn [map stream_collect]. destruct buf; reflexivity.
  - cbn [map stream_collect]. rewrite map_length.
    destruct (n <=? length buf)%nat.
    + destruct buf as [|b0 br].
      * cbn [map]. apply (IH [x]).
      * cbn [map]. f_equal. apply (IH [x]).
    + rewrite <- (IH (buf ++ [x])). rewrite map_app. reflexivity.
Qed.

Lemma Forall2_map_r : forall (A B C : Type) (R : A -> C -> Prop) (f : B -> C) la lb,
  Forall2 R la (map f lb) <-> Forall2 (fun a b => R a (f b)) la lb.
Proof.
  intros A B C R f la lb. revert la. induction lb as [|b r IH]; intros la; cbn [map].
  - split; intros H; inversion H; constructor.
  - split; intros H; inversion H; subst; constructor; try assumption; apply IH; assumption.
Qed.

Lemma Forall2_weaken : forall (A B : Type) (R S : A -> B -> Prop) la lb,
  (forall a b, R a b -> S a b) -> Forall2 R la lb -> Forall2 S la lb.
Proof. intros A B R S la lb H HF. induction HF; constructor; auto. Qed.

(* ================================================================== B. the reader, chunk by chunk *)
Section Reader.
Variable deflate : bytes -> bytes.
Variable inflate : bytes -> option bytes.
Hypothesis inflate_deflate : forall p, inflate (deflate p) = Some p.

Lemma read_chunks_each : forall n sk cds groups,
  n < 2 ^ 31 -> Forall2 (is_chunk deflate n) cds groups -> Forall (doc_good sk) (concat groups) ->
  exists cs, read_chunks inflate None cds = (cs, None) /\
    Forall2 (fun c g => ck_npoints c = Z.of_nat (length g) /\
                        structured_docs c = map (fun d => Some (strip_doc d)) g) cs groups.
Proof.
  intros n sk cds groups Hn HF. induction HF as [|cd g cds groups Hcd HF IH]; intros Hgood.
  - exists []. split; [reflexivity|constructor].
  - cbn [concat] in Hgood. apply Forall_app in Hgood. destruct Hgood as [Hg Hrest].
    destruct (IH Hrest) as [cs [Hcs Hdocs]].
    destruct Hcd as [s [d0 [ds [Eg [Hs [Hlen Ecd]]]]]]. subst g cd.
    inversion Hg as [|x y Hd0 Hds]; subst.
    exists (group_ck None s d0 ds :: cs). split.
    + unfold read_chunks in *. cbn [read_chunks_gen]. unfold group_chunk at 1 2. rewrite lookup_type_chunk.
      change (is_num 0 (Some (VInt32 1))) with false. change (is_num 1 (Some (VInt32 1))) with true.
      cbn [negb]. fold (group_chunk deflate s d0 ds). fold (read_chunk inflate None (group_chunk deflate s d0 ds)).
      destruct Hd0 as (_ & Hok & _ & Hsm & _ & Hm).
      rewrite (read_group_chunk deflate inflate inflate_deflate) by (try assumption; lia).
      rewrite Hcs. reflexivity.
    + constructor; [|exact Hdocs]. split.
      * unfold group_ck. cbn [ck_npoints length]. lia.
      * apply group_structured_docs.
        -- assert (Hsk0 : skeleton_doc d0 = sk) by apply Hd0.
           revert Hg. apply Forall_impl. intros d Hd. destruct Hd as (Hsk & _ & Hlv & _).
           split; [congruence|assumption].
        -- apply Hd0.
Qed.

End Reader.

(* ================================================================== C. the output document of t2.go *)
(* the keys of t2.go's literals, as ASCII codes *)
Definition k_cedar : bytes := [99; 101; 100; 97; 114]%N.   (* "cedar" *)
Definition k_start : bytes := [115; 116; 97; 114; 116]%N.  (* "start" *)
Definition key_names : list bytes :=
  [ [110];                              (* 0 "n" *)
    [111; 112; 115];                    (* 1 "ops" *)
    [115; 105; 122; 101];               (* 2 "size" *)
    [101; 114; 114; 111; 114; 115];     (* 3 "errors" *)
    [100; 117; 114];                    (* 4 "dur" *)
    [116; 111; 116; 97; 108];           (* 5 "total" *)
    [119; 111; 114; 107; 101; 114; 115];(* 6 "workers" *)
    [102; 97; 105; 108; 101; 100] ]%N.  (* 7 "failed" *)

(* the name a key id of Model/Genny.v stands for (ids outside 0..7 are never
   selected; they get the empty name) *)
Definition key_name (k : Z) : bytes := if k <? 0 then [] else nth (Z.to_nat k) key_names [].

Lemma genny_keys_spelled :
  k_cedar = EventsProofs.bytes_of_string "cedar" /\ k_start = EventsProofs.bytes_of_string "start" /\
  map key_name [0; 1; 2; 3; 4; 5; 6; 7] =
    map EventsProofs.bytes_of_string ["n"; "ops"; "size"; "errors"; "dur"; "total"; "workers"; "failed"]%string.
Proof. repeat split. Qed.

Lemma key_name_ok : forall k, key_ok (key_name k) = true.
Proof.
  intros k. unfold key_name. destruct (k <? 0); [reflexivity|].
  destruct (nth_in_or_default (Z.to_nat k) key_names []) as [Hin|Hd]; [|rewrite Hd; reflexivity].
  revert Hin. generalize (nth (Z.to_nat k) key_names []). intros b Hin.
  unfold key_names in Hin. cbn [In] in Hin.
  repeat (destruct Hin as [<-|Hin]; [reflexivity|]). destruct Hin.
Qed.

(* ---- generic facts about documents with VDoc / VInt64 elements ---- *)
Lemma skeleton_doc_cons_doc : forall k d r,
  skeleton_doc ((k, VDoc d) :: r) = (k, VDoc (skeleton_doc d)) :: skeleton_doc r.
Proof. intros. cbn [skeleton_doc]. rewrite skeleton_VDoc. reflexivity. Qed.
Lemma strip_doc_cons_doc : forall k d r, strip_doc ((k, VDoc d) :: r) = (k, VDoc (strip_doc d)) :: strip_doc r.
Proof. intros. cbn [strip_doc]. rewrite strip_VDoc. reflexivity. Qed.
Lemma doc_ok_cons_doc : forall k d r, doc_ok ((k, VDoc d) :: r) = key_ok k && doc_ok d && doc_ok r.
Proof. intros. cbn [doc_ok]. rewrite bs_ok_VDoc. reflexivity. Qed.
Lemma leaves_ok_cons_doc : forall k d r, doc_leaves_ok ((k, VDoc d) :: r) = doc_leaves_ok d && doc_leaves_ok r.
Proof. intros. cbn [doc_leaves_ok]. rewrite leaves_ok_VDoc. reflexivity. Qed.
Lemma has_ts_cons_doc : forall k d r,
  doc_has_ts_seconds ((k, VDoc d) :: r) = doc_has_ts_seconds d || doc_has_ts_seconds r.
Proof. intros. cbn [doc_has_ts_seconds]. rewrite has_ts_seconds_VDoc. reflexivity. Qed.
Lemma flatten_cons_doc : forall k d r, flatten_doc ((k, VDoc d) :: r) = flatten_doc d ++ flatten_doc r.
Proof. intros. cbn [flatten_doc]. rewrite flatten_VDoc. reflexivity. Qed.
Lemma enc_elems_cons_doc_length : forall k d r,
  length (enc_elems ((k, VDoc d) :: r)) = (length k + 7 + length (enc_elems d) + length (enc_elems r))%nat.
Proof. intros. rewrite bs_enc_elems_cons_length, bs_enc_VDoc, bs_frame_length. lia. Qed.

Definition vals_ok (v : vals) : Prop := Forall (fun kv => in_i64 (snd kv) = true) v.

(* ---- one actor's sub-document ---- *)
Definition sub_doc (v : vals) : doc := map (fun kv => (key_name (fst kv), VInt64 (snd kv))) v.
Definition sub_skel (ks : list Z) : doc := map (fun k => (key_name k, VInt64 0)) ks.
Definition sub_bytes (ks : list Z) : nat := fold_right (fun k a => (10 + length (key_name k) + a)%nat) 0%nat ks.

Lemma sub_bytes_cons : forall k ks, sub_bytes (k :: ks) = (10 + length (key_name k) + sub_bytes ks)%nat.
Proof. reflexivity. Qed.

Lemma sub_doc_cons : forall k x r, sub_doc ((k, x) :: r) = (key_name k, VInt64 x) :: sub_doc r.
Proof. reflexivity. Qed.

Lemma sub_doc_skeleton : forall v, skeleton_doc (sub_doc v) = sub_skel (map fst v).
Proof. induction v as [|[k x] r IH]; [reflexivity|]. rewrite sub_doc_cons. cbn [map fst snd skeleton_doc skeleton zero_leaf]. rewrite IH. reflexivity. Qed.
Lemma sub_doc_strip : forall v, strip_doc (sub_doc v) = sub_doc v.
Proof. induction v as [|[k x] r IH]; [reflexivity|]. rewrite sub_doc_cons. cbn [map fst snd strip_doc strip]. rewrite IH. reflexivity. Qed.
Lemma sub_doc_ok : forall v, vals_ok v -> doc_ok (sub_doc v) = true.
Proof.
  induction v as [|[k x] r IH]; intros H; [reflexivity|]. inversion H as [|a b Hx Hr]; subst. cbn [snd] in Hx.
  rewrite sub_doc_cons. cbn [map fst snd doc_ok value_ok]. rewrite key_name_ok, Hx, (IH Hr). reflexivity.
Qed.
Lemma sub_doc_leaves_ok : forall v, vals_ok v -> doc_leaves_ok (sub_doc v) = true.
Proof.
  induction v as [|[k x] r IH]; intros H; [reflexivity|]. inversion H as [|a b Hx Hr]; subst. cbn [snd] in Hx.
  rewrite sub_doc_cons. cbn [map fst snd doc_leaves_ok leaves_ok]. rewrite Hx, (IH Hr). reflexivity.
Qed.
Lemma sub_doc_no_ts : forall v, doc_has_ts_seconds (sub_doc v) = false.
Proof. induction v as [|[k x] r IH]; [reflexivity|]. rewrite sub_doc_cons. cbn [map fst snd doc_has_ts_seconds has_ts_seconds orb]. exact IH. Qed.
Lemma sub_doc_flatten_length : forall v, length (flatten_doc (sub_doc v)) = length v.
Proof. induction v as [|[k x] r IH]; [reflexivity|]. rewrite sub_doc_cons. cbn [map fst snd flatten_doc flatten app length]. rewrite IH. reflexivity. Qed.
Lemma sub_doc_enc_length : forall v, length (enc_elems (sub_doc v)) = sub_bytes (map fst v).
Proof.
  induction v as [|[k x] r IH]; [reflexivity|]. rewrite sub_doc_cons. cbn [map fst snd].
  rewrite bs_enc_elems_cons_length, IH, sub_bytes_cons. cbn [enc_value]. rewrite le_enc_length. lia.
Qed.

Section Genny.
(* actor names are interned ids in Model/Genny.v; the strings are a parameter.
   Nothing is assumed of it here (the round trip does not need names to be
   distinct); [names_ok] below asks that the names of the actors at hand are
   BSON keys *)
Variable name_of : Z -> bytes.

Definition act_doc (subs : list (Z * vals)) : doc :=
  map (fun nv => (name_of (fst nv), VDoc (sub_doc (snd nv)))) subs.

(* birch.NewDocument(EC.SubDocument("cedar", NewDocument(EC.DateTime("start", ms),
   EC.SubDocument(name, NewDocument(elems...))...))) *)
Definition genny_doc (o : out_sample) : doc :=
  [(k_cedar, VDoc ((k_start, VDateTime (fst o)) :: act_doc (snd o)))].

(* the key structure of an output sample: actor ids with their key ids *)
Definition shape (o : out_sample) : list (Z * list Z) := map (fun nv => (fst nv, map fst (snd nv))) (snd o).

Definition act_skel (sh : list (Z * list Z)) : doc := map (fun nk => (name_of (fst nk), VDoc (sub_skel (snd nk)))) sh.
Definition skel_of (sh : list (Z * list Z)) : doc := [(k_cedar, VDoc ((k_start, VDateTime 0) :: act_skel sh))].
Definition act_bytes (sh : list (Z * list Z)) : nat :=
  fold_right (fun nk a => (length (name_of (fst nk)) + 7 + sub_bytes (snd nk) + a)%nat) 0%nat sh.
(* exact length of the BSON encoding of an output document *)
Definition doc_bytes (sh : list (Z * list Z)) : nat := (32 + act_bytes sh)%nat.

Definition subs_ok (subs : list (Z * vals)) : Prop :=
  Forall (fun nv => key_ok (name_of (fst nv)) = true /\ vals_ok (snd nv)) subs.
Definition out_ok (o : out_sample) : Prop := date_ok (fst o) = true /\ subs_ok (snd o).

Lemma act_bytes_cons : forall nm ks sh,
  act_bytes ((nm, ks) :: sh) = (length (name_of nm) + 7 + sub_bytes ks + act_bytes sh)%nat.
Proof. reflexivity. Qed.

Lemma act_doc_cons : forall nm v r, act_doc ((nm, v) :: r) = (name_of nm, VDoc (sub_doc v)) :: act_doc r.
Proof. reflexivity. Qed.

Lemma act_doc_skeleton : forall subs,
  skeleton_doc (act_doc subs) = act_skel (map (fun nv => (fst nv, map fst (snd nv))) subs).
Proof.
  induction subs as [|[nm v] r IH]; [reflexivity|]. rewrite act_doc_cons. cbn [map fst snd].
  rewrite skeleton_doc_cons_doc, sub_doc_skeleton, IH. reflexivity.
Qed.
Lemma act_doc_strip : forall subs, strip_doc (act_doc subs) = act_doc subs.
Proof.
  induction subs as [|[nm v] r IH]; [reflexivity|]. rewrite act_doc_cons. cbn [map fst snd].
  rewrite strip_doc_cons_doc, sub_doc_strip, IH. reflexivity.
Qed.
Lemma act_doc_ok : forall subs, subs_ok subs -> doc_ok (act_doc subs) = true.
Proof.
  induction subs as [|[nm v] r IH]; intros H; [reflexivity|]. inversion H as [|a b [Hk Hv] Hr]; subst.
  cbn [fst snd] in Hk, Hv. rewrite act_doc_cons. cbn [map fst snd].
  rewrite doc_ok_cons_doc, Hk, (sub_doc_ok v Hv), (IH Hr). reflexivity.
Qed.
Lemma act_doc_leaves_ok : forall subs, subs_ok subs -> doc_leaves_ok (act_doc subs) = true.
Proof.
  induction subs as [|[nm v] r IH]; intros H; [reflexivity|]. inversion H as [|a b [Hk Hv] Hr]; subst.
  cbn [fst snd] in Hk, Hv. rewrite act_doc_cons. cbn [map fst snd].
  rewrite leaves_ok_cons_doc, (sub_doc_leaves_ok v Hv), (IH Hr). reflexivity.
Qed.
Lemma act_doc_no_ts : forall subs, doc_has_ts_seconds (act_doc subs) = false.
Proof.
  induction subs as [|[nm v] r IH]; [reflexivity|]. rewrite act_doc_cons. cbn [map fst snd].
  rewrite has_ts_cons_doc, sub_doc_no_ts, IH. reflexivity.
Qed.
Lemma act_doc_enc_length : forall subs,
  length (enc_elems (act_doc subs)) = act_bytes (map (fun nv => (fst nv, map fst (snd nv))) subs).
Proof.
  induction subs as [|[nm v] r IH]; [reflexivity|]. rewrite act_doc_cons. cbn [map fst snd].
  rewrite enc_elems_cons_doc_length, sub_doc_enc_length, IH, act_bytes_cons. lia.
Qed.
Lemma act_doc_flatten_le : forall subs,
  (length (flatten_doc (act_doc subs)) <= act_bytes (map (fun nv => (fst nv, map fst (snd nv))) subs))%nat.
Proof.
  induction subs as [|[nm v] r IH]; [cbn; lia|]. rewrite act_doc_cons. cbn [map fst snd].
  rewrite flatten_cons_doc, app_length, sub_doc_flatten_length, act_bytes_cons.
  assert (length v <= sub_bytes (map fst v))%nat.
  { clear. induction v as [|[k x] r IH]; [cbn; lia|]. cbn [map fst length]. rewrite sub_bytes_cons. lia. }
  lia.
Qed.

Lemma genny_skeleton : forall o, skeleton_doc (genny_doc o) = skel_of (shape o).
Proof.
  intros [t subs]. unfold genny_doc, skel_of, shape. cbn [fst snd].
  rewrite skeleton_doc_cons_doc. cbn [skeleton_doc skeleton zero_leaf].
  rewrite act_doc_skeleton. reflexivity.
Qed.

Lemma genny_strip : forall o, strip_doc (genny_doc o) = genny_doc o.
Proof.
  intros [t subs]. unfold genny_doc. cbn [fst snd].
  rewrite strip_doc_cons_doc. cbn [strip_doc strip]. rewrite act_doc_strip. reflexivity.
Qed.

Lemma date_ok_i64 : forall ms, date_ok ms = true -> in_i64 ms = true.
Proof. intros ms H. apply mp_date_ok_bounds in H. apply in_i64_iff. lia. Qed.

Lemma genny_doc_ok : forall o, out_ok o -> doc_ok (genny_doc o) = true.
Proof.
  intros [t subs] [Hd Hs]. cbn [fst snd] in *. unfold genny_doc. cbn [fst snd].
  rewrite doc_ok_cons_doc. cbn [doc_ok value_ok]. rewrite (date_ok_i64 t Hd), (act_doc_ok subs Hs). reflexivity.
Qed.

Lemma genny_leaves_ok : forall o, out_ok o -> doc_leaves_ok (genny_doc o) = true.
Proof.
  intros [t subs] [Hd Hs]. cbn [fst snd] in *. unfold genny_doc. cbn [fst snd].
  rewrite leaves_ok_cons_doc. cbn [doc_leaves_ok leaves_ok]. rewrite Hd, (act_doc_leaves_ok subs Hs). reflexivity.
Qed.

Lemma genny_no_ts : forall o, doc_has_ts_seconds (genny_doc o) = false.
Proof.
  intros [t subs]. unfold genny_doc. cbn [fst snd].
  rewrite has_ts_cons_doc. cbn [doc_has_ts_seconds has_ts_seconds orb]. rewrite act_doc_no_ts. reflexivity.
Qed.

Lemma genny_enc_length : forall o, length (enc_doc (genny_doc o)) = doc_bytes (shape o).
Proof.
  intros [t subs]. unfold genny_doc, enc_doc, doc_bytes, shape. cbn [fst snd].
  rewrite bs_frame_length, enc_elems_cons_doc_length, bs_enc_elems_cons_length, act_doc_enc_length.
  cbn [enc_value enc_elems]. rewrite le_enc_length.
  change (length k_cedar) with 5%nat. change (length k_start) with 5%nat. cbn [length]. lia.
Qed.

Lemma genny_flatten_le : forall o, (length (flatten_doc (genny_doc o)) <= doc_bytes (shape o))%nat.
Proof.
  intros [t subs]. unfold genny_doc, doc_bytes, shape. cbn [fst snd].
  rewrite flatten_cons_doc. cbn [flatten_doc flatten]. rewrite app_nil_r.
  cbn [app length]. pose proof (act_doc_flatten_le subs). lia.
Qed.

(* every hypothesis of the round trip, for one output document *)
Lemma genny_doc_good : forall o, out_ok o -> (N.of_nat (doc_bytes (shape o)) < 2 ^ 31)%N ->
  doc_good (skel_of (shape o)) (genny_doc o).
Proof.
  intros o Hok Hsz. split; [apply genny_skeleton|]. split; [apply genny_doc_ok; exact Hok|].
  split; [apply genny_leaves_ok; exact Hok|]. split; [unfold Wf.small; rewrite genny_enc_length; exact Hsz|].
  split; [apply genny_no_ts|]. pose proof (genny_flatten_le o). lia.
Qed.

(* ================================================================== D. composition *)
Variable deflate : bytes -> bytes.
Variable inflate : bytes -> option bytes.
Hypothesis inflate_deflate : forall p, inflate (deflate p) = Some p.

(* what the reader of the emitted stream observes *)
Definition reads_back (outer : list doc) (out : list out_sample) : Prop :=
  (exists cs, read_chunks inflate None outer = (cs, None) /\
     Forall2 (fun c g => ck_npoints c = Z.of_nat (length g) /\
                         structured_docs c = map (fun o => Some (genny_doc o)) g) cs (output_chunks out)) /\
  read_structured inflate outer = (Some (map genny_doc out), None).

(* any output sequence with one key structure throughout *)
Theorem genny_stream_roundtrip : forall out sh nows,
  out <> [] -> Forall (fun o => shape o = sh) out -> Forall out_ok out ->
  (N.of_nat (doc_bytes sh) < 2 ^ 31)%N ->
  length nows = length out -> Forall (fun t => in_i64 t = true) nows ->
  let res := emit deflate KStream 300 (map genny_doc out) nows in
  snd res = map (fun _ => BAdd ROk) out ++ [BFlush true] /\
  reads_back (emitted (snd (fst res))) out.
Proof.
  intros out sh nows Hne Hsh Hok Hsz Hlen Hnows res.
  set (sk := skel_of sh).
  assert (Hgood : Forall (doc_good sk) (map genny_doc out)).
  { rewrite Forall_map. apply Forall_forall. intros o Ho.
    rewrite Forall_forall in Hsh, Hok. unfold sk. rewrite <- (Hsh o Ho).
    apply genny_doc_good; [apply Hok; exact Ho|rewrite (Hsh o Ho); exact Hsz]. }
  assert (Hcol : Forall (dcol sk) (map genny_doc out)).
  { revert Hgood. apply Forall_impl. intros d Hd. split; apply Hd. }
  destruct (stream_emit_groups deflate 300 sk (map genny_doc out) nows) as (c & w & Hemit & [_ Hem]);
    [lia|destruct out; [congruence|discriminate]|rewrite map_length; exact Hlen|exact Hnows|exact Hcol|].
  subst res. rewrite Hemit. cbn [fst snd]. rewrite map_map. split; [reflexivity|].
  change (Z.to_nat 300) with max_samples in Hem.
  change [] with (map genny_doc []) in Hem. rewrite stream_collect_map in Hem.
  fold (output_chunks out) in Hem.
  assert (Hcat : concat (map (map genny_doc) (output_chunks out)) = map genny_doc out).
  { rewrite <- concat_map. rewrite (proj1 (GennyProofs.genny_chunks out)). reflexivity. }
  split.
  - destruct (read_chunks_each deflate inflate inflate_deflate 300 sk _ _ ltac:(lia) Hem) as [cs [Hcs Heach]];
      [rewrite Hcat; exact Hgood|].
    exists cs. split; [exact Hcs|].
    apply Forall2_map_r in Heach. revert Heach. apply Forall2_weaken. intros ck g [Hnp Hdocs].
    split; [rewrite Hnp, map_length; reflexivity|].
    rewrite Hdocs, map_map. apply map_ext. intros o. rewrite genny_strip. reflexivity.
  - rewrite (read_structured_groups deflate inflate inflate_deflate 300 sk _ _ ltac:(lia) Hem)
      by (rewrite Hcat; exact Hgood).
    rewrite Hcat, map_map. f_equal. f_equal. apply map_ext. intros o. apply genny_strip.
Qed.

(* ---- performance-event streams ---- *)
Definition keys8 : list Z := [0; 1; 2; 3; 4; 5; 6; 7].

(* every sample of every actor carries the eight selected keys, in the order of
   createZeroedMetrics (the order of Performance.MarshalDocument's metrics), with
   int64 values: then all sub-documents of an actor - the initial zero sample and
   every later selection - have the same keys *)
Definition perf_streams (actors : list actor) : Prop :=
  Forall (fun a => forall ch s, In ch (a_chunks a) -> In s ch ->
            map fst (select s) = keys8 /\ vals_ok (select s)) actors.
Definition names_ok (actors : list actor) : Prop := Forall (fun a => key_ok (name_of (a_name a)) = true) actors.
(* the output document stays below BSON's 2 GiB limit: 32 bytes + per actor its
   name + 122 bytes *)
Definition names_fit (actors : list actor) : Prop :=
  Z.of_nat (fold_right (fun a acc => (length (name_of (a_name a)) + 122 + acc)%nat) 0%nat actors) + 32 < 2 ^ 31.
(* 1000 * second is a date Go expresses in nanoseconds, for every second of the span *)
Definition dates_in_range (start end_ : Z) : Prop := -9223372036 <= start /\ end_ <= 9223372037.

Definition actors_shape (actors : list actor) : list (Z * list Z) := map (fun a => (a_name a, keys8)) actors.

Lemma actors_shape_bytes : forall actors,
  doc_bytes (actors_shape actors) =
  (32 + fold_right (fun a acc => (length (name_of (a_name a)) + 122 + acc)%nat) 0%nat actors)%nat.
Proof.
  intros actors. unfold doc_bytes. f_equal. induction actors as [|a r IH]; [reflexivity|].
  unfold actors_shape in *. cbn [map fold_right]. rewrite act_bytes_cons, IH.
  change (sub_bytes keys8) with 115%nat. lia.
Qed.

Lemma sub_shape_ok : forall actors subs,
  perf_streams actors -> names_ok actors ->
  map fst subs = map a_name actors ->
  Forall2 (fun a nv => snd nv = zeroed \/ GennyProofs.own (a_chunks a) (snd nv)) actors subs ->
  map (fun nv => (fst nv, map fst (snd nv))) subs = actors_shape actors /\ subs_ok subs.
Proof.
  intros actors subs Hp Hn Hnames HF. revert Hp Hn Hnames.
  induction HF as [|a [nm v] actors subs Hown HF IH]; intros Hp Hn Hnames; [split; [reflexivity|constructor]|].
  inversion Hp as [|x y Hpa Hp']; subst. inversion Hn as [|x y Hna Hn']; subst.
  cbn [map fst snd] in Hnames, Hown. injection Hnames as Hnm Hnames. subst nm.
  destruct (IH Hp' Hn' Hnames) as [Hsh Hok].
  assert (Hv : map fst v = keys8 /\ vals_ok v).
  { destruct Hown as [->|(ch & s & Hch & Hs & ->)].
    - split; [reflexivity|repeat constructor].
    - apply (Hpa ch s Hch Hs). }
  split.
  - cbn [map fst snd actors_shape]. rewrite (proj1 Hv). f_equal. exact Hsh.
  - constructor; [|exact Hok]. cbn [fst snd]. split; [exact Hna|apply Hv].
Qed.

Theorem genny_end_to_end : forall actors start end_,
  actors <> [] -> GennyProofs.has_chunks actors -> perf_streams actors -> names_ok actors -> names_fit actors ->
  start < end_ -> dates_in_range start end_ ->
  exists out, translate_span actors start end_ = Some out /\
    length out = Z.to_nat (end_ - start) /\
    forall nows, length nows = length out -> Forall (fun t => in_i64 t = true) nows ->
      let res := emit deflate KStream 300 (map genny_doc out) nows in
      snd res = map (fun _ => BAdd ROk) out ++ [BFlush true] /\
      reads_back (emitted (snd (fst res))) out.
Proof.
  intros actors start end_ Hne Hc Hp Hn Hfit Hlt [Hlo Hhi].
  assert (Hrange : GennyProofs.stamps_in_range start end_) by (unfold GennyProofs.stamps_in_range; lia).
  destruct (GennyProofs.genny_count actors start end_ Hne Hc Hlt Hrange) as (out & Hout & Hstamps).
  destruct (GennyProofs.genny_shape actors start end_ Hc) as (out1 & Hout1 & Hshape).
  destruct (GennyProofs.genny_own_data actors start end_ Hc) as (out2 & Hout2 & Hown).
  rewrite Hout in Hout1, Hout2. injection Hout1 as <-. injection Hout2 as <-.
  exists out. split; [exact Hout|].
  assert (Hlen : length out = Z.to_nat (end_ - start)).
  { pose proof (map_length fst out) as Hml. rewrite Hstamps, map_length, seq_length in Hml. symmetry. exact Hml. }
  split; [exact Hlen|]. intros nows Hnl Hnows.
  apply (genny_stream_roundtrip out (actors_shape actors) nows).
  - intros E. rewrite E in Hlen. cbn [length] in Hlen. lia.
  - apply Forall_forall. intros o Ho. rewrite Forall_forall in Hshape, Hown.
    apply (sub_shape_ok actors (snd o) Hp Hn (Hshape o Ho) (Hown o Ho)).
  - apply Forall_forall. intros o Ho. split.
    + assert (Hin : In (fst o) (map fst out)) by (apply in_map; exact Ho).
      rewrite Hstamps in Hin. apply in_map_iff in Hin. destruct Hin as [i [Hi Hseq]].
      apply in_seq in Hseq. rewrite <- Hi. unfold date_ok. apply andb_true_intro. split; apply Z.leb_le; lia.
    + rewrite Forall_forall in Hshape, Hown.
      apply (sub_shape_ok actors (snd o) Hp Hn (Hshape o Ho) (Hown o Ho)).
  - rewrite actors_shape_bytes. unfold names_fit in Hfit. lia.
  - exact Hnl.
  - exact Hnows.
Qed.

End Genny.

Print Assumptions stream_emit_groups.
Print Assumptions genny_stream_roundtrip.
Print Assumptions genny_end_to_end.
