(* Oracle soundness for C03 (encode direction): the executable oracle
   c03_encode_verdict of Spec/FtdcSpec.v answers COk on what the model of the
   library's collectors emits (with the trivial codec the oracle runs with). *)
From Coq Require Import ZArith NArith List Bool Lia Arith.
From FV.Model Require Import Bytes Bson Metrics Codec Collector Wf RoundTrip.
From FV.Spec Require Import FtdcSpec.
From FV.Proofs Require Import CodecProofs SpecProofs.
Import ListNotations.
Open Scope Z_scope.

Lemma triv_inflate_deflate : forall p, triv_inflate (triv_deflate p) = Some p.
Proof. intro p. reflexivity. Qed.

Lemma spec_bytes_eqb_refl : forall a, spec_bytes_eqb a a = true.
Proof. intro a. unfold spec_bytes_eqb. destruct (list_eq_dec N.eq_dec a a); [reflexivity|congruence]. Qed.

Lemma zrows_eqb_refl : forall a, zrows_eqb a a = true.
Proof. intro a. unfold zrows_eqb. destruct (list_eq_dec (list_eq_dec Z.eq_dec) a a); [reflexivity|congruence]. Qed.

Section Canon.
Variable deflate : bytes -> bytes.

Lemma canon_header : forall cds groups, Forall2 (canon_of deflate) cds groups -> forallb header_exact cds = true.
Proof.
  intros cds groups H. induction H as [|cd g cds groups (id & _ & _ & ->) _ IH]; [reflexivity|].
  cbn [forallb]. rewrite IH, andb_true_r. reflexivity.
Qed.

Lemma canon_chunk_docs : forall cds groups, Forall2 (canon_of deflate) cds groups -> chunk_docs cds = cds.
Proof.
  intros cds groups H. induction H as [|cd g cds groups (id & _ & _ & ->) _ IH]; [reflexivity|].
  unfold chunk_docs in *. cbn [filter]. unfold canonical_chunk at 1.
  rewrite spec_class_chunk by reflexivity. rewrite IH. reflexivity.
Qed.

Lemma canon_samples : forall groups,
  concat (map fst (map group_table groups)) = map spec_metrics_doc (concat groups).
Proof.
  intro groups. rewrite map_map. unfold group_table. cbn [fst].
  induction groups as [|g r IH]; [reflexivity|]. cbn [map concat]. rewrite IH, map_app. reflexivity.
Qed.

Lemma skipn_app_len : forall (A : Type) (a b : list A), skipn (length a) (a ++ b) = b.
Proof. intros A a b. induction a; [reflexivity|assumption]. Qed.

Lemma canon_refs : forall cds groups, Forall2 (canon_of deflate) cds groups ->
  refs_verbatim (concat groups) (map group_table groups) = true.
Proof.
  intros cds groups H. induction H as [|cd g cds groups (id & _ & Hne & _) _ IH]; [reflexivity|].
  cbn [map concat]. unfold group_table at 1. cbn [refs_verbatim].
  destruct g as [|d0 g']; [congruence|]. cbn [app hd]. rewrite spec_bytes_eqb_refl. cbn [andb].
  change (d0 :: g' ++ concat groups) with ((d0 :: g') ++ concat groups).
  rewrite map_length, skipn_app_len. exact IH.
Qed.

End Canon.

Lemma canon_all : forall cds groups, Forall2 (canon_of triv_deflate) cds groups ->
  all_canonical cds (map group_table groups) = true.
Proof.
  intros cds groups H. induction H as [|cd g cds groups (id & _ & Hne & ->) _ IH]; [reflexivity|].
  cbn [map]. unfold group_table at 1. cbn [all_canonical]. rewrite IH, andb_true_r.
  unfold x_canonical_chunk. replace (tl (map spec_metrics_doc g)) with (map spec_metrics_doc (tl g)) by (destruct g; reflexivity).
  change (chunk_id (canonical_chunk triv_deflate id (hd [] g) (map spec_metrics_doc (tl g)))) with id.
  apply spec_bytes_eqb_refl.
Qed.

Lemma c03_oracle_sound : forall k n docs nows,
  compressing k = true -> 1 <= n < 2 ^ 31 ->
  (docs <> [] /\ length nows = length docs /\ Forall (fun t => in_i64 t = true) nows /\
   same_schema docs /\
   Forall (fun d => doc_ok d = true /\ doc_leaves_ok d = true /\ small (enc_doc d)) docs /\
   (N.of_nat (length (flatten_doc (hd [] docs))) < 2 ^ 32)%N) ->
  fits k n docs ->
  let ds := emitted (snd (fst (emit triv_deflate k n docs nows))) in
  exists groups,
    concat groups = docs /\ Forall2 (canon_of triv_deflate) ds groups /\
    (Forall group_small groups ->
     x_spec_decode_stream ds = Some (map group_table groups) /\
     c03_encode_verdict docs ds = COk /\ c03_encode_ok docs ds = true).
Proof.
  intros k n docs nows Hk Hn Hin Hfit ds.
  destruct (spec_encode_canonical triv_deflate triv_inflate triv_inflate_deflate k n docs nows Hk Hn Hin Hfit)
    as (_ & groups & Hcat & HF2 & Hdec).
  exists groups. split; [exact Hcat|]. split; [exact HF2|]. intro Hsm. specialize (Hdec Hsm).
  fold ds in Hdec, HF2.
  assert (Hv : c03_encode_verdict docs ds = COk).
  { unfold c03_encode_verdict, x_spec_decode_stream. rewrite Hdec.
    rewrite (canon_header _ _ _ HF2). cbn [negb].
    rewrite canon_samples, Hcat, zrows_eqb_refl. cbn [negb].
    rewrite <- Hcat at 1. rewrite (canon_refs _ _ _ HF2). cbn [negb].
    rewrite (canon_chunk_docs _ _ _ HF2), (canon_all _ _ HF2). reflexivity. }
  split; [exact Hdec|]. split; [exact Hv|]. unfold c03_encode_ok. rewrite Hv. reflexivity.
Qed.
