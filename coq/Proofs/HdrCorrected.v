(* RecordCorrectedValue (hdrhist/hdr.go): the values one call stands for in closed form, the state it reaches as a
   state of the plain record sequence (so that every invariant of Proofs/HdrProofs.v applies to it), and soundness of
   the oracle c12_ok_corr the correspondence driver applies to the implementation's observations. *)
From Coq Require Import ZArith List Bool Lia.
From FV.Model Require Import Hdr HdrOk.
From FV.Proofs Require Import HdrProofs.
Import ListNotations.
Open Scope Z_scope.

(* ---- the back-filled values in closed form ---- *)

Lemma backfill_closed : forall fuel m e, 0 < e -> 0 <= m -> m / e <= Z.of_nat fuel ->
  backfill fuel m e = map (fun k => m - k * e) (zrange 0 (m / e)).
Proof.
  induction fuel as [|f IH]; intros m e He Hm Hf.
  - cbn [backfill]. assert (m / e = 0) by (pose proof (Z.div_pos m e Hm He); lia).
    rewrite H. reflexivity.
  - cbn [backfill]. destruct (e <=? m) eqn:E.
    + apply Z.leb_le in E.
      assert (Hq : m / e = (m - e) / e + 1).
      { replace m with ((m - e) + 1 * e) at 1 by lia. rewrite Z.div_add by lia. reflexivity. }
      assert (Hq0 : 0 <= (m - e) / e) by (apply Z.div_pos; lia).
      rewrite Hq. rewrite zrange_cons by exact Hq0. cbn [map].
      f_equal; [lia|].
      rewrite (IH (m - e) e He) by lia.
      replace (0 + 1) with (1 + 0) by lia.
      rewrite <- (zrange_shift 1 0 ((m - e) / e)). rewrite map_map.
      apply map_ext. intros k. lia.
    + apply Z.leb_gt in E. rewrite Z.div_small by lia. reflexivity.
Qed.

(* RecordCorrectedValue(v, e) with 0 < e < v stands for v, v - e, ..., v - (v/e - 1) e: every v - k e that is at least e *)
Lemma corrected_values_closed : forall v e, 0 < e -> e < v ->
  corrected_values v e = map (fun k => v - k * e) (zrange 0 (v / e)).
Proof.
  intros v e He Hv. unfold corrected_values.
  replace ((e <=? 0) || (v <=? e)) with false
    by (symmetry; apply orb_false_iff; split; [apply Z.leb_gt|apply Z.leb_gt]; lia).
  assert (Hq : v / e = (v - e) / e + 1).
  { replace v with ((v - e) + 1 * e) at 1 by lia. rewrite Z.div_add by lia. reflexivity. }
  assert (Hq0 : 0 <= (v - e) / e) by (apply Z.div_pos; lia).
  rewrite backfill_closed; [|lia|lia|rewrite Z2Nat.id; lia].
  rewrite Hq. rewrite zrange_cons by exact Hq0. cbn [map]. f_equal; [lia|].
  replace (0 + 1) with (1 + 0) by lia.
  rewrite <- (zrange_shift 1 0 ((v - e) / e)). rewrite map_map. apply map_ext. intros k. lia.
Qed.

Lemma corrected_values_plain : forall v e, e <= 0 \/ v <= e -> corrected_values v e = [v].
Proof.
  intros v e H. unfold corrected_values.
  replace ((e <=? 0) || (v <=? e)) with true; [reflexivity|].
  symmetry. apply orb_true_iff. destruct H; [left|right]; apply Z.leb_le; lia.
Qed.

(* nothing outside e..v is back-filled, and v comes first *)
Lemma corrected_values_bounds : forall v e x, In x (corrected_values v e) -> x = v \/ (0 < e /\ e <= x < v).
Proof.
  intros v e x Hin. destruct (Z_le_gt_dec e 0) as [He|He].
  - rewrite corrected_values_plain in Hin by lia. destruct Hin as [<-|[]]. now left.
  - destruct (Z_le_gt_dec v e) as [Hv|Hv].
    + rewrite corrected_values_plain in Hin by lia. destruct Hin as [<-|[]]. now left.
    + rewrite corrected_values_closed in Hin by lia. apply in_map_iff in Hin.
      destruct Hin as [k [<- Hk]]. apply In_zrange in Hk.
      destruct (Z.eq_dec k 0) as [->|Hk0]; [left; lia|right].
      split; [lia|]. pose proof (Z.mul_div_le v e ltac:(lia)). nia.
Qed.

(* ---- the state reached is a state of the plain record sequence ---- *)

Lemma record_until_fail_prefix : forall vs h h' ok, record_until_fail h vs = (h', ok) ->
  exists j, (j <= length vs)%nat /\ (ok = true -> j = length vs) /\
            record_all h (firstn j vs) = (h', Z.of_nat j).
Proof.
  induction vs as [|v r IH]; intros h h' ok H.
  - cbn [record_until_fail] in H. inversion H; subst. exists O.
    split; [cbn [length]; lia|]. split; [intros _; reflexivity|reflexivity].
  - cbn [record_until_fail] in H. destruct (record_value h v) as [h1|] eqn:E.
    + destruct (IH h1 h' ok H) as [j [Hj [Hok Hr]]]. exists (S j).
      split; [cbn [length]; lia|]. split; [intros T; rewrite (Hok T); reflexivity|].
      cbn [firstn record_all]. rewrite E, Hr. f_equal. lia.
    + inversion H; subst. exists O. split; [lia|]. split; [discriminate|]. reflexivity.
Qed.

Lemma record_until_fail_inv c hi : geom c hi -> forall vs h h' ok,
  hinv c h -> record_until_fail h vs = (h', ok) ->
  hinv c h' /\ (ok = true -> h_total h' = h_total h + Z.of_nat (length vs)) /\
  (ok = false -> h_total h <= h_total h' < h_total h + Z.of_nat (length vs)) /\
  (Forall (fun v => 0 <= v <= hi) vs -> ok = true).
Proof.
  intros G. induction vs as [|v r IH]; intros h h' ok Hinv H.
  - cbn [record_until_fail] in H. inversion H; subst.
    split; [assumption|]. split; [intros _; cbn [length]; lia|].
    split; [intros F; discriminate F|intros _; reflexivity].
  - cbn [record_until_fail] in H.
    destruct (record_value_inv c h v Hinv) as [[En Hno] | [h1 [Es [Hinv1 [Ht1 Hin]]]]].
    + rewrite En in H. inversion H; subst. split; [assumption|]. split; [discriminate|].
      split; [intros _; cbn [length]; lia|].
      intros HF. exfalso. apply Hno. apply (accepts_gen c hi v G). exact (Forall_inv HF).
    + rewrite Es in H. destruct (IH h1 h' ok Hinv1 H) as [A [B [C D]]].
      split; [exact A|]. split; [intros T; rewrite (B T); cbn [length]; lia|].
      split; [intros F; specialize (C F); cbn [length]; lia|].
      intros HF. apply D. exact (Forall_inv_tail HF).
Qed.

(* one call: accepted (all of its values recorded) whenever 0 <= v <= hi; refused at once, with the histogram as it
   was, when v itself is refused *)
Lemma record_corrected_spec c hi : geom c hi -> forall h v e h' ok,
  hinv c h -> record_corrected h v e = (h', ok) ->
  hinv c h' /\
  (ok = true -> h_total h' = h_total h + Z.of_nat (length (corrected_values v e))) /\
  (record_value h v = None -> h' = h /\ ok = false) /\
  (0 <= v <= hi -> ok = true).
Proof.
  intros G h v e h' ok Hinv H. unfold record_corrected in H.
  destruct (record_until_fail_inv c hi G _ h h' ok Hinv H) as [A [B [_ D]]].
  split; [exact A|]. split; [exact B|]. split.
  - intros En. unfold corrected_values in H. cbn [record_until_fail] in H. rewrite En in H.
    inversion H; subst. split; reflexivity.
  - intros Hv. apply D. apply Forall_forall. intros x Hx.
    destruct (corrected_values_bounds v e x Hx) as [->|[He Hb]]; lia.
Qed.

Lemma record_corrected_all_inv c hi : geom c hi -> forall ops h h' oks,
  hinv c h -> record_corrected_all h ops = (h', oks) ->
  hinv c h' /\ length oks = length ops /\
  (Forall (fun p => fst p <= hi) ops -> h_total h' = h_total h + corr_expected ops oks).
Proof.
  intros G. induction ops as [|[v e] r IH]; intros h h' oks Hinv H.
  - cbn [record_corrected_all] in H. inversion H; subst. split; [assumption|]. split; [reflexivity|].
    intros _. cbn [corr_expected]. lia.
  - cbn [record_corrected_all] in H.
    destruct (record_corrected h v e) as [h1 ok] eqn:E1.
    destruct (record_corrected_all h1 r) as [h2 oks2] eqn:E2. inversion H; subst.
    destruct (record_corrected_spec c hi G h v e h1 ok Hinv E1) as [A1 [B1 [C1 D1]]].
    destruct (IH h1 h' oks2 A1 E2) as [A2 [L2 T2]].
    split; [exact A2|]. split; [cbn [length]; lia|].
    intros HF. specialize (T2 (Forall_inv_tail HF)). pose proof (Forall_inv HF) as Hv. cbn [fst] in Hv.
    cbn [corr_expected]. destruct ok.
    + rewrite T2, (B1 eq_refl). lia.
    + (* refused: v is not in 0..hi, hence negative, hence alone; the only value was the refused one *)
      assert (Hneg : v < 0) by (destruct (Z_lt_ge_dec v 0); [assumption|]; assert (false = true) by (apply D1; lia); discriminate).
      unfold record_corrected in E1. rewrite corrected_values_plain in E1.
      * cbn [record_until_fail] in E1. destruct (record_value h v); inversion E1; subst. rewrite T2. lia.
      * destruct (Z_le_gt_dec e 0); [left; lia|right; lia].
Qed.

(* the oracle applied to the model's own observation holds: the total is the number of values the accepted calls stand
   for, and it is the sum of the bars *)
Lemma c12_oracle_corr_sound : forall lo hi s ops,
  (0 <= lo /\ 1 <= hi < 2 ^ 62 /\ 1 <= s <= 5) -> Forall (fun p => fst p <= hi) ops ->
  let '(oks, total, bars) := model_obs_corr lo hi s ops in
  c12_ok_corr ops oks total bars = true.
Proof.
  intros lo hi s ops Hc HF. destruct (config_geom lo hi s Hc) as [G _].
  unfold model_obs_corr. destruct (record_corrected_all (new lo hi s) ops) as [h oks] eqn:E.
  destruct (record_corrected_all_inv _ hi G ops _ h oks (hinv_new lo hi s) E) as [A [L T]].
  specialize (T HF). change (h_total (new lo hi s)) with 0 in T.
  unfold c12_ok_corr. rewrite (sum_bars_total _ hi h G A).
  apply andb_true_intro. split; [apply andb_true_intro; split|].
  - apply Nat.eqb_eq. lia.
  - apply Z.eqb_eq. lia.
  - apply Z.eqb_eq. reflexivity.
Qed.
