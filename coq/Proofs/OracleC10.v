(* Oracle soundness for C10: the executable oracles [c10_ok_sync], [c10_ok_buffered] and
   [c10_ok_catcher] (Model/SysBuffered.v), which the run-time check applies to what the Go
   wrappers did, accept the observation the model yields under EVERY schedule.

   Observations, as ocaml/c10_run.ml builds them from the harness's line:
   - one record per Add that returned: producer, sequence number, "returned nil", "returned nil
     before the cancel event" ([obs_adds pre h] over the completed operations h = ghist s, pre =
     the buffered Adds acknowledged when the context was cancelled);
   - the decoded output = the inner collector's log ([log s]); the model has no panic (0);
   - catcher: the non-nil errors handed to Add, what Errors() holds, Len(), HasErrors(),
     Resolve() <> nil.
   Shape of the harness's programs: producer g issues Add (g, 0), (g, 1), ... - only Adds, with
   increasing sequence numbers ([sync_progs] / [buf_progs]); the oracle's order clause and its
   "exactly once" clauses are stated for such programs. *)
From Coq Require Import List Arith Bool PeanoNat Lia Sorted.
From FV.Model Require Import SysBuffered.
From FV.Proofs Require Import SysBufferedProofs.
Import ListNotations.

(* ------------------------------------------------------------------ observations *)
Definition is_ok (r : result) : bool := match r with ROk => true | _ => false end.

Definition obs_adds (pre : list tsample) (h : list ev) : list addobs :=
  flat_map (fun e => match eo e with
                     | OAdd v | OBAdd v => [mkAdd (eg e) v (is_ok (er e)) (existsb (ts_eqb (eg e, v)) pre)]
                     | _ => []
                     end) h.

Definition sync_progs (progs : list (list op)) : Prop :=
  forall g, exists vs, nth g progs [] = map OAdd vs /\ StronglySorted lt vs.
Definition buf_progs (progs : list (list op)) : Prop :=
  forall g, exists vs, nth g progs [] = map OBAdd vs /\ StronglySorted lt vs.

(* the non-nil errors the goroutines hand to the catcher *)
Definition cat_expected (progs : list (list kop)) : list (nat * nat) :=
  flat_map (fun g => nonnil g (nth g progs [])) (seq 0 (length progs)).

(* ------------------------------------------------------------------ counting *)
Lemma ts_eqb_eq : forall a b, ts_eqb a b = true <-> a = b.
Proof.
  intros [a1 a2] [b1 b2]. unfold ts_eqb. cbn [fst snd]. rewrite andb_true_iff, !Nat.eqb_eq.
  split; [intros [-> ->]; reflexivity | intros E; inversion E; auto].
Qed.

Lemma ts_eqb_refl : forall a, ts_eqb a a = true.
Proof. intros a. apply ts_eqb_eq. reflexivity. Qed.

Lemma same_multiset_refl : forall l, same_multiset l l = true.
Proof. intros l. unfold same_multiset. apply forallb_forall. intros x _. apply Nat.eqb_refl. Qed.

Lemma same_multiset_count : forall a b, (forall x, count x a = count x b) -> same_multiset a b = true.
Proof. intros a b H. unfold same_multiset. apply forallb_forall. intros x _. rewrite H. apply Nat.eqb_refl. Qed.

Lemma count_app : forall x a b, count x (a ++ b) = count x a + count x b.
Proof. intros x a b. induction a as [|y a IH]; [reflexivity|]. cbn [app count]. rewrite IH. lia. Qed.

Lemma count_notin : forall x l, ~ In x l -> count x l = 0.
Proof.
  intros x l. induction l as [|y l IH]; intros H; [reflexivity|]. cbn [count].
  destruct (ts_eqb x y) eqn:E.
  - apply ts_eqb_eq in E. subst y. exfalso. apply H. left. reflexivity.
  - rewrite IH; [reflexivity|]. intros Hin. apply H. right. exact Hin.
Qed.

Lemma count_nodup : forall x l, NoDup l -> In x l -> count x l = 1.
Proof.
  intros x l ND. induction ND as [|y l Hn ND IH]; intros Hin; [destruct Hin|]. cbn [count].
  destruct Hin as [->|Hin].
  - rewrite ts_eqb_refl, (count_notin _ _ Hn). reflexivity.
  - destruct (ts_eqb x y) eqn:E.
    + apply ts_eqb_eq in E. subst y. contradiction.
    + rewrite (IH Hin). reflexivity.
Qed.

Lemma count_filter_fst : forall x l, count x l = count x (filter (fun y => fst y =? fst x) l).
Proof.
  intros x l. induction l as [|y l IH]; [reflexivity|]. cbn [count filter].
  destruct (fst y =? fst x) eqn:E; cbn [count]; rewrite <- IH; [reflexivity|].
  destruct (ts_eqb x y) eqn:T; [|reflexivity]. apply ts_eqb_eq in T. subst y. rewrite Nat.eqb_refl in E. discriminate.
Qed.

(* ------------------------------------------------------------------ per-producer order *)
Definition inc_per_producer (l : list tsample) : Prop :=
  forall g, StronglySorted lt (map snd (filter (fun x => fst x =? g) l)).

Lemma sorted_app_l : forall (a b : list nat), StronglySorted lt (a ++ b) -> StronglySorted lt a.
Proof.
  induction a as [|x a IH]; intros b H; [constructor|]. cbn [app] in H. inversion H as [|? ? Hs Hf]; subst.
  constructor; [exact (IH b Hs)|]. apply Forall_app in Hf. tauto.
Qed.

Lemma inc_app_l : forall a b, inc_per_producer (a ++ b) -> inc_per_producer a.
Proof. intros a b H g. specialize (H g). rewrite filter_app, map_app in H. exact (sorted_app_l _ _ H). Qed.

Lemma inc_order_ok : forall l, inc_per_producer l -> order_ok l = true.
Proof.
  induction l as [|x l IH]; intros H; [reflexivity|]. cbn [order_ok]. apply andb_true_iff. split.
  - apply forallb_forall. intros y Hy. destruct (fst y =? fst x) eqn:E; cbn [negb orb]; [|reflexivity].
    specialize (H (fst x)). cbn [filter] in H. rewrite Nat.eqb_refl in H. cbn [map] in H.
    inversion H as [|? ? _ Hf]; subst. rewrite Forall_forall in Hf. apply Nat.ltb_lt. apply Hf.
    apply in_map. apply filter_In. split; [exact Hy | exact E].
  - apply IH. intros g. specialize (H g). cbn [filter] in H. destruct (fst x =? g); [|exact H].
    cbn [map] in H. inversion H; assumption.
Qed.

Lemma inc_nodup : forall l, inc_per_producer l -> NoDup l.
Proof.
  induction l as [|x l IH]; intros H; constructor.
  - intros Hin. specialize (H (fst x)). cbn [filter] in H. rewrite Nat.eqb_refl in H. cbn [map] in H.
    inversion H as [|? ? _ Hf]; subst. rewrite Forall_forall in Hf.
    assert (snd x < snd x); [|lia]. apply Hf. apply in_map. apply filter_In. split; [exact Hin | apply Nat.eqb_refl].
  - apply IH. intros g. specialize (H g). cbn [filter] in H. destruct (fst x =? g); [|exact H].
    cbn [map] in H. inversion H; assumption.
Qed.

(* the acknowledged Adds of a history whose operations are Add v1, Add v2, ... (v increasing) *)
Lemma acked_in : forall h vs y, map eo h = map OAdd vs -> In y (map snd (acked h)) -> In y vs.
Proof.
  induction h as [|e h IH]; intros vs y E Hin; [destruct Hin|].
  destruct vs as [|v vs]; [discriminate E|]. cbn [map] in E. inversion E as [[E1 E2]].
  unfold acked in Hin. cbn [flat_map] in Hin. fold (acked h) in Hin. rewrite E1 in Hin.
  rewrite map_app in Hin. apply in_app_or in Hin. destruct Hin as [Hin|Hin].
  - destruct (er e); cbn in Hin; try contradiction. destruct Hin as [<-|[]]. left. reflexivity.
  - right. exact (IH vs y E2 Hin).
Qed.

Lemma acked_sorted : forall h vs, map eo h = map OAdd vs -> StronglySorted lt vs ->
  StronglySorted lt (map snd (acked h)).
Proof.
  induction h as [|e h IH]; intros vs E S; [constructor|].
  destruct vs as [|v vs]; [discriminate E|]. cbn [map] in E. inversion E as [[E1 E2]].
  inversion S as [|? ? S' F]; subst.
  unfold acked. cbn [flat_map]. fold (acked h). rewrite E1, map_app.
  assert (T : StronglySorted lt (map snd (acked h))) by exact (IH vs E2 S').
  destruct (er e); cbn [map app]; try exact T.
  constructor; [exact T|]. apply Forall_forall. intros y Hy. rewrite Forall_forall in F. apply F.
  exact (acked_in h vs y E2 Hy).
Qed.

Lemma backed_in : forall h vs y, map eo h = map OBAdd vs -> In y (map snd (backed h)) -> In y vs.
Proof.
  induction h as [|e h IH]; intros vs y E Hin; [destruct Hin|].
  destruct vs as [|v vs]; [discriminate E|]. cbn [map] in E. inversion E as [[E1 E2]].
  unfold backed in Hin. cbn [flat_map] in Hin. fold (backed h) in Hin. rewrite E1 in Hin.
  rewrite map_app in Hin. apply in_app_or in Hin. destruct Hin as [Hin|Hin].
  - destruct (er e); cbn in Hin; try contradiction. destruct Hin as [<-|[]]. left. reflexivity.
  - right. exact (IH vs y E2 Hin).
Qed.

Lemma backed_sorted : forall h vs, map eo h = map OBAdd vs -> StronglySorted lt vs ->
  StronglySorted lt (map snd (backed h)).
Proof.
  induction h as [|e h IH]; intros vs E S; [constructor|].
  destruct vs as [|v vs]; [discriminate E|]. cbn [map] in E. inversion E as [[E1 E2]].
  inversion S as [|? ? S' F]; subst.
  unfold backed. cbn [flat_map]. fold (backed h). rewrite E1, map_app.
  assert (T : StronglySorted lt (map snd (backed h))) by exact (IH vs E2 S').
  destruct (er e); cbn [map app]; try exact T.
  constructor; [exact T|]. apply Forall_forall. intros y Hy. rewrite Forall_forall in F. apply F.
  exact (backed_in h vs y E2 Hy).
Qed.

(* ------------------------------------------------------------------ the Add records *)
Lemma obs_adds_sync : forall pre h, (forall e, In e h -> exists v, eo e = OAdd v) ->
  acked_nil (obs_adds pre h) = acked h /\ backed h = [].
Proof.
  intros pre. induction h as [|e h IH]; intros H; [split; reflexivity|].
  destruct (IH (fun e' Hin => H e' (or_intror Hin))) as [A B].
  destruct (H e (or_introl eq_refl)) as [v Ev].
  unfold obs_adds, acked, backed, acked_nil in *. cbn [flat_map]. rewrite Ev.
  rewrite B. split; [|reflexivity].
  cbn [app filter a_nil]. destruct (er e); cbn [is_ok map a_p a_s app]; rewrite A; reflexivity.
Qed.

Lemma obs_adds_buf : forall pre h, (forall e, In e h -> exists v, eo e = OBAdd v) ->
  acked_nil (obs_adds pre h) = backed h /\ acked h = [].
Proof.
  intros pre. induction h as [|e h IH]; intros H; [split; reflexivity|].
  destruct (IH (fun e' Hin => H e' (or_intror Hin))) as [A B].
  destruct (H e (or_introl eq_refl)) as [v Ev].
  unfold obs_adds, acked, backed, acked_nil in *. cbn [flat_map]. rewrite Ev.
  rewrite B. split; [|reflexivity].
  cbn [app filter a_nil]. destruct (er e); cbn [is_ok map a_p a_s app]; rewrite A; reflexivity.
Qed.

Lemma map_nil_inv : forall {A B} (f : A -> B) l, map f l = [] -> l = [].
Proof. intros A B f [|x l] H; [reflexivity | discriminate H]. Qed.

Lemma filter_compl_nil : forall {A} (p : A -> bool) l, filter p l = [] -> filter (fun x => negb (p x)) l = l.
Proof.
  intros A p. induction l as [|x l IH]; intros H; [reflexivity|]. cbn [filter] in *.
  destruct (p x); [discriminate H|]. cbn [negb]. rewrite (IH H). reflexivity.
Qed.

Lemma rejs_nil_oks : forall d, rejs d = [] -> oks d = map fst d.
Proof.
  unfold rejs, oks. induction d as [|[x b] d IH]; intros H; [reflexivity|]. cbn [filter snd negb] in *.
  destruct b; cbn [negb map fst] in *; [rewrite (IH H); reflexivity | discriminate H].
Qed.

Lemma nodup_app_l : forall {A} (a b : list A), NoDup (a ++ b) -> NoDup a.
Proof.
  intros A a b. induction a as [|x a IH]; intros H; [constructor|]. cbn [app] in H. inversion H as [|? ? Hn Hd]; subst.
  constructor; [|exact (IH Hd)]. intros Hin. apply Hn. apply in_or_app. left. exact Hin.
Qed.

(* ================================================================== *)
Section Sound.
Variable accepts : list tsample -> tsample -> bool.
Variable size : nat.
Notation step := (step accepts size).
Notation run := (run accepts size).
Notation quiescent := (quiescent accepts size).

(* every completed operation of a run is one of its program *)
Lemma events_from_progs : forall progs sched s e, run (init progs) sched = Some s -> In e (ghist s) ->
  In (eo e) (nth (eg e) progs []).
Proof.
  intros progs sched s e R Hin. destruct (linearizable accepts size _ _ _ R) as [_ [B _]].
  destruct (B (eg e)) as [B1 _]. rewrite <- B1. apply in_or_app. left. apply in_map.
  unfold hist_of. apply filter_In. split; [exact Hin | apply Nat.eqb_refl].
Qed.

Lemma finished_hist : forall progs sched s g, run (init progs) sched = Some s -> prog s g = [] ->
  map eo (hist_of g (ghist s)) = nth g progs [].
Proof.
  intros progs sched s g R Hf. destruct (linearizable accepts size _ _ _ R) as [_ [B _]].
  destruct (B g) as [B1 _]. rewrite Hf, app_nil_r in B1. exact B1.
Qed.

Lemma finished_inflight : forall s, (forall g, prog s g = []) -> inflight s = [].
Proof.
  intros s Hf. unfold inflight. destruct (wr s) as [[g|]|]; try reflexivity. rewrite Hf.
  destruct (pc s g) as [| | |r| |]; try reflexivity. destruct r; reflexivity.
Qed.

(* ---------------------------------------------------------------- synchronized collector *)
Lemma c10_sync_oracle_sound : forall progs sched s pre,
  sync_progs progs ->
  run (init progs) sched = Some s -> (forall g, prog s g = []) ->
  c10_ok_sync (obs_adds pre (ghist s)) (log s) 0 = true.
Proof.
  intros progs sched s pre SP R Hf.
  assert (Hev : forall e, In e (ghist s) -> exists v, eo e = OAdd v).
  { intros e Hin. pose proof (events_from_progs _ _ _ _ R Hin) as Hp.
    destruct (SP (eg e)) as (vs & Evs & _). rewrite Evs in Hp. apply in_map_iff in Hp.
    destruct Hp as (v & Ev & _). exists v. symmetry. exact Ev. }
  destruct (obs_adds_sync pre (ghist s) Hev) as [Hnil Hb].
  destruct (conservation accepts size _ _ _ R) as (_ & C1 & C2 & _).
  rewrite Hb in C1. symmetry in C1. apply app_eq_nil in C1. destruct C1 as [Cd C1].
  apply app_eq_nil in C1. destruct C1 as [Ch _].
  assert (Hho : hand_ok s = []).
  { unfold hand_ok. unfold hand in Ch. destruct (dp s); try reflexivity; discriminate Ch. }
  apply map_nil_inv in Cd. rewrite Cd, Hho in C2. cbn in C2. apply map_nil_inv in C2.
  destruct (linearizable accepts size _ _ _ R) as (_ & _ & Lc & _).
  rewrite (finished_inflight s Hf), app_nil_r in Lc.
  assert (Hlog : log s = acked (ghist s)).
  { unfold log. rewrite <- Lc. f_equal. symmetry.
    replace (filter is_client (olog s)) with (filter (fun x => negb (is_drainer x)) (olog s)).
    - apply filter_compl_nil. exact C2.
    - apply filter_ext. intros x. unfold is_drainer. apply negb_involutive. }
  unfold c10_ok_sync. rewrite Hnil, Hlog, same_multiset_refl. cbn [Nat.eqb andb].
  apply inc_order_ok. intros g. rewrite acked_hist_of.
  destruct (SP g) as (vs & Evs & Svs).
  apply (acked_sorted _ vs); [|exact Svs]. rewrite (finished_hist _ _ _ g R (Hf g)). exact Evs.
Qed.

(* ---------------------------------------------------------------- buffered collector *)
Lemma quiescent_finished : forall progs sched s, run (init progs) sched = Some s -> quiescent s ->
  forall g, prog s g = [].
Proof.
  intros progs sched s R Q g. destruct (prog s g) as [|o r] eqn:E; [reflexivity|]. exfalso.
  destruct (progress accepts size _ _ _ R) as [P _].
  destruct P as (t & s' & Hs); [exists g; rewrite E; discriminate|]. rewrite (Q t) in Hs. discriminate.
Qed.

Lemma quiescent_hand : forall progs sched s, run (init progs) sched = Some s -> quiescent s -> hand s = [].
Proof.
  intros progs sched s R Q. pose proof (Inv_reach accepts size _ _ _ R) as I. destruct I as [il _ _ _ _ _].
  pose proof (Q D) as HD. cbn [SysBuffered.step] in HD. unfold step_drainer in HD. unfold hand.
  destruct (dp s) eqn:Hd; try reflexivity; exfalso.
  - destruct (lock_free s) eqn:Hfree; [discriminate HD|].
    destruct (lock_busy_moves accepts size s il Hfree) as (t & s' & E). rewrite (Q t) in E. discriminate.
  - destruct (accepts (log s) x); discriminate HD.
  - discriminate HD.
  - discriminate HD.
Qed.

Lemma c10_buffered_oracle_sound : (forall l x, accepts l x = true) ->
  forall progs sched1 s1 s2 sched2 s,
  buf_progs progs ->
  run (init progs) sched1 = Some s1 -> step s1 Cancel = Some s2 -> run s2 sched2 = Some s ->
  quiescent s ->
  c10_ok_buffered (obs_adds (backed (ghist s1)) (ghist s)) (log s) 0 = true.
Proof.
  intros always progs sched1 s1 s2 sched2 s BP R1 C R2 Q.
  assert (R : run (init progs) (sched1 ++ Cancel :: sched2) = Some s).
  { clear - R1 C R2. revert R1. generalize (init progs). induction sched1 as [|t r IH]; intros s0 R1; cbn [app SysBuffered.run] in *.
    - inversion R1; subst. rewrite C. exact R2.
    - destruct (SysBuffered.step accepts size s0 t); [|discriminate]. apply IH. exact R1. }
  pose proof (quiescent_finished _ _ _ R Q) as Hf.
  assert (Hev : forall e, In e (ghist s) -> exists v, eo e = OBAdd v).
  { intros e Hin. pose proof (events_from_progs _ _ _ _ R Hin) as Hp.
    destruct (BP (eg e)) as (vs & Evs & _). rewrite Evs in Hp. apply in_map_iff in Hp.
    destruct Hp as (v & Ev & _). exists v. symmetry. exact Ev. }
  destruct (obs_adds_buf (backed (ghist s1)) (ghist s) Hev) as [Hnil Ha].
  destruct (conservation accepts size _ _ _ R) as (_ & C1 & C2 & C3 & _).
  pose proof (quiescent_hand _ _ _ R Q) as Hh. rewrite Hh in C1. cbn [app] in C1.
  assert (Hho : hand_ok s = []).
  { unfold hand_ok. unfold hand in Hh. destruct (dp s); try reflexivity; discriminate Hh. }
  rewrite Hho, app_nil_r in C2.
  rewrite (no_reject_catcher_empty accepts size always _ _ _ R) in C3. symmetry in C3.
  rewrite (rejs_nil_oks _ C3) in C2.
  destruct (linearizable accepts size _ _ _ R) as (_ & _ & Lc & _).
  rewrite Ha, (finished_inflight s Hf) in Lc. cbn [app] in Lc. apply map_nil_inv in Lc.
  assert (Hlog : log s = map fst (drained s)).
  { unfold log. rewrite <- C2. f_equal. symmetry. unfold is_drainer. apply filter_compl_nil. exact Lc. }
  assert (Hinc : inc_per_producer (backed (ghist s))).
  { intros g. rewrite backed_hist_of. destruct (BP g) as (vs & Evs & Svs).
    apply (backed_sorted _ vs); [|exact Svs]. rewrite (finished_hist _ _ _ g R (Hf g)). exact Evs. }
  assert (HB : backed (ghist s) = log s ++ pipe s) by (rewrite Hlog; exact C1).
  pose proof (inc_nodup _ Hinc) as NDB.
  assert (NDL : NoDup (log s)) by (rewrite HB in NDB; exact (nodup_app_l _ _ NDB)).
  unfold c10_ok_buffered. rewrite Hnil. cbn [Nat.eqb andb].
  apply andb_true_iff. split; [apply andb_true_iff; split|].
  - apply forallb_forall. intros x Hx. rewrite (count_nodup x _ NDL Hx).
    rewrite (count_nodup x _ NDB); [reflexivity|]. rewrite HB. apply in_or_app. left. exact Hx.
  - apply forallb_forall. intros a Ha'. destruct (a_nil a && a_pre a) eqn:E; cbn [negb orb]; [|reflexivity].
    apply andb_true_iff in E. destruct E as [_ Epre].
    unfold obs_adds in Ha'. apply in_flat_map in Ha'. destruct Ha' as (e & He & Hin).
    destruct (Hev e He) as [v Ev]. rewrite Ev in Hin. destruct Hin as [<-|[]]. cbn [a_p a_s a_pre] in *.
    apply existsb_exists in Epre. destruct Epre as (y & Hy & Ey). apply ts_eqb_eq in Ey. subst y.
    pose proof (delivery_no_reject accepts size always _ _ _ _ _ _ R1 C R2 Q _ Hy) as Hd.
    rewrite (count_nodup _ _ NDL); [reflexivity|]. unfold log. apply in_map_iff. exists (Drainer, (eg e, v)). split; [reflexivity | exact Hd].
  - apply inc_order_ok. apply (inc_app_l _ (pipe s)). rewrite <- HB. exact Hinc.
Qed.

End Sound.

(* ------------------------------------------------------------------ catcher *)
Lemma nonnil_fst : forall g l x, In x (nonnil g l) -> fst x = g.
Proof.
  intros g l x H. unfold nonnil in H. apply in_flat_map in H. destruct H as (o & _ & Hin).
  destruct o as [[e|]|]; cbn in Hin; try contradiction. destruct Hin as [<-|[]]. reflexivity.
Qed.

Lemma filter_all : forall {A} (p : A -> bool) l, (forall x, In x l -> p x = true) -> filter p l = l.
Proof.
  intros A p. induction l as [|x l IH]; intros H; [reflexivity|]. cbn [filter].
  rewrite (H x (or_introl eq_refl)), IH; [reflexivity|]. intros y Hy. apply H. right. exact Hy.
Qed.

Lemma filter_none : forall {A} (p : A -> bool) l, (forall x, In x l -> p x = false) -> filter p l = [].
Proof.
  intros A p. induction l as [|x l IH]; intros H; [reflexivity|]. cbn [filter].
  rewrite (H x (or_introl eq_refl)). apply IH. intros y Hy. apply H. right. exact Hy.
Qed.

Lemma filter_owner_flat0 : forall (f : nat -> list (nat * nat)) a G,
  (forall g x, In x (f g) -> fst x = g) ->
  filter (fun y => fst y =? a) (flat_map f (seq 0 G)) = if a <? G then f a else [].
Proof.
  intros f a G Hown. induction G as [|G IH]; [reflexivity|].
  rewrite seq_S, flat_map_app, filter_app, IH. cbn [plus flat_map]. rewrite app_nil_r.
  destruct (Nat.eq_dec a G) as [->|Hne].
  - rewrite (filter_all _ (f G)); [|intros x Hx; apply Nat.eqb_eq; exact (Hown G x Hx)].
    rewrite Nat.ltb_irrefl. replace (G <? S G) with true by (symmetry; apply Nat.ltb_lt; lia). reflexivity.
  - assert (E : filter (fun y => fst y =? a) (f G) = []).
    { apply filter_none. intros x Hx. rewrite (Hown G x Hx). apply Nat.eqb_neq. lia. }
    rewrite E, app_nil_r.
    destruct (a <? G) eqn:L.
    + apply Nat.ltb_lt in L. replace (a <? S G) with true by (symmetry; apply Nat.ltb_lt; lia). reflexivity.
    + apply Nat.ltb_ge in L. replace (a <? S G) with false by (symmetry; apply Nat.ltb_ge; lia). reflexivity.
Qed.

Lemma filter_owner_flat : forall (f : nat -> list (nat * nat)) a G,
  (forall g x, In x (f g) -> fst x = g) -> (forall g, G <= g -> f g = []) ->
  filter (fun y => fst y =? a) (flat_map f (seq 0 G)) = f a.
Proof.
  intros f a G Hown Hout. rewrite (filter_owner_flat0 f a G Hown).
  destruct (a <? G) eqn:L; [reflexivity|]. apply Nat.ltb_ge in L. symmetry. apply Hout. exact L.
Qed.

Lemma length_flat_sumto : forall {A} (f : nat -> list A) G,
  length (flat_map f (seq 0 G)) = sumto G (fun g => length (f g)).
Proof.
  intros A f. induction G as [|G IH]; [reflexivity|].
  rewrite seq_S, flat_map_app, app_length, IH. cbn [plus flat_map sumto]. rewrite app_nil_r. reflexivity.
Qed.

Lemma c10_catcher_oracle_sound : forall progs sched s,
  krun (kinit progs) sched = Some s -> (forall g, kprog s g = []) ->
  c10_ok_catcher (cat_expected progs) (kerrs s) (length (kerrs s))
                 (negb (length (kerrs s) =? 0)) (negb (length (kerrs s) =? 0)) = true.
Proof.
  intros progs sched s R Hf. destruct (catcher_final progs sched s R Hf) as [Hg Hlen].
  assert (Hout : forall g, length progs <= g -> nonnil g (nth g progs []) = []).
  { intros g L. rewrite (nth_overflow progs [] L). reflexivity. }
  assert (Hcnt : forall x, count x (cat_expected progs) = count x (kerrs s)).
  { intros x. rewrite (count_filter_fst x (cat_expected progs)), (count_filter_fst x (kerrs s)).
    unfold cat_expected.
    transitivity (count x (nonnil (fst x) (nth (fst x) progs []))).
    - f_equal. apply (filter_owner_flat (fun g => nonnil g (nth g progs [])) (fst x) (length progs)
                        (fun g y => nonnil_fst g _ y) Hout).
    - f_equal. symmetry. apply Hg. }
  assert (Hl : length (kerrs s) = length (cat_expected progs)).
  { unfold cat_expected. rewrite length_flat_sumto. exact Hlen. }
  unfold c10_ok_catcher. rewrite (same_multiset_count _ _ Hcnt). cbv delta [tsample sample]. rewrite <- Hl, Nat.eqb_refl, !eqb_reflx. reflexivity.
Qed.
