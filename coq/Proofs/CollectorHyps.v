(* TEMPORARY during development: moves to the end of Model/CollectorOk.v *)
From Coq Require Import ZArith NArith List Bool.
From FV.Model Require Import Bytes Bson Metrics Codec Collector Wf RoundTrip CollectorOk.
Import ListNotations.
Open Scope Z_scope.

Section Hyps.

(* the collectors that compare schema signatures (bson_hash.go) *)
Definition sig_aware (k : kind) : bool := match k with KDyn | KSDyn => true | _ => false end.

(* a sample document the format can carry: representable keys and values, below
   BSON's 2 GiB limit, metric count within the uint32 field, and not in the class
   of the known finding D1 (timestamp seconds) *)
Definition doc_wf (d : doc) : Prop :=
  doc_ok d = true /\ doc_leaves_ok d = true /\ small (enc_doc d) /\ doc_has_ts_seconds d = false /\
  (N.of_nat (length (flatten_doc d)) < 2 ^ 32)%N.

(* two documents the collector cannot tell apart really have one schema: the
   fixed-schema collectors compare metric count and metric types only, the
   schema-aware ones additionally the signature *)
Definition distinguishable (k : kind) (D : doc -> Prop) : Prop :=
  forall a b, D a -> D b -> map fst (flatten_doc a) = map fst (flatten_doc b) ->
    (sig_aware k = true -> schema_sig a = schema_sig b) -> skeleton_doc a = skeleton_doc b.

Definition added (ops : list op) (d : doc) : Prop := exists now, In (OAdd d now) ops.

Definition ops_ok (k : kind) (ops : list op) : Prop :=
  (forall d, added ops d -> doc_wf d) /\ distinguishable k (added ops).

(* what a collector and its writer hold, as the reader sees it: the samples
   decodable from the writer followed by those decodable from Resolve *)
Definition c07_contents (deflate : bytes -> bytes) (inflate : bytes -> option bytes) (st : coll * writer)
  : option (list doc) :=
  match decode_ftdc inflate None (emitted (snd st)), decode_out inflate None (c_resolve deflate (fst st)) with
  | Some a, Some b => Some (dc_docs a ++ dc_docs b)
  | _, _ => None
  end.

(* the state reached by a history on a fresh collector and a fault-free writer *)
Definition reach (deflate : bytes -> bytes) (k : kind) (n : Z) (ops : list op) : coll * writer :=
  fst (run deflate (new_coll k n, mkWriter [] [] false) ops).

(* C08: what the schema-aware collectors compare between consecutive documents:
   the dynamic collector the key string only, the streaming dynamic collector the
   key string and the metric count *)
Definition same_sig (k : kind) (a b : doc) : Prop :=
  match k with
  | KDyn => fst (schema_sig a) = fst (schema_sig b)
  | _ => schema_sig a = schema_sig b
  end.

(* no change of value types alone: documents the collector takes for one schema
   have the same metric types *)
Definition no_type_only_change (k : kind) (docs : list doc) : Prop :=
  forall a b, In a docs -> In b docs -> same_sig k a b -> map fst (flatten_doc a) = map fst (flatten_doc b).

Definition docs_ok (k : kind) (docs : list doc) : Prop :=
  Forall doc_wf docs /\ distinguishable k (fun d => In d docs) /\ no_type_only_change k docs.

(* C08, no mixing: a base collector (one chunk) whose reference document is r
   holds only rows of r's metric count, and its last sample has r's metric types *)
Definition bc_unmixed (b : bcoll) : Prop :=
  match bc_ref b with
  | None => True
  | Some r => map fst (bc_last b) = map fst (flatten_doc r) /\
              Forall (fun row : list Z => length row = length (flatten_doc r)) (bc_rows b)
  end.

(* every chunk under construction inside a collector *)
Definition bcolls_of (c : coll) : list bcoll :=
  match c with
  | CBase b => [b]
  | CBatch b => ba_chunks b
  | CDyn x => flat_map ba_chunks (dy_chunks x)
  | CStream s => match sc_inner s with IB b => [b] | IU _ => [] end
  | CSDyn s => match sc_inner (sd_s s) with IB b => [b] | IU _ => [] end
  | CUnc _ => []
  end.

Definition unmixed (c : coll) : Prop := Forall bc_unmixed (bcolls_of c).

End Hyps.
